(* Bookkeeping for the assembly: how every keyword step changes the deviation
   list and the struct / list under construction. *)
From Verif Require Import Schema.Json Schema.Sem Schema.Encode Schema.Proofs Schema.Invariant Schema.Steps1
     Schema.Steps2 Schema.Steps3 Schema.ObjSem.
From Coq Require Import List NArith ZArith Bool Lia.
Import ListNotations.

(* the struct and the list literal under construction *)
Definition shape (s : state) := (st_obj s, st_prefix s, st_rest s).

Lemma shape_sem_eq : forall a b, sem_eq a b -> shape a = shape b.
Proof. intros a b (_ & _ & _ & _ & e & f & g). unfold shape. congruence. Qed.

Lemma shape_upd : forall st A K e, shape (upd st A K e) = shape st.
Proof. intros. unfold shape, upd, add_all. destruct (is_top e); reflexivity. Qed.

Lemma shape_add_all : forall st e, shape (add_all st e) = shape st.
Proof. intros. unfold shape, add_all. destruct (is_top e); reflexivity. Qed.

Lemma shape_opt_step : forall {X} (f : X -> state -> state) o st,
  (forall x s, shape (f x s) = shape s) -> shape (opt_step f o st) = shape st.
Proof. intros X f [x|] st H; simpl; auto. Qed.

Section Track.
  Variable re : pat -> str -> bool.

  (* ---------- phase 1 ---------- *)
  Lemma dev_step_type : forall tys s, st_dev (step_type tys s) = st_dev s.
  Proof. intros tys s. unfold step_type. destruct (int_only tys); reflexivity. Qed.
  Lemma shape_step_type : forall tys s, shape (step_type tys s) = shape s.
  Proof. intros tys s. unfold step_type. destruct (int_only tys); reflexivity. Qed.

  Lemma dev_step_enum : forall vs s, st_dev (step_enum vs s) = st_dev s.
  Proof. intros. unfold step_enum. destruct (filter _ vs); simpl; auto. Qed.
  Lemma shape_step_enum : forall vs s, shape (step_enum vs s) = shape s.
  Proof. intros. rewrite step_enum_eq. apply shape_upd. Qed.
  Lemma dev_step_const : forall c s, st_dev (step_const c s) = st_dev s.
  Proof. intros. reflexivity. Qed.
  Lemma shape_step_const : forall c s, shape (step_const c s) = shape s.
  Proof. intros. reflexivity. Qed.
  Lemma dev_step_multipleOf : forall k s, st_dev (step_multipleOf k s) = st_dev s.
  Proof. intros. unfold step_multipleOf. destruct (Z.leb k 0); reflexivity. Qed.
  Lemma shape_step_multipleOf : forall k s, shape (step_multipleOf k s) = shape s.
  Proof. intros. unfold step_multipleOf. destruct (Z.leb k 0); reflexivity. Qed.

  Lemma dev_phase1 : forall a s, st_dev (phase1 re a s) = st_dev s.
  Proof.
    intros a s. unfold phase1.
    rewrite dev_opt_step by (intros [] s0; reflexivity).
    do 9 (rewrite dev_opt_step by (intros; reflexivity)).
    rewrite dev_opt_step by apply dev_step_multipleOf.
    rewrite dev_opt_step by apply dev_step_const.
    rewrite dev_opt_step by apply dev_step_enum.
    destruct (a_type a); simpl; [apply dev_step_type | reflexivity].
  Qed.

  Lemma shape_phase1 : forall a s, shape (phase1 re a s) = shape s.
  Proof.
    intros a s. unfold phase1.
    rewrite shape_opt_step by (intros [] s0; reflexivity).
    do 9 (rewrite shape_opt_step by (intros; reflexivity)).
    rewrite shape_opt_step by apply shape_step_multipleOf.
    rewrite shape_opt_step by apply shape_step_const.
    rewrite shape_opt_step by apply shape_step_enum.
    apply shape_opt_step. apply shape_step_type.
  Qed.

  (* ---------- phase 2 .. 4 ---------- *)
  Lemma dev_step_ref : forall r s, st_dev (step_ref r s) = st_dev s ++ r_dev r.
  Proof. intros. unfold step_ref. cbn [st_dev]. destruct (eager (r_e r)); cbn [st_dev set_poison]; apply dev_absorb. Qed.
  Lemma shape_step_ref : forall r s, shape (step_ref r s) = shape s.
  Proof.
    intros. unfold step_ref.
    set (s1 := if eager (r_e r) then set_poison (absorb r s) else absorb r s).
    assert (E : sem_eq s s1).
    { unfold s1. destruct (eager (r_e r)); [eapply sem_eq_trans; [apply sem_eq_absorb | apply sem_eq_set_poison] | apply sem_eq_absorb]. }
    unfold shape. cbn [st_obj st_prefix st_rest]. destruct E as (_ & _ & _ & _ & e & f & g). congruence.
  Qed.

  Lemma dev_step_not : forall r s, st_dev (step_not r s) = st_dev s ++ r_dev r.
  Proof. intros. unfold step_not, add_all. simpl. apply dev_absorb. Qed.
  Lemma shape_step_not : forall r s, shape (step_not r s) = shape s.
  Proof. intros. unfold step_not. rewrite shape_add_all. apply eq_sym, shape_sem_eq, sem_eq_absorb. Qed.

  Lemma shape_step_allOf : forall n rs A' s, shape (step_allOf n rs A' s) = shape s.
  Proof. intros. rewrite <- (shape_sem_eq _ _ (step_allOf_eq n rs A' s)). apply shape_upd. Qed.
  Lemma shape_step_anyOf : forall n rs s, shape (step_anyOf n rs s) = shape s.
  Proof. intros. rewrite <- (shape_sem_eq _ _ (step_anyOf_eq n rs s)). apply shape_upd. Qed.
  Lemma shape_step_oneOf : forall n rs s, shape (step_oneOf n rs s) = shape s.
  Proof. intros. rewrite <- (shape_sem_eq _ _ (step_oneOf_eq n rs s)). apply shape_upd. Qed.

  Lemma the_obj_flags : forall a b, sem_eq a b -> the_obj a = the_obj b.
  Proof. intros a b (_ & _ & _ & _ & e & _). unfold the_obj. rewrite e. reflexivity. Qed.

  Definition fields_of (l : list (str * result)) : list field := map (fun kr => mkF (fst kr) false (r_e (snd kr))) l.
  Definition pats_of (l : list (pat * result)) : list (pat * expr) := map (fun pr => (fst pr, r_e (snd pr))) l.

  Lemma dev_step_props : forall l s,
    st_dev (step_props l s) = st_dev s ++ flat_map r_dev (map snd l) ++
                              (if negb (nodup_str (map fst l)) then [DEV_duplicate_property] else []).
  Proof. intros. unfold step_props. simpl. rewrite dev_dev_if, dev_absorb_all, <- app_assoc. reflexivity. Qed.
  Lemma shape_step_props : forall l s,
    shape (step_props l s) =
    (Some (mkO (ob_fields (the_obj s) ++ fields_of l) (ob_pats (the_obj s)) (ob_addl (the_obj s)) (ob_open (the_obj s))),
     st_prefix s, st_rest s).
  Proof.
    intros. unfold step_props.
    set (s1 := dev_if _ DEV_duplicate_property (absorb_all (map snd l) s)).
    assert (E : sem_eq s s1) by (eapply sem_eq_trans; [apply sem_eq_absorb_all | apply sem_eq_dev_if]).
    unfold shape. simpl. rewrite <- (the_obj_flags _ _ E).
    destruct E as (_ & _ & _ & _ & _ & f & g). rewrite f, g. reflexivity.
  Qed.

  Lemma dev_step_pprops : forall l s, st_dev (step_pprops l s) = st_dev s ++ flat_map r_dev (map snd l).
  Proof. intros. unfold step_pprops. simpl. rewrite dev_absorb_all. reflexivity. Qed.
  Lemma shape_step_pprops : forall l s,
    shape (step_pprops l s) =
    (Some (mkO (ob_fields (the_obj s)) (ob_pats (the_obj s) ++ pats_of l) (ob_addl (the_obj s)) (ob_open (the_obj s))),
     st_prefix s, st_rest s).
  Proof.
    intros. unfold step_pprops.
    assert (E : sem_eq s (absorb_all (map snd l) s)) by apply sem_eq_absorb_all.
    unfold shape. simpl. rewrite <- (the_obj_flags _ _ E).
    destruct E as (_ & _ & _ & _ & _ & f & g). rewrite f, g. reflexivity.
  Qed.

  Lemma dev_step_pnames : forall r s,
    st_dev (step_pnames r s) = st_dev s ++ r_dev r ++ (if negb (is_top (r_e r)) then [DEV_propertyNames] else []).
  Proof.
    intros. unfold step_pnames.
    assert (D : st_dev (dev_if (negb (is_top (r_e r))) DEV_propertyNames (absorb r s)) =
                st_dev s ++ r_dev r ++ (if negb (is_top (r_e r)) then [DEV_propertyNames] else []))
      by (rewrite dev_dev_if, dev_absorb, <- app_assoc; reflexivity).
    destruct (is_top (r_e r)); [exact D|]. destruct (is_err (r_e r)); exact D.
  Qed.
  Lemma shape_step_pnames : forall r s, shape (step_pnames r s) = shape s.
  Proof.
    intros. unfold step_pnames.
    assert (E : shape (dev_if (negb (is_top (r_e r))) DEV_propertyNames (absorb r s)) = shape s).
    { apply eq_sym, shape_sem_eq. eapply sem_eq_trans; [apply sem_eq_absorb | apply sem_eq_dev_if]. }
    destruct (is_top (r_e r)); [exact E|]. destruct (is_err (r_e r)); exact E.
  Qed.

  Lemma dev_step_prefix : forall rs s,
    st_dev (step_prefix rs s) = st_dev s ++ flat_map r_dev rs ++
                                (if match rs with [] => false | _ => true end then [DEV_prefixItems] else []).
  Proof. intros. unfold step_prefix. simpl. rewrite dev_dev_if, dev_absorb_all, <- app_assoc. reflexivity. Qed.
  Lemma shape_step_prefix : forall rs s, shape (step_prefix rs s) = (st_obj s, Some (map r_e rs), RAny).
  Proof.
    intros. unfold step_prefix.
    set (s1 := dev_if _ DEV_prefixItems (absorb_all rs s)).
    assert (E : sem_eq s s1) by (eapply sem_eq_trans; [apply sem_eq_absorb_all | apply sem_eq_dev_if]).
    unfold shape. simpl. destruct E as (_ & _ & _ & _ & e & _). rewrite e. reflexivity.
  Qed.

  Lemma dev_step_contains : forall lo hi r s,
    st_dev (step_contains lo hi r s) = st_dev s ++ r_dev r ++ (if is_err (r_e r) then [DEV_error_argument] else []).
  Proof. intros. unfold step_contains. simpl. rewrite dev_dev_if, dev_absorb, <- app_assoc. reflexivity. Qed.
  Lemma shape_step_contains : forall lo hi r s, shape (step_contains lo hi r s) = shape s.
  Proof.
    intros. unfold step_contains. unfold shape. simpl.
    assert (E : sem_eq s (dev_if (is_err (r_e r)) DEV_error_argument (absorb r s)))
      by (eapply sem_eq_trans; [apply sem_eq_absorb | apply sem_eq_dev_if]).
    destruct E as (_ & _ & _ & _ & e & f & g). congruence.
  Qed.

  Lemma dev_phase2_bounds : forall a s, st_dev (phase2_bounds a s) = st_dev s.
  Proof. intros. unfold phase2_bounds. rewrite !dev_opt_step; auto. Qed.
  Lemma shape_phase2_bounds : forall a s, shape (phase2_bounds a s) = shape s.
  Proof. intros. unfold phase2_bounds. rewrite !shape_opt_step; auto. Qed.

  Lemma shape_step_addl_bool : forall b s,
    shape (step_addl_bool b s) =
    (Some (mkO (ob_fields (the_obj s)) (ob_pats (the_obj s)) (ob_addl (the_obj s))
               (if b then ExplicitlyOpen else ExplicitlyClosed)), st_prefix s, st_rest s).
  Proof. intros. reflexivity. Qed.

  Lemma dev_step_addl_schema : forall r s, st_dev (step_addl_schema r s) = st_dev s ++ r_dev r.
  Proof.
    intros. unfold step_addl_schema.
    destruct (ob_no_elts (the_obj (absorb r s))); cbn [st_dev set_obj]; apply dev_absorb.
  Qed.
  Lemma shape_step_addl_schema : forall r s,
    shape (step_addl_schema r s) =
    (Some (mkO (ob_fields (the_obj s)) (ob_pats (the_obj s))
               (Some (if ob_no_elts (the_obj s) then AddlAll (r_e r)
                      else AddlExcept (map fst (ob_pats (the_obj s))) (map f_name (ob_fields (the_obj s))) (r_e r)))
               AllFieldsCovered), st_prefix s, st_rest s).
  Proof.
    intros. unfold step_addl_schema.
    pose proof (sem_eq_absorb r s) as E0.
    rewrite <- (the_obj_flags _ _ E0).
    destruct E0 as (_ & _ & _ & _ & _ & f & g).
    destruct (ob_no_elts (the_obj s)); unfold shape; simpl; rewrite f, g; reflexivity.
  Qed.

  Lemma dev_step_items : forall r s, st_dev (step_items r s) = st_dev s ++ r_dev r.
  Proof.
    intros. unfold step_items.
    destruct (st_prefix (absorb r s)); [destruct (is_err (r_e r)); [|destruct (is_top (r_e r))]|]; simpl; apply dev_absorb.
  Qed.
  Lemma shape_step_items : forall r s,
    shape (step_items r s) =
    (st_obj s, st_prefix s,
     match st_prefix s with
     | Some _ => if is_err (r_e r) then RNone else if is_top (r_e r) then st_rest s else RType (r_e r)
     | None => st_rest s
     end).
  Proof.
    intros. unfold step_items.
    set (s1 := absorb r s).
    assert (E : sem_eq s s1) by apply sem_eq_absorb.
    destruct E as (_ & _ & _ & _ & e & f & g). rewrite <- f.
    destruct (st_prefix s) eqn:Ep; [destruct (is_err (r_e r)); [|destruct (is_top (r_e r))]|];
      unfold shape; cbn [st_obj st_prefix st_rest set_list add_C]; rewrite <- ?e, <- ?f, <- ?g, ?Ep; reflexivity.
  Qed.

  Definition req_dev_cond (req : list str) (o : objb) : bool :=
    match ob_open o with
    | ExplicitlyClosed => existsb (fun k => negb (existsb (fun f => str_eqb k (f_name f)) (ob_fields o))) req
    | _ => false
    end.
  Lemma dev_step_required : forall req s,
    st_dev (step_required req s) = st_dev s ++ (if req_dev_cond req (the_obj s) then [DEV_required_closed] else []).
  Proof.
    intros. unfold step_required.
    set (s0 := if nodup_str req then s else set_bad s).
    assert (E0 : the_obj s0 = the_obj s) by (unfold s0; destruct (nodup_str req); reflexivity).
    assert (D0 : st_dev s0 = st_dev s) by (unfold s0; destruct (nodup_str req); reflexivity).
    simpl. rewrite dev_dev_if, D0, E0. reflexivity.
  Qed.
  Lemma shape_step_required : forall req s,
    shape (step_required req s) =
    (Some (mkO (req_fold req (ob_fields (the_obj s))) (ob_pats (the_obj s)) (ob_addl (the_obj s)) (ob_open (the_obj s))),
     st_prefix s, st_rest s).
  Proof.
    intros. unfold shape. rewrite step_required_obj. unfold step_required.
    set (s0 := if nodup_str req then s else set_bad s).
    assert (E : st_prefix s0 = st_prefix s /\ st_rest s0 = st_rest s) by (unfold s0; destruct (nodup_str req); split; reflexivity).
    destruct E as [E1 E2].
    match goal with |- context[dev_if ?c ?d s0] => destruct c end; cbn [st_prefix st_rest set_obj dev_if add_dev];
      rewrite E1, E2; reflexivity.
  Qed.

  Lemma dev_step_ite_nil : forall i t e s, st_dev (step_ite i t e s) = [] -> st_dev s = [].
  Proof.
    intros i t e s. unfold step_ite.
    destruct i as [si|]; auto.
    assert (X : forall c sfl ex, st_dev (add_all (dev_if c DEV_error_argument sfl) ex) = [] -> st_dev sfl = []).
    { intros c sfl ex Hx. unfold add_all in Hx. destruct (is_top ex); rewrite dev_dev_if in Hx;
        apply app_eq_nil in Hx; tauto. }
    destruct t as [st'|]; destruct e as [se|]; auto; intros Hx; apply X in Hx;
      rewrite ?dev_absorb in Hx; repeat (apply app_eq_nil in Hx; destruct Hx as [Hx _]); exact Hx.
  Qed.
  Lemma shape_step_ite : forall i t e s, shape (step_ite i t e s) = shape s.
  Proof.
    intros i t e s. unfold step_ite.
    destruct i as [si|]; auto.
    destruct t as [st'|]; destruct e as [se|]; auto; rewrite shape_add_all; apply eq_sym, shape_sem_eq;
      (eapply sem_eq_trans; [|apply sem_eq_dev_if]);
      repeat (eapply sem_eq_trans; [|apply sem_eq_absorb]); apply sem_eq_refl.
  Qed.

End Track.
