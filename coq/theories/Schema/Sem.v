(* JSON Schema 2020-12: abstract syntax of the keyword subset and the validity
   predicate [valid], written directly from the specification
   (json-schema-core 10.2/10.3, json-schema-validation 6.1-6.5), by structural
   recursion on the schema.

   Regular expressions are an oracle: [re p s] says whether pattern number [p]
   matches (unanchored search) the string [s].  It is a Section variable; every
   definition and theorem is parametric in it.  The harness instantiates it per
   case with verdicts computed by Go's regexp package.

   $ref into $defs: the harness inlines the (acyclic) referenced schema, the
   AST keeps it in [ap_ref]. *)
From Coq Require Import List ZArith NArith Bool Lia.
From Verif Require Import Schema.Json.
Import ListNotations.

Definition pat := N.

Inductive tyname := TyNull | TyBoolean | TyInteger | TyNumber | TyString | TyArray | TyObject.

(* assertion keywords without subschemas.  Numeric bounds are in halves like
   [JNum]; multipleOf is an integer (not halved). *)
Record assertions : Type := mkA {
  a_type : option (list tyname);
  a_enum : option (list json);
  a_const : option json;
  a_multipleOf : option Z;
  a_xmax : option Z;
  a_xmin : option Z;
  a_maxLength : option N;
  a_minLength : option N;
  a_pattern : option pat;
  a_maxProps : option N;
  a_minProps : option N;
  a_maxItems : option N;
  a_minItems : option N;
  a_unique : option bool;
  a_maxContains : option N;
  a_minContains : option N;
  a_max : option Z;
  a_min : option Z;
  a_required : option (list str)
}.

(* applicator keywords, parametric in the type of subschemas *)
Record applic (S : Type) : Type := mkP {
  ap_ref : option S;
  ap_allOf : option (list S);
  ap_anyOf : option (list S);
  ap_oneOf : option (list S);
  ap_not : option S;
  ap_if : option S;
  ap_then : option S;
  ap_else : option S;
  ap_props : option (list (str * S));
  ap_pprops : option (list (pat * S));
  ap_pnames : option S;
  ap_prefix : option (list S);
  ap_contains : option S;
  ap_addl : option S;
  ap_items : option S
}.
Arguments mkP {S}.
Arguments ap_ref {S}. Arguments ap_allOf {S}. Arguments ap_anyOf {S}. Arguments ap_oneOf {S}.
Arguments ap_not {S}. Arguments ap_if {S}. Arguments ap_then {S}. Arguments ap_else {S}.
Arguments ap_props {S}. Arguments ap_pprops {S}. Arguments ap_pnames {S}. Arguments ap_prefix {S}.
Arguments ap_contains {S}. Arguments ap_addl {S}. Arguments ap_items {S}.

Inductive schema : Type :=
| SBool (b : bool)
| SObj (a : assertions) (p : applic schema).

Definition no_assertions : assertions :=
  mkA None None None None None None None None None None None None None None None None None None None.
Definition no_applic {S} : applic S :=
  mkP None None None None None None None None None None None None None None None.

(* ---------- helpers ---------- *)
Definition optb {A} (f : A -> bool) (o : option A) : bool :=
  match o with Some x => f x | None => true end.

Definition count {A} (f : A -> bool) (l : list A) : nat := length (filter f l).

Definition N_len {A} (l : list A) : N := N.of_nat (length l).

Definition ty_matches (j : json) (t : tyname) : bool :=
  match t, j with
  | TyNull, JNull => true
  | TyBoolean, JBool _ => true
  | TyInteger, JNum h => is_int h
  | TyNumber, JNum _ => true
  | TyString, JStr _ => true
  | TyArray, JArr _ => true
  | TyObject, JObj _ => true
  | _, _ => false
  end.

Definition on_num (f : Z -> bool) (j : json) : bool := match j with JNum h => f h | _ => true end.
Definition on_str (f : str -> bool) (j : json) : bool := match j with JStr s => f s | _ => true end.
Definition on_arr (f : list json -> bool) (j : json) : bool := match j with JArr l => f l | _ => true end.
Definition on_obj (f : list (str * json) -> bool) (j : json) : bool := match j with JObj m => f m | _ => true end.

Fixpoint unique_items (l : list json) : bool :=
  match l with
  | [] => true
  | x :: r => negb (existsb (json_eqb x) r) && unique_items r
  end.

Definition multiple_of (k h : Z) : bool := Z.eqb (h mod (2 * k)) 0.

Section Sem.
  Variable re : pat -> str -> bool.

  Definition valid_assertions (a : assertions) (j : json) : bool :=
    optb (fun tys => existsb (ty_matches j) tys) (a_type a) &&
    optb (fun vs => existsb (json_eqb j) vs) (a_enum a) &&
    optb (fun c => json_eqb j c) (a_const a) &&
    optb (fun k => on_num (multiple_of k) j) (a_multipleOf a) &&
    optb (fun b => on_num (fun h => Z.ltb h b) j) (a_xmax a) &&
    optb (fun b => on_num (fun h => Z.ltb b h) j) (a_xmin a) &&
    optb (fun n => on_str (fun s => N.leb (N_len s) n) j) (a_maxLength a) &&
    optb (fun n => on_str (fun s => N.leb n (N_len s)) j) (a_minLength a) &&
    optb (fun p => on_str (re p) j) (a_pattern a) &&
    optb (fun n => on_obj (fun m => N.leb (N_len m) n) j) (a_maxProps a) &&
    optb (fun n => on_obj (fun m => N.leb n (N_len m)) j) (a_minProps a) &&
    optb (fun n => on_arr (fun l => N.leb (N_len l) n) j) (a_maxItems a) &&
    optb (fun n => on_arr (fun l => N.leb n (N_len l)) j) (a_minItems a) &&
    optb (fun u : bool => if u then on_arr unique_items j else true) (a_unique a) &&
    optb (fun b => on_num (fun h => Z.leb h b) j) (a_max a) &&
    optb (fun b => on_num (fun h => Z.leb b h) j) (a_min a) &&
    optb (fun req => on_obj (fun m => forallb (fun k => has_key k m) req) j) (a_required a).

  (* a property name is "additional" when it is not listed in properties and
     matches no patternProperties regexp (json-schema-core 10.3.2.3) *)
  Definition is_additional {S} (props : option (list (str * S))) (pprops : option (list (pat * S))) (k : str) : bool :=
    negb (match props with Some l => has_key k l | None => false end) &&
    negb (match pprops with Some l => existsb (fun ps => re (fst ps) k) l | None => false end).

  Definition in_range (n : nat) (lo : N) (hi : option N) : bool :=
    N.leb lo (N.of_nat n) && optb (fun h => N.leb (N.of_nat n) h) hi.

  (* the applicator keywords, parametric in the validity of subschemas *)
  Section Pieces.
    Variable V : schema -> json -> bool.
    Definition v_ref (p : applic schema) j := optb (fun s' => V s' j) (ap_ref p).
    Definition v_allOf (p : applic schema) j := optb (fun l => forallb (fun s' => V s' j) l) (ap_allOf p).
    Definition v_anyOf (p : applic schema) j := optb (fun l => existsb (fun s' => V s' j) l) (ap_anyOf p).
    Definition v_oneOf (p : applic schema) j := optb (fun l => Nat.eqb (count (fun s' => V s' j) l) 1) (ap_oneOf p).
    Definition v_not (p : applic schema) j := optb (fun s' => negb (V s' j)) (ap_not p).
    Definition v_ite (p : applic schema) j :=
      match ap_if p with
      | Some i => if V i j then optb (fun s' => V s' j) (ap_then p) else optb (fun s' => V s' j) (ap_else p)
      | None => true
      end.
    Definition v_props (p : applic schema) j :=
      optb (fun l => on_obj (fun m =>
              forallb (fun kv => forallb (fun ks => negb (str_eqb (fst kv) (fst ks)) || V (snd ks) (snd kv)) l) m) j)
           (ap_props p).
    Definition v_pprops (p : applic schema) j :=
      optb (fun l => on_obj (fun m =>
              forallb (fun kv => forallb (fun ps => negb (re (fst ps) (fst kv)) || V (snd ps) (snd kv)) l) m) j)
           (ap_pprops p).
    Definition v_pnames (p : applic schema) j :=
      optb (fun s' => on_obj (fun m => forallb (fun kv => V s' (JStr (fst kv))) m) j) (ap_pnames p).
    Fixpoint prefix_ok (l : list schema) (vs : list json) : bool :=
      match l, vs with
      | s' :: l', v :: vs' => V s' v && prefix_ok l' vs'
      | _, _ => true
      end.
    Definition v_prefix (p : applic schema) j := optb (fun l => on_arr (prefix_ok l) j) (ap_prefix p).
    Definition v_contains (a : assertions) (p : applic schema) j :=
      optb (fun s' => on_arr (fun vs =>
              in_range (count (V s') vs)
                       (match a_minContains a with Some n => n | None => 1%N end)
                       (a_maxContains a)) j) (ap_contains p).
    Definition v_addl (p : applic schema) j :=
      optb (fun s' => on_obj (fun m =>
              forallb (fun kv => negb (is_additional (ap_props p) (ap_pprops p) (fst kv)) || V s' (snd kv)) m) j)
           (ap_addl p).
    Definition v_items (p : applic schema) j :=
      optb (fun s' => on_arr (fun vs =>
              forallb (V s') (skipn (match ap_prefix p with Some l => length l | None => 0 end) vs)) j)
           (ap_items p).
  End Pieces.

  Fixpoint valid (s : schema) (j : json) {struct s} : bool :=
    match s with
    | SBool b => b
    | SObj a p =>
      valid_assertions a j &&
      v_ref valid p j && v_allOf valid p j && v_anyOf valid p j && v_oneOf valid p j && v_not valid p j &&
      v_ite valid p j && v_props valid p j && v_pprops valid p j && v_pnames valid p j &&
      v_prefix valid p j && v_contains valid a p j && v_addl valid p j && v_items valid p j
    end.

End Sem.
