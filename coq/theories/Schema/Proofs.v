(* Proofs about the encoding (C13): basic lemmas, the induction principle for
   schemas, the semantic projection of decoder states (flags ignored). *)
From Verif Require Import Schema.Json Schema.Sem Schema.Encode.
From Coq Require Import List NArith ZArith Bool Lia.
Import ListNotations.

Lemma bool_schema_correct : forall re b j, encode re (SBool b) j = valid re (SBool b) j.
Proof. intros re [] j; reflexivity. Qed.

(* ---------- induction principle for the nested inductive [schema] ---------- *)
Definition optP {A} (P : A -> Prop) (o : option A) : Prop := match o with Some x => P x | None => True end.

Definition applic_all (P : schema -> Prop) (p : applic schema) : Prop :=
  optP P (ap_ref p) /\ optP (Forall P) (ap_allOf p) /\ optP (Forall P) (ap_anyOf p) /\
  optP (Forall P) (ap_oneOf p) /\ optP P (ap_not p) /\ optP P (ap_if p) /\ optP P (ap_then p) /\
  optP P (ap_else p) /\ optP (Forall (fun ks => P (snd ks))) (ap_props p) /\
  optP (Forall (fun ks => P (snd ks))) (ap_pprops p) /\ optP P (ap_pnames p) /\
  optP (Forall P) (ap_prefix p) /\ optP P (ap_contains p) /\ optP P (ap_addl p) /\ optP P (ap_items p).

Section SchemaInd.
  Variable P : schema -> Prop.
  Hypothesis Hb : forall b, P (SBool b).
  Hypothesis Ho : forall a p, applic_all P p -> P (SObj a p).

  Fixpoint schema_ind' (s : schema) : P s :=
    match s with
    | SBool b => Hb b
    | SObj a p =>
      let fo (o : option schema) : optP P o :=
          match o with Some x => schema_ind' x | None => I end in
      let fl := fix fl (l : list schema) : Forall P l :=
          match l with [] => Forall_nil _ | x :: r => Forall_cons _ (schema_ind' x) (fl r) end in
      let fol (o : option (list schema)) : optP (Forall P) o :=
          match o with Some l => fl l | None => I end in
      let fp := fun (K : Type) => fix fp (l : list (K * schema)) : Forall (fun ks => P (snd ks)) l :=
          match l with [] => Forall_nil _ | x :: r => Forall_cons _ (schema_ind' (snd x)) (fp r) end in
      let fop (K : Type) (o : option (list (K * schema))) : optP (Forall (fun ks => P (snd ks))) o :=
          match o with Some l => fp K l | None => I end in
      Ho a p
         (conj (fo (ap_ref p)) (conj (fol (ap_allOf p)) (conj (fol (ap_anyOf p)) (conj (fol (ap_oneOf p))
         (conj (fo (ap_not p)) (conj (fo (ap_if p)) (conj (fo (ap_then p)) (conj (fo (ap_else p))
         (conj (fop _ (ap_props p)) (conj (fop _ (ap_pprops p)) (conj (fo (ap_pnames p))
         (conj (fol (ap_prefix p)) (conj (fo (ap_contains p)) (conj (fo (ap_addl p)) (fo (ap_items p))))))))))))))))
    end.
End SchemaInd.

(* ---------- kinds and masks ---------- *)
Lemma kind_eqb_eq : forall a b, kind_eqb a b = true <-> a = b.
Proof. intros [] []; simpl; split; intro H; try reflexivity; discriminate. Qed.

Lemma ctype_eqb_eq : forall a b, ctype_eqb a b = true <-> a = b.
Proof. intros [] []; simpl; split; intro H; try reflexivity; discriminate. Qed.

Lemma ctype_eqb_refl : forall a, ctype_eqb a a = true.
Proof. intros []; reflexivity. Qed.

Lemma all_kinds_complete : forall k, In k all_kinds.
Proof. intros []; simpl; tauto. Qed.

Lemma all_ctypes_complete : forall t, In t all_ctypes.
Proof. intros []; simpl; tauto. Qed.

Lemma mempty_false : forall a, mempty a = false <-> exists k, a k = true.
Proof.
  intros a. unfold mempty. rewrite negb_false_iff, existsb_exists. split.
  - intros [k [_ H]]; eauto.
  - intros [k H]; exists k; split; auto using all_kinds_complete.
Qed.

Lemma mempty_true : forall a, mempty a = true <-> forall k, a k = false.
Proof.
  intros a. split.
  - intros H k. destruct (a k) eqn:E; auto.
    assert (mempty a = false) by (apply mempty_false; eauto). congruence.
  - intros H. destruct (mempty a) eqn:E; auto. apply mempty_false in E. destruct E as [k E]. rewrite H in E. discriminate.
Qed.

Lemma meq_true : forall a b, meq a b = true <-> forall k, a k = b k.
Proof.
  intros a b. unfold meq. rewrite forallb_forall. split.
  - intros H k. apply eqb_prop. apply H. apply all_kinds_complete.
  - intros H k _. rewrite H. apply eqb_reflx.
Qed.

(* [allows a t]: some kind of core type t is in a *)
Lemma allows_iff : forall a t, allows a t = true <-> exists k, ctype_of_kind k = t /\ a k = true.
Proof.
  intros a t. unfold allows. rewrite existsb_exists. split.
  - intros [k [Hin H]]. exists k. split; auto. destruct t; simpl in Hin; intuition subst; reflexivity.
  - intros [k [<- H]]. exists k. split; auto. destruct k; simpl; auto.
Qed.

Lemma allows_kind : forall (a : mask) j, a (kind_of j) = true -> allows a (ctype_of j) = true.
Proof. intros a j H. apply allows_iff. exists (kind_of j). split; auto. Qed.

Lemma allows_mono : forall (a b : mask) t, (forall k, a k = true -> b k = true) -> allows a t = true -> allows b t = true.
Proof. intros a b t H. rewrite !allows_iff. intros [k [E Hk]]. eauto. Qed.

Lemma allows_ext : forall (a b : mask) t, (forall k, a k = b k) -> allows a t = allows b t.
Proof.
  intros a b t H. destruct (allows a t) eqn:E1, (allows b t) eqn:E2; auto.
  - rewrite <- E2. symmetry. eapply allows_mono; [|exact E1]. intros k; rewrite H; auto.
  - rewrite <- E1. eapply allows_mono; [|exact E2]. intros k; rewrite H; auto.
Qed.

(* a mask that, inside T, does not separate the kinds of one core type *)
Definition relcc (T A : mask) : Prop :=
  forall k k', ctype_of_kind k = ctype_of_kind k' -> T k = true -> T k' = true -> A k = A k'.

Lemma relcc_allows : forall (T A B : mask) j,
  relcc T B -> (forall k, A k = true -> T k = true) ->
  A (kind_of j) = true -> allows (mand A B) (ctype_of j) = true -> B (kind_of j) = true.
Proof.
  intros T A B j Hcc Hsub HA H. apply allows_iff in H. destruct H as [k [E H]].
  unfold mand in H. apply andb_true_iff in H. destruct H as [H1 H2].
  rewrite (Hcc (kind_of j) k); auto.
Qed.

(* ---------- small list facts ---------- *)
Lemma forallb_app' : forall {A} (f : A -> bool) l1 l2, forallb f (l1 ++ l2) = forallb f l1 && forallb f l2.
Proof. intros. apply forallb_app. Qed.

Lemma existsb_false_iff : forall {A} (f : A -> bool) l, existsb f l = false <-> forall x, In x l -> f x = false.
Proof.
  intros A f l. split.
  - intros H x Hin. destruct (f x) eqn:E; auto. assert (existsb f l = true) by (apply existsb_exists; eauto). congruence.
  - intros H. destruct (existsb f l) eqn:E; auto. apply existsb_exists in E. destruct E as [x [Hin E]]. rewrite H in E; auto.
Qed.

Lemma count_app : forall {A} (f : A -> bool) l1 l2, count f (l1 ++ l2) = count f l1 + count f l2.
Proof. intros. unfold count. rewrite filter_app, app_length. reflexivity. Qed.

Lemma count_ext : forall {A} (f g : A -> bool) l, (forall x, In x l -> f x = g x) -> count f l = count g l.
Proof.
  intros A f g l H. unfold count. f_equal. induction l as [|x l IH]; simpl; auto.
  rewrite (H x) by (left; auto). rewrite IH; auto. intros y Hy. apply H. right; auto.
Qed.

Lemma count_map : forall {A B} (g : A -> B) (f : B -> bool) l, count f (map g l) = count (fun x => f (g x)) l.
Proof.
  intros. unfold count. induction l as [|x l IH]; simpl; auto. destruct (f (g x)); simpl; rewrite IH; auto.
Qed.

Lemma filter_len_le : forall {A} (f : A -> bool) l, length (filter f l) <= length l.
Proof. intros A f l. induction l as [|x l IH]; simpl; auto. destruct (f x); simpl; lia. Qed.

Lemma count_all : forall {A} (f : A -> bool) l, count f l = length l <-> forallb f l = true.
Proof.
  intros A f l. unfold count. induction l as [|x l IH]; simpl.
  - tauto.
  - destruct (f x); simpl.
    + rewrite <- IH. lia.
    + pose proof (filter_len_le f l). split; [lia | discriminate].
Qed.

Lemma count_zero : forall {A} (f : A -> bool) l, count f l = 0 <-> existsb f l = false.
Proof.
  intros A f l. unfold count. induction l as [|x l IH]; simpl.
  - tauto.
  - destruct (f x); simpl; [split; discriminate | exact IH].
Qed.

Lemma count_pos : forall {A} (f : A -> bool) l, 1 <= count f l <-> existsb f l = true.
Proof.
  intros A f l. destruct (existsb f l) eqn:E.
  - split; auto. intros _. destruct (count f l) eqn:C; [|lia]. apply count_zero in C. congruence.
  - apply count_zero in E. rewrite E. split; [lia | discriminate].
Qed.
