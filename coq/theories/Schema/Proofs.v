(* Proofs about the encoding (C13). *)
From Verif Require Import Schema.Json Schema.Sem Schema.Encode.
From Coq Require Import List NArith ZArith Bool Lia.
Import ListNotations.

Lemma bool_schema_correct : forall re b j, encode re (SBool b) j = valid re (SBool b) j.
Proof. intros re [] j; reflexivity. Qed.
