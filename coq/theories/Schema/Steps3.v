(* Phase 2 of schemaState: anyOf and oneOf (members decoded under one mask). *)
From Verif Require Import Schema.Json Schema.Sem Schema.Encode Schema.Proofs Schema.Invariant Schema.Steps1 Schema.Steps2.
From Coq Require Import List NArith ZArith Bool Lia.
Import ListNotations.

Section Steps3.
  Variable re : pat -> str -> bool.
  Variable T : mask.

  Definition keptf (r : result) : bool := negb (mempty (r_A r)).

  Lemma par_count : forall A l rs, Forall2 (Good re A) l rs ->
    forall v, A (kind_of v) = true ->
    count (fun s' => valid re s' v) l = count (fun r => ev (r_e r) v) (filter keptf rs).
  Proof.
    induction 1 as [|s r l rs G F IH]; intros v HA; [reflexivity|].
    unfold count in *. simpl. rewrite <- (g_ev _ _ _ _ G v HA).
    destruct (keptf r) eqn:Ek; simpl.
    - destruct (ev (r_e r) v); simpl; rewrite IH; auto.
    - destruct (ev (r_e r) v) eqn:Ee.
      + exfalso. rewrite (g_ev _ _ _ _ G v HA) in Ee. pose proof (g_snd _ _ _ _ G v HA Ee) as X.
        unfold keptf in Ek. apply negb_false_iff in Ek. rewrite mempty_true in Ek. rewrite Ek in X. discriminate.
      + apply IH; auto.
  Qed.

  Lemma par_in : forall A l rs, Forall2 (Good re A) l rs -> forall r, In r rs -> exists s, In s l /\ Good re A s r.
  Proof.
    induction 1 as [|s r l rs G F IH]; intros r0 Hin; [destruct Hin|].
    destruct Hin as [<- | Hin]; [exists s; split; auto; left; auto|].
    destruct (IH r0 Hin) as [s0 [H1 H2]]. exists s0. split; auto. right; auto.
  Qed.

  Lemma par_len : forall A l rs, Forall2 (Good re A) l rs -> length rs = length l.
  Proof. induction 1; simpl; auto. Qed.

  Lemma kept_in : forall rs r, In r (filter keptf rs) <-> In r rs /\ mempty (r_A r) = false.
  Proof. intros. rewrite filter_In. unfold keptf. rewrite negb_true_iff. tauto. Qed.

  (* a valid member puts the kind of the instance into the union of the allowed masks *)
  Lemma par_types : forall A l rs, Forall2 (Good re A) l rs ->
    forall v, A (kind_of v) = true -> existsb (fun r => ev (r_e r) v) (filter keptf rs) = true ->
    fold_left (fun m r => mor m (r_A r)) (filter keptf rs) mnone (kind_of v) = true.
  Proof.
    intros A l rs F v HA Hex. rewrite types_spec. apply existsb_exists in Hex. destruct Hex as [r [Hin He]].
    apply existsb_exists. exists r. split; auto.
    apply kept_in in Hin. destruct Hin as [Hin _]. destruct (par_in _ _ _ F r Hin) as [s [_ G]].
    apply (g_snd _ _ _ _ G v HA). rewrite <- (g_ev _ _ _ _ G v HA). exact He.
  Qed.

  Lemma types_sub_known : forall A l rs, Forall2 (Good re A) l rs -> forall k,
    fold_left (fun m r => mor m (r_A r)) (filter keptf rs) mnone k = true ->
    fold_left (fun m r => mor m (r_K r)) (filter keptf rs) mnone k = true.
  Proof.
    intros A l rs F k. rewrite types_spec, known_spec. rewrite !existsb_exists.
    intros [r [Hin Hk]]. exists r. split; auto.
    apply kept_in in Hin. destruct Hin as [Hin _]. destruct (par_in _ _ _ F r Hin) as [s [_ G]].
    apply (g_AK _ _ _ _ G). exact Hk.
  Qed.

  Lemma kept_known_sound : forall st VS l rs v, Inv T st VS -> Forall2 (Good re (st_A st)) l rs ->
    existsb (fun r => ev (r_e r) v) (filter keptf rs) = true ->
    allows (st_K st) (ctype_of v) = true ->
    allows (mand (st_K st) (fold_left (fun m r => mor m (r_K r)) (filter keptf rs) mnone)) (ctype_of v) = true.
  Proof.
    intros st VS l rs v H F Hex HK. apply existsb_exists in Hex. destruct Hex as [x [Hin He]].
    pose proof (proj1 (kept_in rs x) Hin) as [Hin' Hne]. destruct (par_in _ _ _ F x Hin') as [s [_ G]].
    apply (known_sound re (st_A st) (st_A st) (st_K st) (filter keptf rs) x v); auto.
    - apply (i_AK _ _ _ H).
    - exists s, (st_A st). split; auto.
  Qed.

  (* ---------- anyOf ---------- *)
  Definition anyOf_e (rs : list result) : expr :=
    match map r_e (filter keptf rs) with
    | [] => e_top
    | [x] => x
    | a => e_other (matchN_ge1 a)
    end.
  Definition anyOf_A (A : mask) (rs : list result) : mask :=
    match map r_e (filter keptf rs) with
    | [] => mnone
    | [x] => A
    | _ => mand A (fold_left (fun m r => mor m (r_A r)) (filter keptf rs) mnone)
    end.
  Definition anyOf_K (K : mask) (rs : list result) : mask :=
    match map r_e (filter keptf rs) with
    | [] => K
    | [x] => K
    | _ => mand K (fold_left (fun m r => mor m (r_K r)) (filter keptf rs) mnone)
    end.

  Lemma step_anyOf_eq : forall n rs st,
    sem_eq (upd st (anyOf_A (st_A st) rs) (anyOf_K (st_K st) rs) (anyOf_e rs)) (step_anyOf n rs st).
  Proof.
    intros n rs st. unfold step_anyOf, anyOf_e, anyOf_A, anyOf_K. fold keptf.
    set (s1 := if Nat.eqb n 0 then set_bad st else st).
    set (s2 := absorb_all rs s1).
    assert (E : sem_eq st s2).
    { eapply sem_eq_trans; [|apply sem_eq_absorb_all]. unfold s1. destruct (Nat.eqb n 0); [apply sem_eq_set_bad|apply sem_eq_refl]. }
    destruct (map r_e (filter keptf rs)) as [|x [|y t]] eqn:Em.
    - unfold upd, add_all. simpl.
      destruct E as (a & b & c & d & e & f & g). repeat split; simpl; congruence.
    - unfold upd. apply sem_eq_add_all. eapply sem_eq_trans; [apply sem_eq_setAK_id | exact E].
    - unfold upd. apply sem_eq_add_all.
      destruct E as (a & b & c & d & e & f & g). rewrite a, b. repeat split; simpl; congruence.
  Qed.

  Lemma dev_step_anyOf : forall n rs st, st_dev (step_anyOf n rs st) = [] -> st_dev st = [] /\ flat_map r_dev rs = [].
  Proof.
    intros n rs st. unfold step_anyOf. fold keptf.
    set (s1 := if Nat.eqb n 0 then set_bad st else st).
    assert (D1 : st_dev s1 = st_dev st) by (unfold s1; destruct (Nat.eqb n 0); reflexivity).
    set (s2 := absorb_all rs s1).
    assert (D2 : st_dev s2 = st_dev st ++ flat_map r_dev rs) by (unfold s2; rewrite dev_absorb_all, D1; reflexivity).
    intros Hnil.
    assert (D : st_dev s2 = []).
    { destruct (map r_e (filter keptf rs)) as [|x [|y t]]; simpl in Hnil; auto.
      - unfold add_all in Hnil. destruct (is_top x); exact Hnil. }
    rewrite D2 in D. apply app_eq_nil in D. exact D.
  Qed.

  Lemma inv_step_anyOf : forall l rs st VS,
    Inv T st VS -> Forall2 (Good re (st_A st)) l rs ->
    Inv T (step_anyOf (length l) rs st) (fun v => VS v /\ existsb (fun s' => valid re s' v) l = true).
  Proof.
    intros l rs st VS H F.
    eapply inv_sem_eq; [apply step_anyOf_eq|].
    set (kept := filter keptf rs).
    assert (Hq : forall v, st_A st (kind_of v) = true ->
                 existsb (fun s' => valid re s' v) l = existsb (fun r => ev (r_e r) v) kept).
    { intros v HA. pose proof (par_count _ _ _ F v HA) as X. fold kept in X.
      destruct (existsb (fun s' => valid re s' v) l) eqn:E1.
      - apply count_pos in E1. rewrite X in E1. apply count_pos in E1. auto.
      - apply count_zero in E1. rewrite X in E1. apply count_zero in E1. auto. }
    assert (Hmap : forall v, existsb (fun r => ev (r_e r) v) kept = existsb (fun e => ev e v) (map r_e kept)).
    { intros v. generalize kept. intros k0. induction k0 as [|r k IH]; simpl; auto. rewrite IH. reflexivity. }
    assert (Hev : forall v, map r_e kept <> [] -> ev (anyOf_e rs) v = existsb (fun e => ev e v) (map r_e kept)).
    { intros v Hne. unfold anyOf_e. fold kept. destruct (map r_e kept) as [|x [|y t]] eqn:Em.
      - congruence.
      - simpl. rewrite orb_false_r. reflexivity.
      - change (ev (e_other (matchN_ge1 (x :: y :: t))) v) with (Nat.leb 1 (count (fun e => ev e v) (x :: y :: t))).
        destruct (existsb (fun e => ev e v) (x :: y :: t)) eqn:E.
        + apply count_pos in E. apply Nat.leb_le. exact E.
        + apply count_zero in E. rewrite E. reflexivity. }
    assert (Wf : wfe (anyOf_e rs)).
    { unfold anyOf_e. fold kept. destruct (map r_e kept) as [|x [|y t]] eqn:Em.
      - apply wfe_top.
      - assert (In x (map r_e kept)) by (rewrite Em; left; auto). apply in_map_iff in H0.
        destruct H0 as [r [<- Hr]]. apply kept_in in Hr. destruct Hr as [Hr _].
        destruct (par_in _ _ _ F r Hr) as [s [_ G]]. apply (g_wfe _ _ _ _ G).
      - apply wfe_other. }
    generalize (eq_refl (map r_e kept)). generalize (map r_e kept) at 2. intros a0 Em.
    destruct a0 as [|x [|y t]].
    - (* nothing is allowed *)
      assert (Hf : forall v, st_A st (kind_of v) = true -> existsb (fun s' => valid re s' v) l = false).
      { intros v HA. rewrite (Hq v HA), Hmap, Em. reflexivity. }
      assert (EA : anyOf_A (st_A st) rs = mnone) by (unfold anyOf_A; fold kept; rewrite Em; reflexivity).
      rewrite EA.
      apply inv_upd; try exact H; try exact Wf.
      + intros k Hk. discriminate.
      + intros k Hk. discriminate.
      + intros v _ _ _ Hal. apply allows_iff in Hal. destruct Hal as [k [_ Hk]]. discriminate.
      + intros v HA HQ. rewrite (Hf v HA) in HQ. discriminate.
      + intros v Hv HVS HQ. rewrite (Hf v (i_snd _ _ _ H v Hv HVS)) in HQ. discriminate.
      + intros Hne. apply mempty_false in Hne. destruct Hne as [k Hk]. discriminate.
      + intros _ _. split; [intros k k' _ _ _; reflexivity | intros v _ Hk; discriminate].
    - (* one member *)
      assert (EA : anyOf_A (st_A st) rs = st_A st) by (unfold anyOf_A; fold kept; rewrite Em; reflexivity).
      assert (EK : anyOf_K (st_K st) rs = st_K st) by (unfold anyOf_K; fold kept; rewrite Em; reflexivity).
      rewrite EA, EK.
      assert (Hne : map r_e kept <> []) by (rewrite Em; discriminate).
      apply inv_upd; try exact H; try exact Wf; auto.
      + apply (i_AK _ _ _ H).
      + intros v HA _ He _. rewrite (Hq v HA), Hmap, <- (Hev v Hne). exact He.
      + intros v HA HQ. rewrite (Hev v Hne), <- Hmap, <- (Hq v HA). exact HQ.
      + intros v Hv HVS _. apply (i_snd _ _ _ H v Hv HVS).
      + intros Hn v Hall _. apply (i_K _ _ _ H Hn v Hall).
      + intros Ht Hh. destruct (i_H _ _ _ H Hh) as [Hback Hcc]. split; auto.
        intros v Hv HA. split; [apply Hback; auto|].
        rewrite (Hq v HA), Hmap, <- (Hev v Hne). apply (proj1 Wf Ht).
    - (* matchN(>=1, [...]) *)
      assert (EA : anyOf_A (st_A st) rs = mand (st_A st) (fold_left (fun m r => mor m (r_A r)) kept mnone))
        by (unfold anyOf_A; fold kept; rewrite Em; reflexivity).
      assert (EK : anyOf_K (st_K st) rs = mand (st_K st) (fold_left (fun m r => mor m (r_K r)) kept mnone))
        by (unfold anyOf_K; fold kept; rewrite Em; reflexivity).
      rewrite EA, EK.
      assert (Hne : map r_e kept <> []) by (rewrite Em; discriminate).
      apply inv_upd; try exact H; try exact Wf.
      + intros k Hk. unfold mand in Hk. apply andb_true_iff in Hk. tauto.
      + intros k Hk. unfold mand in *. apply andb_true_iff in Hk. destruct Hk as [H1 H2].
        rewrite (i_AK _ _ _ H k H1). rewrite andb_true_l. apply (types_sub_known _ _ _ F). exact H2.
      + intros v HA _ He _. rewrite (Hq v HA), Hmap, <- (Hev v Hne). exact He.
      + intros v HA HQ. rewrite (Hev v Hne), <- Hmap, <- (Hq v HA). exact HQ.
      + intros v Hv HVS HQ. pose proof (i_snd _ _ _ H v Hv HVS) as HA. unfold mand. rewrite HA, andb_true_l.
        apply (par_types _ _ _ F v HA). fold kept. rewrite <- (Hq v HA). exact HQ.
      + intros Hn v Hall He.
        assert (HnA : mempty (st_A st) = false).
        { apply mempty_false in Hn. destruct Hn as [k Hk]. apply mempty_false. exists k.
          unfold mand in Hk. apply andb_true_iff in Hk. tauto. }
        apply (kept_known_sound st VS l rs v H F).
        * fold kept. rewrite Hmap, <- (Hev v Hne). exact He.
        * apply (i_K _ _ _ H HnA v Hall).
      + intros Ht. unfold anyOf_e in Ht. fold kept in Ht. rewrite Em in Ht. simpl in Ht. discriminate.
  Qed.

  Lemma existsb_re : forall (k : list result) v,
    existsb (fun r => ev (r_e r) v) k = existsb (fun e => ev e v) (map r_e k).
  Proof. induction k as [|r k IH]; intros v; simpl; auto. rewrite IH. reflexivity. Qed.

  (* ---------- oneOf ---------- *)
  Lemma moverlap_false : forall a b, moverlap a b = false <-> forall k, a k && b k = false.
  Proof.
    intros a b. unfold moverlap. rewrite existsb_false_iff. split.
    - intros H k. apply H. apply all_kinds_complete.
    - intros H k _. apply H.
  Qed.

  Lemma needs_false : forall kept m, oneOf_needs kept m = false ->
    (forall r, In r kept -> r_hasC r = false) /\
    (forall k, m k = true -> existsb (fun r => r_A r k) kept = false) /\
    (forall k, count (fun r => r_A r k) kept <= 1).
  Proof.
    induction kept as [|r rest IH]; intros m Hn; simpl in *.
    - repeat split; auto. intros r [].
    - apply orb_false_iff in Hn. destruct Hn as [H1 H2].
      destruct (r_hasC r) eqn:Hh; [discriminate|].
      rewrite moverlap_false in H1.
      destruct (IH _ H2) as (I1 & I2 & I3). repeat split.
      + intros r0 [<- | Hin]; auto.
      + intros k Hk. pose proof (H1 k) as X. rewrite Hk in X. simpl in X. rewrite X. simpl.
        apply I2. unfold mor. rewrite Hk. reflexivity.
      + intros k. unfold count in *. simpl. destruct (r_A r k) eqn:E; simpl.
        * assert (X : existsb (fun r0 => r_A r0 k) rest = false) by (apply I2; unfold mor; rewrite E; apply orb_true_r).
          apply count_zero in X. unfold count in X. rewrite X. lia.
        * apply I3.
  Qed.

  Definition oneOf_e (rs : list result) : expr :=
    if oneOf_needs (filter keptf rs) mnone then
      match map r_e (filter keptf rs) with
      | [] => e_top
      | [x] => x
      | a => e_other (matchN_eq 1 a)
      end
    else e_top.
  Definition oneOf_K (K : mask) (rs : list result) : mask :=
    if oneOf_needs (filter keptf rs) mnone then
      match map r_e (filter keptf rs) with
      | [] => K
      | _ => mand K (fold_left (fun m r => mor m (r_K r)) (filter keptf rs) mnone)
      end
    else K.
  Definition oneOf_A (A : mask) (rs : list result) : mask :=
    mand A (fold_left (fun m r => mor m (r_A r)) (filter keptf rs) mnone).

  Lemma step_oneOf_eq : forall n rs st,
    sem_eq (upd st (oneOf_A (st_A st) rs) (oneOf_K (st_K st) rs) (oneOf_e rs)) (step_oneOf n rs st).
  Proof.
    intros n rs st. unfold step_oneOf, oneOf_e, oneOf_A, oneOf_K. fold keptf.
    set (s1 := if Nat.eqb n 0 then set_bad st else st).
    set (s2 := absorb_all rs s1).
    assert (E : sem_eq st s2).
    { eapply sem_eq_trans; [|apply sem_eq_absorb_all]. unfold s1. destruct (Nat.eqb n 0); [apply sem_eq_set_bad|apply sem_eq_refl]. }
    set (ty := fold_left (fun m r => mor m (r_A r)) (filter keptf rs) mnone).
    set (kn := fold_left (fun m r => mor m (r_K r)) (filter keptf rs) mnone).
    set (s3 := dev_if _ DEV_oneOf_false (set_A s2 (mand (st_A s2) ty))).
    assert (E3 : sem_eq (set_A st (mand (st_A st) ty)) s3).
    { eapply sem_eq_trans; [|apply sem_eq_dev_if].
      destruct E as (a & b & c & d & e & f & g). rewrite a. repeat split; simpl; congruence. }
    assert (EK : st_K s3 = st_K st) by (destruct E3 as (_ & b & _); simpl in b; congruence).
    unfold upd.
    destruct (oneOf_needs (filter keptf rs) mnone).
    - destruct (map r_e (filter keptf rs)) as [|x [|y t]].
      + unfold add_all. simpl. eapply sem_eq_trans; [|exact E3]. repeat split.
      + apply sem_eq_add_all. rewrite EK. apply sem_eq_set_K. exact E3.
      + apply sem_eq_add_all. rewrite EK. apply sem_eq_set_K. exact E3.
    - unfold add_all. simpl. eapply sem_eq_trans; [|exact E3]. repeat split.
  Qed.

  Lemma dev_step_oneOf : forall n rs st, st_dev (step_oneOf n rs st) = [] ->
    st_dev st = [] /\ flat_map r_dev rs = [] /\
    (negb (oneOf_needs (filter keptf rs) mnone) && existsb (fun r => is_err (r_e r)) (filter keptf rs)) = false.
  Proof.
    intros n rs st. unfold step_oneOf. fold keptf.
    set (s1 := if Nat.eqb n 0 then set_bad st else st).
    assert (D1 : st_dev s1 = st_dev st) by (unfold s1; destruct (Nat.eqb n 0); reflexivity).
    set (s2 := absorb_all rs s1).
    set (c := negb _ && _).
    set (s3 := dev_if c DEV_oneOf_false _).
    assert (D3 : st_dev s3 = st_dev st ++ flat_map r_dev rs ++ (if c then [DEV_oneOf_false] else [])).
    { unfold s3. rewrite dev_dev_if. simpl. unfold s2. rewrite dev_absorb_all, D1. rewrite <- app_assoc. reflexivity. }
    intros Hnil.
    assert (D : st_dev s3 = []).
    { destruct (oneOf_needs (filter keptf rs) mnone); auto.
      destruct (map r_e (filter keptf rs)) as [|x [|y t]]; simpl in Hnil; auto.
      unfold add_all in Hnil. destruct (is_top x); exact Hnil. }
    rewrite D3 in D. apply app_eq_nil in D. destruct D as [N1 N2]. apply app_eq_nil in N2. destruct N2 as [N2 N3].
    repeat split; auto. destruct c; [discriminate|reflexivity].
  Qed.

  Lemma count_le1 : forall {X} (f : X -> bool) l, count f l <= 1 -> (Nat.eqb (count f l) 1 = existsb f l).
  Proof.
    intros X f l H. destruct (existsb f l) eqn:E.
    - apply count_pos in E. apply Nat.eqb_eq. lia.
    - apply count_zero in E. rewrite E. reflexivity.
  Qed.

  Lemma inv_step_oneOf : forall l rs st VS,
    Inv T st VS -> Forall2 (Good re (st_A st)) l rs ->
    (negb (oneOf_needs (filter keptf rs) mnone) && existsb (fun r => is_err (r_e r)) (filter keptf rs)) = false ->
    Inv T (step_oneOf (length l) rs st) (fun v => VS v /\ Nat.eqb (count (fun s' => valid re s' v) l) 1 = true).
  Proof.
    intros l rs st VS H F Hdev.
    eapply inv_sem_eq; [apply step_oneOf_eq|].
    set (kept := filter keptf rs).
    assert (Hq : forall v, st_A st (kind_of v) = true ->
                 count (fun s' => valid re s' v) l = count (fun e => ev e v) (map r_e kept)).
    { intros v HA. rewrite (par_count _ _ _ F v HA). fold kept. rewrite count_map. reflexivity. }
    assert (Hgood : forall r, In r kept -> exists s, Good re (st_A st) s r /\ mempty (r_A r) = false).
    { intros r Hin. destruct (proj1 (kept_in rs r) Hin) as [Hin' Hne]. destruct (par_in _ _ _ F r Hin') as [s [_ G]]. eauto. }
    assert (HAK' : forall k, oneOf_A (st_A st) rs k = true -> oneOf_K (st_K st) rs k = true).
    { intros k Hk. unfold oneOf_A, oneOf_K in *. fold kept in Hk |- *. unfold mand in *. apply andb_true_iff in Hk.
      destruct Hk as [H1 H2]. pose proof (i_AK _ _ _ H k H1) as HK.
      destruct (oneOf_needs kept mnone); auto. destruct (map r_e kept); auto.
      rewrite HK, andb_true_l. apply (types_sub_known _ _ _ F). exact H2. }
    assert (HAsub : forall k, oneOf_A (st_A st) rs k = true -> st_A st k = true).
    { intros k Hk. unfold oneOf_A, mand in Hk. apply andb_true_iff in Hk. tauto. }
    destruct (oneOf_needs kept mnone) eqn:En.
    - (* a constraint is needed *)
      assert (Wf : wfe (oneOf_e rs)).
      { unfold oneOf_e. fold kept. rewrite En. destruct (map r_e kept) as [|x [|y t]] eqn:Em.
        - apply wfe_top.
        - assert (In x (map r_e kept)) by (rewrite Em; left; auto). apply in_map_iff in H0.
          destruct H0 as [r [<- Hr]]. destruct (Hgood r Hr) as [s [G _]]. apply (g_wfe _ _ _ _ G).
        - apply wfe_other. }
      assert (Hev : forall v, ev (oneOf_e rs) v = Nat.eqb (count (fun e => ev e v) (map r_e kept)) 1 \/
                              (map r_e kept = [] /\ forall v, count (fun e => ev e v) (map r_e kept) = 0)).
      { intros v. unfold oneOf_e. fold kept. rewrite En. destruct (map r_e kept) as [|x [|y t]] eqn:Em.
        - right. split; auto.
        - left. unfold count. simpl. destruct (ev x v); reflexivity.
        - left. reflexivity. }
      apply inv_upd; try exact H; try exact Wf; auto.
      + (* c1g *) intros v HA _ He Hal. rewrite (Hq v HA). destruct (Hev v) as [E | [Enil _]].
        * rewrite <- E. exact He.
        * exfalso. apply allows_iff in Hal. destruct Hal as [k [_ Hk]]. unfold oneOf_A in Hk. fold kept in Hk.
          destruct kept; [|discriminate]. unfold mand in Hk. simpl in Hk. rewrite andb_false_r in Hk. discriminate.
      + (* c1h *) intros v HA HQ. rewrite (Hq v HA) in HQ. destruct (Hev v) as [E | [_ Z]].
        * rewrite E. exact HQ.
        * rewrite Z in HQ. discriminate.
      + (* c2 *) intros v Hv HVS HQ. pose proof (i_snd _ _ _ H v Hv HVS) as HA.
        unfold oneOf_A, mand. rewrite HA, andb_true_l.
        apply (par_types _ _ _ F v HA).
        apply count_pos. rewrite <- (par_count _ _ _ F v HA). apply Nat.eqb_eq in HQ. lia.
      + (* c3 *) intros Hn v Hall He.
        assert (HnA : mempty (st_A st) = false).
        { apply mempty_false in Hn. destruct Hn as [k Hk]. apply mempty_false. exists k. apply HAsub. exact Hk. }
        pose proof (i_K _ _ _ H HnA v Hall) as HK.
        unfold oneOf_K. fold kept. rewrite En. destruct (map r_e kept) as [|x t] eqn:Em; auto.
        apply (kept_known_sound st VS l rs v H F); auto. fold kept.
        destruct (Hev v) as [E | [Enil _]]; [|discriminate Enil].
        rewrite E in He. apply Nat.eqb_eq in He. rewrite existsb_re, Em. apply count_pos. lia.
      + (* cH *) intros Ht Hh. destruct (i_H _ _ _ H Hh) as [Hback Hcc].
        unfold oneOf_e in Ht. fold kept in Ht. rewrite En in Ht.
        destruct (map r_e kept) as [|x [|y t]] eqn:Em; [| |simpl in Ht; discriminate].
        * (* no member is possible *)
          destruct kept; [simpl in En; discriminate | discriminate].
        * (* the only member is `_` *)
          destruct kept as [|r [|r' kk]] eqn:Ek; try discriminate. simpl in Em. injection Em as Ex.
          destruct (Hgood r (or_introl eq_refl)) as [s [G _]]. rewrite <- Ex in Ht.
          destruct (good_top_full _ _ _ _ G Ht) as [Hfull HV].
          assert (EA : forall k, oneOf_A (st_A st) rs k = st_A st k).
          { intros k. unfold oneOf_A, mand. fold kept. rewrite Ek. simpl. unfold mor, mnone. simpl.
            destruct (st_A st k) eqn:E; auto. rewrite (Hfull k E). reflexivity. }
          split.
          -- intros k k' E Hk Hk'. rewrite !EA. apply Hcc; auto.
          -- intros v Hv Hk. rewrite EA in Hk. split; [apply Hback; auto|].
             rewrite (Hq v Hk). unfold count. simpl. rewrite <- Ex.
             rewrite (proj1 (g_wfe _ _ _ _ G) Ht v). reflexivity.
    - (* no constraint: the members are unconstrained and their masks are disjoint *)
      destruct (needs_false _ _ En) as (N1 & _ & N3).
      fold kept in Hdev. rewrite En in Hdev. simpl in Hdev.
      assert (Hmember : forall r, In r kept -> forall v, st_A st (kind_of v) = true ->
                        ev (r_e r) v = r_A r (kind_of v)).
      { intros r Hin v HA. destruct (Hgood r Hin) as [s [G Hne]].
        assert (He : is_err (r_e r) = false).
        { destruct (is_err (r_e r)) eqn:E; auto.
          assert (existsb (fun r => is_err (r_e r)) kept = true) by (apply existsb_exists; eauto). congruence. }
        destruct (g_H _ _ _ _ G (N1 r Hin)) as [[X _] | [Hcr Hv]]; [congruence|].
        rewrite (g_ev _ _ _ _ G v HA).
        destruct (valid re s v) eqn:E1.
        - symmetry. apply (g_snd _ _ _ _ G v HA E1).
        - destruct (r_A r (kind_of v)) eqn:E2; auto. rewrite (Hv v HA E2) in E1. discriminate. }
      assert (Hcnt : forall v, st_A st (kind_of v) = true ->
                     Nat.eqb (count (fun s' => valid re s' v) l) 1 =
                     fold_left (fun m r => mor m (r_A r)) kept mnone (kind_of v)).
      { intros v HA. rewrite (par_count _ _ _ F v HA). fold kept.
        rewrite (count_ext _ (fun r => r_A r (kind_of v))) by (intros r Hin; apply Hmember; auto).
        rewrite count_le1 by apply N3. rewrite types_spec. reflexivity. }
      assert (Ee : oneOf_e rs = e_top) by (unfold oneOf_e; fold kept; rewrite En; reflexivity).
      assert (EK : oneOf_K (st_K st) rs = st_K st) by (unfold oneOf_K; fold kept; rewrite En; reflexivity).
      rewrite Ee, EK.
      assert (Hrel : forall k k', ctype_of_kind k = ctype_of_kind k' -> st_A st k = true -> st_A st k' = true ->
                     fold_left (fun m r => mor m (r_A r)) kept mnone k = fold_left (fun m r => mor m (r_A r)) kept mnone k').
      { intros k k' E Hk Hk'. rewrite !types_spec.
        assert (forall r, In r kept -> r_A r k = r_A r k').
        { intros r Hin. destruct (Hgood r Hin) as [s [G Hne]].
          assert (He : is_err (r_e r) = false).
          { destruct (is_err (r_e r)) eqn:E0; auto.
            assert (existsb (fun r => is_err (r_e r)) kept = true) by (apply existsb_exists; eauto). congruence. }
          destruct (g_H _ _ _ _ G (N1 r Hin)) as [[X _] | [Hcr _]]; [congruence|]. apply Hcr; auto. }
        clear - H0. induction kept as [|r kk IH]; simpl; auto. rewrite (H0 r) by (left; auto).
        rewrite IH; auto. intros r0 Hin. apply H0. right; auto. }
      apply inv_upd; try exact H; try apply wfe_top; auto.
      + (* A' <= K *) intros k Hk. apply (i_AK _ _ _ H). apply HAsub. exact Hk.
      + (* c1g *) intros v HA _ _ Hal. rewrite (Hcnt v HA).
        apply allows_iff in Hal. destruct Hal as [k [Ek Hk]]. unfold oneOf_A, mand in Hk. fold kept in Hk.
        apply andb_true_iff in Hk. destruct Hk as [Hk1 Hk2]. rewrite (Hrel (kind_of v) k); auto.
      + (* c2 *) intros v Hv HVS HQ. pose proof (i_snd _ _ _ H v Hv HVS) as HA.
        unfold oneOf_A, mand. fold kept. rewrite HA, andb_true_l. rewrite <- (Hcnt v HA). exact HQ.
      + (* c3 *) intros Hn v Hall _. apply (i_K _ _ _ H); auto.
        apply mempty_false in Hn. destruct Hn as [k Hk]. apply mempty_false. exists k. apply HAsub. exact Hk.
      + (* cH *) intros _ Hh. destruct (i_H _ _ _ H Hh) as [Hback Hcc]. split.
        * intros k k' E Hk Hk'. unfold oneOf_A, mand. fold kept. rewrite (Hcc k k' E Hk Hk').
          destruct (st_A st k') eqn:EA; auto. simpl. apply Hrel; auto. rewrite (Hcc k k' E Hk Hk'). exact EA.
        * intros v Hv Hk. apply HAsub in Hk as HA. split; [apply Hback; auto|].
          rewrite (Hcnt v HA). unfold oneOf_A, mand in Hk. fold kept in Hk. apply andb_true_iff in Hk. tauto.
  Qed.

End Steps3.
