(* Phase 1 of schemaState: the assertion keywords without subschemas. *)
From Verif Require Import Schema.Json Schema.Sem Schema.Encode Schema.Proofs Schema.Invariant.
From Coq Require Import List NArith ZArith Bool Lia.
Import ListNotations.

Lemma json_eqb_kind : forall a b, json_eqb a b = true -> kind_of a = kind_of b.
Proof.
  intros [] []; simpl; try discriminate; auto.
  intros H. apply Z.eqb_eq in H. subst. reflexivity.
Qed.

Lemma ctype_num : forall h, ctype_of (JNum h) = TNum.
Proof. intros h. unfold ctype_of. simpl. destruct (is_int h); reflexivity. Qed.

(* goals about the core type of a value after case analysis on the value *)
Ltac tysolve :=
  simpl in *; try rewrite ctype_num in *; try discriminate; try reflexivity; try tauto; auto;
  try (match goal with H : ?x <> ?x |- _ => exfalso; apply H; reflexivity end).

Lemma wfe_other : forall p, wfe (e_other p).
Proof. intros p. split; simpl; discriminate. Qed.
Lemma wfe_top : wfe e_top.
Proof. split; simpl; auto; discriminate. Qed.
Lemma wfe_err : wfe e_err.
Proof. split; simpl; auto; discriminate. Qed.

Section Phase1.
  Variable re : pat -> str -> bool.
  Variable T : mask.

  (* ---------- opt_step ---------- *)
  Lemma inv_opt_step : forall {X} (f : X -> state -> state) (Q : X -> json -> Prop) o st VS,
    (forall x st VS, Inv T st VS -> Inv T (f x st) (fun v => VS v /\ Q x v)) ->
    Inv T st VS -> Inv T (opt_step f o st) (fun v => VS v /\ optP (fun x => Q x v) o).
  Proof.
    intros X f Q [x|] st VS Hf H; simpl.
    - apply Hf; auto.
    - eapply inv_ext; [|exact H]. intros v _. tauto.
  Qed.

  Lemma dev_opt_step : forall {X} (f : X -> state -> state) o st,
    (forall x s, st_dev (f x s) = st_dev s) -> st_dev (opt_step f o st) = st_dev st.
  Proof. intros X f [x|] st H; simpl; auto. Qed.

  (* ---------- type ---------- *)
  Definition Qint (v : json) : Prop := match v with JNum h => is_int h = true | _ => True end.

  Definition add_ints (tys : list tyname) (s : state) : state :=
    if int_only tys then add_C s TNum (num_pred is_int) else s.

  Lemma inv_add_ints : forall tys st VS,
    Inv T st VS -> Inv T (add_ints tys st) (fun v => VS v /\ (int_only tys = true -> Qint v)).
  Proof.
    intros tys st VS H. unfold add_ints. destruct (int_only tys).
    - eapply inv_ext; [|apply (inv_add_C T st VS TNum (num_pred is_int) Qint H)].
      + intros v _. tauto.
      + intros [] Hv; tysolve.
      + intros [] Hv; tysolve.
      + intros [] Hv; tysolve.
    - eapply inv_ext; [|exact H]. intros v _. split; [intros; split; auto; discriminate | tauto].
  Qed.

  Definition tymask (tys : list tyname) : mask := fold_left (fun m t => mor m (mask_of_tyname t)) tys mnone.

  Lemma fold_mor_acc : forall {X} (g : X -> mask) l m k,
    fold_left (fun m x => mor m (g x)) l m k = m k || existsb (fun x => g x k) l.
  Proof.
    induction l as [|x l IH]; intros m k; simpl.
    - rewrite orb_false_r; reflexivity.
    - rewrite IH. unfold mor. rewrite orb_assoc. reflexivity.
  Qed.

  Lemma tymask_spec : forall tys k, tymask tys k = existsb (fun t => mask_of_tyname t k) tys.
  Proof. intros. unfold tymask. rewrite fold_mor_acc. reflexivity. Qed.

  Lemma ty_matches_mask : forall v t, ty_matches v t = mask_of_tyname t (kind_of v).
  Proof.
    intros v t. destruct t, v; simpl; try reflexivity; unfold mor, msingle; simpl;
      try (destruct (is_int h); reflexivity).
  Qed.

  Lemma tymask_matches : forall tys v, tymask tys (kind_of v) = existsb (ty_matches v) tys.
  Proof.
    intros. rewrite tymask_spec. induction tys as [|t tys IH]; simpl; auto.
    rewrite ty_matches_mask, IH. reflexivity.
  Qed.

  Lemma has_ty_int_mask : forall tys, tymask tys KInt = true -> tymask tys KFloat = false -> has_ty TyInteger tys = true.
  Proof.
    intros tys. rewrite !tymask_spec. induction tys as [|t tys IH]; simpl; try discriminate.
    destruct t; simpl; auto; unfold mor, msingle; simpl; try discriminate.
  Qed.

  Lemma has_ty_number_mask : forall tys, has_ty TyNumber tys = false -> tymask tys KFloat = false.
  Proof.
    intros tys. rewrite tymask_spec. induction tys as [|t tys IH]; simpl; auto.
    destruct t; simpl; auto; unfold mor, msingle; simpl; discriminate.
  Qed.

  Lemma no_int_relcc : forall tys, has_ty TyInteger tys = false ->
    forall k k', ctype_of_kind k = ctype_of_kind k' -> tymask tys k = tymask tys k'.
  Proof.
    intros tys H k k' E. rewrite !tymask_spec.
    induction tys as [|t tys IH]; simpl; auto. simpl in H.
    destruct t; simpl in H; try discriminate; rewrite IH by auto; f_equal;
      destruct k, k'; simpl in E; try discriminate; reflexivity.
  Qed.

  Lemma has_ty_number_full : forall tys, has_ty TyNumber tys = true -> tymask tys KInt = true /\ tymask tys KFloat = true.
  Proof.
    intros tys. rewrite !tymask_spec. induction tys as [|t tys IH]; simpl; try discriminate.
    destruct t; simpl; unfold mor, msingle; simpl; intros H;
      try (destruct (IH H) as [X Y]; rewrite ?X, ?Y; auto); auto.
  Qed.

  Lemma mask_number_has_ty : forall tys, tymask tys KFloat = false -> has_ty TyNumber tys = false.
  Proof.
    intros tys H. destruct (has_ty TyNumber tys) eqn:E; auto. destruct (has_ty_number_full tys E) as [_ X]. congruence.
  Qed.

  Lemma not_int_only_relcc : forall tys, int_only tys = false ->
    forall k k', ctype_of_kind k = ctype_of_kind k' -> tymask tys k = tymask tys k'.
  Proof.
    intros tys H k k' E. unfold int_only in H. destruct (has_ty TyInteger tys) eqn:Hi.
    - simpl in H. apply negb_false_iff in H. destruct (has_ty_number_full tys H) as [X Y].
      destruct k, k'; simpl in E; try discriminate; try reflexivity; congruence.
    - apply no_int_relcc; auto.
  Qed.

  Lemma step_type_eq : forall tys s,
    sem_eq (upd (add_ints tys s) (mand (st_A (add_ints tys s)) (tymask tys)) (st_K (add_ints tys s)) e_top)
           (step_type tys s).
  Proof. intros tys s. unfold step_type, upd, add_all, add_ints. simpl. repeat split. Qed.

  Lemma add_ints_A : forall tys s, st_A (add_ints tys s) = st_A s /\ st_K (add_ints tys s) = st_K s /\
                                    st_all (add_ints tys s) = st_all s.
  Proof. intros tys s. unfold add_ints. destruct (int_only tys); auto. Qed.

  Lemma hasc0_add_ints : forall tys s, int_only tys = true -> hasc0 (add_ints tys s) = true.
  Proof. intros tys s H. unfold add_ints. rewrite H. apply hasc0_add_C. Qed.

  Lemma inv_step_type : forall tys st VS,
    Inv T st VS ->
    Inv T (step_type tys st) (fun v => VS v /\ existsb (ty_matches v) tys = true).
  Proof.
    intros tys st VS H.
    eapply inv_sem_eq; [apply step_type_eq|].
    pose proof (inv_add_ints tys st VS H) as H1.
    destruct (add_ints_A tys st) as (EA & EK & Eall).
    set (s1 := add_ints tys st) in *.
    eapply inv_ext; [| eapply (inv_upd T s1 _ _ _ e_top (fun v => existsb (ty_matches v) tys = true) H1 wfe_top)].
    - (* VS simplification *)
      intros v Hv. split; [tauto|]. intros [HVS Hm]. split; [split; auto|auto].
      intros Hint. destruct v; simpl; auto.
      rewrite <- tymask_matches in Hm. simpl in Hm. destruct (is_int h) eqn:Ei; auto.
      unfold int_only in Hint. apply andb_true_iff in Hint. destruct Hint as [_ Hn]. apply negb_true_iff in Hn.
      rewrite (has_ty_number_mask tys Hn) in Hm. discriminate.
    - intros k Hk. unfold mand in Hk. apply andb_true_iff in Hk. tauto.
    - intros k Hk. unfold mand in Hk. apply andb_true_iff in Hk. destruct Hk as [Hk _].
      apply (i_AK _ _ _ H1). exact Hk.
    - (* c1g *)
      intros v HA [_ Hint] _ Hal. rewrite <- tymask_matches.
      apply allows_iff in Hal. destruct Hal as [k [Ek Hk]]. unfold mand in Hk. apply andb_true_iff in Hk.
      destruct Hk as [_ Hk].
      destruct (kind_eqb k (kind_of v)) eqn:E; [apply kind_eqb_eq in E; subst; auto|].
      (* two different kinds of one core type: numbers *)
      assert (Hn : exists h, v = JNum h).
      { destruct v; destruct k; simpl in Ek, E; try discriminate; eauto. }
      destruct Hn as [h ->]. rewrite ctype_num in Ek. simpl in *.
      destruct k; simpl in Ek; try discriminate.
      + (* k = KInt, v float or int *) destruct (is_int h) eqn:Ei; [simpl in E; discriminate|].
        destruct (tymask tys KFloat) eqn:F; auto.
        assert (Hio : int_only tys = true).
        { unfold int_only. rewrite (has_ty_int_mask tys Hk F), (mask_number_has_ty tys F). reflexivity. }
        pose proof (Hint Hio) as X. simpl in X. congruence.
      + destruct (is_int h) eqn:Ei; [|simpl in E; discriminate].
        (* types has Float => TyNumber in tys => Int as well *)
        rewrite tymask_spec in Hk |- *. clear - Hk. induction tys as [|t l IH]; simpl in *; try discriminate.
        apply orb_true_iff in Hk. destruct Hk as [Hk | Hk]; [|rewrite IH by auto; apply orb_true_r].
        destruct t; simpl in *; unfold mor, msingle in *; simpl in *; try discriminate; reflexivity.
    - intros v _ _. reflexivity.
    - (* c2 *)
      intros v Hv [HVS _] Hm. unfold mand.
      rewrite EA. rewrite (i_snd _ _ _ H v Hv HVS). rewrite tymask_matches. auto.
    - (* c3 *)
      intros Hne v Hall _. apply (i_K _ _ _ H1); auto.
      apply mempty_false in Hne. destruct Hne as [k Hk]. apply mempty_false. exists k.
      unfold mand in Hk. apply andb_true_iff in Hk. tauto.
    - (* cH *)
      intros _ Hh. assert (Hni : int_only tys = false).
      { destruct (int_only tys) eqn:E; auto. pose proof (hasc0_add_ints tys st E) as X.
        fold s1 in X. congruence. }
      destruct (i_H _ _ _ H1 Hh) as [Hback Hcc]. split.
      + intros k k' E Hk Hk'. unfold mand. rewrite (Hcc k k' E Hk Hk'). rewrite (not_int_only_relcc tys Hni k k' E). reflexivity.
      + intros v Hv HA. unfold mand in HA. apply andb_true_iff in HA. destruct HA as [HA Hm].
        split; [apply Hback; auto|]. rewrite <- tymask_matches. exact Hm.
  Qed.

  (* ---------- enum ---------- *)
  Definition enum_a (vs : list json) (s : state) := filter (fun x => st_A s (kind_of x)) vs.
  Definition kmask (a : list json) : mask := fold_left (fun m x => mor m (msingle (kind_of x))) a mnone.

  Lemma kmask_spec : forall a k, kmask a k = existsb (fun x => kind_eqb k (kind_of x)) a.
  Proof. intros. unfold kmask. rewrite fold_mor_acc. reflexivity. Qed.

  Definition enum_e (a : list json) : expr :=
    match a with [] => e_top | _ => e_other (fun j => existsb (json_eqb j) a) end.

  Lemma step_enum_eq : forall vs s,
    step_enum vs s = upd s (mand (st_A s) (kmask (enum_a vs s))) (mand (st_K s) (kmask (enum_a vs s))) (enum_e (enum_a vs s)).
  Proof.
    intros vs s. unfold step_enum, upd, enum_e. fold (enum_a vs s). fold (kmask (enum_a vs s)).
    destruct (enum_a vs s); reflexivity.
  Qed.

  Lemma wfe_enum_e : forall a, wfe (enum_e a).
  Proof. intros [|x a]; [apply wfe_top | apply wfe_other]. Qed.

  Lemma ev_enum_e : forall a v, a <> [] -> ev (enum_e a) v = existsb (json_eqb v) a.
  Proof. intros [|x a] v H; [congruence | reflexivity]. Qed.

  Lemma inv_step_enum : forall vs st VS,
    Inv T st VS -> Inv T (step_enum vs st) (fun v => VS v /\ existsb (json_eqb v) vs = true).
  Proof.
    intros vs st VS H. rewrite step_enum_eq.
    set (a := enum_a vs st).
    assert (Ha : forall x, In x a <-> In x vs /\ st_A st (kind_of x) = true) by (intros; apply filter_In).
    assert (Hin : forall v, st_A st (kind_of v) = true -> existsb (json_eqb v) vs = true ->
                            existsb (json_eqb v) a = true /\ kmask a (kind_of v) = true).
    { intros v HA Hex. apply existsb_exists in Hex. destruct Hex as [x [Hx E]].
      pose proof (json_eqb_kind _ _ E) as Ek. split.
      - apply existsb_exists. exists x. split; auto. apply Ha. split; auto. rewrite <- Ek; auto.
      - rewrite kmask_spec. apply existsb_exists. exists x. split.
        + apply Ha. split; auto. rewrite <- Ek; auto.
        + apply kind_eqb_eq; auto. }
    apply inv_upd; try exact H; try apply wfe_enum_e.
    - intros k Hk. unfold mand in Hk. apply andb_true_iff in Hk. tauto.
    - intros k Hk. unfold mand in *. apply andb_true_iff in Hk. destruct Hk as [H1 H2].
      rewrite (i_AK _ _ _ H k H1), H2. reflexivity.
    - (* c1g *) intros v HA _ He Hal. destruct a as [|x a'] eqn:Ea.
      + apply allows_iff in Hal. destruct Hal as [k [_ Hk]]. unfold mand in Hk. rewrite kmask_spec in Hk.
        simpl in Hk. rewrite andb_false_r in Hk. discriminate.
      + rewrite ev_enum_e in He by discriminate. apply existsb_exists in He. destruct He as [y [Hy E]].
        apply existsb_exists. exists y. split; auto. apply Ha in Hy. tauto.
    - (* c1h *) intros v HA Hex. destruct (Hin v HA Hex) as [H1 _].
      destruct a as [|x a'] eqn:Ea; [reflexivity|]. rewrite ev_enum_e by discriminate. exact H1.
    - (* c2 *) intros v Hv HVS Hex. pose proof (i_snd _ _ _ H v Hv HVS) as HA.
      destruct (Hin v HA Hex) as [_ H2]. unfold mand. rewrite HA, H2. reflexivity.
    - (* c3 *) intros Hne v Hall He. destruct a as [|x a'] eqn:Ea.
      + apply mempty_false in Hne. destruct Hne as [k Hk]. unfold mand in Hk. rewrite kmask_spec in Hk.
        simpl in Hk. rewrite andb_false_r in Hk. discriminate.
      + rewrite ev_enum_e in He by discriminate. apply existsb_exists in He. destruct He as [y [Hy E]].
        pose proof (json_eqb_kind _ _ E) as Ek.
        apply allows_iff. exists (kind_of v). split; auto. unfold mand.
        pose proof (proj1 (Ha y) Hy) as [_ HAy].
        rewrite Ek. rewrite (i_AK _ _ _ H _ HAy). rewrite kmask_spec. rewrite andb_true_l.
        apply existsb_exists. exists y. split; auto. apply kind_eqb_eq; reflexivity.
    - (* cH *) intros Htop _. destruct a as [|x a'] eqn:Ea; [|simpl in Htop; discriminate].
      split.
      + intros k k' _ _ _. unfold mand. rewrite !kmask_spec. simpl. rewrite !andb_false_r. reflexivity.
      + intros v _ HA. unfold mand in HA. rewrite kmask_spec in HA. simpl in HA. rewrite andb_false_r in HA. discriminate.
  Qed.

  (* ---------- const ---------- *)
  Lemma step_const_eq : forall c s,
    sem_eq (upd s (mand (st_A s) (msingle (kind_of c))) (mand (st_K s) (msingle (kind_of c))) (const_pred c))
           (step_const c s).
  Proof. intros c s. unfold step_const, upd, add_all. simpl. repeat split. Qed.

  Lemma inv_step_const : forall c st VS,
    Inv T st VS -> Inv T (step_const c st) (fun v => VS v /\ json_eqb v c = true).
  Proof.
    intros c st VS H. eapply inv_sem_eq; [apply step_const_eq|].
    apply inv_upd; try exact H; try (unfold const_pred; apply wfe_other).
    - intros k Hk. unfold mand in Hk. apply andb_true_iff in Hk. tauto.
    - intros k Hk. unfold mand in *. apply andb_true_iff in Hk. destruct Hk as [H1 H2].
      rewrite (i_AK _ _ _ H k H1), H2. reflexivity.
    - intros v _ _ He _. exact He.
    - intros v _ He. exact He.
    - intros v Hv HVS He. unfold mand, msingle. rewrite (i_snd _ _ _ H v Hv HVS).
      rewrite (json_eqb_kind _ _ He). simpl. apply kind_eqb_eq. reflexivity.
    - intros Hne v Hall He. simpl in He. apply allows_iff. exists (kind_of v). split; auto.
      unfold mand, msingle. rewrite (json_eqb_kind _ _ He).
      apply mempty_false in Hne. destruct Hne as [k Hk]. unfold mand, msingle in Hk.
      apply andb_true_iff in Hk. destruct Hk as [HAk Ek]. apply kind_eqb_eq in Ek. subst k.
      rewrite (i_AK _ _ _ H _ HAk). simpl. apply kind_eqb_eq. reflexivity.
    - intros Htop. simpl in Htop. discriminate.
  Qed.

  (* ---------- the per-type assertion keywords ---------- *)
  Lemma inv_num : forall f st VS,
    Inv T st VS -> Inv T (add_C st TNum (num_pred f)) (fun v => VS v /\ on_num f v = true).
  Proof.
    intros f st VS H. apply inv_add_C; auto.
    - intros [] Hv; tysolve.
    - intros [] Hv; tysolve.
    - intros [] Hv; tysolve.
  Qed.
  Lemma inv_str : forall f st VS,
    Inv T st VS -> Inv T (add_C st TStr (str_pred f)) (fun v => VS v /\ on_str f v = true).
  Proof.
    intros f st VS H. apply inv_add_C; auto.
    - intros [] Hv; tysolve.
    - intros [] Hv; tysolve.
    - intros [] Hv; tysolve.
  Qed.
  Lemma inv_arr : forall f st VS,
    Inv T st VS -> Inv T (add_C st TArr (arr_pred f)) (fun v => VS v /\ on_arr f v = true).
  Proof.
    intros f st VS H. apply inv_add_C; auto.
    - intros [] Hv; tysolve.
    - intros [] Hv; tysolve.
    - intros [] Hv; tysolve.
  Qed.
  Lemma inv_obj : forall f st VS,
    Inv T st VS -> Inv T (add_C st TObj (obj_pred f)) (fun v => VS v /\ on_obj f v = true).
  Proof.
    intros f st VS H. apply inv_add_C; auto.
    - intros [] Hv; tysolve.
    - intros [] Hv; tysolve.
    - intros [] Hv; tysolve.
  Qed.

  Lemma inv_step_multipleOf : forall k st VS,
    Inv T st VS -> Inv T (step_multipleOf k st) (fun v => VS v /\ on_num (multiple_of k) v = true).
  Proof.
    intros k st VS H. unfold step_multipleOf.
    apply inv_num. destruct (Z.leb k 0); auto. eapply inv_sem_eq; [apply sem_eq_set_bad | exact H].
  Qed.

  (* ---------- phase 1 as a whole ---------- *)
  Definition VA1 (a : assertions) (v : json) : Prop :=
    (((((((((((((( True /\
    optP (fun tys => existsb (ty_matches v) tys = true) (a_type a)) /\
    optP (fun vs => existsb (json_eqb v) vs = true) (a_enum a)) /\
    optP (fun c => json_eqb v c = true) (a_const a)) /\
    optP (fun k => on_num (multiple_of k) v = true) (a_multipleOf a)) /\
    optP (fun b => on_num (fun h => Z.ltb h b) v = true) (a_xmax a)) /\
    optP (fun b => on_num (fun h => Z.ltb b h) v = true) (a_xmin a)) /\
    optP (fun n => on_str (fun s => N.leb (N_len s) n) v = true) (a_maxLength a)) /\
    optP (fun n => on_str (fun s => N.leb n (N_len s)) v = true) (a_minLength a)) /\
    optP (fun p => on_str (re p) v = true) (a_pattern a)) /\
    optP (fun n => on_obj (fun m => N.leb (N_len m) n) v = true) (a_maxProps a)) /\
    optP (fun n => on_obj (fun m => N.leb n (N_len m)) v = true) (a_minProps a)) /\
    optP (fun n => on_arr (fun l => N.leb (N_len l) n) v = true) (a_maxItems a)) /\
    optP (fun n => on_arr (fun l => N.leb n (N_len l)) v = true) (a_minItems a)) /\
    optP (fun u : bool => (if u then on_arr unique_items v else true) = true) (a_unique a)).

  Lemma inv_phase1 : forall a, Inv T (phase1 re a (init T)) (VA1 a).
  Proof.
    intros a. unfold phase1, VA1.
    let rec peel n := match n with
                      | O => idtac
                      | S ?m => apply inv_opt_step; [intros x st VS H | peel m]
                      end in peel 13.
    - destruct x; [apply inv_arr; exact H|]. eapply inv_ext; [|exact H]. intros; tauto.
    - apply inv_arr; auto.
    - apply inv_arr; auto.
    - apply inv_obj; auto.
    - apply inv_obj; auto.
    - apply inv_str; auto.
    - apply inv_str; auto.
    - apply inv_str; auto.
    - apply inv_num; auto.
    - apply inv_num; auto.
    - apply inv_step_multipleOf; auto.
    - apply inv_step_const; auto.
    - apply inv_step_enum; auto.
    - destruct (a_type a) as [tys|] eqn:E.
      + simpl. apply inv_step_type. apply inv_init.
      + simpl. eapply inv_ext; [|apply inv_init]. intros; simpl; tauto.
  Qed.

End Phase1.
