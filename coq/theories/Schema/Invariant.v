(* The invariant of the decoder state and the two generic preservation lemmas
   (a constraint added to one core type; a constraint added to s.all together
   with an update of allowedTypes / knownTypes). *)
From Verif Require Import Schema.Json Schema.Sem Schema.Encode Schema.Proofs.
From Coq Require Import List NArith ZArith Bool Lia.
Import ListNotations.

(* ---------- states up to the error / deviation flags ---------- *)
Definition sem_eq (s s' : state) : Prop :=
  st_A s = st_A s' /\ st_K s = st_K s' /\ st_all s = st_all s' /\ st_C s = st_C s' /\
  st_obj s = st_obj s' /\ st_prefix s = st_prefix s' /\ st_rest s = st_rest s'.

Lemma sem_eq_refl : forall s, sem_eq s s.
Proof. intros s; repeat split. Qed.

Lemma sem_eq_trans : forall a b c, sem_eq a b -> sem_eq b c -> sem_eq a c.
Proof. unfold sem_eq. intros a b c H1 H2. intuition congruence. Qed.

Lemma sem_eq_set_bad : forall s, sem_eq s (set_bad s).
Proof. intros s; repeat split. Qed.
Lemma sem_eq_set_poison : forall s, sem_eq s (set_poison s).
Proof. intros s; repeat split. Qed.
Lemma sem_eq_add_dev : forall c s, sem_eq s (add_dev c s).
Proof. intros c s; repeat split. Qed.
Lemma sem_eq_dev_if : forall b c s, sem_eq s (dev_if b c s).
Proof. intros [] c s; unfold dev_if; [apply sem_eq_add_dev | apply sem_eq_refl]. Qed.
Lemma sem_eq_absorb : forall r s, sem_eq s (absorb r s).
Proof.
  intros r s. unfold absorb.
  eapply sem_eq_trans; [|apply sem_eq_add_dev].
  destruct (r_poison r); [eapply sem_eq_trans; [|apply sem_eq_set_poison]|];
    (destruct (r_bad r); [apply sem_eq_set_bad | apply sem_eq_refl]).
Qed.
Lemma sem_eq_absorb_all : forall rs s, sem_eq s (absorb_all rs s).
Proof.
  induction rs as [|r rs IH]; intros s; simpl; [apply sem_eq_refl|].
  unfold absorb_all in *. simpl. eapply sem_eq_trans; [apply (sem_eq_absorb r)| apply IH].
Qed.
Lemma sem_eq_if : forall (b : bool) s s', sem_eq s s' -> sem_eq s (if b then s' else s).
Proof. intros [] s s' H; [exact H | apply sem_eq_refl]. Qed.

Lemma sem_eq_sym : forall a b, sem_eq a b -> sem_eq b a.
Proof. unfold sem_eq. intros a b H. intuition congruence. Qed.

(* the state-building functions respect sem_eq *)
Lemma sem_eq_add_all : forall s s' e, sem_eq s s' -> sem_eq (add_all s e) (add_all s' e).
Proof.
  intros s s' e (a & b & c & d & f & g & h). unfold add_all. destruct (is_top e); repeat split; simpl; congruence.
Qed.
Lemma sem_eq_set_A : forall s s' m, sem_eq s s' -> sem_eq (set_A s m) (set_A s' m).
Proof. intros s s' m (a & b & c & d & f & g & h). repeat split; simpl; congruence. Qed.
Lemma sem_eq_set_K : forall s s' m, sem_eq s s' -> sem_eq (set_K s m) (set_K s' m).
Proof. intros s s' m (a & b & c & d & f & g & h). repeat split; simpl; congruence. Qed.
Lemma sem_eq_add_C : forall s s' t p, sem_eq s s' -> sem_eq (add_C s t p) (add_C s' t p).
Proof.
  intros s s' t p H. destruct s, s'. destruct H as (a & b & c & d & f & g & h); simpl in *; subst. repeat split.
Qed.
Lemma sem_eq_set_obj : forall s s' o, sem_eq s s' -> sem_eq (set_obj s o) (set_obj s' o).
Proof. intros s s' o (a & b & c & d & f & g & h). repeat split; simpl; congruence. Qed.
Lemma sem_eq_set_list : forall s s' p r, sem_eq s s' -> sem_eq (set_list s p r) (set_list s' p r).
Proof. intros s s' p r (a & b & c & d & f & g & h). repeat split; simpl; congruence. Qed.
Lemma sem_eq_setAK_id : forall s, sem_eq (set_K (set_A s (st_A s)) (st_K s)) s.
Proof. intros s. repeat split. Qed.

(* the deviation list only grows *)
Lemma dev_absorb : forall r s, st_dev (absorb r s) = st_dev s ++ r_dev r.
Proof. intros r s. unfold absorb. simpl. destruct (r_poison r), (r_bad r); reflexivity. Qed.
Lemma dev_dev_if : forall b c s, st_dev (dev_if b c s) = st_dev s ++ (if b then [c] else []).
Proof. intros [] c s; simpl; auto using app_nil_r. Qed.
Lemma dev_absorb_all : forall rs s, st_dev (absorb_all rs s) = st_dev s ++ flat_map r_dev rs.
Proof.
  induction rs as [|r rs IH]; intros s; simpl; [auto using app_nil_r|].
  unfold absorb_all in *. simpl. rewrite IH, dev_absorb, app_assoc. reflexivity.
Qed.

Section Inv.
  Variable re : pat -> str -> bool.

  Definition allc (st : state) (v : json) : bool := forallb (fun c => ev c v) (st_all st).
  Definition cC (st : state) (v : json) : bool := conjp (st_C st (ctype_of v)) v.
  Definition core (st : state) (v : json) : bool := allc st v && allows (st_A st) (ctype_of v) && cC st v.
  Definition hasc0 (st : state) : bool :=
    match st_all st with [] => false | _ => true end ||
    existsb (fun t => match st_C st t with [] => false | _ => true end) all_ctypes.

  (* what isTop / isErrorCall may assume about an expression *)
  Definition wfe (e : expr) : Prop :=
    (is_top e = true -> forall v, ev e v = true) /\ (is_err e = true -> forall v, ev e v = false).

  Record Inv (T : mask) (st : state) (VS : json -> Prop) : Prop := mkInv {
    i_AK : forall k, st_A st k = true -> st_K st k = true;
    i_AT : forall k, st_A st k = true -> T k = true;
    i_snd : forall v, T (kind_of v) = true -> VS v -> st_A st (kind_of v) = true;
    i_M : forall v, T (kind_of v) = true -> (core st v = true <-> VS v);
    i_K : mempty (st_A st) = false -> forall v, allc st v = true -> allows (st_K st) (ctype_of v) = true;
    i_Ct : forall t p, In p (st_C st t) -> forall v, p v = true -> ctype_of v = t;
    i_H : hasc0 st = false ->
          (forall v, T (kind_of v) = true -> st_A st (kind_of v) = true -> VS v) /\ relcc T (st_A st);
    i_wf : forall c, In c (st_all st) -> wfe c
  }.

  Lemma inv_sem_eq : forall T st st' VS, sem_eq st st' -> Inv T st VS -> Inv T st' VS.
  Proof.
    intros T st st' VS (EA & EK & Eall & EC & _) [h1 h2 h3 h4 h5 h6 h7 h8].
    assert (Ecore : forall v, core st' v = core st v).
    { intros v. unfold core, allc, cC. rewrite <- EA, <- Eall, <- EC. reflexivity. }
    constructor.
    - rewrite <- EA, <- EK. exact h1.
    - rewrite <- EA. exact h2.
    - rewrite <- EA. exact h3.
    - intros v Hv. rewrite Ecore. auto.
    - rewrite <- EA, <- EK. unfold allc in *. rewrite <- Eall. exact h5.
    - rewrite <- EC. exact h6.
    - unfold hasc0. rewrite <- EA, <- Eall, <- EC. exact h7.
    - rewrite <- Eall. exact h8.
  Qed.

  Lemma inv_ext : forall T st (VS VS' : json -> Prop),
    (forall v, T (kind_of v) = true -> (VS v <-> VS' v)) -> Inv T st VS -> Inv T st VS'.
  Proof.
    intros T st VS VS' E [h1 h2 h3 h4 h5 h6 h7 h8]. constructor; auto.
    - intros v Hv H. apply h3; auto. apply E; auto.
    - intros v Hv. rewrite h4 by auto. apply E; auto.
    - intros H. destruct (h7 H) as [a b]. split; auto. intros v Hv HA. apply E; auto.
  Qed.

  Lemma inv_init : forall T, Inv T (init T) (fun _ => True).
  Proof.
    intros T. constructor; simpl; auto.
    - intros v Hv. unfold core, allc, cC, conjp. simpl. rewrite (allows_kind T v Hv). tauto.
    - intros _ v _. apply allows_iff. exists (kind_of v). split; auto.
    - intros t p [].
    - intros _. split; auto. intros k k' _ H1 H2. simpl. congruence.
    - intros c [].
  Qed.

  (* ---------- a constraint on one core type ---------- *)
  Lemma cC_add_C : forall st t p v,
    cC (add_C st t p) v = cC st v && (if ctype_eqb (ctype_of v) t then p v else true).
  Proof.
    intros st t p v. unfold cC, add_C, conjp. simpl.
    destruct (ctype_eqb (ctype_of v) t).
    - rewrite forallb_app. simpl. rewrite andb_true_r. reflexivity.
    - rewrite andb_true_r. reflexivity.
  Qed.

  Lemma hasc0_add_C : forall st t p, hasc0 (add_C st t p) = true.
  Proof.
    intros st t p. unfold hasc0. apply orb_true_iff. right. apply existsb_exists.
    exists t. split; [apply all_ctypes_complete|]. simpl. rewrite ctype_eqb_refl.
    destruct (st_C st t); reflexivity.
  Qed.

  Lemma inv_add_C : forall T st VS t p (Q : json -> Prop),
    Inv T st VS ->
    (forall v, p v = true -> ctype_of v = t) ->
    (forall v, ctype_of v = t -> (p v = true <-> Q v)) ->
    (forall v, ctype_of v <> t -> Q v) ->
    Inv T (add_C st t p) (fun v => VS v /\ Q v).
  Proof.
    intros T st VS t p Q [h1 h2 h3 h4 h5 h6 h7 h8] Hp HQ Hother.
    constructor; try exact h1; try exact h2; try exact h8.
    - intros v Hv [H _]. simpl. auto.
    - intros v Hv. unfold core. rewrite cC_add_C. change (allc (add_C st t p) v) with (allc st v).
      change (st_A (add_C st t p)) with (st_A st).
      rewrite <- (h4 v Hv). unfold core.
      destruct (ctype_eqb (ctype_of v) t) eqn:E.
      + apply ctype_eqb_eq in E. rewrite <- (HQ v E).
        rewrite !andb_true_iff. tauto.
      + assert (ctype_of v <> t) by (intro X; apply ctype_eqb_eq in X; congruence).
        rewrite !andb_true_iff. intuition.
    - exact h5.
    - intros t' p' Hin v Hv. simpl in Hin. destruct (ctype_eqb t' t) eqn:E.
      + apply ctype_eqb_eq in E. subst t'. apply in_app_or in Hin. destruct Hin as [Hin | [<- | []]]; eauto.
      + eauto.
    - rewrite hasc0_add_C. discriminate.
  Qed.

  (* ---------- a constraint on s.all, with new masks ---------- *)
  Definition upd (st : state) (A' K' : mask) (e : expr) : state := add_all (set_K (set_A st A') K') e.

  Lemma upd_fields : forall st A' K' e,
    st_A (upd st A' K' e) = A' /\ st_K (upd st A' K' e) = K' /\ st_C (upd st A' K' e) = st_C st /\
    st_all (upd st A' K' e) = (if is_top e then st_all st else st_all st ++ [e]) /\
    st_obj (upd st A' K' e) = st_obj st /\ st_prefix (upd st A' K' e) = st_prefix st /\
    st_rest (upd st A' K' e) = st_rest st.
  Proof. intros. unfold upd, add_all. destruct (is_top e); simpl; repeat split. Qed.

  Lemma allc_upd : forall st A' K' e v, wfe e -> allc (upd st A' K' e) v = allc st v && ev e v.
  Proof.
    intros st A' K' e v [Ht _]. unfold allc.
    destruct (upd_fields st A' K' e) as (_ & _ & _ & -> & _).
    destruct (is_top e) eqn:E.
    - rewrite (Ht eq_refl v). rewrite andb_true_r. reflexivity.
    - rewrite forallb_app. simpl. rewrite andb_true_r. reflexivity.
  Qed.

  Lemma inv_upd : forall T st VS A' K' e (Q : json -> Prop),
    Inv T st VS -> wfe e ->
    (forall k, A' k = true -> st_A st k = true) ->
    (forall k, A' k = true -> K' k = true) ->
    (forall v, st_A st (kind_of v) = true -> VS v -> ev e v = true -> allows A' (ctype_of v) = true -> Q v) ->
    (forall v, st_A st (kind_of v) = true -> Q v -> ev e v = true) ->
    (forall v, T (kind_of v) = true -> VS v -> Q v -> A' (kind_of v) = true) ->
    (mempty A' = false -> forall v, allc st v = true -> ev e v = true -> allows K' (ctype_of v) = true) ->
    (is_top e = true -> hasc0 st = false ->
       relcc T A' /\ forall v, T (kind_of v) = true -> A' (kind_of v) = true -> VS v /\ Q v) ->
    Inv T (upd st A' K' e) (fun v => VS v /\ Q v).
  Proof.
    intros T st VS A' K' e Q [h1 h2 h3 h4 h5 h6 h7 h8] We HA HAK c1g c1h c2 c3 cH.
    destruct (upd_fields st A' K' e) as (EA & EK & EC & Eall & _).
    constructor.
    - rewrite EA, EK. exact HAK.
    - rewrite EA. auto.
    - rewrite EA. intros v Hv [H1 H2]. auto.
    - intros v Hv. unfold core. rewrite allc_upd by auto. rewrite EA. unfold cC. rewrite EC.
      fold (cC st v). split.
      + intros H. rewrite !andb_true_iff in H. destruct H as [[[Ha He] Hal] Hc].
        assert (Hcore : core st v = true).
        { unfold core. rewrite Ha, Hc. rewrite (allows_mono A' (st_A st) _ HA Hal). reflexivity. }
        apply (h4 v Hv) in Hcore. split; [exact Hcore|].
        apply c1g; auto.
      + intros [HVS HQ]. pose proof (proj2 (h4 v Hv) HVS) as Hcore. unfold core in Hcore.
        rewrite !andb_true_iff in Hcore. destruct Hcore as [[Ha _] Hc].
        rewrite Ha, Hc. rewrite (c1h v (h3 v Hv HVS) HQ).
        rewrite (allows_kind A' v (c2 v Hv HVS HQ)). reflexivity.
    - rewrite EA, EK. intros Hne v Hall. rewrite allc_upd in Hall by auto.
      apply andb_true_iff in Hall. destruct Hall. auto.
    - rewrite EC. exact h6.
    - intros Hh. assert (Htop : is_top e = true /\ hasc0 st = false).
      { unfold hasc0 in *. rewrite EC, Eall in Hh. apply orb_false_iff in Hh. destruct Hh as [Hh1 Hh2].
        destruct (is_top e) eqn:E.
        - split; auto. rewrite Hh1, Hh2. reflexivity.
        - destruct (st_all st); discriminate. }
      destruct Htop as [Htop Hh0]. destruct (cH Htop Hh0) as [Hcc Hback].
      rewrite EA. split; auto.
    - rewrite Eall. intros c Hin. destruct (is_top e); auto.
      apply in_app_or in Hin. destruct Hin as [Hin | [<- | []]]; auto.
  Qed.

End Inv.
