(* The struct literal built by properties / patternProperties /
   additionalProperties / required accepts what those keywords demand. *)
From Verif Require Import Schema.Json Schema.Sem Schema.Encode Schema.Proofs.
From Coq Require Import List NArith ZArith Bool Lia.
Import ListNotations.

Section ObjSem.
  Variable re : pat -> str -> bool.

  Definition req_step (fs : list field) (k : str) : list field :=
    if existsb (fun f => str_eqb k (f_name f)) fs then mark_required k fs else fs ++ [mkF k true e_top].
  Definition req_fold (req : list str) (fs : list field) : list field := fold_left req_step req fs.

  Definition fval_ok (k : str) (v : json) (f : field) : bool := negb (str_eqb k (f_name f)) || ev (f_val f) v.
  Definition freq_ok (m : list (str * json)) (f : field) : bool := negb (f_req f) || has_key (f_name f) m.

  Lemma mark_vals : forall k0 k v fs, forallb (fval_ok k v) (mark_required k0 fs) = forallb (fval_ok k v) fs.
  Proof.
    induction fs as [|f fs IH]; simpl; auto.
    destruct (str_eqb k0 (f_name f)); simpl; rewrite IH; reflexivity.
  Qed.
  Lemma mark_names : forall k0 k fs,
    existsb (fun f => str_eqb k (f_name f)) (mark_required k0 fs) = existsb (fun f => str_eqb k (f_name f)) fs.
  Proof.
    induction fs as [|f fs IH]; simpl; auto.
    destruct (str_eqb k0 (f_name f)); simpl; rewrite IH; reflexivity.
  Qed.
  Lemma mark_req : forall k0 m fs,
    forallb (freq_ok m) (mark_required k0 fs) =
    forallb (freq_ok m) fs && (negb (existsb (fun f => str_eqb k0 (f_name f)) fs) || has_key k0 m).
  Proof.
    induction fs as [|f fs IH]; simpl; auto.
    destruct (str_eqb k0 (f_name f)) eqn:E; simpl; rewrite IH.
    - apply str_eqb_eq in E. unfold freq_ok at 1 3. simpl. rewrite <- E.
      destruct (f_req f), (has_key k0 m), (forallb (freq_ok m) fs); simpl; auto;
        destruct (existsb (fun f0 => str_eqb k0 (f_name f0)) fs); reflexivity.
    - rewrite andb_assoc. reflexivity.
  Qed.

  Lemma req_fold_vals : forall req k v fs, forallb (fval_ok k v) (req_fold req fs) = forallb (fval_ok k v) fs.
  Proof.
    induction req as [|k0 req IH]; intros k v fs; simpl; auto.
    unfold req_fold in *. simpl. rewrite IH. unfold req_step.
    destruct (existsb (fun f => str_eqb k0 (f_name f)) fs).
    - apply mark_vals.
    - rewrite forallb_app. simpl. unfold fval_ok at 2. simpl. rewrite orb_true_r, !andb_true_r. reflexivity.
  Qed.

  Lemma req_fold_names : forall req k fs,
    existsb (fun f => str_eqb k (f_name f)) (req_fold req fs) =
    existsb (fun f => str_eqb k (f_name f)) fs || mem_str k req.
  Proof.
    induction req as [|k0 req IH]; intros k fs; simpl; [rewrite orb_false_r; reflexivity|].
    unfold req_fold in *. simpl. rewrite IH. unfold req_step.
    destruct (existsb (fun f => str_eqb k0 (f_name f)) fs) eqn:E.
    - rewrite mark_names. destruct (str_eqb k k0) eqn:Ek; simpl; auto.
      apply str_eqb_eq in Ek. subst k0. rewrite E. reflexivity.
    - rewrite existsb_app. simpl. rewrite orb_false_r, <- orb_assoc. reflexivity.
  Qed.

  Lemma req_fold_req : forall req (m : list (str * json)) fs,
    forallb (freq_ok m) (req_fold req fs) = forallb (freq_ok m) fs && forallb (fun k => has_key k m) req.
  Proof.
    induction req as [|k0 req IH]; intros m fs; simpl; [rewrite andb_true_r; reflexivity|].
    unfold req_fold in *. simpl. rewrite IH. unfold req_step.
    destruct (existsb (fun f => str_eqb k0 (f_name f)) fs) eqn:E.
    - rewrite mark_req, E. simpl. rewrite andb_assoc. reflexivity.
    - rewrite forallb_app. simpl. unfold freq_ok at 2. simpl. rewrite andb_true_r, andb_assoc. reflexivity.
  Qed.

  Lemma step_required_obj : forall req s,
    st_obj (step_required req s) =
    Some (mkO (req_fold req (ob_fields (the_obj s))) (ob_pats (the_obj s)) (ob_addl (the_obj s)) (ob_open (the_obj s))).
  Proof.
    intros req s. unfold step_required.
    set (s0 := if nodup_str req then s else set_bad s).
    assert (E0 : the_obj s0 = the_obj s) by (unfold s0; destruct (nodup_str req); reflexivity).
    rewrite E0. simpl. unfold req_fold, req_step. reflexivity.
  Qed.

  (* ---------- what the finished literal accepts ---------- *)
  Variable lp : list (str * schema).          (* properties (empty when absent) *)
  Variable lpp : list (pat * schema).         (* patternProperties *)
  Variable V : schema -> json -> bool.        (* validity of subschemas *)

  Definition fields0 (rp : list (str * expr)) : list field := map (fun kr => mkF (fst kr) false (snd kr)) rp.

  Lemma fields0_vals : forall (rp : list (str * expr)) k v,
    Forall2 (fun ks kr => fst ks = fst kr /\ forall x, ev (snd kr) x = V (snd ks) x) lp rp ->
    forallb (fval_ok k v) (fields0 rp) = forallb (fun ks => negb (str_eqb k (fst ks)) || V (snd ks) v) lp.
  Proof.
    intros rp k v F. induction F as [|ks kr l r [E1 E2] F IH]; simpl; auto.
    rewrite IH. unfold fval_ok. simpl. rewrite E1, E2. reflexivity.
  Qed.

  Lemma fields0_names : forall (rp : list (str * expr)) k,
    Forall2 (fun ks kr => fst ks = fst kr /\ forall x, ev (snd kr) x = V (snd ks) x) lp rp ->
    existsb (fun f => str_eqb k (f_name f)) (fields0 rp) = has_key k lp.
  Proof.
    intros rp k F. unfold has_key. induction F as [|ks kr l r [E1 E2] F IH]; simpl; auto.
    rewrite IH, E1. reflexivity.
  Qed.

  Lemma fields0_req : forall (rp : list (str * expr)) m, forallb (freq_ok m) (fields0 rp) = true.
  Proof. induction rp as [|x rp IH]; intros m; simpl; auto. Qed.

  Lemma pats_vals : forall (rpp : list (pat * expr)) k v,
    Forall2 (fun ps pr => fst ps = fst pr /\ forall x, ev (snd pr) x = V (snd ps) x) lpp rpp ->
    forallb (fun pe => negb (re (fst pe) k) || ev (snd pe) v) rpp =
    forallb (fun ps => negb (re (fst ps) k) || V (snd ps) v) lpp.
  Proof.
    intros rpp k v F. induction F as [|ps pr l r [E1 E2] F IH]; simpl; auto.
    rewrite IH, E1, E2. reflexivity.
  Qed.

  Lemma pats_names : forall (rpp : list (pat * expr)) k,
    Forall2 (fun ps pr => fst ps = fst pr /\ forall x, ev (snd pr) x = V (snd ps) x) lpp rpp ->
    existsb (fun pe => re (fst pe) k) rpp = existsb (fun ps => re (fst ps) k) lpp.
  Proof.
    intros rpp k F. induction F as [|ps pr l r [E1 E2] F IH]; simpl; auto.
    rewrite IH, E1. reflexivity.
  Qed.

  Lemma pats_map_fst : forall (rpp : list (pat * expr)) k,
    forallb (fun p => negb (re p k)) (map fst rpp) = negb (existsb (fun pe => re (fst pe) k) rpp).
  Proof.
    induction rpp as [|x r IH]; intros k; simpl; auto. rewrite IH, negb_orb. reflexivity.
  Qed.

  Lemma mem_str_names : forall fs k, mem_str k (map f_name fs) = existsb (fun f => str_eqb k (f_name f)) fs.
  Proof. induction fs as [|f fs IH]; intros k; simpl; auto. unfold mem_str in *. simpl. rewrite IH. reflexivity. Qed.

End ObjSem.
