(* $ref resolution composed with the correctness of the encoding, and examples. *)
From Coq Require Import List ZArith NArith Bool Lia.
From Verif Require Import Schema.Json Schema.Sem Schema.Encode Schema.Proofs Schema.Main Schema.Refs Schema.RefsProofs.
Import ListNotations.

(* a document with (acyclic) references whose inlined form is inside the fragment: the CUE produced
   for it accepts exactly the instances that are valid when the references are followed *)
Theorem encode_correct_doc : forall re defs s,
  doc_ok defs s = true -> in_fragment re (resolve_doc defs s) ->
  forall f j, length defs <= f -> encode re (resolve_doc defs s) j = valid_r re f defs s j.
Proof.
  intros re defs s D F f j L. rewrite (valid_r_stable re defs s D f j L). apply encode_correct; auto.
Qed.

Definition a_ty (t : tyname) : assertions :=
  mkA (Some [t]) None None None None None None None None None None None None None None None None None None.
Definition re0 : pat -> str -> bool := fun _ _ => false.

(* root -> d0 -> d1 -> d2 = {"type":"string"};  d1 also has "items": {"$ref": d2};
   the root has a property "a" that refers to d1 *)
Definition ex_defs : list rschema :=
  [ RObj no_assertions (Some 1) no_applic;
    RObj no_assertions (Some 2)
         (mkP None None None None None None None None None None None None None None
              (Some (RObj no_assertions (Some 2) no_applic)));
    RObj (a_ty TyString) None no_applic ].
Definition ex_root : rschema :=
  RObj no_assertions (Some 0)
       (mkP None None None None None None None None
            (Some [([97%N], RObj no_assertions (Some 1) no_applic)]) None None None None None None).

Example ex_doc_ok : doc_ok ex_defs ex_root = true.
Proof. vm_compute. reflexivity. Qed.
Example ex_doc_in_fragment : in_fragment re0 (resolve_doc ex_defs ex_root).
Proof. vm_compute. reflexivity. Qed.
Example ex_doc_verdicts :
  valid_r re0 3 ex_defs ex_root (JStr [120%N]) = true /\
  valid_r re0 3 ex_defs ex_root (JNum 2) = false /\
  encode re0 (resolve_doc ex_defs ex_root) (JStr [120%N]) = true /\
  encode re0 (resolve_doc ex_defs ex_root) (JNum 2) = false.
Proof. vm_compute. repeat split. Qed.

(* the bound on the fuel is needed: with fuel 2 the chain root -> d0 -> d1 -> d2 is cut and 1 is accepted *)
Example ex_fuel_too_small : valid_r re0 2 ex_defs ex_root (JNum 2) = true /\ valid_r re0 3 ex_defs ex_root (JNum 2) = false.
Proof. vm_compute. split; reflexivity. Qed.

(* a cyclic table, a backward reference and a dangling reference are not well-formed documents *)
Example ex_cyclic_not_ok :
  doc_ok [RObj no_assertions (Some 0) no_applic] (RBool true) = false /\
  doc_ok [RBool true; RObj no_assertions (Some 0) no_applic] (RBool true) = false /\
  doc_ok [] (RObj no_assertions (Some 0) no_applic) = false.
Proof. vm_compute. repeat split. Qed.
