(* Theorems about the tidy model (Tidy/Model.v). *)
From Coq Require Import List Bool NArith Arith Lia Sorted Permutation.
From Verif Require Import Base.Order Tidy.Model Tidy.Sets.
Import ListNotations.

Definition set_eq {A} (l l' : list A) : Prop := forall z, In z l <-> In z l'.

(* ====================================================================== *)
(* 1. Order independence: the inputs are sets of facts                      *)
(* ====================================================================== *)
Lemma norm_universe_set_eq u u' :
  set_eq (u_mods u) (u_mods u') -> set_eq (u_deps u) (u_deps u') ->
  set_eq (u_pkgs u) (u_pkgs u') -> set_eq (u_imps u) (u_imps u') -> set_eq (u_std u) (u_std u') ->
  norm_universe u = norm_universe u'.
Proof.
  intros H1 H2 H3 H4 H5. unfold norm_universe. f_equal.
  - apply sort_dedup_set_eq; [apply node_cmp_total | exact H1].
  - apply sort_dedup_set_eq; [|exact H2].
    apply lex_total; [apply node_cmp_total | apply dep_cmp_total].
  - apply sort_dedup_set_eq; [|exact H3].
    apply lex_total; [apply node_cmp_total | apply path_cmp_total].
  - apply sort_dedup_set_eq; [|exact H4].
    apply lex_total; [apply lex_total; [apply node_cmp_total | apply path_cmp_total] | apply import_cmp_total].
  - apply sort_dedup_set_eq; [apply N_compare_total | exact H5].
Qed.

Lemma norm_main_set_eq m m' :
  m_base m = m_base m' -> m_major m = m_major m' ->
  set_eq (m_dirs m) (m_dirs m') -> set_eq (m_imports m) (m_imports m') ->
  norm_main m = norm_main m'.
Proof.
  intros H1 H2 H3 H4. unfold norm_main. rewrite H1, H2. f_equal.
  - apply sort_dedup_set_eq; [apply path_cmp_total | exact H3].
  - apply sort_dedup_set_eq; [apply import_cmp_total | exact H4].
Qed.

Lemma norm_deps_set_eq ds ds' : set_eq ds ds' -> norm_deps ds = norm_deps ds'.
Proof. apply sort_dedup_set_eq, dep_cmp_total. Qed.

(* files, imports, module.cue entries, registry contents: only the SETS matter
   (any permutation, any repetition, any distribution over files) *)
Theorem resolve_order_independent fuel ifuel u u' m m' ds ds' :
  set_eq (u_mods u) (u_mods u') -> set_eq (u_deps u) (u_deps u') ->
  set_eq (u_pkgs u) (u_pkgs u') -> set_eq (u_imps u) (u_imps u') -> set_eq (u_std u) (u_std u') ->
  m_base m = m_base m' -> m_major m = m_major m' ->
  set_eq (m_dirs m) (m_dirs m') -> set_eq (m_imports m) (m_imports m') ->
  set_eq ds ds' ->
  tidy_model fuel ifuel u m ds = tidy_model fuel ifuel u' m' ds' /\
  check_model ifuel u m ds = check_model ifuel u' m' ds'.
Proof.
  intros. unfold tidy_model, check_model.
  rewrite (norm_universe_set_eq u u'), (norm_main_set_eq m m'), (norm_deps_set_eq ds ds'); auto.
Qed.

Lemma Permutation_set_eq {A} (l l' : list A) : Permutation l l' -> set_eq l l'.
Proof.
  intros P z. split; intros H.
  - eapply Permutation_in; eauto.
  - eapply Permutation_in; [apply Permutation_sym|]; eauto.
Qed.

(* ====================================================================== *)
(* 2. LoadPackages computes exactly the reachable packages                  *)
(* ====================================================================== *)
Section Closure.
  Variable proc : import -> pentry.
  Variable init : list import.

  Inductive reach : import -> Prop :=
  | reach_init k : In k init -> reach k
  | reach_step k i : reach k -> In i (pe_imports (proc k)) -> reach i.

  Definition keys (l : list (import * pentry)) : list import := map fst l.

  Record cinv (seen : list (import * pentry)) (todo : list import) : Prop := {
    ci_proc : forall k e, In (k, e) seen -> e = proc k;
    ci_reach : forall k, In k (keys seen) \/ In k todo -> reach k;
    ci_init : forall k, In k init -> In k (keys seen) \/ In k todo;
    ci_closed : forall k e i, In (k, e) seen -> In i (pe_imports e) -> In i (keys seen) \/ In i todo }.

  Lemma seen_mem seen k :
    existsb (fun e : import * pentry => import_eqb (fst e) k) seen = true <-> In k (keys seen).
  Proof.
    rewrite existsb_exists. unfold keys. rewrite in_map_iff. split.
    - intros [e [He E]]. apply import_eqb_iff in E. eauto.
    - intros [e [E He]]. exists e. split; [exact He|]. apply import_eqb_iff. exact E.
  Qed.

  Lemma closure_inv fuel : forall seen todo s,
    cinv seen todo -> closure fuel proc seen todo = Some s -> cinv s [].
  Proof.
    induction fuel as [|f IH]; intros seen todo s Hi; destruct todo as [|k rest]; simpl.
    - intros [= <-]. exact Hi.
    - discriminate.
    - intros [= <-]. exact Hi.
    - destruct (existsb _ seen) eqn:E.
      + apply IH. apply seen_mem in E. destruct Hi as [H1 H2 H3 H4]. constructor; auto.
        * intros k' [H|H]; apply H2; auto. right; right; exact H.
        * intros k' H. destruct (H3 k' H) as [H'|[<-|H']]; auto.
        * intros k' e i H H'. destruct (H4 k' e i H H') as [H''|[<-|H'']]; auto.
      + apply IH. destruct Hi as [H1 H2 H3 H4].
        assert (Hk : reach k) by (apply H2; right; left; reflexivity).
        constructor.
        * intros k' e [[= <- <-]|H]; [reflexivity | eauto].
        * intros k' H. simpl in H. destruct H as [[<-|H]|H].
          -- exact Hk.
          -- apply H2. left. exact H.
          -- apply in_app_or in H. destruct H as [H|H].
             ++ eapply reach_step; eauto.
             ++ apply H2. right. right. exact H.
        * intros k' H. simpl. destruct (H3 k' H) as [H'|[<-|H']]; auto.
          right. apply in_or_app. auto.
        * intros k' e i [[= <- <-]|H] H'; simpl.
          -- right. apply in_or_app. auto.
          -- destruct (H4 k' e i H H') as [H''|[<-|H'']]; auto.
             right. apply in_or_app. auto.
  Qed.

  Theorem closure_spec fuel s :
    closure fuel proc [] init = Some s ->
    (forall k, In k (keys s) <-> reach k) /\ (forall k e, In (k, e) s -> e = proc k).
  Proof.
    intros H. apply closure_inv in H.
    - destruct H as [H1 H2 H3 H4]. split; [|exact H1].
      intros k. split.
      + intros Hk. apply H2. auto.
      + induction 1 as [k Hk|k i Hk IH Hi].
        * destruct (H3 k Hk) as [H|[]]. exact H.
        * unfold keys in IH. apply in_map_iff in IH. destruct IH as [[k' e] [E He]]. simpl in E. subst k'.
          assert (e = proc k) by eauto. subst e.
          destruct (H4 k (proc k) i He Hi) as [H|[]]. exact H.
    - constructor; simpl; try tauto.
      intros k [[]|H']. apply reach_init, H'.
  Qed.

  Lemma closure_entry fuel s k :
    closure fuel proc [] init = Some s -> reach k -> In (k, proc k) s.
  Proof.
    intros H Hk. destruct (closure_spec fuel s H) as [H1 H2].
    apply H1 in Hk. unfold keys in Hk. apply in_map_iff in Hk. destruct Hk as [[k' e] [E He]].
    simpl in E. subst k'. rewrite <- (H2 k e He). exact He.
  Qed.
End Closure.

(* ====================================================================== *)
(* 3. The declarative tidiness predicate and CheckTidy                      *)
(* ====================================================================== *)
Lemma dedup_paths_len seen l : length (dedup_paths seen l) <= length l.
Proof.
  revert seen. induction l as [|n l IH]; intros seen; simpl; [lia|].
  destruct (existsb _ seen); simpl; [specialize (IH seen) | specialize (IH (n_mpath n :: seen))]; lia.
Qed.

Lemma seen_mpath seen mp : existsb (mpath_eqb mp) seen = true <-> In mp seen.
Proof.
  rewrite existsb_exists. split.
  - intros [x [Hx E]]. apply mpath_eqb_iff in E. subst. exact Hx.
  - intros H. exists mp. split; [exact H | apply mpath_eqb_iff; reflexivity].
Qed.

Lemma dedup_paths_full seen l :
  length (dedup_paths seen l) = length l <->
  NoDup (map n_mpath l) /\ (forall n, In n l -> ~ In (n_mpath n) seen).
Proof.
  revert seen. induction l as [|n l IH]; intros seen; simpl.
  - split; [intros _; split; [constructor | tauto] | reflexivity].
  - destruct (existsb (mpath_eqb (n_mpath n)) seen) eqn:E.
    + split.
      * intros H. pose proof (dedup_paths_len seen l). lia.
      * intros [_ H]. exfalso. apply (H n); [left; reflexivity | apply seen_mpath, E].
    + simpl. split.
      * intros H. injection H as H. apply IH in H. destruct H as [H1 H2]. split.
        -- constructor; [|exact H1]. intros Hin. apply in_map_iff in Hin. destruct Hin as [n' [E' Hn']].
           apply (H2 n' Hn'). left. congruence.
        -- intros n' [<-|Hn'] Hs.
           ++ apply seen_mpath in Hs. congruence.
           ++ apply (H2 n' Hn'). right. exact Hs.
      * intros [H1 H2]. f_equal. apply IH. inversion H1 as [|? ? Hnot Hnd]; subst. split; [exact Hnd|].
        intros n' Hn' [E'|Hs].
        -- apply Hnot. apply in_map_iff. exists n'. split; [congruence | exact Hn'].
        -- apply (H2 n'); [right; exact Hn' | exact Hs].
Qed.

Lemma unique_paths_iff l : unique_paths l = true <-> NoDup (map n_mpath l).
Proof.
  unfold unique_paths. rewrite Nat.eqb_eq, dedup_paths_full. simpl. tauto.
Qed.

Lemma providers_in l n :
  In n (providers l) <-> exists k e, In (k, e) l /\ pe_found e = Found (PExt n).
Proof.
  unfold providers. rewrite (In_sort_dedup node_cmp node_cmp_total), in_flat_map. split.
  - intros [[k e] [H1 H2]]. simpl in H2. destruct (pe_found e) as [[|n'|]| | |] eqn:E; simpl in H2; try tauto.
    destruct H2 as [<-|[]]. eauto.
  - intros [k [e [H1 H2]]]. exists (k, e). split; [exact H1|]. simpl. rewrite H2. left; reflexivity.
Qed.

Lemma providers_sorted l : ssorted node_cmp (providers l).
Proof. apply sort_dedup_sorted, node_cmp_total. Qed.

Lemma existsb_false {A} (f : A -> bool) l : existsb f l = false <-> forall x, In x l -> f x = false.
Proof.
  split.
  - intros H x Hx. destruct (f x) eqn:E; [|reflexivity].
    assert (existsb f l = true) by (apply existsb_exists; eauto). congruence.
  - intros H. destruct (existsb f l) eqn:E; [|reflexivity].
    apply existsb_exists in E. destruct E as [x [Hx E]]. rewrite (H x Hx) in E. discriminate.
Qed.

Section Spec.
  Variable u : universe.
  Variable mm : mainmod.

  (* the packages transitively imported by the main module, under requirements rs *)
  Definition Reach (rs : reqs) : import -> Prop := reach (process u mm rs) (m_imports mm).
  (* the import resolves: exactly one module of the build list provides it (or the main
     module, or the standard library), and so do the unversioned imports of its files *)
  Definition resolves (rs : reqs) (k : import) : Prop := entry_bad (process u mm rs k) = false.
  Definition provides (rs : reqs) (k : import) (n : node) : Prop :=
    pe_found (process u mm rs k) = Found (PExt n).

  (* module.cue [ds] is tidy: every import of every reachable package resolves; the
     entries are exactly the modules that provide a reachable package, at the version
     it is loaded from (nothing missing, nothing unused); one entry per module path *)
  Record IsTidy (ds : list dep) : Prop := {
    it_resolves : forall k, Reach (of_file mm ds) k -> resolves (of_file mm ds) k;
    it_exact : forall n, In n (map fst ds) <->
                         exists k, Reach (of_file mm ds) k /\ provides (of_file mm ds) k n;
    it_paths : NoDup (map n_mpath (r_roots (of_file mm ds))) }.

  Lemma of_file_roots_in ds n : In n (r_roots (of_file mm ds)) <-> In n (map fst ds).
  Proof. simpl. apply In_sort_dedup, node_cmp_total. Qed.

  Lemma load_reach ifuel rs l :
    load u mm ifuel rs = Some l ->
    (forall k, In k (map fst l) <-> Reach rs k) /\ (forall k e, In (k, e) l -> e = process u mm rs k).
  Proof. apply closure_spec. Qed.

  Lemma load_providers ifuel rs l n :
    load u mm ifuel rs = Some l ->
    (In n (providers l) <-> exists k, Reach rs k /\ provides rs k n).
  Proof.
    intros H. destruct (load_reach ifuel rs l H) as [H1 H2]. rewrite providers_in. split.
    - intros [k [e [Hin Hf]]]. exists k. split.
      + apply H1. apply in_map_iff. exists (k, e). auto.
      + unfold provides. rewrite <- (H2 k e Hin). exact Hf.
    - intros [k [Hr Hp]]. exists k, (process u mm rs k). split; [|exact Hp].
      eapply closure_entry; eauto.
  Qed.

  Lemma load_bad ifuel rs l :
    load u mm ifuel rs = Some l ->
    (existsb (fun e => entry_bad (snd e)) l = false <-> forall k, Reach rs k -> resolves rs k).
  Proof.
    intros H. destruct (load_reach ifuel rs l H) as [H1 H2]. rewrite existsb_false. split.
    - intros Hb k Hk. apply (Hb (k, process u mm rs k)). eapply closure_entry; eauto.
    - intros Hr [k e] Hin. simpl. rewrite (H2 k e Hin). apply Hr. apply H1.
      apply in_map_iff. exists (k, e). auto.
  Qed.

  (* CheckTidy accepts exactly the tidy module files *)
  Theorem is_tidy_check_accepts ifuel ds l :
    load u mm ifuel (of_file mm ds) = Some l ->
    (check u mm ifuel ds = CAccept <-> IsTidy ds).
  Proof.
    intros Hl. unfold check. rewrite Hl.
    pose proof (load_bad ifuel _ l Hl) as Hbad.
    pose proof (fun n => load_providers ifuel _ l n Hl) as Hprov.
    destruct (existsb (fun e => entry_bad (snd e)) l) eqn:Eb.
    - split.
      + unfold err_of. discriminate.
      + intros [H1 _ _]. apply Hbad in H1. discriminate.
    - destruct (unique_paths (providers l)) eqn:Eu.
      + destruct (list_eqb node_eqb (r_roots (of_file mm ds)) (providers l)) eqn:Ee.
        * split; [intros _ | reflexivity].
          apply (list_eqb_iff node_eqb node_eqb_iff) in Ee.
          constructor.
          -- apply Hbad. reflexivity.
          -- intros n. rewrite <- of_file_roots_in, Ee. apply Hprov.
          -- rewrite Ee. apply unique_paths_iff, Eu.
        * split; [discriminate|]. intros [H1 H2 H3]. exfalso.
          assert (E : r_roots (of_file mm ds) = providers l).
          { apply (ssorted_ext node_cmp node_cmp_total).
            - apply sort_dedup_sorted, node_cmp_total.
            - apply providers_sorted.
            - intros n. rewrite of_file_roots_in, H2. symmetry. apply Hprov. }
          apply (list_eqb_iff node_eqb node_eqb_iff) in E. congruence.
      + split; [discriminate|]. intros [H1 H2 H3]. exfalso.
        assert (E : r_roots (of_file mm ds) = providers l).
        { apply (ssorted_ext node_cmp node_cmp_total).
          - apply sort_dedup_sorted, node_cmp_total.
          - apply providers_sorted.
          - intros n. rewrite of_file_roots_in, H2. symmetry. apply Hprov. }
        rewrite E in H3. apply unique_paths_iff in H3. congruence.
  Qed.
End Spec.

(* ====================================================================== *)
(* 4. An accepted module file is a fixpoint of tidy                         *)
(* ====================================================================== *)
Lemma filter_nil {A} (f : A -> bool) l : (forall x, In x l -> f x = false) -> filter f l = [].
Proof.
  induction l as [|x l IH]; intros H; simpl; [reflexivity|].
  rewrite (H x (or_introl eq_refl)). apply IH. intros y Hy. apply H. right. exact Hy.
Qed.

Lemma missing_keys_nil l :
  existsb (fun e : import * pentry => entry_bad (snd e)) l = false -> missing_keys l = [].
Proof.
  intros H. unfold missing_keys. rewrite filter_nil; [reflexivity|].
  intros [k e] Hin. rewrite existsb_false in H. specialize (H (k, e) Hin). simpl in *.
  unfold entry_bad in H. destruct (pe_found e); try discriminate; reflexivity.
Qed.

(* what modfile.File.init accepts, in canonical order *)
Record wf_file (mm : mainmod) (ds : list dep) : Prop := {
  wf_sorted : ssorted dep_cmp ds;
  wf_paths : NoDup (map (fun d : dep => n_mpath (fst d)) ds);
  wf_nomain : forall d, In d ds -> fst (fst d) <> m_base mm;
  wf_default : forall d d', In d ds -> In d' ds -> snd d = true -> snd d' = true ->
                            fst (fst d) = fst (fst d') -> d = d' }.

Lemma lex_lt_fst {A B} (ca : A -> A -> comparison) (cb : B -> B -> comparison) x y :
  total_cmp ca -> lex ca cb x y = Lt -> fst x <> fst y -> ca (fst x) (fst y) = Lt.
Proof.
  intros Ha H Hne. unfold lex in H. destruct (ca (fst x) (fst y)) eqn:E; try congruence.
  apply (tc_eq ca Ha) in E. contradiction.
Qed.

Lemma map_fst_sorted ds :
  ssorted dep_cmp ds -> NoDup (map fst ds) -> ssorted node_cmp (map fst ds).
Proof.
  induction 1 as [|d ds Hs IH Hall]; intros Hnd; simpl; [constructor|].
  inversion Hnd as [|? ? Hnot Hnd']; subst. constructor; [apply IH, Hnd'|].
  rewrite Forall_forall in *. intros n Hn. apply in_map_iff in Hn. destruct Hn as [d' [<- Hd']].
  apply (lex_lt_fst node_cmp bool_cmp d d' node_cmp_total (Hall d' Hd')).
  intros E. apply Hnot. rewrite E. apply in_map. exact Hd'.
Qed.

Lemma NoDup_map_inv {A B C} (f : A -> B) (g : B -> C) l :
  NoDup (map (fun x => g (f x)) l) -> NoDup (map f l).
Proof.
  induction l as [|x l IH]; simpl; intros H; [constructor|].
  inversion H as [|? ? Hnot Hnd]; subst. constructor; [|apply IH, Hnd].
  intros Hin. apply Hnot. apply in_map_iff in Hin. destruct Hin as [y [E Hy]].
  apply in_map_iff. exists y. split; [congruence | exact Hy].
Qed.

Definition flagged (ds : list dep) : list (path * N) :=
  flat_map (fun d : dep => if snd d then [(fst (fst d), v_major (snd (fst d)))] else []) ds.

Lemma lookup_flagged_some ds p m :
  lookup_default (flagged ds) p = Some m ->
  exists d, In d ds /\ snd d = true /\ fst (fst d) = p /\ v_major (snd (fst d)) = m.
Proof.
  induction ds as [|d ds IH]; simpl; [discriminate|].
  destruct (snd d) eqn:Ef; simpl.
  - destruct (path_eqb (fst (fst d)) p) eqn:Ep.
    + intros [= <-]. apply path_eqb_iff in Ep. exists d. auto.
    + intros H. destruct (IH H) as [d' [H1 H2]]. exists d'. auto.
  - intros H. destruct (IH H) as [d' [H1 H2]]. exists d'. auto.
Qed.

Lemma lookup_flagged_none ds p :
  lookup_default (flagged ds) p = None -> forall d, In d ds -> snd d = true -> fst (fst d) <> p.
Proof.
  induction ds as [|d ds IH]; simpl; [tauto|].
  destruct (snd d) eqn:Ef; simpl.
  - destruct (path_eqb (fst (fst d)) p) eqn:Ep; [discriminate|].
    intros H d' [<-|Hd'] Hf.
    + intros E. apply path_eqb_iff in E. congruence.
    + apply IH; auto.
  - intros H d' [<-|Hd'] Hf; [congruence | apply IH; auto].
Qed.

Lemma to_file_of_file mm ds : wf_file mm ds -> to_file (of_file mm ds) = ds.
Proof.
  intros [Hs Hp Hm Hd]. unfold to_file, of_file. simpl.
  assert (Hnd : NoDup (map fst ds)).
  { apply (NoDup_map_inv (fun d : dep => fst d) n_mpath). exact Hp. }
  rewrite (sort_dedup_id node_cmp node_cmp_total); [|apply map_fst_sorted; assumption].
  rewrite map_map. rewrite <- (map_id ds) at 2. apply map_ext_in. intros d Hin.
  destruct d as [n f]. simpl. f_equal.
  destruct (path_eqb (m_base mm) (fst n)) eqn:Em.
  { apply path_eqb_iff in Em. exfalso. apply (Hm (n, f) Hin). simpl. congruence. }
  fold (flagged ds).
  destruct (lookup_default (flagged ds) (fst n)) as [m|] eqn:El.
  - apply lookup_flagged_some in El. destruct El as [d' [H1 [H2 [H3 H4]]]].
    destruct f.
    + assert (d' = (n, true)) by (apply Hd; auto). subst d'. simpl in H4. subst m. apply N.eqb_refl.
    + destruct (N.eqb m (v_major (snd n))) eqn:E; [|reflexivity]. apply N.eqb_eq in E. exfalso.
      assert (d' = (n, false)).
      { clear -Hp H1 Hin H3 H4 E. induction ds as [|x ds IH]; [destruct H1|].
        simpl in Hp. inversion Hp as [|? ? Hnot Hnd]; subst.
        destruct H1 as [<-|H1], Hin as [->|Hin]; auto.
        - exfalso. apply Hnot. apply in_map_iff. exists (n, false). split; [|exact Hin].
          unfold n_mpath. simpl. f_equal; congruence.
        - exfalso. apply Hnot. apply in_map_iff. exists d'. split; [|exact H1].
          unfold n_mpath. simpl. f_equal; congruence. }
      subst d'. discriminate.
  - destruct f; [|reflexivity]. exfalso.
    apply (lookup_flagged_none ds (fst n) El (n, true) Hin); reflexivity.
Qed.

Section Accepted.
  Variable u : universe.
  Variable mm : mainmod.

  Lemma check_accept_inv ifuel ds :
    check u mm ifuel ds = CAccept ->
    exists l, load u mm ifuel (of_file mm ds) = Some l /\
              existsb (fun e => entry_bad (snd e)) l = false /\
              unique_paths (providers l) = true /\
              r_roots (of_file mm ds) = providers l.
  Proof.
    unfold check. destruct (load u mm ifuel (of_file mm ds)) as [l|]; [|discriminate].
    destruct (existsb (fun e => entry_bad (snd e)) l) eqn:Eb.
    { unfold err_of. discriminate. }
    destruct (unique_paths (providers l)) eqn:Eu; [|discriminate].
    destruct (list_eqb node_eqb (r_roots (of_file mm ds)) (providers l)) eqn:Ee; [|discriminate].
    intros _. exists l. repeat split; auto. apply (list_eqb_iff node_eqb node_eqb_iff). exact Ee.
  Qed.

  (* if CheckTidy accepts the module file, Tidy returns it unchanged *)
  Theorem tidy_fixpoint_of_accepted fuel ifuel ds :
    wf_file mm ds -> check u mm ifuel ds = CAccept -> tidy u mm (S fuel) ifuel ds = TOk ds.
  Proof.
    intros Hwf Hc. destruct (check_accept_inv ifuel ds Hc) as [l [Hl [Hb [Hu Hr]]]].
    unfold tidy. simpl. rewrite Hl.
    unfold to_add, new_defaults. rewrite (missing_keys_nil l Hb). simpl.
    unfold finish. rewrite Hb, Hu. rewrite <- Hr.
    replace (mkR (r_roots (of_file mm ds)) (r_defaults (of_file mm ds))) with (of_file mm ds) by reflexivity.
    f_equal. apply to_file_of_file, Hwf.
  Qed.
End Accepted.

(* ====================================================================== *)
(* 5. What a successful tidy returns                                        *)
(* ====================================================================== *)
Definition ver_le (v w : ver) : Prop := ver_cmp v w <> Gt.

Lemma ver_le_refl v : ver_le v v.
Proof. unfold ver_le. rewrite (tc_refl ver_cmp ver_cmp_total). discriminate. Qed.

Lemma ver_le_trans a b c : ver_le a b -> ver_le b c -> ver_le a c.
Proof.
  unfold ver_le. intros H1 H2 H3. apply (tc_gt_lt ver_cmp ver_cmp_total) in H3.
  destruct (ver_cmp a b) eqn:E1; try congruence.
  - apply (tc_eq ver_cmp ver_cmp_total) in E1. subst b. apply (tc_gt_lt ver_cmp ver_cmp_total) in H3. congruence.
  - destruct (ver_cmp b c) eqn:E2; try congruence.
    + apply (tc_eq ver_cmp ver_cmp_total) in E2. subst c.
      rewrite (tc_opp ver_cmp ver_cmp_total), H3 in E1. discriminate.
    + pose proof (tc_trans ver_cmp ver_cmp_total _ _ _ E1 E2) as H.
      rewrite (tc_opp ver_cmp ver_cmp_total), H3 in H. discriminate.
Qed.

Lemma max_ver_spec l v :
  max_ver l = Some v -> In v l /\ forall w, In w l -> ver_le w v.
Proof.
  revert v. induction l as [|x l IH]; simpl; [discriminate|]. intros v.
  destruct (max_ver l) as [w|] eqn:E.
  - destruct (IH w eq_refl) as [H1 H2]. unfold ver_ltb. destruct (ver_cmp x w) eqn:Ec; intros [= <-].
    + split; [left; reflexivity|]. intros y [<-|Hy]; [apply ver_le_refl|].
      apply (tc_eq ver_cmp ver_cmp_total) in Ec. subst w. apply H2, Hy.
    + split; [right; exact H1|]. intros y [<-|Hy]; [unfold ver_le; congruence | apply H2, Hy].
    + split; [left; reflexivity|]. intros y [<-|Hy]; [apply ver_le_refl|].
      eapply ver_le_trans; [apply H2, Hy|]. unfold ver_le.
      rewrite (tc_opp ver_cmp ver_cmp_total), Ec. discriminate.
  - intros [= <-]. split; [left; reflexivity|]. intros y [<-|Hy]; [apply ver_le_refl|].
    destruct l; [destruct Hy|]. simpl in E. destruct (max_ver l); discriminate.
Qed.

Lemma max_ver_none l : max_ver l = None -> l = [].
Proof. destruct l as [|x l]; [reflexivity|]. simpl. destruct (max_ver l); discriminate. Qed.

(* Selected / RootSelected: the maximum over the nodes of that module path *)
Lemma max_over_spec (nodes : list node) mp v :
  max_ver (map snd (filter (fun r => mpath_eqb (n_mpath r) mp) nodes)) = Some v ->
  In (fst mp, v) nodes /\ v_major v = snd mp /\
  forall n, In n nodes -> n_mpath n = mp -> ver_le (snd n) v.
Proof.
  intros H. apply max_ver_spec in H. destruct H as [H1 H2].
  apply in_map_iff in H1. destruct H1 as [[b w] [E Hin]]. simpl in E. subst w.
  apply filter_In in Hin. destruct Hin as [Hin Hmp]. apply mpath_eqb_iff in Hmp.
  unfold n_mpath in Hmp. simpl in Hmp. subst mp. simpl. repeat split; auto.
  intros n Hn En. apply H2. apply in_map. apply filter_In. split; [exact Hn|].
  apply mpath_eqb_iff. exact En.
Qed.

Lemma max_over_none (nodes : list node) mp :
  max_ver (map snd (filter (fun r => mpath_eqb (n_mpath r) mp) nodes)) = None ->
  forall n, In n nodes -> n_mpath n <> mp.
Proof.
  intros H n Hn E. apply max_ver_none in H. apply map_eq_nil in H.
  assert (Hin : In n (filter (fun r => mpath_eqb (n_mpath r) mp) nodes)).
  { apply filter_In. split; [exact Hn | apply mpath_eqb_iff; exact E]. }
  rewrite H in Hin. destruct Hin.
Qed.

(* ====================================================================== *)
(* 9. updateRoots leaves the roots at their selected versions               *)
(* ====================================================================== *)
Lemma ver_le_antisym v w : ver_le v w -> ver_le w v -> v = w.
Proof.
  unfold ver_le. intros H1 H2. destruct (ver_cmp v w) eqn:E; try congruence.
  - apply (tc_eq ver_cmp ver_cmp_total). exact E.
  - rewrite (tc_opp ver_cmp ver_cmp_total), E in H2. simpl in H2. congruence.
Qed.

Lemma max_ver_set_eq l l' : set_eq l l' -> max_ver l = max_ver l'.
Proof.
  intros H. destruct (max_ver l) as [v|] eqn:E, (max_ver l') as [v'|] eqn:E'; auto.
  - apply max_ver_spec in E, E'. destruct E as [H1 H2], E' as [H1' H2']. f_equal.
    apply ver_le_antisym; [apply H2', H, H1 | apply H2, H, H1'].
  - apply max_ver_spec in E. apply max_ver_none in E'. subst l'. destruct E as [H1 _]. apply H in H1. destruct H1.
  - apply max_ver_spec in E'. apply max_ver_none in E. subst l. destruct E' as [H1 _]. apply H in H1. destruct H1.
Qed.

Section Settled.
  Variable u : universe.

  (* every root is at the version the module graph of the roots selects for its path *)
  Definition settled (rs : reqs) : Prop :=
    forall r, In r (r_roots rs) -> selected u rs (n_mpath r) = Some (snd r).

  Lemma graph_nodes_set_eq rs rs' :
    set_eq (r_roots rs) (r_roots rs') -> set_eq (graph_nodes u rs) (graph_nodes u rs').
  Proof.
    intros H n. unfold graph_nodes. rewrite !in_app_iff, !in_flat_map. split.
    - intros [Hn|[r [Hr Hn]]]; [left; apply H, Hn | right; exists r; split; [apply H, Hr | exact Hn]].
    - intros [Hn|[r [Hr Hn]]]; [left; apply H, Hn | right; exists r; split; [apply H, Hr | exact Hn]].
  Qed.

  Lemma selected_set_eq rs rs' mp :
    set_eq (r_roots rs) (r_roots rs') -> selected u rs mp = selected u rs' mp.
  Proof.
    intros H. unfold selected. apply max_ver_set_eq. intros v. rewrite !in_map_iff.
    pose proof (graph_nodes_set_eq rs rs' H) as G.
    split; intros [n [E Hn]]; exists n; (split; [exact E|]); apply filter_In in Hn; apply filter_In;
      (split; [apply G; tauto | tauto]).
  Qed.

  Lemma selected_root_some rs r : In r (r_roots rs) -> selected u rs (n_mpath r) <> None.
  Proof.
    intros Hr H. apply (max_over_none _ _ H r); [|reflexivity].
    unfold graph_nodes. apply in_or_app. left. exact Hr.
  Qed.

  Lemma dedup_paths_incl seen l x : In x (dedup_paths seen l) -> In x l.
  Proof.
    revert seen. induction l as [|n l IH]; intros seen; simpl; [tauto|].
    destruct (existsb _ seen); simpl; intros H.
    - right. eapply IH; eauto.
    - destruct H as [<-|H]; [left; reflexivity | right; eapply IH; eauto].
  Qed.

  Lemma settle_settled fuel ds : forall roots roots',
    settle u fuel ds roots = Some (Some roots') -> settled (mkR (sort_dedup node_cmp roots') ds).
  Proof.
    induction fuel as [|f IH]; intros roots roots'; simpl; [discriminate|].
    destruct (graph_ok u (mkR roots ds)); [|discriminate].
    destruct (forallb _ roots) eqn:Hconv; [|apply IH].
    intros [= <-].
    set (f0 := fun r : node => match selected u (mkR roots ds) (n_mpath r) with
                               | Some v => (fst r, v) | None => r end).
    assert (Hsub : forall x, In x (reselect u ds roots) -> exists r, In r roots /\ x = f0 r).
    { intros x Hx. unfold reselect in Hx. apply dedup_paths_incl in Hx. apply in_map_iff in Hx.
      destruct Hx as [r [E Hr]]. exists r. split; [exact Hr | symmetry; exact E]. }
    assert (Hin : forall r, In r roots -> In r (reselect u ds roots)).
    { intros r Hr. rewrite forallb_forall in Hconv. specialize (Hconv r Hr).
      apply existsb_exists in Hconv. destruct Hconv as [y [Hy E]]. apply node_eqb_iff in E. subst y. exact Hy. }
    (* every root already carries its selected version *)
    assert (Hsel : forall r, In r roots -> selected u (mkR roots ds) (n_mpath r) = Some (snd r)).
    { intros r Hr. destruct (Hsub r (Hin r Hr)) as [r' [Hr' E]]. unfold f0 in E.
      destruct (selected u (mkR roots ds) (n_mpath r')) as [v|] eqn:Es.
      - subst r. simpl. pose proof Es as Es'. apply max_over_spec in Es'. destruct Es' as [_ [Hm _]].
        replace (n_mpath (fst r', v)) with (n_mpath r'); [exact Es|].
        unfold n_mpath in *. simpl in *. congruence.
      - exfalso. exact (selected_root_some (mkR roots ds) r' Hr' Es). }
    assert (Hset : set_eq (sort_dedup node_cmp (reselect u ds roots)) roots).
    { intros x. rewrite (In_sort_dedup node_cmp node_cmp_total). split.
      - intros Hx. destruct (Hsub x Hx) as [r [Hr ->]]. unfold f0. rewrite (Hsel r Hr).
        destruct r; exact Hr.
      - apply Hin. }
    intros r Hr. simpl in Hr.
    rewrite (selected_set_eq (mkR (sort_dedup node_cmp (reselect u ds roots)) ds) (mkR roots ds) _ Hset).
    apply Hsel. apply Hset. exact Hr.
  Qed.

  Theorem update_roots_settled ifuel rs l add rs2 :
    update_roots u ifuel rs l add = Some (Some rs2) -> settled rs2.
  Proof.
    unfold update_roots. destruct (settle u ifuel (r_defaults rs) _) as [[roots'|]|] eqn:Es; try discriminate.
    intros [= <-]. eapply settle_settled; eauto.
  Qed.
End Settled.

Section Sound.
  Variable u : universe.
  Variable mm : mainmod.

  Lemma cands_in sel dflt i sps ps x :
    cands u mm sel dflt i sps = Some ps -> In x ps ->
    exists sp psp, In sp sps /\ cand_at u mm sel dflt i sp = Some psp /\ In x psp.
  Proof.
    revert ps. induction sps as [|sp sps IH]; simpl; intros ps.
    - intros [= <-] [].
    - destruct (cand_at u mm sel dflt i sp) as [a|] eqn:Ea; [|discriminate].
      destruct (cands u mm sel dflt i sps) as [b|] eqn:Eb; [|discriminate].
      intros [= <-] Hin. apply in_app_or in Hin. destruct Hin as [Hin|Hin].
      + exists sp, a. auto.
      + destruct (IH b eq_refl Hin) as [sp' [psp [H1 H2]]]. exists sp', psp. auto.
  Qed.

  (* a package found in an external module is loaded from the version that the
     roots, or else the whole module graph, select for that module path *)
  Lemma find_pkg_version rs dflt i n :
    find_pkg u mm rs dflt i = Found (PExt n) ->
    root_selected rs (n_mpath n) = Some (snd n) \/ selected u rs (n_mpath n) = Some (snd n).
  Proof.
    assert (Hc : forall sel, (forall mp v, sel mp = Some v -> v_major v = snd mp) ->
                 forall ps, cands u mm sel dflt i (splits (fst i)) = Some ps -> In (PExt n) ps ->
                 sel (n_mpath n) = Some (snd n)).
    { intros sel Hsel ps Hps Hin. destruct (cands_in _ _ _ _ _ _ Hps Hin) as [[pre dir] [psp [_ [Hc Hx]]]].
      unfold cand_at in Hc.
      destruct (match snd i with Some m => Some m | None => dflt pre end) as [m|]; [|injection Hc as <-; destruct Hx].
      destruct (mpath_eqb (pre, m) (main_mpath mm)).
      { injection Hc as <-. destruct (main_has mm dir); [destruct Hx as [E|[]]; discriminate | destruct Hx]. }
      destruct (sel (pre, m)) as [v|] eqn:Es; [|injection Hc as <-; destruct Hx].
      destruct (mod_exists u (pre, v)); [|discriminate]. injection Hc as <-.
      destruct (has_pkg u (pre, v) dir); [|destruct Hx]. destruct Hx as [[= <-]|[]].
      unfold n_mpath. simpl. rewrite (Hsel _ _ Es). simpl. exact Es. }
    unfold find_pkg.
    destruct (cands u mm (root_selected rs) dflt i (splits (fst i))) as [[|x [|y ps]]|] eqn:E1; try discriminate.
    - destruct (graph_ok u rs); [|discriminate].
      destruct (cands u mm (selected u rs) dflt i (splits (fst i))) as [[|x [|y ps]]|] eqn:E2; try discriminate.
      intros [= ->]. right. eapply (Hc (selected u rs)); [|exact E2|left; reflexivity].
      intros mp v H. apply max_over_spec in H. tauto.
    - intros [= ->]. left. eapply (Hc (root_selected rs)); [|exact E1|left; reflexivity].
      intros mp v H. apply max_over_spec in H. tauto.
  Qed.

  Lemma provides_version rs k n :
    provides u mm rs k n ->
    root_selected rs (n_mpath n) = Some (snd n) \/ selected u rs (n_mpath n) = Some (snd n).
  Proof.
    unfold provides, process. destruct (is_std u (fst k)); [discriminate|].
    destruct (find_pkg u mm rs (main_default rs) k) as [[|n'|]| | |] eqn:E; simpl; try discriminate.
    intros [= ->]. eapply find_pkg_version; eauto.
  Qed.

  Lemma finish_ok rs l F :
    finish rs l = TOk F ->
    existsb (fun e => entry_bad (snd e)) l = false /\ unique_paths (providers l) = true /\
    F = to_file (mkR (providers l) (r_defaults rs)).
  Proof.
    unfold finish. destruct (existsb _ l); [unfold err_of; discriminate|].
    destruct (unique_paths (providers l)); [|discriminate]. intros [= <-]. auto.
  Qed.

  Lemma sort_dedup_nil {A} (c : A -> A -> comparison) l : total_cmp c -> sort_dedup c l = [] -> l = [].
  Proof.
    intros Hc H. destruct l as [|x l]; [reflexivity|]. exfalso.
    assert (Hin : In x (sort_dedup c (x :: l))) by (apply (In_sort_dedup c Hc); left; reflexivity).
    rewrite H in Hin. destruct Hin.
  Qed.

  Lemma flat_map_nil {A B} (f : A -> list B) l : flat_map f l = [] -> forall x, In x l -> f x = [].
  Proof.
    induction l as [|y l IH]; simpl; [tauto|]. intros H x [<-|Hx].
    - apply app_eq_nil in H. tauto.
    - apply app_eq_nil in H. apply IH; tauto.
  Qed.

  Lemma no_add_no_new_defaults rs l : to_add u rs l = [] -> new_defaults u rs l = r_defaults rs.
  Proof.
    unfold to_add, new_defaults. intros H. apply (sort_dedup_nil node_cmp _ node_cmp_total) in H.
    pose proof (flat_map_nil _ _ H) as Hq. clear H.
    induction (missing_keys l) as [|k ks IH]; simpl; [reflexivity|].
    destruct (snd k).
    - apply IH. intros x Hx. apply Hq. right. exact Hx.
    - rewrite (Hq k (or_introl eq_refl)). simpl. apply IH. intros x Hx. apply Hq. right. exact Hx.
  Qed.

  (* the requirements the loop stops at: an error-free load whose providers are returned *)
  Lemma resolve_loop_ok fuel ifuel : forall rs0 F,
    resolve_loop u mm fuel ifuel rs0 = TOk F ->
    exists rs l, load u mm ifuel rs = Some l /\
                 existsb (fun e => entry_bad (snd e)) l = false /\
                 unique_paths (providers l) = true /\
                 F = to_file (mkR (providers l) (r_defaults rs)) /\
                 (rs = rs0 \/ settled u rs).
  Proof.
    induction fuel as [|f IH]; intros rs0 F; simpl; [discriminate|].
    destruct (load u mm ifuel rs0) as [l|] eqn:El; [|discriminate].
    destruct (to_add u rs0 l) as [|c add] eqn:Ea.
    - rewrite (no_add_no_new_defaults rs0 l Ea). intros H. apply finish_ok in H. simpl in H.
      exists rs0, l. tauto.
    - destruct (update_roots u ifuel _ l (c :: add)) as [[rs2|]|] eqn:Eu; try discriminate.
      intros H. apply IH in H. destruct H as [rs [l' [H1 [H2 [H3 [H4 H5]]]]]].
      exists rs, l'. repeat split; auto. right. destruct H5 as [->|H5]; [|exact H5].
      eapply update_roots_settled; eauto.
  Qed.

  Lemma map_fst_to_file rs : map fst (to_file rs) = r_roots rs.
  Proof. unfold to_file. rewrite map_map. simpl. apply map_id. Qed.

  (* resolve_sound, relative to the requirements tidy was working with when it
     stopped: every import of every reachable package resolves; the written entries
     are exactly the modules providing a reachable package, nothing unused; one
     entry per module path; each entry carries the version that the working roots
     or the working module graph (maximum over its nodes) select; the working
     requirements are the module file as read, or (as soon as tidy added a module)
     have every root at its selected version *)
  Theorem resolve_sound fuel ifuel ds F :
    tidy u mm fuel ifuel ds = TOk F ->
    exists rs,
      (forall k, Reach u mm rs k -> resolves u mm rs k) /\
      (forall n, In n (map fst F) <-> exists k, Reach u mm rs k /\ provides u mm rs k n) /\
      NoDup (map n_mpath (map fst F)) /\
      (forall n, In n (map fst F) ->
                 root_selected rs (n_mpath n) = Some (snd n) \/ selected u rs (n_mpath n) = Some (snd n)) /\
      (rs = of_file mm ds \/ settled u rs).
  Proof.
    unfold tidy. intros H. apply resolve_loop_ok in H. destruct H as [rs [l [Hl [Hb [Hu [-> Hst]]]]]].
    exists rs. rewrite map_fst_to_file. simpl.
    assert (Hp := fun n => load_providers u mm ifuel rs l n Hl).
    repeat split; [| | | | | exact Hst].
    - apply (load_bad u mm ifuel rs l Hl). exact Hb.
    - apply Hp.
    - apply Hp.
    - apply unique_paths_iff, Hu.
    - intros n Hn. apply Hp in Hn. destruct Hn as [k [_ Hk]]. eapply provides_version; eauto.
  Qed.

  (* the selected version is the maximum over the pruned module graph: not below any
     requirement on that path by the main module or by one of its direct requirements,
     and itself one of those requirements *)
  Theorem selected_is_max rs mp v :
    selected u rs mp = Some v ->
    In (fst mp, v) (graph_nodes u rs) /\
    forall n, In n (graph_nodes u rs) -> n_mpath n = mp -> ver_le (snd n) v.
  Proof. intros H. apply max_over_spec in H. tauto. Qed.

  Theorem root_selected_is_max rs mp v :
    root_selected rs mp = Some v ->
    In (fst mp, v) (r_roots rs) /\
    forall n, In n (r_roots rs) -> n_mpath n = mp -> ver_le (snd n) v.
  Proof. intros H. apply max_over_spec in H. tauto. Qed.
End Sound.

(* ====================================================================== *)
(* 6. Tidy's output is a well-formed module file; idempotence when accepted *)
(* ====================================================================== *)
Lemma map_sorted_pair {A B} (ca : A -> A -> comparison) (cb : B -> B -> comparison) (f : A -> B) l :
  ssorted ca l -> ssorted (lex ca cb) (map (fun x => (x, f x)) l).
Proof.
  induction 1 as [|x l Hs IH Hall]; simpl; constructor; [exact IH|].
  rewrite Forall_forall in *. intros y Hy. apply in_map_iff in Hy. destruct Hy as [z [<- Hz]].
  unfold Sets.lt, lex. simpl. rewrite (Hall z Hz). reflexivity.
Qed.

Section Output.
  Variable u : universe.
  Variable mm : mainmod.
  (* no registry module shares the main module's base path *)
  Hypothesis main_base_free : forall n, In n (u_mods u) -> fst n <> m_base mm.

  Lemma mod_exists_in n : mod_exists u n = true <-> In n (u_mods u).
  Proof.
    unfold mod_exists. rewrite existsb_exists. split.
    - intros [x [Hx E]]. apply node_eqb_iff in E. subst. exact Hx.
    - intros H. exists n. split; [exact H | apply node_eqb_iff; reflexivity].
  Qed.

  Lemma find_pkg_exists rs dflt i n :
    find_pkg u mm rs dflt i = Found (PExt n) -> In n (u_mods u).
  Proof.
    assert (Hc : forall sel ps, cands u mm sel dflt i (splits (fst i)) = Some ps -> In (PExt n) ps ->
                 In n (u_mods u)).
    { intros sel ps Hps Hin. destruct (cands_in u mm _ _ _ _ _ _ Hps Hin) as [[pre dir] [psp [_ [Hc Hx]]]].
      unfold cand_at in Hc.
      destruct (match snd i with Some m => Some m | None => dflt pre end) as [m|]; [|injection Hc as <-; destruct Hx].
      destruct (mpath_eqb (pre, m) (main_mpath mm)).
      { injection Hc as <-. destruct (main_has mm dir); [destruct Hx as [E|[]]; discriminate | destruct Hx]. }
      destruct (sel (pre, m)) as [v|] eqn:Es; [|injection Hc as <-; destruct Hx].
      destruct (mod_exists u (pre, v)) eqn:Em; [|discriminate]. injection Hc as <-.
      destruct (has_pkg u (pre, v) dir); [|destruct Hx]. destruct Hx as [[= <-]|[]].
      apply mod_exists_in, Em. }
    unfold find_pkg.
    destruct (cands u mm (root_selected rs) dflt i (splits (fst i))) as [[|x [|y ps]]|] eqn:E1; try discriminate.
    - destruct (graph_ok u rs); [|discriminate].
      destruct (cands u mm (selected u rs) dflt i (splits (fst i))) as [[|x [|y ps]]|] eqn:E2; try discriminate.
      intros [= ->]. eapply Hc; [exact E2 | left; reflexivity].
    - intros [= ->]. eapply Hc; [exact E1 | left; reflexivity].
  Qed.

  Lemma providers_exist l n :
    (forall k e, In (k, e) l -> exists rs, e = process u mm rs k) ->
    In n (providers l) -> In n (u_mods u).
  Proof.
    intros Hl Hn. apply providers_in in Hn. destruct Hn as [k [e [Hin Hf]]].
    destruct (Hl k e Hin) as [rs ->]. unfold process in Hf.
    destruct (is_std u (fst k)); [discriminate|].
    destruct (find_pkg u mm rs (main_default rs) k) as [[|n'|]| | |] eqn:E; simpl in Hf; try discriminate.
    injection Hf as ->. eapply find_pkg_exists; eauto.
  Qed.

  Lemma to_file_wf ps ds :
    ssorted node_cmp ps -> NoDup (map n_mpath ps) -> (forall n, In n ps -> fst n <> m_base mm) ->
    wf_file mm (to_file (mkR ps ds)).
  Proof.
    intros Hs Hp Hm. unfold to_file. simpl. constructor.
    - apply (map_sorted_pair node_cmp bool_cmp). exact Hs.
    - rewrite map_map. simpl. exact Hp.
    - intros d Hd. apply in_map_iff in Hd. destruct Hd as [n [<- Hn]]. simpl. apply Hm, Hn.
    - intros d d' Hd Hd'. apply in_map_iff in Hd, Hd'.
      destruct Hd as [n [<- Hn]], Hd' as [n' [<- Hn']]. simpl. intros F1 F2 E.
      assert (n = n'); [|subst; reflexivity].
      rewrite <- E in F2.
      destruct (lookup_default ds (fst n)) as [m|]; [|discriminate].
      apply N.eqb_eq in F1, F2.
      assert (Emp : n_mpath n = n_mpath n') by (unfold n_mpath; f_equal; congruence).
      clear -Hp Hn Hn' Emp. induction ps as [|x ps IH]; [destruct Hn|].
      simpl in Hp. inversion Hp as [|? ? Hnot Hnd]; subst.
      destruct Hn as [<-|Hn], Hn' as [<-|Hn']; auto.
      + exfalso. apply Hnot. rewrite Emp. apply in_map, Hn'.
      + exfalso. apply Hnot. rewrite <- Emp. apply in_map, Hn.
  Qed.

  Theorem tidy_output_wf fuel ifuel ds F : tidy u mm fuel ifuel ds = TOk F -> wf_file mm F.
  Proof.
    unfold tidy. intros H. apply resolve_loop_ok in H. destruct H as [rs [l [Hl [Hb [Hu [-> _]]]]]].
    apply to_file_wf.
    - apply providers_sorted.
    - apply unique_paths_iff, Hu.
    - intros n Hn. apply main_base_free. eapply providers_exist; [|exact Hn].
      intros k e Hin. exists rs. eapply load_reach; eauto.
  Qed.

  (* Tidy(Tidy(x)) = Tidy(x) whenever CheckTidy accepts Tidy(x) *)
  Theorem tidy_idempotent_when_accepted fuel fuel' ifuel ds F :
    tidy u mm fuel ifuel ds = TOk F -> check u mm ifuel F = CAccept ->
    tidy u mm (S fuel') ifuel F = TOk F.
  Proof.
    intros H Hc. apply tidy_fixpoint_of_accepted; [|exact Hc]. eapply tidy_output_wf; eauto.
  Qed.
End Output.

(* ====================================================================== *)
(* 7. The resolve loop needs at most (#registry modules + 1) rounds         *)
(* ====================================================================== *)
Lemma filter_length_lt {A} (f1 f2 : A -> bool) l x :
  (forall y, f2 y = true -> f1 y = true) -> In x l -> f1 x = true -> f2 x = false ->
  length (filter f2 l) < length (filter f1 l).
Proof.
  intros Himp. induction l as [|y l IH]; simpl; [tauto|].
  assert (Hle : forall l', length (filter f2 l') <= length (filter f1 l')).
  { induction l' as [|z l' IH']; simpl; [lia|].
    destruct (f2 z) eqn:E2; [rewrite (Himp z E2); simpl; lia|]. destruct (f1 z); simpl; lia. }
  intros [<-|Hx] H1 H2.
  - rewrite H1, H2. simpl. specialize (Hle l). lia.
  - specialize (IH Hx H1 H2). destruct (f2 y) eqn:E2; [rewrite (Himp y E2); simpl; lia|].
    destruct (f1 y); simpl; lia.
Qed.

Lemma dedup_paths_mpaths seen l mp :
  In mp (map n_mpath (dedup_paths seen l)) <-> In mp (map n_mpath l) /\ ~ In mp seen.
Proof.
  revert seen. induction l as [|n l IH]; intros seen; simpl; [tauto|].
  destruct (existsb (mpath_eqb (n_mpath n)) seen) eqn:E.
  - apply seen_mpath in E. rewrite IH. split; [tauto|]. intros [[<-|H] Hs]; tauto.
  - assert (Hn : ~ In (n_mpath n) seen).
    { intros H. apply seen_mpath in H. congruence. }
    simpl. rewrite IH. simpl. split.
    + intros [<-|[H1 H2]]; [tauto|]. split; [tauto|]. intros Hs. apply H2. right. exact Hs.
    + intros [[<-|H1] H2]; [tauto|].
      destruct (mpath_eqb (n_mpath n) mp) eqn:Ee.
      * apply mpath_eqb_iff in Ee. tauto.
      * right. split; [exact H1|]. intros [E'|Hs]; [|tauto].
        subst mp. rewrite (eqb_of_refl mpath_cmp mpath_cmp_total) in Ee. discriminate.
Qed.

Section Fuel.
  Variable u : universe.
  Variable mm : mainmod.

  Definition root_mpaths (roots : list node) : list mpath := map n_mpath roots.
  (* registry modules whose module path is not yet a root *)
  Definition slack (roots : list node) : nat :=
    length (filter (fun n => negb (existsb (mpath_eqb (n_mpath n)) (root_mpaths roots))) (u_mods u)).

  Lemma slack_le roots : slack roots <= length (u_mods u).
  Proof.
    unfold slack. induction (u_mods u) as [|n l IH]; simpl; [lia|].
    destruct (negb _); simpl; lia.
  Qed.

  Lemma reselect_mpaths ds roots mp :
    In mp (root_mpaths (reselect u ds roots)) <-> In mp (root_mpaths roots).
  Proof.
    unfold reselect, root_mpaths. rewrite dedup_paths_mpaths. rewrite map_map.
    match goal with |- In mp (map ?f roots) /\ _ <-> _ =>
      assert (E : map f roots = map n_mpath roots) end.
    { apply map_ext. intros r. destruct (selected u (mkR roots ds) (n_mpath r)) as [v|] eqn:Es; [|reflexivity].
      apply max_over_spec in Es. destruct Es as [_ [Hm _]]. unfold n_mpath in *. simpl in *. congruence. }
    rewrite E. simpl. tauto.
  Qed.

  Lemma settle_mpaths fuel ds : forall roots roots' mp,
    settle u fuel ds roots = Some (Some roots') ->
    (In mp (root_mpaths roots') <-> In mp (root_mpaths roots)).
  Proof.
    induction fuel as [|f IH]; intros roots roots' mp; simpl; [discriminate|].
    destruct (graph_ok u (mkR roots ds)); [|discriminate].
    destruct (forallb _ roots).
    - intros [= <-]. apply reselect_mpaths.
    - intros H. rewrite (IH _ _ mp H). unfold root_mpaths.
      rewrite <- (reselect_mpaths ds roots mp). unfold root_mpaths.
      rewrite !in_map_iff. split; intros [n [E Hn]]; exists n; (split; [exact E|]);
        apply (In_sort_dedup node_cmp node_cmp_total); exact Hn.
  Qed.

  Lemma update_roots_mpaths ifuel rs l add rs2 mp :
    update_roots u ifuel rs l add = Some (Some rs2) ->
    (In mp (root_mpaths (r_roots rs)) -> In mp (root_mpaths (r_roots rs2))) /\
    (forall c, In c add -> root_selected rs (n_mpath c) = None -> n_mpath c = mp ->
               In mp (root_mpaths (r_roots rs2))).
  Proof.
    unfold update_roots.
    set (promoted := filter _ (providers l)). set (add' := filter _ add).
    destruct (settle u ifuel (r_defaults rs) _) as [[roots'|]|] eqn:Es; try discriminate.
    intros [= <-]. simpl.
    assert (Hin : forall n, In n (r_roots rs ++ promoted ++ add') -> In (n_mpath n) (root_mpaths (sort_dedup node_cmp roots'))).
    { intros n Hn. unfold root_mpaths. apply in_map_iff.
      assert (H : In (n_mpath n) (root_mpaths roots')).
      { apply (settle_mpaths _ _ _ _ _ Es). unfold root_mpaths. apply in_map.
        apply (In_sort_dedup node_cmp node_cmp_total). exact Hn. }
      unfold root_mpaths in H. apply in_map_iff in H. destruct H as [n' [E Hn']].
      exists n'. split; [exact E|]. apply (In_sort_dedup node_cmp node_cmp_total). exact Hn'. }
    split.
    - intros H. unfold root_mpaths in H. apply in_map_iff in H. destruct H as [n [<- Hn]].
      apply Hin. apply in_or_app. left. exact Hn.
    - intros c Hc Hr <-. apply Hin. apply in_or_app. right. apply in_or_app. right.
      unfold add'. apply filter_In. split; [exact Hc|]. rewrite Hr. reflexivity.
  Qed.

  Lemma latest_in vs v : latest vs = Some v -> In v vs.
  Proof.
    unfold latest. destruct (max_ver (filter (fun v => negb (v_pre v)) vs)) as [w|] eqn:E.
    - intros [= <-]. apply max_ver_spec in E. destruct E as [E _]. apply filter_In in E. tauto.
    - intros H. apply max_ver_spec in H. tauto.
  Qed.

  Lemma versions_of_in p mj v :
    In v (versions_of u p mj) ->
    In (p, v) (u_mods u) /\ match mj with Some m => v_major v = m | None => True end.
  Proof.
    unfold versions_of. intros H. apply in_map_iff in H. destruct H as [[b w] [E Hin]]. simpl in E. subst w.
    apply filter_In in Hin. destruct Hin as [Hin Hc]. simpl in Hc. apply andb_true_iff in Hc.
    destruct Hc as [Hp Hm]. apply path_eqb_iff in Hp. subst b. split; [exact Hin|].
    destruct mj; [apply N.eqb_eq, Hm | exact I].
  Qed.

  Lemma no_root_base rs p m :
    filter (fun r : node => path_eqb (fst r) p) (r_roots rs) = [] -> root_selected rs (p, m) = None.
  Proof.
    intros H. unfold root_selected.
    rewrite filter_nil; [reflexivity|]. intros r Hr.
    destruct (mpath_eqb (n_mpath r) (p, m)) eqn:E; [|reflexivity]. exfalso.
    apply mpath_eqb_iff in E. unfold n_mpath in E. injection E as E1 E2.
    assert (Hin : In r (filter (fun r : node => path_eqb (fst r) p) (r_roots rs))).
    { apply filter_In. split; [exact Hr | apply path_eqb_iff; exact E1]. }
    rewrite H in Hin. destruct Hin.
  Qed.

  (* queryLatestModules only proposes registry modules whose path is not a root *)
  Lemma query_new rs i c :
    In c (query u rs i) -> In c (u_mods u) /\ root_selected rs (n_mpath c) = None.
  Proof.
    unfold query. intros H. apply in_flat_map in H. destruct H as [[pre dir] [_ H]]. simpl in H.
    unfold query_at in H.
    assert (Hgo : forall mj,
      (mj = None -> filter (fun r : node => path_eqb (fst r) pre) (r_roots rs) = []) ->
      In c match (match mj with Some m => root_selected rs (pre, m) | None => None end) with
           | Some _ => []
           | None => match latest (versions_of u pre mj) with Some v => [(pre, v)] | None => [] end
           end ->
      In c (u_mods u) /\ root_selected rs (n_mpath c) = None).
    { intros mj Hnone Hc.
      destruct (match mj with Some m => root_selected rs (pre, m) | None => None end) eqn:Er; [destruct Hc|].
      destruct (latest (versions_of u pre mj)) as [v|] eqn:El; [|destruct Hc].
      destruct Hc as [<-|[]]. apply latest_in, versions_of_in in El. destruct El as [Hin Hm].
      split; [exact Hin|]. unfold n_mpath. simpl. destruct mj as [m|].
      - rewrite Hm. exact Er.
      - apply no_root_base. apply Hnone. reflexivity. }
    destruct (snd i) as [m|].
    - apply (Hgo (Some m)); [discriminate | exact H].
    - unfold default_status in H.
      destruct (lookup_default (r_defaults rs) pre) as [m|].
      + apply (Hgo (Some m)); [discriminate | exact H].
      + match type of H with context [filter ?f (r_roots rs)] =>
          destruct (filter f (r_roots rs)) as [|r [|r' rest]] eqn:Ef end.
        * apply (Hgo None); [intros _; exact Ef | exact H].
        * apply (Hgo (Some (v_major (snd r)))); [discriminate | exact H].
        * destruct H.
  Qed.

  Lemma to_add_new rs l c :
    In c (to_add u rs l) -> In c (u_mods u) /\ root_selected rs (n_mpath c) = None.
  Proof.
    unfold to_add. intros H. apply (proj1 (In_sort_dedup node_cmp node_cmp_total _ _)) in H.
    apply in_flat_map in H. destruct H as [k [_ H]]. eapply query_new; eauto.
  Qed.

  Lemma root_selected_none_notin rs mp :
    root_selected rs mp = None -> ~ In mp (root_mpaths (r_roots rs)).
  Proof.
    intros H Hin. unfold root_mpaths in Hin. apply in_map_iff in Hin. destruct Hin as [n [E Hn]].
    exact (max_over_none _ _ H n Hn E).
  Qed.

  Lemma slack_decreases ifuel rs ds' l c add rs2 :
    to_add u rs l = c :: add ->
    update_roots u ifuel (mkR (r_roots rs) ds') l (c :: add) = Some (Some rs2) ->
    slack (r_roots rs2) < slack (r_roots rs).
  Proof.
    intros Ha Hu.
    assert (Hc : In c (to_add u rs l)) by (rewrite Ha; left; reflexivity).
    apply to_add_new in Hc. destruct Hc as [Hc1 Hc2].
    unfold slack. apply (filter_length_lt _ _ _ c).
    - intros n Hn. apply negb_true_iff in Hn. apply negb_true_iff.
      destruct (existsb (mpath_eqb (n_mpath n)) (root_mpaths (r_roots rs))) eqn:E; [|reflexivity].
      apply seen_mpath in E.
      destruct (update_roots_mpaths ifuel _ l (c :: add) rs2 (n_mpath n) Hu) as [H1 _].
      apply H1 in E. apply seen_mpath in E. congruence.
    - exact Hc1.
    - apply negb_true_iff. destruct (existsb _ _) eqn:E; [|reflexivity].
      apply seen_mpath in E. exfalso. exact (root_selected_none_notin rs _ Hc2 E).
    - apply negb_false_iff. apply seen_mpath.
      destruct (update_roots_mpaths ifuel _ l (c :: add) rs2 (n_mpath c) Hu) as [_ H2].
      apply (H2 c); [left; reflexivity | exact Hc2 | reflexivity].
  Qed.

  Lemma resolve_loop_fuel ifuel : forall fuel rs,
    slack (r_roots rs) < fuel -> resolve_loop u mm fuel ifuel rs <> TFuel.
  Proof.
    induction fuel as [|f IH]; intros rs Hs; [lia|]. simpl.
    destruct (load u mm ifuel rs) as [l|]; [|discriminate].
    destruct (to_add u rs l) as [|c add] eqn:Ea.
    - unfold finish. destruct (existsb _ l); [unfold err_of; discriminate|].
      destruct (unique_paths _); discriminate.
    - destruct (update_roots u ifuel _ l (c :: add)) as [[rs2|]|] eqn:Eu; try discriminate.
      apply IH. pose proof (slack_decreases ifuel rs _ l c add rs2 Ea Eu). lia.
  Qed.

  (* fuel = number of registry modules + 1 is enough for the resolve loop: each
     round that does not stop adds a module path of the registry to the roots *)
  Theorem resolve_fuel_sufficient fuel ifuel ds :
    length (u_mods u) < fuel -> tidy u mm fuel ifuel ds <> TFuel.
  Proof.
    intros H. apply resolve_loop_fuel. pose proof (slack_le (r_roots (of_file mm ds))). lia.
  Qed.
End Fuel.

(* ====================================================================== *)
(* 8. Corollaries                                                           *)
(* ====================================================================== *)
Lemma accepted_is_tidy u mm ifuel ds : check u mm ifuel ds = CAccept -> IsTidy u mm ds.
Proof.
  intros H. destruct (check_accept_inv u mm ifuel ds H) as [l [Hl _]].
  apply (is_tidy_check_accepts u mm ifuel ds l Hl). exact H.
Qed.

(* resolve_sound in its unconditional form holds for every output CheckTidy accepts *)
Theorem tidy_output_is_tidy_when_accepted u mm fuel ifuel ds F :
  tidy u mm fuel ifuel ds = TOk F -> check u mm ifuel F = CAccept -> IsTidy u mm F.
Proof. intros _. apply accepted_is_tidy. Qed.

(* the written requirements are closed under minimal version selection: no entry is
   below what another entry's module file requires for the same module path *)
Definition mvs_closed (u : universe) (F : list dep) : Prop :=
  forall d q d', In d F -> In q (deps_of u (fst d)) -> In d' F ->
                 n_mpath (fst d') = n_mpath (fst q) -> ver_le (snd (fst q)) (snd (fst d')).
