(* Canonical forms of finite sets: [sort_dedup] with a total order yields THE
   strictly sorted list of the elements, so it is invariant under permutation and
   repetition of its input.  Also the total orders used by the tidy model. *)
From Coq Require Import List Bool NArith Arith Lia Sorted.
From Verif Require Import Base.Order Tidy.Model.
Import ListNotations.

(* ------------------------------------------------------------- orders ---- *)
Lemma bool_cmp_total : total_cmp bool_cmp.
Proof.
  constructor.
  - intros [] []; simpl; split; congruence.
  - intros [] []; reflexivity.
  - intros [] [] []; simpl; congruence.
Qed.

Lemma option_cmp_total {A} (c : A -> A -> comparison) : total_cmp c -> total_cmp (option_cmp c).
Proof.
  intros H. constructor.
  - intros [x|] [y|]; simpl; split; try congruence.
    + intros E. apply (tc_eq c H) in E. congruence.
    + intros [= ->]. apply (tc_refl c H).
  - intros [x|] [y|]; simpl; auto. apply (tc_opp c H).
  - intros [x|] [y|] [z|]; simpl; try congruence. apply (tc_trans c H).
Qed.

Lemma path_cmp_total : total_cmp path_cmp.
Proof. apply list_cmp_total, N_compare_total. Qed.

Lemma ver_cmp_total : total_cmp ver_cmp.
Proof.
  unfold ver_cmp. apply lex_total.
  - apply lex_total; [apply lex_total|]; apply N_compare_total.
  - apply (total_cmp_inj bool_cmp negb bool_cmp_total). intros [] []; simpl; congruence.
Qed.

Lemma node_cmp_total : total_cmp node_cmp.
Proof. apply lex_total; [apply path_cmp_total | apply ver_cmp_total]. Qed.
Lemma import_cmp_total : total_cmp import_cmp.
Proof. apply lex_total; [apply path_cmp_total | apply option_cmp_total, N_compare_total]. Qed.
Lemma dep_cmp_total : total_cmp dep_cmp.
Proof. apply lex_total; [apply node_cmp_total | apply bool_cmp_total]. Qed.
Lemma mpath_cmp_total : total_cmp mpath_cmp.
Proof. apply lex_total; [apply path_cmp_total | apply N_compare_total]. Qed.

Lemma eqb_of_iff {A} (c : A -> A -> comparison) : total_cmp c -> forall x y, eqb_of c x y = true <-> x = y.
Proof.
  intros H x y. unfold eqb_of. rewrite <- (tc_eq c H x y). destruct (c x y); split; congruence.
Qed.
Lemma eqb_of_refl {A} (c : A -> A -> comparison) : total_cmp c -> forall x, eqb_of c x x = true.
Proof. intros H x. apply (eqb_of_iff c H). reflexivity. Qed.

Lemma path_eqb_iff x y : path_eqb x y = true <-> x = y.
Proof. apply eqb_of_iff, path_cmp_total. Qed.
Lemma node_eqb_iff x y : node_eqb x y = true <-> x = y.
Proof. apply eqb_of_iff, node_cmp_total. Qed.
Lemma import_eqb_iff x y : import_eqb x y = true <-> x = y.
Proof. apply eqb_of_iff, import_cmp_total. Qed.
Lemma mpath_eqb_iff x y : mpath_eqb x y = true <-> x = y.
Proof. apply eqb_of_iff, mpath_cmp_total. Qed.

Lemma list_eqb_iff {A} (e : A -> A -> bool) :
  (forall x y, e x y = true <-> x = y) -> forall a b, list_eqb e a b = true <-> a = b.
Proof.
  intros H. induction a as [|x a IH]; destruct b as [|y b]; simpl; split; try congruence.
  - rewrite andb_true_iff, H, IH. intros [-> ->]; reflexivity.
  - intros [= -> ->]. rewrite andb_true_iff, H, IH. auto.
Qed.

(* ------------------------------------------------- strictly sorted lists ---- *)
Section SortDedup.
  Context {A : Type} (c : A -> A -> comparison) (Hc : total_cmp c).

  Definition lt (x y : A) : Prop := c x y = Lt.
  Definition ssorted (l : list A) : Prop := StronglySorted lt l.

  Lemma lt_irrefl x : ~ lt x x.
  Proof. unfold lt. rewrite (tc_refl c Hc). congruence. Qed.
  Lemma lt_trans x y z : lt x y -> lt y z -> lt x z.
  Proof. apply (tc_trans c Hc). Qed.
  Lemma lt_asym x y : lt x y -> ~ lt y x.
  Proof. intros H1 H2. apply (lt_irrefl x). eapply lt_trans; eauto. Qed.

  Lemma In_insert_u x l z : In z (insert_u c x l) <-> z = x \/ In z l.
  Proof.
    induction l as [|y l IH]; simpl.
    - intuition.
    - destruct (c x y) eqn:E; simpl.
      + apply (tc_eq c Hc) in E. subst. intuition.
      + intuition.
      + rewrite IH. intuition.
  Qed.

  Lemma In_sort_dedup l z : In z (sort_dedup c l) <-> In z l.
  Proof.
    induction l as [|x l IH]; simpl; [tauto|].
    unfold sort_dedup in *. simpl. rewrite In_insert_u, IH. intuition.
  Qed.

  Lemma insert_u_sorted x l : ssorted l -> ssorted (insert_u c x l).
  Proof.
    induction 1 as [|y l Hs IH Hall]; simpl.
    - repeat constructor.
    - destruct (c x y) eqn:E.
      + constructor; assumption.
      + constructor; [constructor; assumption|].
        constructor; [exact E|].
        rewrite Forall_forall in *. intros z Hz. eapply lt_trans; [exact E | apply Hall, Hz].
      + constructor; [exact IH|].
        rewrite Forall_forall in *. intros z Hz. apply In_insert_u in Hz. destruct Hz as [->|Hz].
        * apply (tc_gt_lt c Hc). exact E.
        * apply Hall, Hz.
  Qed.

  Lemma sort_dedup_sorted l : ssorted (sort_dedup c l).
  Proof.
    induction l as [|x l IH]; simpl; [constructor|]. apply insert_u_sorted, IH.
  Qed.

  Lemma ssorted_ext l l' :
    ssorted l -> ssorted l' -> (forall z, In z l <-> In z l') -> l = l'.
  Proof.
    intros Hl. revert l'. induction Hl as [|x l Hs IH Hall]; intros l' Hl' Hin.
    - destruct l' as [|y l']; [reflexivity|]. exfalso. apply (Hin y). left; reflexivity.
    - destruct Hl' as [|y l' Hs' Hall'].
      + exfalso. apply (Hin x). left; reflexivity.
      + rewrite Forall_forall in Hall, Hall'.
        assert (x = y).
        { destruct (proj1 (Hin x) (or_introl eq_refl)) as [E|Hx]; [congruence|].
          destruct (proj2 (Hin y) (or_introl eq_refl)) as [E|Hy]; [congruence|].
          exfalso. apply (lt_asym x y); [apply Hall, Hy | apply Hall', Hx]. }
        subst y. f_equal. apply IH; [exact Hs'|].
        intros z. split; intros Hz.
        * destruct (proj1 (Hin z) (or_intror Hz)) as [E|H']; [|exact H'].
          subst z. exfalso. apply (lt_irrefl x). apply Hall, Hz.
        * destruct (proj2 (Hin z) (or_intror Hz)) as [E|H']; [|exact H'].
          subst z. exfalso. apply (lt_irrefl x). apply Hall', Hz.
  Qed.

  (* the canonical form depends only on the SET of elements *)
  Theorem sort_dedup_set_eq l l' :
    (forall z, In z l <-> In z l') -> sort_dedup c l = sort_dedup c l'.
  Proof.
    intros H. apply ssorted_ext; try apply sort_dedup_sorted.
    intros z. rewrite !In_sort_dedup. apply H.
  Qed.

  Lemma sort_dedup_id l : ssorted l -> sort_dedup c l = l.
  Proof.
    intros H. apply ssorted_ext; [apply sort_dedup_sorted | exact H | apply In_sort_dedup].
  Qed.

  Lemma sort_dedup_idem l : sort_dedup c (sort_dedup c l) = sort_dedup c l.
  Proof. apply sort_dedup_id, sort_dedup_sorted. Qed.

  Lemma ssorted_NoDup l : ssorted l -> NoDup l.
  Proof.
    induction 1 as [|x l Hs IH Hall]; constructor; [|exact IH].
    intros Hx. rewrite Forall_forall in Hall. apply (lt_irrefl x), Hall, Hx.
  Qed.
End SortDedup.
