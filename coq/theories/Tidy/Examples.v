(* Concrete universes: non-vacuity examples and the witnesses of the places where
   the faithful model of `cue mod tidy` refutes the property as worded.  Every
   witness was replayed against the real modload.Tidy / CheckTidy (corpus/C17). *)
From Coq Require Import List Bool NArith.
From Verif Require Import Base.Order Tidy.Model.
Import ListNotations.
Open Scope N_scope.

(* path elements *)
Definition a := 1. Definition b := 2. Definition c := 3. Definition mn := 9.
Definition x := 11. Definition y := 12. Definition z := 13.
Definition p := 14. Definition q := 15. Definition r := 16.
Definition v (mj mi : N) : ver := (mj, mi, 0, false).
Definition main0 (dirs : list path) (imps : list import) : mainmod := mkM [mn] 0 dirs imps.
Definition plain (n : node) : dep := (n, false).

(* --- W0: a fresh tidy that succeeds: nested dependencies, an unused entry is
       dropped, a transitive provider is promoted to a requirement ------------- *)
Definition u0 : universe :=
  mkU [([a], v 0 1); ([a], v 0 2); ([b], v 0 1); ([b], v 0 5); ([c], v 0 1)]
      [(([a], v 0 2), plain ([b], v 0 1))]
      [(([a], v 0 1), [p]); (([a], v 0 2), [p]); (([b], v 0 1), [q]); (([b], v 0 5), [q]); (([c], v 0 1), [r])]
      [((([a], v 0 2), [p]), ([b; q], Some 0))]
      [].
Definition m0 := main0 [[]] [([a; p], Some 0)].
Definition d0 : list dep := [plain ([c], v 0 1)].
Definition f0 : list dep := [plain ([a], v 0 2); plain ([b], v 0 1)].

Example w0_tidy : tidy_model 10 1000 u0 m0 d0 = TOk f0.
Proof. vm_compute. reflexivity. Qed.
Example w0_idempotent : tidy_model 10 1000 u0 m0 f0 = TOk f0 /\ check_model 1000 u0 m0 f0 = CAccept.
Proof. vm_compute. split; reflexivity. Qed.
Example w0_check_rejects_input : check_model 1000 u0 m0 d0 = CErr true false false.
Proof. vm_compute. reflexivity. Qed.
(* presentation: the same facts in another order, with repetitions *)
Definition u0' : universe :=
  mkU (rev (u_mods u0) ++ u_mods u0) (u_deps u0) (rev (u_pkgs u0)) (u_imps u0 ++ u_imps u0) [].
Example w0_order : tidy_model 10 1000 u0' m0 (d0 ++ d0) = TOk f0.
Proof. vm_compute. reflexivity. Qed.

(* --- W1 (finding F-C17-1): Tidy(Tidy(x)) fails.  c imports a/x/z, which only the
   transitive requirement a/x provides; tidy promotes a/x to a requirement; with
   a/x among the roots, a/x/y is found both in a (dir x/y) and in a/x (dir y). ---- *)
Definition u1 : universe :=
  mkU [([a], v 0 1); ([a; x], v 0 1); ([c], v 0 1)]
      [(([c], v 0 1), plain ([a; x], v 0 1))]
      [(([a], v 0 1), [x; y]); (([a; x], v 0 1), [y]); (([a; x], v 0 1), [z]); (([c], v 0 1), [q])]
      [((([c], v 0 1), [q]), ([a; x; z], Some 0))]
      [].
Definition m1 := main0 [[]] [([a; x; y], Some 0); ([c; q], Some 0)].
Definition d1 : list dep := [plain ([a], v 0 1); plain ([c], v 0 1)].
Definition f1 : list dep := [plain ([a], v 0 1); plain ([a; x], v 0 1); plain ([c], v 0 1)].

Example w1_tidy : tidy_model 10 1000 u1 m1 d1 = TOk f1.
Proof. vm_compute. reflexivity. Qed.
Example w1_second_tidy_fails : tidy_model 10 1000 u1 m1 f1 = TErr false true false.
Proof. vm_compute. reflexivity. Qed.
Example w1_check_fails_on_output : check_model 1000 u1 m1 f1 = CErr false true false.
Proof. vm_compute. reflexivity. Qed.

(* --- W2 (finding F-C17-2): the implicit default major version is lost.  module.cue
   lists b@v1 only, so "b/x" means b@v1; a dependency uses b/y@v2; tidy writes both
   b@v1 and b@v2 without a default, after which "b/x" no longer resolves. --------- *)
Definition u2 : universe :=
  mkU [([a], v 0 1); ([b], v 1 0); ([b], v 2 0)]
      [(([a], v 0 1), plain ([b], v 2 0))]
      [(([a], v 0 1), [p]); (([b], v 1 0), [x]); (([b], v 2 0), [y])]
      [((([a], v 0 1), [p]), ([b; y], Some 2))]
      [].
Definition m2 := main0 [[]] [([b; x], None); ([a; p], Some 0)].
Definition d2 : list dep := [plain ([b], v 1 0)].
Definition f2 : list dep := [plain ([a], v 0 1); plain ([b], v 1 0); plain ([b], v 2 0)].

Example w2_tidy : tidy_model 10 1000 u2 m2 d2 = TOk f2.
Proof. vm_compute. reflexivity. Qed.
Example w2_second_tidy_fails : tidy_model 10 1000 u2 m2 f2 = TErr true false false.
Proof. vm_compute. reflexivity. Qed.
Example w2_check_rejects_output : check_model 1000 u2 m2 f2 = CErr true false false.
Proof. vm_compute. reflexivity. Qed.

(* --- W3 (finding F-C17-3): the written requirements are not closed under minimal
   version selection.  a requires b@v0.1 and c; c (promoted to a requirement because
   a/p imports c/r) requires b@v0.2; tidy writes b@v0.1. -------------------------- *)
Definition u3 : universe :=
  mkU [([a], v 0 1); ([b], v 0 1); ([b], v 0 2); ([c], v 0 1)]
      [(([a], v 0 1), plain ([b], v 0 1)); (([a], v 0 1), plain ([c], v 0 1)); (([c], v 0 1), plain ([b], v 0 2))]
      [(([a], v 0 1), [p]); (([b], v 0 1), [q]); (([b], v 0 2), [q]); (([c], v 0 1), [r])]
      [((([a], v 0 1), [p]), ([b; q], Some 0)); ((([a], v 0 1), [p]), ([c; r], Some 0))]
      [].
Definition m3 := main0 [[]] [([a; p], Some 0)].
Definition f3 : list dep := [plain ([a], v 0 1); plain ([b], v 0 1); plain ([c], v 0 1)].

Example w3_tidy : tidy_model 10 1000 u3 m3 [] = TOk f3.
Proof. vm_compute. reflexivity. Qed.
Example w3_accepted : tidy_model 10 1000 u3 m3 f3 = TOk f3 /\ check_model 1000 u3 m3 f3 = CAccept.
Proof. vm_compute. split; reflexivity. Qed.

(* --- W5 (finding F-C17-4): Tidy(Tidy(x)) <> Tidy(x), both succeed.  b is reached
   only through a, so in the first run b's requirement c@v1 is pruned from the module
   graph and b's unversioned import "c/z" falls back to the main module's default
   (c@v2); tidy promotes b to a requirement; in the second run b's requirements are
   read, "c/z" inside b means c@v1, and c@v1 is added. ---------------------------- *)
Definition u5 : universe :=
  mkU [([a], v 0 1); ([b], v 0 1); ([c], v 1 0); ([c], v 2 0)]
      [(([a], v 0 1), plain ([b], v 0 1)); (([b], v 0 1), plain ([c], v 1 0))]
      [(([a], v 0 1), [p]); (([b], v 0 1), [x]); (([c], v 1 0), [z]); (([c], v 2 0), [z])]
      [((([a], v 0 1), [p]), ([b; x], Some 0)); ((([b], v 0 1), [x]), ([c; z], None))]
      [].
Definition m5 := main0 [[]] [([a; p], Some 0); ([c; z], Some 2)].
Definition f5 : list dep := [plain ([a], v 0 1); plain ([b], v 0 1); plain ([c], v 2 0)].
Definition f5' : list dep := [plain ([a], v 0 1); plain ([b], v 0 1); plain ([c], v 1 0); plain ([c], v 2 0)].

Example w5_tidy : tidy_model 10 1000 u5 m5 [] = TOk f5.
Proof. vm_compute. reflexivity. Qed.
Example w5_second_tidy_differs : tidy_model 10 1000 u5 m5 f5 = TOk f5' /\ check_model 1000 u5 m5 f5 = CReject.
Proof. vm_compute. split; reflexivity. Qed.
Example w5_third_tidy_stable : tidy_model 10 1000 u5 m5 f5' = TOk f5' /\ check_model 1000 u5 m5 f5' = CAccept.
Proof. vm_compute. split; reflexivity. Qed.

(* --- W4: a lexical candidate that provides nothing still drives version selection.
   a/x/y is provided by a; the query also adds a/x (latest), whose requirement b@v0.3
   raises b; a/x is then pruned but b stays at v0.3 although only b@v0.1 is required
   by what remains. --------------------------------------------------------------- *)
Definition u4 : universe :=
  mkU [([a], v 0 1); ([a; x], v 0 1); ([b], v 0 1); ([b], v 0 3); ([c], v 0 1)]
      [(([a; x], v 0 1), plain ([b], v 0 3)); (([c], v 0 1), plain ([b], v 0 1))]
      [(([a], v 0 1), [x; y]); (([a; x], v 0 1), [z]); (([b], v 0 1), [p]); (([b], v 0 3), [p]); (([c], v 0 1), [q])]
      [((([c], v 0 1), [q]), ([b; p], Some 0))]
      [].
Definition m4 := main0 [[]] [([a; x; y], Some 0); ([c; q], Some 0)].
Example w4_tidy : tidy_model 10 1000 u4 m4 [] =
                  TOk [plain ([a], v 0 1); plain ([b], v 0 3); plain ([c], v 0 1)].
Proof. vm_compute. reflexivity. Qed.

(* ------------------------------------------------------------------------ *)
(* Refutations: the faithful model does NOT satisfy the property as worded.   *)
From Verif Require Import Tidy.Sets Tidy.Proofs.

Theorem tidy_idempotent_refuted :
  exists u mm ds F, tidy_model 10 1000 u mm ds = TOk F /\ tidy_model 10 1000 u mm F <> TOk F.
Proof. exists u1, m1, d1, f1. split; [exact w1_tidy|]. rewrite w1_second_tidy_fails. discriminate. Qed.

Theorem tidy_idempotent_refuted_default_lost :
  exists u mm ds F, tidy_model 10 1000 u mm ds = TOk F /\ tidy_model 10 1000 u mm F = TErr true false false.
Proof. exists u2, m2, d2, f2. split; [exact w2_tidy | exact w2_second_tidy_fails]. Qed.

Theorem tidy_idempotent_refuted_grows :
  exists u mm ds F F', tidy_model 10 1000 u mm ds = TOk F /\ tidy_model 10 1000 u mm F = TOk F' /\ F <> F'.
Proof.
  exists u5, m5, [], f5, f5'. split; [exact w5_tidy|]. split; [apply w5_second_tidy_differs|]. discriminate.
Qed.

Theorem check_accepts_output_refuted :
  exists u mm ds F, tidy_model 10 1000 u mm ds = TOk F /\ check_model 1000 u mm F <> CAccept.
Proof. exists u1, m1, d1, f1. split; [exact w1_tidy|]. rewrite w1_check_fails_on_output. discriminate. Qed.

Theorem mvs_closed_refuted :
  exists u mm ds F, tidy_model 10 1000 u mm ds = TOk F /\ check_model 1000 u mm F = CAccept /\ ~ mvs_closed u F.
Proof.
  exists u3, m3, [], f3. split; [exact w3_tidy|]. split; [apply w3_accepted|].
  intros H.
  specialize (H (plain ([c], v 0 1)) (plain ([b], v 0 2)) (plain ([b], v 0 1))).
  apply H; try reflexivity; vm_compute; auto.
Qed.

(* non-vacuity of the positive theorems: an accepted, tidy module file *)
Example w0_is_tidy : IsTidy (norm_universe u0) (norm_main m0) f0.
Proof. apply (accepted_is_tidy _ _ 1000). vm_compute. reflexivity. Qed.
Example w0_wf : wf_file (norm_main m0) f0.
Proof.
  apply (tidy_output_wf (norm_universe u0) (norm_main m0)) with (fuel := 10%nat) (ifuel := 1000%nat) (ds := norm_deps d0).
  - vm_compute. intros n Hn. repeat (destruct Hn as [<-|Hn]; [discriminate|]). destruct Hn.
  - vm_compute. reflexivity.
Qed.
Example w0_mvs_closed : mvs_closed (norm_universe u0) f0.
Proof.
  intros d q d' Hd Hq Hd' E. vm_compute in Hd, Hd'.
  destruct Hd as [<-|[<-|[]]]; vm_compute in Hq; try tauto;
    destruct Hq as [<-|[]]; destruct Hd' as [<-|[<-|[]]]; vm_compute in E; try discriminate; vm_compute; discriminate.
Qed.
