(* Model of the module file codec: /repo/mod/modfile/modfile.go (Parse, ParseNonStrict,
   ParseLegacy, Format, parse), /repo/mod/modfile/schema.cue (#File of the three schema
   versions), /repo/internal/mod/modfiledata/modfile.go (File.init) and the checks it
   calls: module.NewVersion, module.Check, module.CheckPath, CheckPathWithoutVersion,
   checkPath/checkElem for kind modulePath (mod/module/path.go, module.go),
   ast.SplitPackageVersion.

   A module.cue file is modelled by the data tree the CUE evaluator produces for it (the
   file is data-only: parseDataOnlyCUE); the harness renders a tree as CUE text (quoted
   labels, string literals) and checks that the evaluator reads the same tree back.
   Strings are byte lists.  No proofs in this file. *)
From Coq Require Import List NArith ZArith Bool String.
From Verif Require Import Semver.Model.
From Verif Require Zip.Bytes Zip.Model.
Import ListNotations.
Local Open Scope N_scope.

Definition lit := Zip.Bytes.lit.

Inductive val :=
| VStr (s : str)
| VBool (b : bool)
| VNull
| VInt (z : Z)
| VStruct (l : list (str * val))
| VList (l : list val).

Definition tree := list (str * val).

Fixpoint lookup {A} (k : str) (l : list (str * A)) : option A :=
  match l with
  | [] => None
  | (k', v) :: r => if str_eqb k' k then Some v else lookup k r
  end.

Definition has_key {A} (k : str) (l : list (str * A)) : bool :=
  match lookup k l with Some _ => true | None => false end.

Definition null_s (s : str) : bool := match s with [] => true | _ => false end.

(* ------------------------------------------------------------------ the record *)
Record dep := mkDep { d_v : str; d_default : bool; d_replace : str }.

(* modfiledata.File: Module, Language (nil or version), Source (nil or kind), Deps (a nil and
   an empty map are not distinguished: Format drops an empty one), Custom (nil, or a map -
   an empty non-nil map is written as [custom: {}]) *)
Record file := mkFile {
  f_module : str;
  f_lang : option str;
  f_source : option str;
  f_deps : list (str * dep);
  f_custom : option (list (str * tree)) }.

Inductive err := ENoLang | ELangDecode | EBadLang | ETooNew | ENoSchema | ESchema | EDecode | EInit.
Inductive res (A : Type) := POk (a : A) | PErr (e : err).
Arguments POk {A} a.
Arguments PErr {A} e.

Definition k_module := lit "module"%string.
Definition k_language := lit "language"%string.
Definition k_version := lit "version"%string.
Definition k_source := lit "source"%string.
Definition k_kind := lit "kind"%string.
Definition k_description := lit "description"%string.
Definition k_deps := lit "deps"%string.
Definition k_custom := lit "custom"%string.
Definition k_v := lit "v"%string.
Definition k_default := lit "default"%string.
Definition k_replace := lit "replaceWith"%string.
Definition s_self := lit "self"%string.
Definition s_git := lit "git"%string.
Definition s_local := lit "local"%string.
Definition s_v0 := lit "v0"%string.

(* ------------------------------------------------------------------ parse, phase 1:
   v.Decode(&baseFileVersion): language.version as a string, "" when absent *)
Definition lang_version (t : tree) : res str :=
  match lookup k_language t with
  | None => POk []
  | Some (VStruct l) =>
    match lookup k_version l with
    | None => POk []
    | Some (VStr s) => POk s
    | Some _ => PErr ELangDecode
    end
  | Some _ => PErr ELangDecode
  end.

(* the schema versions of schema.cue *)
Inductive schema := S08 | S09 | S17.
Definition v_s08 := lit "v0.8.0-alpha.0"%string.
Definition v_s09 := lit "v0.9.0-alpha.0"%string.
Definition v_s17 := lit "v0.17.0"%string.

Definition geb (a b : str) : bool := match compare a b with Lt => false | _ => true end.

(* the latest schema whose version is <= the declared language version *)
Definition pick_schema (lv : str) : option schema :=
  if geb lv v_s17 then Some S17
  else if geb lv v_s09 then Some S09
  else if geb lv v_s08 then Some S08
  else None.

(* #Semver: =~"."  - some character other than a newline *)
Definition matches_dot (s : str) : bool := existsb (fun c => negb (c =? 10)) s.

Definition only_keys {A} (allowed : list str) (l : list (str * A)) : bool :=
  forallb (fun kv => existsb (str_eqb (fst kv)) allowed) l.

Definition opt_field {A} (k : str) (l : list (str * A)) (ok : A -> bool) : bool :=
  match lookup k l with None => true | Some v => ok v end.

Definition is_str (v : val) : bool := match v with VStr _ => true | _ => false end.
Definition is_bool (v : val) : bool := match v with VBool _ => true | _ => false end.
Definition is_struct (v : val) : bool := match v with VStruct _ => true | _ => false end.

(* #Dep of the chosen schema *)
Definition dep_ok (sv : schema) (v : val) : bool :=
  match v with
  | VStruct l =>
    only_keys [k_v; k_default; k_replace] l
    && opt_field k_v l (fun x => match x with VStr s => matches_dot s | VNull => true | _ => false end)
    && opt_field k_default l is_bool
    && opt_field k_replace l (fun x => match sv with S17 => is_str x | _ => false end)
  | _ => false
  end.

(* v.Unify(#File).Validate() *)
Definition schema_ok (sv : schema) (t : tree) : bool :=
  only_keys [k_module; k_language; k_source; k_description; k_deps; k_custom] t
  && opt_field k_module t is_str
  && opt_field k_language t
       (fun x => match x with
                 | VStruct l => only_keys [k_version] l
                                && opt_field k_version l (fun y => match y with VStr s => matches_dot s | _ => false end)
                 | _ => false end)
  && opt_field k_source t
       (fun x => match sv, x with
                 | S08, _ => false                                         (* _errorSourceFieldRequiredVersion *)
                 | _, VStruct l => only_keys [k_kind] l
                                   && opt_field k_kind l (fun y => match y with
                                                                   | VStr s => str_eqb s s_self || str_eqb s s_git
                                                                   | _ => false end)
                 | _, _ => false end)
  && opt_field k_description t is_str
  && opt_field k_deps t (fun x => match x with VStruct l => forallb (fun kv => dep_ok sv (snd kv)) l | _ => false end)
  && opt_field k_custom t (fun x => match x with VStruct l => forallb (fun kv => is_struct (snd kv)) l | _ => false end).

(* ------------------------------------------------------------------ v.Decode(&mf) *)
Definition str_of (o : option val) : str := match o with Some (VStr s) => s | _ => [] end.

Definition decode_dep (v : val) : dep :=
  match v with
  | VStruct l => mkDep (str_of (lookup k_v l))
                       (match lookup k_default l with Some (VBool b) => b | _ => false end)
                       (str_of (lookup k_replace l))
  | _ => mkDep [] false []
  end.

(* v.Decode(&mf) fails ("internal error: cannot decode into modFile struct") on [v: null]
   (null into a Go string) and on a missing required field - v.Validate() without
   cue.Concrete does not report those: [v!] of the schemas before v0.17.0, [kind!] of #Source *)
Definition decodable (sv : schema) (t : tree) : bool :=
  (match lookup k_deps t with
   | Some (VStruct l) =>
     forallb (fun kv => match snd kv with
                        | VStruct dl => match lookup k_v dl with
                                        | Some VNull => false
                                        | None => match sv with S17 => true | _ => false end
                                        | _ => true end
                        | _ => true end) l
   | _ => true
   end)
  && (match lookup k_source t with
      | Some (VStruct l) => has_key k_kind l
      | _ => true
      end).

Definition decode (t : tree) : file :=
  mkFile (str_of (lookup k_module t))
         (match lookup k_language t with
          | Some (VStruct l) => Some (str_of (lookup k_version l))
          | _ => None end)
         (match lookup k_source t with
          | Some (VStruct l) => Some (str_of (lookup k_kind l))
          | _ => None end)
         (match lookup k_deps t with
          | Some (VStruct l) => map (fun kv => (fst kv, decode_dep (snd kv))) l
          | _ => [] end)
         (match lookup k_custom t with
          | Some (VStruct l) => Some (map (fun kv => (fst kv, match snd kv with VStruct x => x | _ => [] end)) l)
          | _ => None end).

(* ------------------------------------------------------------------ mod/module *)
Definition c_at : N := 64.
Definition c_dash : N := 45.
Definition c_under : N := 95.

(* ast.SplitPackageVersion: strings.Cut(path, "@"), ok = false when the version is empty *)
Definition split_pkg_version (p : str) : str * str * bool :=
  let (a, b) := Zip.Bytes.cut_on c_at p in (a, b, negb (null_s b)).

Definition is_lower_alnum (c : N) : bool := ((48 <=? c) && (c <=? 57)) || ((97 <=? c) && (c <=? 122)).
(* modPathOK *)
Definition mod_path_ok (c : N) : bool := (c =? c_dash) || (c =? Zip.Bytes.c_dot) || (c =? c_under) || is_lower_alnum c.
(* firstPathOK *)
Definition first_path_ok (c : N) : bool := (c =? c_dash) || (c =? Zip.Bytes.c_dot) || is_lower_alnum c.
Definition is_punct3 (c : N) : bool := (c =? Zip.Bytes.c_dot) || (c =? c_under) || (c =? c_dash).

(* checkElem(elem, modulePath).  The Windows short-name test (tilde + digits) is unreachable
   for this kind: '~' is not modPathOK. *)
Definition check_elem_mod (e : str) : bool :=
  match e with
  | [] => false
  | c0 :: _ =>
    negb (forallb (N.eqb Zip.Bytes.c_dot) e)
    && negb (is_punct3 c0)
    && negb (match Zip.Bytes.last_byte e with Some b => is_punct3 b | None => false end)
    && forallb mod_path_ok e
    && negb (existsb (fun bad => Zip.Bytes.ascii_eqfold bad (fst (Zip.Bytes.cut_on Zip.Bytes.c_dot e)))
                     Zip.Model.bad_windows_names)
  end.

(* checkPath(path, modulePath) *)
Definition check_path_mod (p : str) : bool :=
  Zip.Bytes.valid_utf8 p &&
  match p with
  | [] => false
  | c0 :: _ =>
    negb (c0 =? c_dash)
    && negb (Zip.Bytes.has_double_slash p)
    && negb (Zip.Bytes.ends_with_slash p)
    && forallb check_elem_mod (Zip.Bytes.split_slash p)
  end.

(* basePathPat (the OCI repository name pattern): slash separated components, each one
   alphanumerics [a-z0-9]+ separated by one of  "."  "_"  "__"  or a run of dashes.
   One path component, as an automaton: after an alphanumeric / an alphanumeric is needed /
   inside a run of dashes / after one underscore. *)
Inductive ost := OAl | ONeed | ODash | OUnd.
Fixpoint oci_run (st : ost) (s : str) : bool :=
  match s with
  | [] => match st with OAl => true | _ => false end
  | c :: r =>
    if is_lower_alnum c then oci_run OAl r
    else match st with
         | OAl => if c =? Zip.Bytes.c_dot then oci_run ONeed r
                  else if c =? c_under then oci_run OUnd r
                  else if c =? c_dash then oci_run ODash r
                  else false
         | OUnd => if c =? c_under then oci_run ONeed r else false
         | ODash => if c =? c_dash then oci_run ODash r else false
         | ONeed => false
         end
  end.
Definition base_path_pat (p : str) : bool := forallb (oci_run ONeed) (Zip.Bytes.split_slash p).

(* CheckPathWithoutVersion *)
Definition check_path_without_version (base : str) : bool :=
  let '(_, _, ok) := split_pkg_version base in
  negb ok
  && check_path_mod base
  && (let first := fst (Zip.Bytes.cut_on Zip.Bytes.c_slash base) in
      negb (null_s first)
      && Zip.Bytes.contains_byte Zip.Bytes.c_dot first
      && negb (match base with c :: _ => c =? c_dash | [] => false end)
      && forallb first_path_ok first)
  && base_path_pat base.

(* tagPat: one of [a-zA-Z0-9_], then at most 127 of [a-zA-Z0-9._-] *)
Definition is_alnum (c : N) : bool := is_lower_alnum c || ((65 <=? c) && (c <=? 90)).
Definition tag_pat (v : str) : bool :=
  match v with
  | [] => false
  | c :: r => (is_alnum c || (c =? c_under))
              && forallb (fun x => is_alnum x || (x =? c_under) || (x =? Zip.Bytes.c_dot) || (x =? c_dash)) r
              && (N.of_nat (length r) <=? 127)
  end.

(* CheckPath *)
Definition check_path (mpath : str) : bool :=
  if str_eqb mpath s_local then true
  else let '(base, vers, ok) := split_pkg_version mpath in
       if ok then str_eqb (major vers) vers && tag_pat vers && check_path_without_version base
       else check_path_without_version mpath.

(* Check(path, version) *)
Definition check (path version : str) : bool :=
  check_path path && is_valid version
  && (let '(_, pm, _) := split_pkg_version path in str_eqb (major version) pm).

Definition canon_ok (v : str) : bool := is_valid v && str_eqb (canonical v) v.

(* module.NewVersion: the resulting path (with major version) or failure *)
Definition new_version (path version : str) : option str :=
  let checked (p : str) := if null_s version then check_path p else check p version in
  if str_eqb path s_local then
    if null_s version then (if checked path then Some path else None) else None
  else if negb (null_s version) && negb (str_eqb version s_none) then
    if negb (canon_ok version) then None
    else let maj := major version in
         let '(_, vmaj, ok) := split_pkg_version path in
         if ok then (if str_eqb maj vmaj then (if checked path then Some path else None) else None)
         else let full := path ++ c_at :: maj in
              let '(_, _, ok2) := split_pkg_version full in
              if ok2 then (if checked full then Some full else None) else None
  else
    let '(base, _, ok) := split_pkg_version path in
    if negb ok then None
    else if str_eqb base s_local then None
    else if checked path then Some path else None.

(* Version.BasePath *)
Definition base_path (path : str) : str :=
  if str_eqb path s_local then path else fst (Zip.Bytes.cut_on c_at path).

(* ------------------------------------------------------------------ File.init(strict)
   result: DepVersions as (path, version) in file order (Go sorts them), and
   DefaultMajorVersions as (base path, major) *)
Record views := mkViews { w_versions : list (str * str); w_defaults : list (str * str) }.

Fixpoint init_deps (strict : bool) (ds : list (str * dep)) (vs defaults : list (str * str)) : option views :=
  match ds with
  | [] => Some (mkViews (rev vs) (rev defaults))
  | (m, d) :: r =>
    match new_version m (d_v d) with
    | None => None
    | Some p =>
      if strict && negb (str_eqb p m) then None
      else if d_default d then
        let mp := base_path p in
        if has_key mp defaults then None
        else init_deps strict r ((p, d_v d) :: vs) ((mp, major (d_v d)) :: defaults)
      else init_deps strict r ((p, d_v d) :: vs) defaults
    end
  end.

Definition init (strict : bool) (f : file) : option views :=
  let '(main_path, main_major0, ok) := split_pkg_version (f_module f) in
  let main_ok :=
      if ok then str_eqb (major main_major0) main_major0
      else if negb (null_s main_path) then check_path_without_version main_path
      else false in
  let main_major := if ok then main_major0 else s_v0 in
  if negb main_ok then None
  else if negb (match f_lang f with None => true | Some v => canon_ok v end) then None
  else match init_deps strict (f_deps f) []
                       (if null_s main_path then [] else [(main_path, main_major)]) with
       | None => None
       | Some w =>
         (* if mainPath != "": NewVersion(mainPath@mainMajor, "") *)
         if null_s main_path then Some w
         else match new_version (main_path ++ c_at :: main_major) [] with
              | None => None
              | Some _ => Some w
              end
       end.

(* ------------------------------------------------------------------ parse + Init *)
Definition parse_file (strict : bool) (cur : str) (t : tree) : res (file * views) :=
  match lang_version t with
  | PErr e => PErr e
  | POk lv =>
    if null_s lv then PErr ENoLang
    else if negb (is_valid lv) then PErr EBadLang
    else match compare lv cur with
         | Gt => PErr ETooNew
         | _ =>
           match pick_schema lv with
           | None => PErr ENoSchema
           | Some sv =>
             if negb (schema_ok sv t) then PErr ESchema
             else if negb (decodable sv t) then PErr EDecode
             else let f := decode t in
                  match init strict f with
                  | None => PErr EInit
                  | Some w => POk (f, w)
                  end
           end
         end
  end.

Definition parse_strict := parse_file true.        (* modfile.Parse *)
Definition parse_nonstrict := parse_file false.    (* modfile.ParseNonStrict *)

(* modfile.ParseLegacy: only the module field is looked at (decoded into a string) *)
Definition parse_legacy (t : tree) : option str :=
  match lookup k_module t with
  | None => Some []
  | Some (VStr s) => Some s
  | Some _ => None
  end.

(* ------------------------------------------------------------------ Format
   cuecontext.Encode(f) following the json tags: module always; language, source, deps,
   custom omitted when nil/empty (Custom: when nil); Dep.v always, default and replaceWith
   omitted when zero *)
Definition render_dep (d : dep) : val :=
  VStruct ((k_v, VStr (d_v d))
             :: (if d_default d then [(k_default, VBool true)] else [])
             ++ (if null_s (d_replace d) then [] else [(k_replace, VStr (d_replace d))])).

Definition render (f : file) : tree :=
  (k_module, VStr (f_module f))
    :: (match f_lang f with
        | Some v => [(k_language, VStruct (if null_s v then [] else [(k_version, VStr v)]))]
        | None => [] end)
    ++ (match f_source f with Some k => [(k_source, VStruct [(k_kind, VStr k)])] | None => [] end)
    ++ (match f_deps f with
        | [] => []
        | ds => [(k_deps, VStruct (map (fun kd => (fst kd, render_dep (snd kd))) ds))] end)
    ++ (match f_custom f with
        | Some c => [(k_custom, VStruct (map (fun kc => (fst kc, VStruct (snd kc))) c))]
        | None => [] end).

(* Format: encode, then the sanity check parse + InitNonStrict (there is no "v0.0.0" schema in
   this tree, so the "too early" branch is dead) *)
Definition format (cur : str) (f : file) : option tree :=
  let t := render f in
  match parse_nonstrict cur t with
  | POk _ => Some t
  | PErr _ => None
  end.

(* top-level fields of an accepted text that the parsed file no longer carries *)
Definition dropped_fields (t : tree) (f : file) : list str :=
  filter (fun k => negb (has_key k (render f))) (map fst t).

(* ------------------------------------------------------------------ validity: the exact
   domain on which Parse (Format f) = f *)
Definition dep_valid (sv : schema) (d : dep) : bool :=
  matches_dot (d_v d) && (match sv with S17 => true | _ => null_s (d_replace d) end).

Definition valid (strict : bool) (cur : str) (f : file) : bool :=
  match f_lang f with
  | None => false
  | Some lv =>
    negb (null_s lv) && matches_dot lv && is_valid lv
    && (match compare lv cur with Gt => false | _ => true end)
    && match pick_schema lv with
       | None => false
       | Some sv =>
         (match f_source f with
          | None => true
          | Some k => (match sv with S08 => false | _ => true end) && (str_eqb k s_self || str_eqb k s_git)
          end)
         && forallb (fun kd => dep_valid sv (snd kd)) (f_deps f)
       end
    && match init strict f with Some _ => true | None => false end
  end.
