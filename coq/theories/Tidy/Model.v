(* Model of `cue mod tidy`: /repo/internal/mod/modload/tidy.go (tidy, tidyOnce,
   resolveDependencies, updateRoots, resolveMissingImports, tidyRoots, CheckTidy,
   equalRequirements, modfileFromRequirements), query.go (queryImport,
   queryLatestModules, LatestVersion), /repo/internal/mod/modpkgload/import.go
   (importFromModules, FindPackageLocations), pkgload.go (LoadPackages, load),
   /repo/internal/mod/modrequirements/requirements.go (NewRequirements,
   initDefaultMajorVersions, RootSelected, DefaultMajorVersion,
   DependencyDefaultMajorVersion, readModGraph / Selected).

   Scope (see design/C17.md): the published view only (opts = nil: no replace
   directives, no local-module.cue), no cue.mod/{pkg,usr,gen} packages, no build
   attributes / _tool / _test files, every package directory holds exactly the
   package its import path names, standard-library imports are dropped by the
   driver, module paths of requirement roots are pairwise distinct.

   All inputs are SETS of facts (lists whose order and repetitions carry no
   meaning); [norm_universe]/[norm_main]/[norm_deps] canonicalise them first, as
   the Go code does (maps keyed by module version / import path, slices.Sorted,
   module.Sort, semver.Sort). *)
From Coq Require Import List Bool NArith Arith.
From Verif Require Import Base.Order.
Import ListNotations.

(* ---------------------------------------------------------------- data ---- *)
Definition elem := N.                       (* one path element, interned by the driver *)
Definition path := list elem.               (* "a.test/x/y" = [a.test; x; y] *)
(* version vMAJOR.MINOR.PATCH or vMAJOR.MINOR.PATCH-pre  (pre = true) *)
Definition ver := (N * N * N * bool)%type.
Definition v_major (v : ver) : N := fst (fst (fst v)).
Definition v_pre (v : ver) : bool := snd v.

Definition mpath := (path * N)%type.        (* module path: base path, major version *)
Definition node := (path * ver)%type.       (* module version: base path, version *)
Definition n_mpath (n : node) : mpath := (fst n, v_major (snd n)).
Definition import := (path * option N)%type. (* import path, optional major version *)
Definition dep := (node * bool)%type.        (* requirement + `default: true` *)

Record universe := mkU {
  u_mods : list node;                        (* module versions in the registry *)
  u_deps : list (node * dep);                (* requirement facts *)
  u_pkgs : list (node * path);               (* package directory facts *)
  u_imps : list (node * path * import);      (* import facts *)
  u_std : list elem }.                       (* path elements without a dot: an import path
                                                starting with one is a standard-library package *)

Record mainmod := mkM {
  m_base : path; m_major : N;
  m_dirs : list path;                        (* package directories of the main module *)
  m_imports : list import }.                 (* union of the imports of all its files *)

(* modrequirements.Requirements: rootModules + origDefaultMajorVersions *)
Record reqs := mkR { r_roots : list node; r_defaults : list (path * N) }.

(* ----------------------------------------------------- orders, equality ---- *)
Definition bool_cmp (a b : bool) : comparison :=
  match a, b with false, true => Lt | true, false => Gt | _, _ => Eq end.
Definition option_cmp {A} (c : A -> A -> comparison) (x y : option A) : comparison :=
  match x, y with None, None => Eq | None, Some _ => Lt | Some _, None => Gt | Some a, Some b => c a b end.
Definition path_cmp : path -> path -> comparison := list_cmp N.compare.
(* semver precedence on the generated shapes: a prerelease sorts below its release *)
Definition ver_cmp (v w : ver) : comparison :=
  lex (lex (lex N.compare N.compare) N.compare) (fun a b => bool_cmp (negb a) (negb b)) v w.
Definition node_cmp : node -> node -> comparison := lex path_cmp ver_cmp.
Definition import_cmp : import -> import -> comparison := lex path_cmp (option_cmp N.compare).
Definition dep_cmp : dep -> dep -> comparison := lex node_cmp bool_cmp.
Definition mpath_cmp : mpath -> mpath -> comparison := lex path_cmp N.compare.

Definition eqb_of {A} (c : A -> A -> comparison) (x y : A) : bool :=
  match c x y with Eq => true | _ => false end.
Definition path_eqb := eqb_of path_cmp.
Definition node_eqb := eqb_of node_cmp.
Definition import_eqb := eqb_of import_cmp.
Definition mpath_eqb := eqb_of mpath_cmp.
Definition ver_ltb (v w : ver) : bool := match ver_cmp v w with Lt => true | _ => false end.

(* insertion into a strictly sorted list = set insertion *)
Fixpoint insert_u {A} (c : A -> A -> comparison) (x : A) (l : list A) : list A :=
  match l with
  | [] => [x]
  | y :: r => match c x y with Lt => x :: l | Eq => l | Gt => y :: insert_u c x r end
  end.
Definition sort_dedup {A} (c : A -> A -> comparison) (l : list A) : list A :=
  fold_right (insert_u c) [] l.

Definition norm_universe (u : universe) : universe :=
  mkU (sort_dedup node_cmp (u_mods u))
      (sort_dedup (lex node_cmp dep_cmp) (u_deps u))
      (sort_dedup (lex node_cmp path_cmp) (u_pkgs u))
      (sort_dedup (lex (lex node_cmp path_cmp) import_cmp) (u_imps u))
      (sort_dedup N.compare (u_std u)).
Definition norm_main (m : mainmod) : mainmod :=
  mkM (m_base m) (m_major m) (sort_dedup path_cmp (m_dirs m)) (sort_dedup import_cmp (m_imports m)).
Definition norm_deps (ds : list dep) : list dep := sort_dedup dep_cmp ds.

Fixpoint max_ver (l : list ver) : option ver :=
  match l with
  | [] => None
  | v :: r => match max_ver r with
              | None => Some v
              | Some w => Some (if ver_ltb v w then w else v)
              end
  end.

Fixpoint list_eqb {A} (e : A -> A -> bool) (a b : list A) : bool :=
  match a, b with
  | [], [] => true
  | x :: a', y :: b' => e x y && list_eqb e a' b'
  | _, _ => false
  end.

Fixpoint lookup_default (ds : list (path * N)) (p : path) : option N :=
  match ds with
  | [] => None
  | (q, m) :: r => if path_eqb q p then Some m else lookup_default r p
  end.

(* all ways of cutting an import path into (module base candidate, directory):
   pathAncestors / `for prefix := parts.Path; prefix != "."; prefix = path.Dir(prefix)` *)
Fixpoint splits_from (pre suf : path) : list (path * path) :=
  match suf with
  | [] => []
  | e :: s => (pre ++ [e], s) :: splits_from (pre ++ [e]) s
  end.
Definition splits (p : path) : list (path * path) := splits_from [] p.

Fixpoint prefixes (p : path) : list path :=
  match p with
  | [] => [[]]
  | e :: r => [] :: map (cons e) (prefixes r)
  end.

Inductive prov := PMain | PExt (n : node) | PStd.     (* who provides a package *)
Inductive fres := Found (p : prov) | Missing | Ambig | FetchErr.
Inductive dstatus := DExplicit (m : N) | DImplicit (m : N) | DNone | DAmbig.

(* per package: Package.mod/err, an error raised while resolving the unversioned
   imports of an external package, Package.imports *)
Record pentry := mkPE { pe_found : fres; pe_rwerr : option fres; pe_imports : list import }.

Inductive tres :=
| TOk (file : list dep)              (* deps of the tidied module.cue *)
| TErr (missing ambig fetch : bool)  (* which error classes the failing load contains *)
| TMulti                             (* one module path loaded at two versions: not modelled (BFS order) *)
| TFuel                              (* the resolve loop ran out of fuel *)
| TIFuel.                            (* an inner computation (package closure, root settling) ran out of fuel *)

Inductive cres := CAccept | CReject | CErr (missing ambig fetch : bool) | CMulti | CFuel.

Section Tidy.
  Variable u : universe.
  Variable mm : mainmod.

  Definition main_mpath : mpath := (m_base mm, m_major mm).
  Definition mod_exists (n : node) : bool := existsb (node_eqb n) (u_mods u).
  Definition deps_of (n : node) : list dep :=
    map snd (filter (fun f => node_eqb (fst f) n) (u_deps u)).
  Definition has_pkg (n : node) (d : path) : bool :=
    existsb (fun f => node_eqb (fst f) n && path_eqb (snd f) d) (u_pkgs u).
  Definition imports_of (n : node) (d : path) : list import :=
    map snd (filter (fun f => node_eqb (fst (fst f)) n && path_eqb (snd (fst f)) d) (u_imps u)).
  (* modimports.PackageFiles: the files of a package are those of its directory plus
     the files with the same package name in every parent directory up to the module
     root.  The package of a directory is named by the last element of its import path. *)
  Definition pkg_imports (n : node) (d : path) : list import :=
    flat_map (imports_of n)
             (filter (fun a => N.eqb (last (fst n ++ a) 0%N) (last (fst n ++ d) 0%N)) (prefixes d)).
  (* modpkgload.IsStdlibPackage *)
  Definition is_std (p : path) : bool :=
    match p with [] => false | e :: _ => existsb (N.eqb e) (u_std u) end.
  Definition main_has (d : path) : bool := existsb (path_eqb d) (m_dirs mm).

  (* Requirements.RootSelected (maxRootVersion) *)
  Definition root_selected (rs : reqs) (mp : mpath) : option ver :=
    max_ver (map snd (filter (fun r => mpath_eqb (n_mpath r) mp) (r_roots rs))).
  (* readModGraph: the main module requires the roots, every root requires what its
     module file lists; requirements of non-roots are pruned.  Selected = maximum. *)
  Definition graph_nodes (rs : reqs) : list node :=
    r_roots rs ++ flat_map (fun r => map fst (deps_of r)) (r_roots rs).
  Definition graph_ok (rs : reqs) : bool := forallb mod_exists (r_roots rs).
  Definition selected (rs : reqs) (mp : mpath) : option ver :=
    max_ver (map snd (filter (fun r => mpath_eqb (n_mpath r) mp) (graph_nodes rs))).

  (* initDefaultMajorVersions + DefaultMajorVersion *)
  Definition default_status (rs : reqs) (p : path) : dstatus :=
    match lookup_default (r_defaults rs) p with
    | Some m => DExplicit m
    | None => match filter (fun r => path_eqb (fst r) p) (r_roots rs) with
              | [] => DNone
              | [r] => DImplicit (v_major (snd r))
              | _ => DAmbig
              end
    end.
  Definition main_default (rs : reqs) (p : path) : option N :=
    match default_status rs p with DExplicit m | DImplicit m => Some m | _ => None end.

  (* DependencyDefaultMajorVersion: the importing module's own defaults; its module
     file's DefaultMajorVersions always holds the module itself *)
  Definition dep_default (n : node) (p : path) : option N :=
    if path_eqb (fst n) p then Some (v_major (snd n)) else
    match filter (fun d : dep => path_eqb (fst (fst d)) p) (deps_of n) with
    | [] => None
    | ds => match filter (fun d : dep => snd d) ds with
            | d :: _ => Some (v_major (snd (fst d)))
            | [] => match sort_dedup N.compare (map (fun d : dep => v_major (snd (fst d))) ds) with
                    | [m] => Some m
                    | _ => None
                    end
            end
    end.

  (* FindPackageLocations with versionForModule of importFromModules *)
  Definition cand_at (sel : mpath -> option ver) (dflt : path -> option N) (i : import)
             (sp : path * path) : option (list prov) :=
    let (pre, dir) := sp in
    match (match snd i with Some m => Some m | None => dflt pre end) with
    | None => Some []
    | Some m =>
      if mpath_eqb (pre, m) main_mpath then Some (if main_has dir then [PMain] else [])
      else match sel (pre, m) with
           | None => Some []
           | Some v => if mod_exists (pre, v)
                       then Some (if has_pkg (pre, v) dir then [PExt (pre, v)] else [])
                       else None      (* Fetch fails *)
           end
    end.
  Fixpoint cands (sel : mpath -> option ver) (dflt : path -> option N) (i : import)
           (sps : list (path * path)) : option (list prov) :=
    match sps with
    | [] => Some []
    | sp :: r => match cand_at sel dflt i sp, cands sel dflt i r with
                 | Some a, Some b => Some (a ++ b)
                 | _, _ => None
                 end
    end.

  (* importFromModules: first the roots only, then the whole (pruned) module graph *)
  Definition find_pkg (rs : reqs) (dflt : path -> option N) (i : import) : fres :=
    match cands (root_selected rs) dflt i (splits (fst i)) with
    | None => FetchErr
    | Some [x] => Found x
    | Some (_ :: _ :: _) => Ambig
    | Some [] =>
      if graph_ok rs then
        match cands (selected rs) dflt i (splits (fst i)) with
        | None => FetchErr
        | Some [] => Missing
        | Some [x] => Found x
        | Some _ => Ambig
        end
      else FetchErr
    end.

  (* Packages.load, the part after importFromModules, for an external package:
     an unversioned import is given the major version of the module that provides
     it under the IMPORTING module's defaults; unresolvable ones stay unversioned *)
  Definition rewrite_import (rs : reqs) (n : node) (i : import) : import * option fres :=
    match snd i with
    | Some _ => (i, None)
    | None => match find_pkg rs (dep_default n) i with
              | Found (PExt p) => ((fst i, Some (v_major (snd p))), None)
              | Found _ => (i, None)
              | Missing => (i, None)
              | e => (i, Some e)
              end
    end.

  Definition first_err (l : list (option fres)) : option fres :=
    match filter (fun o => match o with Some _ => true | None => false end) l with
    | e :: _ => e
    | [] => None
    end.

  Definition process (rs : reqs) (i : import) : pentry :=
    if is_std (fst i) then mkPE (Found PStd) None [] else
    match find_pkg rs (main_default rs) i with
    | Found (PExt n) =>
      let dir := skipn (length (fst n)) (fst i) in
      let rw := map (rewrite_import rs n) (sort_dedup import_cmp (pkg_imports n dir)) in
      mkPE (Found (PExt n)) (first_err (map snd rw)) (map fst rw)
    | r => mkPE r None []        (* main-module packages: their imports are roots already *)
    end.

  (* LoadPackages: the set of packages reachable from the roots *)
  Fixpoint closure (fuel : nat) (proc : import -> pentry) (seen : list (import * pentry))
           (todo : list import) : option (list (import * pentry)) :=
    match todo with
    | [] => Some seen
    | k :: rest =>
      match fuel with
      | O => None
      | S f => if existsb (fun e => import_eqb (fst e) k) seen then closure f proc seen rest
               else let e := proc k in closure f proc ((k, e) :: seen) (pe_imports e ++ rest)
      end
    end.
  Definition load (fuel : nat) (rs : reqs) := closure fuel (process rs) [] (m_imports mm).

  Definition entry_bad (e : pentry) : bool :=
    match pe_found e, pe_rwerr e with Found _, None => false | _, _ => true end.
  Definition is_class (c : fres) (e : pentry) : bool :=
    let m x := match x, c with Missing, Missing | Ambig, Ambig | FetchErr, FetchErr => true | _, _ => false end in
    m (pe_found e) || match pe_rwerr e with Some x => m x | None => false end.
  Definition providers (l : list (import * pentry)) : list node :=
    sort_dedup node_cmp
      (flat_map (fun e => match pe_found (snd e) with Found (PExt n) => [n] | _ => [] end) l).

  (* query.go LatestVersion *)
  Definition latest (vs : list ver) : option ver :=
    match max_ver (filter (fun v => negb (v_pre v)) vs) with
    | Some v => Some v
    | None => max_ver vs
    end.
  (* Registry.ModuleVersions *)
  Definition versions_of (p : path) (mj : option N) : list ver :=
    map snd (filter (fun n : node => path_eqb (fst n) p &&
                                     match mj with Some m => N.eqb (v_major (snd n)) m | None => true end)
                    (u_mods u)).
  (* queryLatestModules *)
  Definition query_at (rs : reqs) (i : import) (pre : path) : list node :=
    let go (mj : option N) :=
        match (match mj with Some m => root_selected rs (pre, m) | None => None end) with
        | Some _ => []
        | None => match latest (versions_of pre mj) with Some v => [(pre, v)] | None => [] end
        end in
    match snd i with
    | Some m => go (Some m)
    | None => match default_status rs pre with
              | DAmbig => []
              | DExplicit m | DImplicit m => go (Some m)
              | DNone => go None
              end
    end.
  Definition query (rs : reqs) (i : import) : list node :=
    flat_map (fun sp => query_at rs i (fst sp)) (splits (fst i)).

  Definition missing_keys (l : list (import * pentry)) : list import :=
    map fst (filter (fun e => match pe_found (snd e) with Missing => true | _ => false end) l).

  (* resolveMissingImports: modules to add, new default major versions *)
  Definition to_add (rs : reqs) (l : list (import * pentry)) : list node :=
    sort_dedup node_cmp (flat_map (query rs) (missing_keys l)).
  Definition new_defaults (rs : reqs) (l : list (import * pentry)) : list (path * N) :=
    fold_left (fun ds (k : import) =>
                 match snd k with
                 | Some _ => ds
                 | None => fold_left (fun ds (c : node) => (fst c, v_major (snd c)) :: ds) (query rs k) ds
                 end)
              (missing_keys l) (r_defaults rs).

  (* updateRoots *)
  Fixpoint dedup_paths (seen : list mpath) (l : list node) : list node :=
    match l with
    | [] => []
    | n :: r => if existsb (mpath_eqb (n_mpath n)) seen then dedup_paths seen r
                else n :: dedup_paths (n_mpath n :: seen) r
    end.
  Definition reselect (ds : list (path * N)) (roots : list node) : list node :=
    dedup_paths []
      (map (fun r => match selected (mkR roots ds) (n_mpath r) with Some v => (fst r, v) | None => r end) roots).
  Fixpoint settle (fuel : nat) (ds : list (path * N)) (roots : list node) : option (option (list node)) :=
    match fuel with
    | O => None
    | S f => if graph_ok (mkR roots ds) then
               let roots' := reselect ds roots in
               if forallb (fun r => existsb (node_eqb r) roots') roots then Some (Some roots')
               else settle f ds (sort_dedup node_cmp roots')
             else Some None        (* rs.Graph fails *)
    end.
  Definition update_roots (fuel : nat) (rs : reqs) (l : list (import * pentry)) (add : list node)
    : option (option reqs) :=
    let promoted := filter (fun n => match root_selected rs (n_mpath n) with None => true | Some _ => false end)
                           (providers l) in
    let add' := filter (fun n => match root_selected rs (n_mpath n) with
                                 | None => true | Some v => ver_ltb v (snd n) end) add in
    match settle fuel (r_defaults rs) (sort_dedup node_cmp (r_roots rs ++ promoted ++ add')) with
    | None => None
    | Some None => Some None
    | Some (Some roots) => Some (Some (mkR (sort_dedup node_cmp roots) (r_defaults rs)))
    end.

  Definition unique_paths (l : list node) : bool :=
    Nat.eqb (length (dedup_paths [] l)) (length l).
  Definition err_of (l : list (import * pentry)) : tres :=
    TErr (existsb (fun e => is_class Missing (snd e)) l)
         (existsb (fun e => is_class Ambig (snd e)) l)
         (existsb (fun e => is_class FetchErr (snd e)) l).
  (* modfileFromRequirements *)
  Definition to_file (rs : reqs) : list dep :=
    map (fun n => (n, match lookup_default (r_defaults rs) (fst n) with
                      | Some m => N.eqb m (v_major (snd n)) | None => false end)) (r_roots rs).
  (* tidyOnce after resolveDependencies: errors, tidyRoots *)
  Definition finish (rs : reqs) (l : list (import * pentry)) : tres :=
    if existsb (fun e => entry_bad (snd e)) l then err_of l
    else let ps := providers l in
         if unique_paths ps then TOk (to_file (mkR ps (r_defaults rs))) else TMulti.

  (* resolveDependencies *)
  Fixpoint resolve_loop (fuel ifuel : nat) (rs : reqs) : tres :=
    match fuel with
    | O => TFuel
    | S f =>
      match load ifuel rs with
      | None => TIFuel
      | Some l =>
        let add := to_add rs l in
        let rs1 := mkR (r_roots rs) (new_defaults rs l) in
        match add with
        | [] => finish rs1 l
        | _ => match update_roots ifuel rs1 l add with
               | None => TIFuel
               | Some None => TErr false false true
               | Some (Some rs2) => resolve_loop f ifuel rs2
               end
        end
      end
    end.

  (* modfile.File.init: DepVersions, DefaultMajorVersions (the main module is always
     the default for its own base path) *)
  Definition of_file (ds : list dep) : reqs :=
    mkR (sort_dedup node_cmp (map fst ds))
        ((m_base mm, m_major mm) ::
         flat_map (fun d : dep => if snd d then [(fst (fst d), v_major (snd (fst d)))] else []) ds).

  Definition tidy (fuel ifuel : nat) (ds : list dep) : tres := resolve_loop fuel ifuel (of_file ds).

  (* CheckTidy: one load, no query; equalRequirements *)
  Definition check (ifuel : nat) (ds : list dep) : cres :=
    let rs := of_file ds in
    match load ifuel rs with
    | None => CFuel
    | Some l =>
      if existsb (fun e => entry_bad (snd e)) l then
        match err_of l with TErr m a f => CErr m a f | _ => CFuel end
      else let ps := providers l in
           if unique_paths ps then
             (if list_eqb node_eqb (r_roots rs) ps then CAccept else CReject)
           else CMulti
    end.
End Tidy.

(* entry points on raw (unnormalised) facts *)
Definition tidy_model (fuel ifuel : nat) (u : universe) (mm : mainmod) (ds : list dep) : tres :=
  tidy (norm_universe u) (norm_main mm) fuel ifuel (norm_deps ds).
Definition check_model (ifuel : nat) (u : universe) (mm : mainmod) (ds : list dep) : cres :=
  check (norm_universe u) (norm_main mm) ifuel (norm_deps ds).
