(* Model of Go's unicode/utf8 codec as used by /repo/cue/literal (quote.go, string.go):
     utf8.DecodeRuneInString  -> utf8_decode
     utf8.AppendRune          -> utf8_encode
     utf8.DecodeLastRuneInString -> utf8_decode_last_rev (on the reversed prefix)
   Strings are byte lists ([list N]); runes are [N] (negative runes never reach
   the codec in the modelled code).  Go's bit masks are written arithmetically
   ((p0 - 0xC0) * 64 + (b1 - 0x80) instead of (p0 & 0x1F) << 6 | (b1 & 0x3F)):
   the two agree on the byte ranges on which each branch is taken. *)
From Coq Require Export List NArith Bool.
Export ListNotations.
Open Scope N_scope.

Definition str := list N.

Definition rune_error : N := 0xFFFD.
Definition max_rune : N := 0x10FFFF.
Definition rune_self : N := 0x80.

Definition is_byte (b : N) : Prop := b < 256.
Definition is_bytes (s : str) : Prop := Forall is_byte s.

(* a Unicode scalar value: what a valid UTF-8 sequence can denote *)
Definition scalar (r : N) : Prop := r <= max_rune /\ ~ (0xD800 <= r /\ r <= 0xDFFF).
Definition scalarb (r : N) : bool := (r <=? max_rune) && negb ((0xD800 <=? r) && (r <=? 0xDFFF)).

Definition in_range (lo hi b : N) : bool := (lo <=? b) && (b <=? hi).
Definition is_cont (b : N) : bool := in_range 0x80 0xBF b.

(* utf8.DecodeRuneInString: (rune, width); (RuneError, 0) on empty input,
   (RuneError, 1) on any invalid or truncated sequence (overlong, surrogate,
   > U+10FFFF are excluded through the accept ranges of the second byte). *)
Definition utf8_decode (s : str) : N * nat :=
  match s with
  | [] => (rune_error, 0%nat)
  | p0 :: t =>
    if p0 <? 0x80 then (p0, 1%nat)
    else if (p0 <? 0xC2) || (0xF4 <? p0) then (rune_error, 1%nat)
    else if p0 <? 0xE0 then
      match t with
      | b1 :: _ =>
        if is_cont b1 then ((p0 - 0xC0) * 64 + (b1 - 0x80), 2%nat) else (rune_error, 1%nat)
      | _ => (rune_error, 1%nat)
      end
    else if p0 <? 0xF0 then
      let lo := if p0 =? 0xE0 then 0xA0 else 0x80 in
      let hi := if p0 =? 0xED then 0x9F else 0xBF in
      match t with
      | b1 :: b2 :: _ =>
        if in_range lo hi b1 && is_cont b2
        then ((p0 - 0xE0) * 4096 + (b1 - 0x80) * 64 + (b2 - 0x80), 3%nat)
        else (rune_error, 1%nat)
      | _ => (rune_error, 1%nat)
      end
    else
      let lo := if p0 =? 0xF0 then 0x90 else 0x80 in
      let hi := if p0 =? 0xF4 then 0x8F else 0xBF in
      match t with
      | b1 :: b2 :: b3 :: _ =>
        if in_range lo hi b1 && is_cont b2 && is_cont b3
        then ((p0 - 0xF0) * 262144 + (b1 - 0x80) * 4096 + (b2 - 0x80) * 64 + (b3 - 0x80), 4%nat)
        else (rune_error, 1%nat)
      | _ => (rune_error, 1%nat)
      end
  end.

(* utf8.AppendRune (appendRuneNonASCII): surrogates and runes above MaxRune
   are encoded as U+FFFD. *)
Definition utf8_encode (r : N) : str :=
  if r <=? 0x7F then [r]
  else if r <=? 0x7FF then [0xC0 + r / 64; 0x80 + r mod 64]
  else if (max_rune <? r) || ((0xD800 <=? r) && (r <=? 0xDFFF)) then [0xEF; 0xBF; 0xBD]
  else if r <=? 0xFFFF then [0xE0 + r / 4096; 0x80 + (r / 64) mod 64; 0x80 + r mod 64]
  else [0xF0 + r / 262144; 0x80 + (r / 4096) mod 64; 0x80 + (r / 64) mod 64; 0x80 + r mod 64].

(* utf8.RuneStart *)
Definition rune_start (b : N) : bool := negb (is_cont b).

(* utf8.DecodeLastRuneInString(s) where [rs] = rev s.  Go walks back at most
   UTFMax-1 bytes looking for a start byte, decodes forward from there and
   requires the decoded width to reach the end of s. *)
Definition utf8_decode_last_rev (rs : str) : N * nat :=
  match rs with
  | [] => (rune_error, 0%nat)
  | b :: t =>
    if b <? 0x80 then (b, 1%nat)
    else
      let n :=
        match t with
        | [] => 1%nat
        | b1 :: t1 =>
          if rune_start b1 then 2%nat else
          match t1 with
          | [] => 2%nat
          | b2 :: t2 =>
            if rune_start b2 then 3%nat else
            match t2 with
            | [] => 3%nat
            | b3 :: t3 =>
              if rune_start b3 then 4%nat else
              match t3 with [] => 4%nat | _ => 5%nat end
            end
          end
        end in
      let '(r, sz) := utf8_decode (rev (firstn n rs)) in
      if Nat.eqb sz n then (r, sz) else (rune_error, 1%nat)
  end.

(* a string is valid UTF-8 iff it is a concatenation of encodings of scalar values *)
Inductive valid_utf8 : str -> Prop :=
| vu_nil : valid_utf8 []
| vu_cons : forall r rest, scalar r -> valid_utf8 rest -> valid_utf8 (utf8_encode r ++ rest).

(* what the String forms turn a byte sequence into: every byte at which decoding
   fails becomes U+FFFD (EF BF BD); valid sequences are kept.  Structural on the
   list through a skip counter (no fuel). *)
Fixpoint sanitize_go (skip : nat) (s : str) : str :=
  match s with
  | [] => []
  | b :: t =>
    match skip with
    | S k => b :: sanitize_go k t
    | O =>
      let '(r, w) := utf8_decode s in
      if (r =? rune_error) && Nat.eqb w 1 then [0xEF; 0xBF; 0xBD] ++ sanitize_go 0 t
      else b :: sanitize_go (w - 1) t
    end
  end.
Definition sanitize (s : str) : str := sanitize_go 0 s.
