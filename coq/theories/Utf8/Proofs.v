(* Facts about the UTF-8 codec model: decode/encode round trips by range case
   analysis + lia (no sweep over the 1.1M scalar values). *)
From Verif Require Import Utf8.Model.
From Coq Require Import ZArith Lia ZifyN ZifyNat ZifyBool.
Ltac Zify.zify_post_hook ::= Z.div_mod_to_equations.

Ltac bdestruct1 :=
  match goal with
  | |- context [?a =? ?b] => destruct (N.eqb_spec a b)
  | |- context [?a <? ?b] => destruct (N.ltb_spec a b)
  | |- context [?a <=? ?b] => destruct (N.leb_spec a b)
  end.
Ltac bdestruct_all := unfold max_rune, rune_error, rune_self in *; repeat (bdestruct1; cbn [andb orb negb]; try lia).

Lemma scalarb_spec : forall r, scalarb r = true <-> scalar r.
Proof. intro r. unfold scalarb, scalar, max_rune. lia. Qed.

Lemma encode_length_bounds : forall r,
  (1 <= length (utf8_encode r) <= 4)%nat.
Proof. intro r. unfold utf8_encode. bdestruct_all; cbn; lia. Qed.

Lemma encode_nonempty : forall r, utf8_encode r <> [].
Proof. intro r. pose proof (encode_length_bounds r). destruct (utf8_encode r); cbn in *; [lia|discriminate]. Qed.

Lemma encode_ascii : forall r, r < 0x80 -> utf8_encode r = [r].
Proof. intros r H. unfold utf8_encode. bdestruct_all; reflexivity. Qed.

Lemma encode_bytes : forall r, is_bytes (utf8_encode r).
Proof.
  intro r. unfold is_bytes, utf8_encode, is_byte, max_rune.
  bdestruct_all; repeat constructor; lia.
Qed.

(* every byte of the encoding of a non-ASCII rune is >= 0x80, the first >= 0xC2 *)
Lemma encode_high : forall r, 0x80 <= r ->
  Forall (fun b => 0x80 <= b) (utf8_encode r) /\
  exists b t, utf8_encode r = b :: t /\ 0xC2 <= b.
Proof.
  intros r H. unfold utf8_encode, max_rune.
  bdestruct_all; (split; [repeat constructor; lia | eexists; eexists; split; [reflexivity|lia]]).
Qed.

(* THE codec round trip: decoding what AppendRune wrote for a scalar value gives
   that value and its width, whatever follows. *)
Lemma decode_encode : forall r rest, scalar r ->
  utf8_decode (utf8_encode r ++ rest) = (r, length (utf8_encode r)).
Proof.
  intros r rest [Hm Hs]. unfold utf8_encode. unfold max_rune in *.
  bdestruct_all; cbn [app utf8_decode length]; unfold is_cont, in_range;
    bdestruct_all; try reflexivity; f_equal; lia.
Qed.

(* U+FFFD itself is a scalar: its encoding decodes with width 3 *)
Lemma decode_encode_rune_error : forall rest,
  utf8_decode ([0xEF; 0xBF; 0xBD] ++ rest) = (rune_error, 3%nat).
Proof. intro rest. reflexivity. Qed.

Lemma decode_width : forall b t,
  let '(r, w) := utf8_decode (b :: t) in (1 <= w <= length (b :: t))%nat.
Proof.
  intros b t. unfold utf8_decode.
  repeat match goal with
  | |- context [if ?c then _ else _] => destruct c
  | |- context [match ?l with [] => _ | _ :: _ => _ end] => destruct l
  end; cbn [length]; lia.
Qed.

Lemma decode_ascii : forall b t, b < 0x80 -> utf8_decode (b :: t) = (b, 1%nat).
Proof. intros b t H. unfold utf8_decode. bdestruct_all. reflexivity. Qed.

(* Either decoding fails with (RuneError, 1), or the decoded bytes are exactly
   the encoding of the scalar value returned. *)
Lemma decode_spec : forall b t,
  let '(r, w) := utf8_decode (b :: t) in
  (r = rune_error /\ w = 1%nat) \/
  (scalar r /\ firstn w (b :: t) = utf8_encode r /\ length (utf8_encode r) = w /\
   (w <= length (b :: t))%nat /\ (b < 0x80 <-> r < 0x80) /\ (r < 0x80 -> r = b)).
Proof.
  intros b t. unfold utf8_decode.
  destruct (N.ltb_spec b 0x80).
  { right. unfold scalar, max_rune. rewrite encode_ascii by lia. cbn. repeat split; try lia. }
  destruct (N.ltb_spec b 0xC2); cbn [orb]; [left; split; reflexivity|].
  destruct (N.ltb_spec 0xF4 b); cbn [orb]; [left; split; reflexivity|].
  destruct (N.ltb_spec b 0xE0).
  { destruct t as [|b1 t1]; [left; split; reflexivity|].
    unfold is_cont, in_range.
    destruct (N.leb_spec 0x80 b1); cbn [andb]; [|left; split; reflexivity].
    destruct (N.leb_spec b1 0xBF); cbn [andb]; [|left; split; reflexivity].
    right. unfold scalar, max_rune, utf8_encode.
    bdestruct_all. cbn [firstn length]. repeat split; try lia.
    f_equal; [lia|]. f_equal. lia. }
  destruct (N.ltb_spec b 0xF0).
  { destruct t as [|b1 [|b2 t2]]; try (left; split; reflexivity).
    unfold is_cont, in_range.
    match goal with |- context [if ?c then _ else _] => destruct c eqn:E end;
      [|left; split; reflexivity].
    right.
    assert (H80 : (if b =? 0xE0 then 0xA0 else 0x80) <= b1 /\ b1 <= (if b =? 0xED then 0x9F else 0xBF)
                  /\ 0x80 <= b2 /\ b2 <= 0xBF) by lia.
    clear E.
    unfold scalar, max_rune, utf8_encode, max_rune.
    destruct (N.eqb_spec b 0xE0); destruct (N.eqb_spec b 0xED); try lia;
      bdestruct_all; cbn [firstn length]; repeat split; try lia;
      (f_equal; [lia|]; f_equal; [lia|]; f_equal; lia). }
  destruct t as [|b1 [|b2 [|b3 t3]]]; try (left; split; reflexivity).
  unfold is_cont, in_range.
  match goal with |- context [if ?c then _ else _] => destruct c eqn:E end;
    [|left; split; reflexivity].
  right.
  assert (H80 : (if b =? 0xF0 then 0x90 else 0x80) <= b1 /\ b1 <= (if b =? 0xF4 then 0x8F else 0xBF)
                /\ 0x80 <= b2 /\ b2 <= 0xBF /\ 0x80 <= b3 /\ b3 <= 0xBF) by lia.
  clear E.
  unfold scalar, max_rune, utf8_encode, max_rune.
  destruct (N.eqb_spec b 0xF0); destruct (N.eqb_spec b 0xF4); try lia;
    bdestruct_all; cbn [firstn length]; repeat split; try lia;
    (f_equal; [lia|]; f_equal; [lia|]; f_equal; [lia|]; f_equal; lia).
Qed.

(* ---- sanitize: what is lost in the String forms ---- *)

Lemma sanitize_go_skip : forall xs rest,
  sanitize_go (length xs) (xs ++ rest) = xs ++ sanitize_go 0 rest.
Proof. induction xs; intros; cbn; [reflexivity|]. now rewrite IHxs. Qed.

Lemma sanitize_encode : forall r rest, scalar r ->
  sanitize (utf8_encode r ++ rest) = utf8_encode r ++ sanitize rest.
Proof.
  intros r rest Hs. unfold sanitize.
  pose proof (decode_encode r rest Hs) as D.
  pose proof (encode_length_bounds r) as L.
  destruct (utf8_encode r) as [|b t] eqn:E; [cbn in L; lia|].
  cbn [app sanitize_go]. cbn [app] in D. rewrite D.
  destruct ((r =? rune_error) && Nat.eqb (length (b :: t)) 1) eqn:C.
  - (* r = U+FFFD has a 3-byte encoding, so width <> 1 *)
    exfalso. apply andb_prop in C. destruct C as [C1 C2].
    apply N.eqb_eq in C1. subst r. vm_compute in E. inversion E. subst. discriminate.
  - cbn [length]. replace (S (length t) - 1)%nat with (length t) by lia.
    now rewrite sanitize_go_skip.
Qed.

Theorem sanitize_valid : forall s, valid_utf8 s -> sanitize s = s.
Proof.
  induction 1; [reflexivity|]. rewrite sanitize_encode by assumption. now rewrite IHvalid_utf8.
Qed.

Lemma sanitize_invalid_byte : forall b t,
  utf8_decode (b :: t) = (rune_error, 1%nat) ->
  sanitize (b :: t) = [0xEF; 0xBF; 0xBD] ++ sanitize t.
Proof. intros b t D. unfold sanitize. cbn [sanitize_go]. rewrite D. reflexivity. Qed.

Lemma sanitize_valid_prefix : forall b t r w,
  utf8_decode (b :: t) = (r, w) -> ~ (r = rune_error /\ w = 1%nat) ->
  sanitize (b :: t) = firstn w (b :: t) ++ sanitize (skipn w (b :: t)).
Proof.
  intros b t r w D NE. unfold sanitize. cbn [sanitize_go]. rewrite D.
  pose proof (decode_width b t) as W. rewrite D in W.
  destruct ((r =? rune_error) && Nat.eqb w 1) eqn:C.
  { exfalso. apply NE. apply andb_prop in C. destruct C as [C1 C2].
    apply N.eqb_eq in C1. apply Nat.eqb_eq in C2. now split. }
  destruct w as [|w]; [lia|]. cbn [firstn skipn app]. f_equal.
  replace (S w - 1)%nat with w by lia.
  cbn [length] in W.
  rewrite <- (firstn_skipn w t) at 1.
  assert (L : length (firstn w t) = w) by (rewrite firstn_length; lia).
  rewrite <- L at 1. apply sanitize_go_skip.
Qed.

(* the converse: a byte sequence that survives sanitizing unchanged is valid *)
Theorem sanitize_fixed_valid : forall s, is_bytes s -> sanitize s = s -> valid_utf8 s.
Proof.
  intro s. remember (length s) as n eqn:Hn. revert s Hn.
  induction n as [n IH] using lt_wf_ind. intros s Hn Hb Hs.
  destruct s as [|b t]; [constructor|].
  inversion Hb as [|? ? Hb1 Hb2]; subst.
  pose proof (decode_spec b t) as D.
  pose proof (decode_width b t) as W.
  destruct (utf8_decode (b :: t)) as [r w] eqn:E.
  destruct D as [[-> ->]|[Hsc [Hf [Hl [Hw _]]]]].
  - rewrite (sanitize_invalid_byte _ _ E) in Hs. cbn in Hs. inversion Hs. subst b.
    (* 0xEF.. : b = 0xEF then decode must have looked at the next bytes *)
    exfalso. destruct t as [|b1 [|b2 t2]]; cbn in *; try discriminate.
    inversion H1; subst. vm_compute in E. discriminate.
  - assert (NE : ~ (r = rune_error /\ w = 1%nat)).
    { intros [-> ->]. vm_compute in Hl. discriminate. }
    rewrite (sanitize_valid_prefix _ _ _ _ E NE) in Hs.
    rewrite <- (firstn_skipn w (b :: t)) in Hs at 3.
    apply app_inv_head in Hs.
    rewrite <- (firstn_skipn w (b :: t)). rewrite Hf. constructor; [assumption|].
    apply (IH (length (skipn w (b :: t)))); try reflexivity.
    + rewrite skipn_length. cbn [length] in *. lia.
    + unfold is_bytes. apply Forall_forall. intros x Hx.
      eapply Forall_forall; [exact Hb|]. rewrite <- (firstn_skipn w (b :: t)). apply in_or_app. now right.
    + exact Hs.
Qed.
