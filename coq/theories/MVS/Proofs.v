(* Proofs about the MVS work-set machine: for EVERY schedule (sequence of enabled
   steps) Graph.Require never panics, and when the work set is drained the
   selected version of every path is the maximum of the versions of the nodes
   reachable from the targets - hence independent of the schedule. *)
From Verif Require Import Base.Order MVS.Model.
From Coq Require Import List Bool Arith Lia.
Import ListNotations.

Section Proofs.
  Variable P : Type.
  Variable Ver : Type.
  Variable P_eq_dec : forall a b : P, {a = b} + {a <> b}.
  Variable Ver_eq_dec : forall a b : Ver, {a = b} + {a <> b}.
  Variable vcmp : Ver -> Ver -> comparison.
  Variable vnone : Ver.
  Variable reqs : node P Ver -> list (node P Ver).
  Variable targets : list (node P Ver).

  Hypothesis vcmp_total : total_cmp vcmp.
  Hypothesis vnone_bottom : forall v, vcmp vnone v <> Gt.

  Notation node := (node P Ver).
  Notation graph := (graph P Ver).
  Notation state := (state P Ver).
  Notation required_of := (required_of P Ver Ver_eq_dec vnone reqs).
  Notation node_eq_dec := (node_eq_dec P Ver P_eq_dec Ver_eq_dec).
  Notation sel_get := (sel_get P Ver P_eq_dec vnone).
  Notation g_sel := (g_sel P Ver P_eq_dec vnone).
  Notation bump := (bump P Ver P_eq_dec vcmp vnone).
  Notation graph_require := (graph_require P Ver P_eq_dec Ver_eq_dec vcmp vnone).
  Notation new_graph := (new_graph P Ver P_eq_dec vcmp vnone).
  Notation work_add := (work_add P Ver P_eq_dec Ver_eq_dec).
  Notation init := (init P Ver P_eq_dec Ver_eq_dec vcmp vnone).
  Notation step := (step P Ver P_eq_dec Ver_eq_dec vcmp vnone reqs).
  Notation run := (run P Ver P_eq_dec Ver_eq_dec vcmp vnone reqs).
  Notation run_get := (run_get P Ver P_eq_dec Ver_eq_dec).
  Notation run_del := (run_del P Ver P_eq_dec Ver_eq_dec).
  Notation run_set := (run_set P Ver P_eq_dec Ver_eq_dec).
  Notation in_b := (in_b P Ver P_eq_dec Ver_eq_dec).
  Notation npath := (npath P Ver).
  Notation nver := (nver P Ver).

  (* nodes reachable from the targets through requirement lists *)
  Inductive Reach : node -> Prop :=
  | R_target n : In n targets -> Reach n
  | R_req m r : Reach m -> In r (required_of m) -> Reach r.

  (* ---- order facts ---------------------------------------------------- *)
  Definition vle (a b : Ver) : Prop := vcmp a b <> Gt.   (* a <= b *)

  Lemma vle_refl a : vle a a.
  Proof. unfold vle. rewrite (tc_refl _ vcmp_total). discriminate. Qed.

  Lemma vle_trans a b c : vle a b -> vle b c -> vle a c.
  Proof.
    unfold vle. intros H1 H2 H3.
    apply (tc_gt_lt _ vcmp_total) in H3.
    destruct (vcmp a b) eqn:E1; try congruence.
    - apply (tc_eq _ vcmp_total) in E1. subst b.
      apply H2. apply (tc_gt_lt _ vcmp_total). exact H3.
    - pose proof (tc_trans _ vcmp_total _ _ _ H3 E1) as E.
      apply H2. apply (tc_gt_lt _ vcmp_total). exact E.
  Qed.

  Lemma vle_antisym a b : vle a b -> vle b a -> a = b.
  Proof.
    unfold vle. intros H1 H2. destruct (vcmp a b) eqn:E; try congruence.
    - apply (tc_eq _ vcmp_total). exact E.
    - exfalso. apply H2. apply (tc_gt_lt _ vcmp_total). exact E.
  Qed.

  Lemma not_lt_vle a b : vcmp a b <> Lt -> vle b a.
  Proof.
    unfold vle. intros H E. apply H. apply (tc_gt_lt _ vcmp_total). exact E.
  Qed.

  Lemma lt_vle a b : vcmp a b = Lt -> vle a b.
  Proof. unfold vle. congruence. Qed.

  (* ---- association-list facts ------------------------------------------ *)
  Lemma has_key_in {A B} (eqd : forall a b : A, {a = b} + {a <> b}) (l : list (A * B)) k :
    has_key eqd l k = true <-> In k (map fst l).
  Proof.
    induction l as [|[k' v] l IH]; simpl; [split; [discriminate | tauto]|].
    destruct (eqd k' k); [subst; tauto|]. rewrite IH. split; [tauto | intros [E|E]; congruence].
  Qed.

  Definition dom (g : graph) : list node := map fst (g_isroot P Ver g).
  Definition reqd (g : graph) : list node := map fst (g_required P Ver g).

  Lemma sel_get_bump sel n p :
    sel_get (bump sel n) p =
    if P_eq_dec (npath n) p
    then match vcmp (sel_get sel (npath n)) (nver n) with Lt => nver n | _ => sel_get sel p end
    else sel_get sel p.
  Proof.
    unfold Model.bump. destruct (vcmp (sel_get sel (npath n)) (nver n)) eqn:E; simpl;
      destruct (P_eq_dec (npath n) p); auto.
  Qed.

  (* ---- graph invariant -------------------------------------------------- *)
  Definition sel_ok (nodes : list node) (sel : list (P * Ver)) : Prop :=
    (forall n, In n nodes -> vle (nver n) (sel_get sel (npath n))) /\
    (forall p, sel_get sel p = vnone \/ exists n, In n nodes /\ npath n = p /\ nver n = sel_get sel p).

  Lemma sel_ok_bump nodes sel n :
    sel_ok nodes sel -> sel_ok (n :: nodes) (bump sel n).
  Proof.
    intros [H1 H2]. split.
    - intros m [<-|Hm].
      + rewrite sel_get_bump. destruct (P_eq_dec (npath n) (npath n)); [|congruence].
        destruct (vcmp (sel_get sel (npath n)) (nver n)) eqn:E.
        * apply (tc_eq _ vcmp_total) in E. rewrite E. apply vle_refl.
        * apply vle_refl.
        * apply not_lt_vle. rewrite E. discriminate.
      + rewrite sel_get_bump. destruct (P_eq_dec (npath n) (npath m)) as [Ep|Ep]; [|auto].
        destruct (vcmp (sel_get sel (npath n)) (nver n)) eqn:E; auto.
        apply vle_trans with (sel_get sel (npath n)); [rewrite Ep; auto | apply lt_vle; exact E].
    - intros p. rewrite sel_get_bump. destruct (P_eq_dec (npath n) p) as [Ep|Ep].
      + destruct (vcmp (sel_get sel (npath n)) (nver n)) eqn:E.
        * destruct (H2 p) as [Hn|(m & Hm & Hp & Hv)]; [left; auto | right; exists m; simpl; auto].
        * right. exists n. simpl; auto.
        * destruct (H2 p) as [Hn|(m & Hm & Hp & Hv)]; [left; auto | right; exists m; simpl; auto].
      + destruct (H2 p) as [Hn|(m & Hm & Hp & Hv)]; [left; auto | right; exists m; simpl; auto].
  Qed.

  Lemma sel_ok_incl nodes nodes' sel :
    sel_ok nodes sel -> incl nodes nodes' -> incl nodes' nodes -> sel_ok nodes' sel.
  Proof.
    intros [H1 H2] I1 I2. split.
    - intros n Hn. apply H1, I2, Hn.
    - intros p. destruct (H2 p) as [Hn|(m & Hm & Hp & Hv)]; [left; auto|].
      right. exists m. auto.
  Qed.

  Definition graph_ok (g : graph) : Prop := sel_ok (dom g) (g_selected P Ver g).

  (* the fold inside Graph.Require *)
  Definition req_fold (g : graph) (rs : list node) : graph :=
    fold_left
      (fun g dep =>
         mkGraph P Ver (g_required P Ver g)
                 (if has_key node_eq_dec (g_isroot P Ver g) dep then g_isroot P Ver g
                  else (dep, false) :: g_isroot P Ver g)
                 (bump (g_selected P Ver g) dep))
      rs g.

  Lemma req_fold_spec rs : forall g,
    graph_ok g ->
    let g' := req_fold g rs in
    graph_ok g' /\ g_required P Ver g' = g_required P Ver g /\
    (forall n, In n (dom g') <-> In n (dom g) \/ In n rs).
  Proof.
    induction rs as [|r rs IH]; intros g Hg; simpl.
    - split; [auto|split; [auto|]]. intros n; split; [auto | intros [H|[]]; auto].
    - set (g1 := mkGraph P Ver (g_required P Ver g)
                         (if has_key node_eq_dec (g_isroot P Ver g) r then g_isroot P Ver g
                          else (r, false) :: g_isroot P Ver g)
                         (bump (g_selected P Ver g) r)).
      assert (Hd1 : forall n, In n (dom g1) <-> In n (dom g) \/ n = r).
      { intros n. unfold dom, g1; simpl.
        destruct (has_key node_eq_dec (g_isroot P Ver g) r) eqn:E.
        - apply has_key_in in E. split; [tauto | intros [H| ->]; auto].
        - simpl. split; [intros [<-|H]; auto | intros [H| ->]; auto]. }
      assert (Hg1 : graph_ok g1).
      { unfold graph_ok. apply sel_ok_incl with (r :: dom g).
        - apply sel_ok_bump. exact Hg.
        - intros n [<-|Hn]; apply Hd1; auto.
        - intros n Hn. apply Hd1 in Hn as [Hn| ->]; simpl; auto. }
      destruct (IH g1 Hg1) as (A & B & C). fold (req_fold g1 rs) in *.
      split; [auto|split; [auto|]]. intros n; split.
      + intros Hn. apply C in Hn as [Hn|Hn]; [apply Hd1 in Hn as [Hn| ->]|]; auto.
      + intros [Hn|[<-|Hn]]; apply C; [left; apply Hd1; auto | left; apply Hd1; auto | right; auto].
  Qed.

  Lemma graph_require_spec g m rs g' :
    graph_ok g -> graph_require g m rs = Some g' ->
    graph_ok g' /\ In m (dom g) /\ ~ In m (reqd g) /\
    (forall n, In n (reqd g') <-> n = m \/ In n (reqd g)) /\
    (forall n, In n (dom g') <-> In n (dom g) \/ In n rs).
  Proof.
    intros Hg. unfold Model.graph_require.
    destruct (has_key node_eq_dec (g_isroot P Ver g) m) eqn:E1; [|discriminate].
    destruct (has_key node_eq_dec (g_required P Ver g) m) eqn:E2; [discriminate|].
    simpl. intros [= <-].
    set (g0 := mkGraph P Ver ((m, rs) :: g_required P Ver g) (g_isroot P Ver g) (g_selected P Ver g)).
    assert (Hg0 : graph_ok g0) by exact Hg.
    destruct (req_fold_spec rs g0 Hg0) as (A & B & C). fold (req_fold g0 rs) in *.
    apply has_key_in in E1.
    assert (N2 : ~ In m (reqd g)).
    { intros H. apply (has_key_in node_eq_dec) in H. unfold reqd in *. congruence. }
    split; [auto|split; [auto|split; [auto|split]]].
    - intros n. unfold reqd. rewrite B. simpl. split; intros [H|H]; auto.
    - apply C.
  Qed.

  Lemma graph_require_some g m rs :
    In m (dom g) -> ~ In m (reqd g) -> graph_require g m rs <> None.
  Proof.
    intros H1 H2. unfold Model.graph_require.
    apply (has_key_in node_eq_dec) in H1. unfold dom in *. rewrite H1. simpl.
    destruct (has_key node_eq_dec (g_required P Ver g) m) eqn:E.
    - apply has_key_in in E. contradiction.
    - discriminate.
  Qed.

  Lemma new_graph_ok : graph_ok (new_graph targets) /\
                       (forall n, In n (dom (new_graph targets)) <-> In n targets) /\
                       reqd (new_graph targets) = [].
  Proof.
    unfold Model.new_graph.
    assert (G : forall ts g, graph_ok g ->
      let g' := fold_left (fun g m => mkGraph P Ver (g_required P Ver g) ((m, true) :: g_isroot P Ver g)
                                              (bump (g_selected P Ver g) m)) ts g in
      graph_ok g' /\ (forall n, In n (dom g') <-> In n (dom g) \/ In n ts) /\ reqd g' = reqd g).
    { induction ts as [|t ts IH]; intros g Hg; simpl.
      - split; [auto|split; [|auto]]. intros n; split; [auto | intros [H|[]]; auto].
      - set (g1 := mkGraph P Ver (g_required P Ver g) ((t, true) :: g_isroot P Ver g) (bump (g_selected P Ver g) t)).
        assert (Hg1 : graph_ok g1) by (apply sel_ok_bump; exact Hg).
        destruct (IH g1 Hg1) as (A & B & C). split; [auto|split; [|auto]]. intros n; split.
        + intros H. apply B in H as [[<-|H]|H]; auto.
        + intros [H|[<-|H]]; apply B; simpl; auto. }
    destruct (G targets (mkGraph P Ver [] [] [])) as (A & B & C).
    { split; simpl; [intros n []|intros p; left; reflexivity]. }
    split; [auto|split; [|auto]]. intros n; split.
    - intros H. apply B in H as [[]|H]; auto.
    - intros H. apply B. auto.
  Qed.

  (* ---- running-table facts ---------------------------------------------- *)
  Lemma run_get_del l m m' :
    run_get (run_del l m) m' = if node_eq_dec m m' then None else run_get l m'.
  Proof.
    induction l as [|[k v] l IH]; simpl.
    - destruct (node_eq_dec m m'); reflexivity.
    - destruct (node_eq_dec k m) as [->|Hk].
      + rewrite IH. destruct (node_eq_dec m m'); auto.
      + simpl. destruct (node_eq_dec k m') as [->|Hk']; auto.
        destruct (node_eq_dec m m'); congruence.
  Qed.

  Lemma run_get_set l m v m' :
    run_get (run_set l m v) m' = if node_eq_dec m m' then Some v else run_get l m'.
  Proof.
    unfold Model.run_set. simpl. destruct (node_eq_dec m m'); auto.
    rewrite run_get_del. destruct (node_eq_dec m m'); congruence.
  Qed.

  Lemma in_b_true n l : in_b n l = true <-> In n l.
  Proof. unfold Model.in_b. destruct (in_dec node_eq_dec n l); split; auto; discriminate. Qed.

  (* ---- the invariant ------------------------------------------------------ *)
  Record Inv (s : state) : Prop := {
    i_graph : graph_ok (st_g P Ver s);
    i_added_dom : forall n, In n (st_added P Ver s) -> In n (dom (st_g P Ver s));
    i_dom_reach : forall n, In n (dom (st_g P Ver s)) -> Reach n;
    i_progress : forall n, In n (st_added P Ver s) ->
                           In n (st_todo P Ver s) \/ run_get (st_running P Ver s) n <> None \/
                           (In n (reqd (st_g P Ver s)) /\ forall r, In r (required_of n) -> In r (st_added P Ver s));
    i_pending : forall m pend, run_get (st_running P Ver s) m = Some (Some pend) ->
                               In m (reqd (st_g P Ver s)) /\
                               (forall r, In r (required_of m) -> In r pend \/ In r (st_added P Ver s)) /\
                               (forall r, In r pend -> In r (dom (st_g P Ver s)));
    i_started : forall m, run_get (st_running P Ver s) m = Some None ->
                          ~ In m (reqd (st_g P Ver s));
    i_running_added : forall m, run_get (st_running P Ver s) m <> None -> In m (st_added P Ver s);
    i_todo : forall m, In m (st_todo P Ver s) ->
                       In m (st_added P Ver s) /\ ~ In m (reqd (st_g P Ver s)) /\
                       run_get (st_running P Ver s) m = None;
    i_reqd_added : forall m, In m (reqd (st_g P Ver s)) -> In m (st_added P Ver s);
  }.

  Lemma work_add_spec s r :
    let s' := work_add s r in
    st_g P Ver s' = st_g P Ver s /\ st_running P Ver s' = st_running P Ver s /\
    (forall n, In n (st_added P Ver s') <-> n = r \/ In n (st_added P Ver s)) /\
    (forall n, In n (st_todo P Ver s') <-> In n (st_todo P Ver s) \/ (n = r /\ ~ In r (st_added P Ver s))).
  Proof.
    unfold Model.work_add. destruct (in_b r (st_added P Ver s)) eqn:E; simpl.
    - apply in_b_true in E. repeat split; auto.
      + intros [->|H]; auto.
      + intros [H|[-> H]]; auto. contradiction.
    - assert (N : ~ In r (st_added P Ver s)) by (intros H; apply in_b_true in H; congruence).
      repeat split; auto.
      + intros [H|H]; auto.
      + intros [->|H]; auto.
      + intros H. apply in_app_or in H as [H|[<-|[]]]; auto.
      + intros [H|[-> _]]; apply in_or_app; simpl; auto.
  Qed.

  (* adding an item that is already in dom g *)
  Lemma Inv_work_add s r :
    Inv s -> In r (dom (st_g P Ver s)) -> Inv (work_add s r).
  Proof.
    intros I Hr. destruct (work_add_spec s r) as (Eg & Er & Ha & Ht).
    destruct (in_dec node_eq_dec r (st_added P Ver s)) as [Hin|Hnin].
    { unfold Model.work_add. apply in_b_true in Hin. rewrite Hin. exact I. }
    constructor; rewrite ?Eg, ?Er.
    - apply (i_graph s I).
    - intros n Hn. apply Ha in Hn as [->|Hn]; auto. apply (i_added_dom s I); auto.
    - apply (i_dom_reach s I).
    - intros n Hn. apply Ha in Hn as [->|Hn].
      + left. apply Ht. auto.
      + destruct (i_progress s I n Hn) as [H|[H|[H1 H2]]].
        * left. apply Ht. auto.
        * auto.
        * right; right. split; auto. intros r0 Hr0. apply Ha. right. auto.
    - intros m pend Hm. destruct (i_pending s I m pend Hm) as (H1 & H2 & H3). split; [auto|split; [|auto]].
      intros r0 Hr0. destruct (H2 r0 Hr0); auto. right. apply Ha. auto.
    - apply (i_started s I).
    - intros m Hm. apply Ha. right. apply (i_running_added s I); auto.
    - intros m Hm. apply Ht in Hm as [Hm|[-> _]].
      + destruct (i_todo s I m Hm) as (A & B & C). repeat split; auto. apply Ha; auto.
      + repeat split.
        * apply Ha; auto.
        * intros H. apply Hnin. apply (i_reqd_added s I); auto.
        * destruct (run_get (st_running P Ver s) r) eqn:E; auto.
          exfalso. apply Hnin. apply (i_running_added s I). congruence.
    - intros m Hm. apply Ha. right. apply (i_reqd_added s I); auto.
  Qed.


  Definition targets_added (s : state) : Prop := forall n, In n targets -> In n (st_added P Ver s).

  Lemma fold_work_add ts : forall s,
    Inv s -> (forall n, In n ts -> In n (dom (st_g P Ver s))) ->
    let s' := fold_left work_add ts s in
    Inv s' /\ forall n, In n ts \/ In n (st_added P Ver s) -> In n (st_added P Ver s').
  Proof.
    induction ts as [|t ts IH]; intros s I Hts; simpl.
    - split; auto. intros n [[]|H]; auto.
    - destruct (work_add_spec s t) as (Eg & Er & Ha & Ht).
      assert (I1 : Inv (work_add s t)) by (apply Inv_work_add; auto; apply Hts; simpl; auto).
      destruct (IH (work_add s t) I1) as (A & C).
      { intros n Hn. rewrite Eg. apply Hts. simpl; auto. }
      split; auto.
      intros n [[<-|Hn]|Hn]; apply C; auto; right; apply Ha; auto.
  Qed.

  Lemma Inv_init : Inv (init targets) /\ targets_added (init targets).
  Proof.
    unfold Model.init. destruct new_graph_ok as (G1 & G2 & G3).
    set (s0 := mkState P Ver (new_graph targets) [] [] []).
    assert (I0 : Inv s0).
    { constructor; simpl.
      - exact G1.
      - intros n [].
      - intros n Hn. apply R_target, G2, Hn.
      - intros n [].
      - intros m pend [=].
      - intros m [=].
      - intros m H. congruence.
      - intros m [].
      - rewrite G3. intros m []. }
    destruct (fold_work_add targets s0 I0) as (A & B).
    { intros n Hn. simpl. apply G2. exact Hn. }
    split; auto. intros n Hn. apply B. auto.
  Qed.

  (* ---- preservation by every step --------------------------------------- *)
  Lemma in_remove_iff (l : list node) m n : In n (remove node_eq_dec m l) <-> In n l /\ n <> m.
  Proof. split; [apply in_remove | intros [A B]; apply in_in_remove; auto]. Qed.

  Lemma Inv_step s l s' :
    Inv s -> step s l = Ok P Ver s' -> Inv s'.
  Proof.
    intros I. destruct l as [m|m|m|m]; unfold Model.step.
    - (* Pick *)
      destruct (in_b m (st_todo P Ver s)) eqn:E; [|discriminate]. intros [= <-].
      apply in_b_true in E. destruct (i_todo s I m E) as (Ta & Tb & Tc).
      constructor; cbn [st_g st_added st_todo st_running].
      + apply (i_graph s I).
      + apply (i_added_dom s I).
      + apply (i_dom_reach s I).
      + intros n Hn. rewrite run_get_set. destruct (node_eq_dec m n) as [->|Hne].
        * right; left; discriminate.
        * destruct (i_progress s I n Hn) as [H|[H|H]]; auto.
          left. apply in_remove_iff. split; auto.
      + intros m0 pend. rewrite run_get_set. destruct (node_eq_dec m m0); [discriminate|].
        apply (i_pending s I).
      + intros m0. rewrite run_get_set. destruct (node_eq_dec m m0) as [<-|]; auto.
        apply (i_started s I).
      + intros m0. rewrite run_get_set. destruct (node_eq_dec m m0) as [<-|]; auto.
        apply (i_running_added s I).
      + intros m0 Hm0. apply in_remove_iff in Hm0 as [Hm0 Hne].
        destruct (i_todo s I m0 Hm0) as (A & B & C). repeat split; auto.
        rewrite run_get_set. destruct (node_eq_dec m m0); congruence.
      + apply (i_reqd_added s I).
    - (* Require *)
      destruct (run_get (st_running P Ver s) m) as [[pend|]|] eqn:E; try discriminate.
      destruct (graph_require (st_g P Ver s) m (required_of m)) as [g'|] eqn:Eg; [|discriminate].
      intros [= <-].
      destruct (graph_require_spec _ _ _ _ (i_graph s I) Eg) as (G1 & G2 & G3 & G4 & G5).
      constructor; cbn [st_g st_added st_todo st_running].
      + exact G1.
      + intros n Hn. apply G5. left. apply (i_added_dom s I); auto.
      + intros n Hn. apply G5 in Hn as [Hn|Hn]; [apply (i_dom_reach s I); auto|].
        apply R_req with m; auto. apply (i_dom_reach s I); auto.
      + intros n Hn. rewrite run_get_set. destruct (node_eq_dec m n) as [->|Hne].
        * right; left; discriminate.
        * destruct (i_progress s I n Hn) as [H|[H|[H1 H2]]]; auto.
          right; right. split; auto. apply G4. auto.
      + intros m0 pend. rewrite run_get_set. destruct (node_eq_dec m m0) as [<-|Hne].
        * intros [= <-]. split; [apply G4; auto | split; [auto|]]. intros r Hr. apply G5; auto.
        * intros H. destruct (i_pending s I m0 pend H) as (H1 & H2 & H3).
          split; [apply G4; auto | split; [auto|]]. intros r Hr. apply G5. left. auto.
      + intros m0. rewrite run_get_set. destruct (node_eq_dec m m0) as [<-|Hne]; [discriminate|].
        intros H Hin. apply G4 in Hin as [->|Hin]; [congruence|].
        apply (i_started s I m0 H). exact Hin.
      + intros m0. rewrite run_get_set. destruct (node_eq_dec m m0) as [<-|Hne].
        * intros _. apply (i_running_added s I). congruence.
        * apply (i_running_added s I).
      + intros m0 Hm0. destruct (i_todo s I m0 Hm0) as (A & B & C). repeat split; auto.
        * intros Hin. apply G4 in Hin as [->|Hin]; [congruence | auto].
        * rewrite run_get_set. destruct (node_eq_dec m m0); congruence.
      + intros m0 Hin. apply G4 in Hin as [->|Hin].
        * apply (i_running_added s I). congruence.
        * apply (i_reqd_added s I); auto.
    - (* Add *)
      destruct (run_get (st_running P Ver s) m) as [[[|r rest]|]|] eqn:E; try discriminate.
      intros [= <-].
      destruct (i_pending s I m (r :: rest) E) as (P1 & P2 & P3).
      assert (Hr : In r (dom (st_g P Ver s))) by (apply P3; simpl; auto).
      pose proof (Inv_work_add s r I Hr) as I1.
      destruct (work_add_spec s r) as (Eg & Er & Ha & Ht).
      set (s1 := work_add s r) in *.
      constructor; cbn [st_g st_added st_todo st_running].
      + apply (i_graph s1 I1).
      + apply (i_added_dom s1 I1).
      + apply (i_dom_reach s1 I1).
      + intros n Hn. rewrite run_get_set. destruct (node_eq_dec m n) as [->|Hne].
        * right; left; discriminate.
        * apply (i_progress s1 I1 n Hn).
      + intros m0 pend. rewrite run_get_set. destruct (node_eq_dec m m0) as [<-|Hne].
        * intros [= <-]. rewrite Eg. split; [auto|split].
          -- intros r0 Hr0. destruct (P2 r0 Hr0) as [[->|H]|H]; auto.
             ++ right. apply Ha. auto.
             ++ right. apply Ha. auto.
          -- intros r0 Hr0. apply P3. simpl; auto.
        * apply (i_pending s1 I1).
      + intros m0. rewrite run_get_set. destruct (node_eq_dec m m0) as [<-|Hne]; [discriminate|].
        apply (i_started s1 I1).
      + intros m0. rewrite run_get_set. destruct (node_eq_dec m m0) as [<-|Hne].
        * intros _. apply (i_running_added s1 I1). rewrite Er. congruence.
        * apply (i_running_added s1 I1).
      + intros m0 Hm0. destruct (i_todo s1 I1 m0 Hm0) as (A & B & C). repeat split; auto.
        rewrite run_get_set. destruct (node_eq_dec m m0) as [<-|Hne]; auto.
        rewrite Er in C. congruence.
      + apply (i_reqd_added s1 I1).
    - (* Finish *)
      destruct (run_get (st_running P Ver s) m) as [[[|r rest]|]|] eqn:E; try discriminate.
      intros [= <-].
      destruct (i_pending s I m [] E) as (P1 & P2 & P3).
      constructor; cbn [st_g st_added st_todo st_running].
      + apply (i_graph s I).
      + apply (i_added_dom s I).
      + apply (i_dom_reach s I).
      + intros n Hn. rewrite run_get_del. destruct (node_eq_dec m n) as [<-|Hne].
        * right; right. split; auto. intros r0 Hr0. destruct (P2 r0 Hr0) as [[]|H]; auto.
        * apply (i_progress s I n Hn).
      + intros m0 pend. rewrite run_get_del. destruct (node_eq_dec m m0); [discriminate|].
        apply (i_pending s I).
      + intros m0. rewrite run_get_del. destruct (node_eq_dec m m0); [discriminate|].
        apply (i_started s I).
      + intros m0. rewrite run_get_del. destruct (node_eq_dec m m0); [congruence|].
        apply (i_running_added s I).
      + intros m0 Hm0. destruct (i_todo s I m0 Hm0) as (A & B & C). repeat split; auto.
        rewrite run_get_del. destruct (node_eq_dec m m0); auto.
      + apply (i_reqd_added s I).
  Qed.

  Lemma targets_added_step s l s' :
    targets_added s -> step s l = Ok P Ver s' -> targets_added s'.
  Proof.
    intros T. destruct l as [m|m|m|m]; unfold Model.step.
    - destruct (in_b m (st_todo P Ver s)); [|discriminate]. intros [= <-]. exact T.
    - destruct (run_get (st_running P Ver s) m) as [[pend|]|]; try discriminate.
      destruct (graph_require (st_g P Ver s) m (required_of m)); [|discriminate].
      intros [= <-]. exact T.
    - destruct (run_get (st_running P Ver s) m) as [[[|r rest]|]|]; try discriminate.
      intros [= <-]. intros n Hn. cbn [st_added].
      destruct (work_add_spec s r) as (_ & _ & Ha & _). apply Ha. right. apply T, Hn.
    - destruct (run_get (st_running P Ver s) m) as [[[|r rest]|]|]; try discriminate.
      intros [= <-]. exact T.
  Qed.

  (* ---- Theorem 1: Graph.Require never panics, under any schedule --------- *)
  Theorem step_no_panic s l : Inv s -> step s l <> Panic P Ver.
  Proof.
    intros I. destruct l as [m|m|m|m]; unfold Model.step.
    - destruct (in_b m (st_todo P Ver s)); discriminate.
    - destruct (run_get (st_running P Ver s) m) as [[pend|]|] eqn:E; try discriminate.
      destruct (graph_require (st_g P Ver s) m (required_of m)) eqn:Eg; [discriminate|].
      exfalso. revert Eg. apply graph_require_some.
      + apply (i_added_dom s I). apply (i_running_added s I). congruence.
      + apply (i_started s I). exact E.
    - destruct (run_get (st_running P Ver s) m) as [[[|r rest]|]|]; discriminate.
    - destruct (run_get (st_running P Ver s) m) as [[[|r rest]|]|]; discriminate.
  Qed.

  Lemma run_inv ls : forall s s',
    Inv s -> targets_added s -> run s ls = Ok P Ver s' -> Inv s' /\ targets_added s'.
  Proof.
    induction ls as [|l ls IH]; intros s s' I T; simpl.
    - intros [= <-]. auto.
    - destruct (step s l) as [s1| |] eqn:E; try discriminate.
      apply IH; [eapply Inv_step; eauto | eapply targets_added_step; eauto].
  Qed.

  Theorem run_no_panic ls : forall s, Inv s -> run s ls <> Panic P Ver.
  Proof.
    induction ls as [|l ls IH]; intros s I; simpl; [discriminate|].
    destruct (step s l) as [s1| |] eqn:E; try discriminate.
    - apply IH. eapply Inv_step; eauto.
    - exfalso. eapply step_no_panic; eauto.
  Qed.

  (* ---- Theorem 2: the drained work set has explored exactly Reach -------- *)
  Definition complete (s : state) : Prop := st_todo P Ver s = [] /\ st_running P Ver s = [].

  Lemma complete_closed s :
    Inv s -> targets_added s -> complete s -> forall n, Reach n -> In n (st_added P Ver s).
  Proof.
    intros I T [C1 C2] n R. induction R as [n Hn | m r Rm IH Hr].
    - apply T, Hn.
    - destruct (i_progress s I m IH) as [H|[H|[_ H]]].
      + rewrite C1 in H. destruct H.
      + rewrite C2 in H. simpl in H. congruence.
      + apply H, Hr.
  Qed.

  (* sufficiency: the selected version is at least every reachable requirement;
     minimality: it is the version of some reachable node (or "none") *)
  Theorem selected_spec s :
    Inv s -> targets_added s -> complete s ->
    (forall n, Reach n -> vle (nver n) (g_sel (st_g P Ver s) (npath n))) /\
    (forall p, g_sel (st_g P Ver s) p = vnone \/
               exists n, Reach n /\ npath n = p /\ nver n = g_sel (st_g P Ver s) p).
  Proof.
    intros I T C. destruct (i_graph s I) as [G1 G2]. split.
    - intros n R. apply G1. apply (i_added_dom s I). apply complete_closed; auto.
    - intros p. destruct (G2 p) as [H|(n & Hn & Hp & Hv)]; [left; exact H|].
      right. exists n. split; auto. apply (i_dom_reach s I). exact Hn.
  Qed.

  (* ---- Theorem 3: schedule independence ---------------------------------- *)
  Theorem schedule_independent ls1 ls2 s1 s2 :
    run (init targets) ls1 = Ok P Ver s1 -> complete s1 ->
    run (init targets) ls2 = Ok P Ver s2 -> complete s2 ->
    forall p, g_sel (st_g P Ver s1) p = g_sel (st_g P Ver s2) p.
  Proof.
    intros R1 C1 R2 C2 p. destruct Inv_init as [I0 T0].
    destruct (run_inv _ _ _ I0 T0 R1) as [I1 T1]. destruct (run_inv _ _ _ I0 T0 R2) as [I2 T2].
    destruct (selected_spec s1 I1 T1 C1) as [A1 B1]. destruct (selected_spec s2 I2 T2 C2) as [A2 B2].
    apply vle_antisym.
    - destruct (B1 p) as [H|(n & Rn & Hp & Hv)].
      + rewrite H. unfold vle. apply vnone_bottom.
      + rewrite <- Hv, <- Hp. apply A2. exact Rn.
    - destruct (B2 p) as [H|(n & Rn & Hp & Hv)].
      + rewrite H. unfold vle. apply vnone_bottom.
      + rewrite <- Hv, <- Hp. apply A1. exact Rn.
  Qed.

  (* the selected version of p is the maximum over reachable nodes of path p *)
  Theorem selected_is_max ls s :
    run (init targets) ls = Ok P Ver s -> complete s ->
    forall p v, (forall n, Reach n -> npath n = p -> vle (nver n) v) ->
                (v = vnone \/ exists n, Reach n /\ npath n = p /\ nver n = v) ->
                g_sel (st_g P Ver s) p = v.
  Proof.
    intros R C p v Hub Hatt. destruct Inv_init as [I0 T0].
    destruct (run_inv _ _ _ I0 T0 R) as [I T]. destruct (selected_spec s I T C) as [A B].
    apply vle_antisym.
    - destruct (B p) as [H|(n & Rn & Hp & Hv)].
      + rewrite H. unfold vle. apply vnone_bottom.
      + rewrite <- Hv. apply Hub; auto.
    - destruct Hatt as [->|(n & Rn & Hp & Hv)].
      + unfold vle. apply vnone_bottom.
      + rewrite <- Hv, <- Hp. apply A. exact Rn.
  Qed.

  (* ---- the deterministic scheduler is one of the schedules ---------------- *)
  Notation run_seq := (run_seq P Ver P_eq_dec Ver_eq_dec vcmp vnone reqs).
  Notation labels_for := (labels_for P Ver Ver_eq_dec vnone reqs).

  Lemma run_app l1 : forall s l2,
    run s (l1 ++ l2) = match run s l1 with Ok _ _ s' => run s' l2 | o => o end.
  Proof.
    induction l1 as [|l l1 IH]; intros s l2; simpl; auto.
    destruct (step s l); auto.
  Qed.

  Lemma node_eq_dec_refl (m : node) : exists e, node_eq_dec m m = left e.
  Proof. destruct (node_eq_dec m m) as [e|n]; [eauto | congruence]. Qed.

  Lemma drain_adds m pend : forall s s',
    st_running P Ver s = [(m, Some pend)] ->
    run s (map (fun _ => Model.Add P Ver m) pend ++ [Model.Finish P Ver m]) = Ok P Ver s' ->
    st_running P Ver s' = [].
  Proof.
    induction pend as [|r rest IH]; intros s s' Hr; simpl.
    - rewrite Hr. simpl. destruct (node_eq_dec_refl m) as [e ->]. intros [= <-]. simpl.
      try (destruct (node_eq_dec_refl m) as [e' ->]). reflexivity.
    - rewrite Hr. simpl. destruct (node_eq_dec_refl m) as [e ->].
      apply IH. cbn [st_running].
      destruct (work_add_spec s r) as (_ & Er & _ & _). rewrite Er, Hr.
      unfold Model.run_set. simpl. destruct (node_eq_dec_refl m) as [e' ->]. reflexivity.
  Qed.

  Lemma labels_for_running m s s' :
    st_running P Ver s = [] -> run s (labels_for m) = Ok P Ver s' -> st_running P Ver s' = [].
  Proof.
    intros Hr. unfold Model.labels_for. cbn [Model.run Model.step].
    destruct (in_b m (st_todo P Ver s)); [|discriminate].
    cbn [st_running st_g]. rewrite Hr. unfold Model.run_set at 1. cbn [Model.run_del Model.run_get].
    destruct (node_eq_dec_refl m) as [e ->].
    destruct (graph_require (st_g P Ver s) m (required_of m)); [|discriminate].
    apply drain_adds. cbn [st_running]. unfold Model.run_set. simpl.
    destruct (node_eq_dec_refl m) as [e' ->]. reflexivity.
  Qed.

  Theorem run_seq_is_schedule fuel : forall s s',
    run_seq fuel s = Some s' -> st_running P Ver s = [] ->
    exists ls, run s ls = Ok P Ver s' /\ complete s'.
  Proof.
    induction fuel as [|f IH]; intros s s'; cbn [Model.run_seq].
    - destruct (st_todo P Ver s) eqn:Et; [|discriminate]. intros [= <-] Hr.
      exists []. split; [reflexivity | split; auto].
    - destruct (st_todo P Ver s) as [|m rest] eqn:Et.
      + intros [= <-] Hr. exists []. split; [reflexivity | split; auto].
      + destruct (run s (labels_for m)) as [s1| |] eqn:E1; try discriminate.
        intros H Hr. pose proof (labels_for_running m s s1 Hr E1) as Hr1.
        destruct (IH s1 s' H Hr1) as (ls & Hl & Hc).
        exists (labels_for m ++ ls). rewrite run_app, E1. auto.
  Qed.

  Lemma init_running : st_running P Ver (init targets) = [].
  Proof.
    unfold Model.init.
    assert (F : forall ts s, st_running P Ver s = [] -> st_running P Ver (fold_left work_add ts s) = []).
    { induction ts as [|t ts IH]; intros s H; simpl; auto. apply IH.
      destruct (work_add_spec s t) as (_ & Er & _). rewrite Er. exact H. }
    apply F. reflexivity.
  Qed.

  (* whatever schedule the Go runtime picks, the selection equals the one
     computed by the sequential scheduler that executes the model *)
  Theorem any_schedule_equals_model fuel sm ls s :
    run_seq fuel (init targets) = Some sm ->
    run (init targets) ls = Ok P Ver s -> complete s ->
    forall p, g_sel (st_g P Ver s) p = g_sel (st_g P Ver sm) p.
  Proof.
    intros Hm R C. destruct (run_seq_is_schedule _ _ _ Hm init_running) as (lsm & Rm & Cm).
    eapply schedule_independent; eauto.
  Qed.

  Theorem no_panic_any_schedule ls : run (init targets) ls <> Panic P Ver.
  Proof. apply run_no_panic. apply Inv_init. Qed.

  Theorem selected_sufficient_and_minimal ls s :
    run (init targets) ls = Ok P Ver s -> complete s ->
    (forall n, Reach n -> vle (nver n) (g_sel (st_g P Ver s) (npath n))) /\
    (forall p, g_sel (st_g P Ver s) p = vnone \/
               exists n, Reach n /\ npath n = p /\ nver n = g_sel (st_g P Ver s) p).
  Proof.
    intros R C. destruct Inv_init as [I0 T0]. destruct (run_inv _ _ _ I0 T0 R) as [I T].
    apply selected_spec; auto.
  Qed.
End Proofs.
