(* Model of /repo/internal/mod/mvs: Graph (graph.go), buildList (mvs.go) and the
   work set of /repo/internal/par/work.go, at the granularity of the critical
   sections of the Go code.

   buildList runs [work.Do(10, f)]; each runner repeatedly removes a RANDOM item
   m from todo and calls f(m):
       required := reqs.Required(m)          -- outside any lock   (Pick)
       mu.Lock; g.Require(m, required); mu.Unlock               (Require)
       for r in required: work.Add(r)        -- one lock section each (Add)
   Any number of runners may be between these steps at the same time.
   The model has one labelled step per critical section and lets ANY enabled
   step fire, which over-approximates every schedule of 10 (or any number of)
   runners and every outcome of rand.IntN. *)
From Coq Require Import List Bool Arith.
Import ListNotations.

Section MVS.
  Variable P : Type.                      (* module path *)
  Variable Ver : Type.                    (* version string *)
  Variable P_eq_dec : forall a b : P, {a = b} + {a <> b}.
  Variable Ver_eq_dec : forall a b : Ver, {a = b} + {a <> b}.
  Variable vcmp : Ver -> Ver -> comparison.   (* the [cmp] closure built from reqs.Max *)
  Variable vnone : Ver.                       (* "none" *)
  Variable pleb : P -> P -> bool.             (* path order used by sortVersions *)

  Definition node : Type := (P * Ver)%type.
  Definition npath (n : node) : P := fst n.
  Definition nver (n : node) : Ver := snd n.

  Definition node_eq_dec (a b : node) : {a = b} + {a <> b}.
  Proof. decide equality. Defined.

  Variable reqs : node -> list node.      (* reqs.Required, error free *)

  (* buildList: [if reqs.Version(m) != "none" { required = reqs.Required(m) }] *)
  Definition required_of (m : node) : list node :=
    if Ver_eq_dec (nver m) vnone then [] else reqs m.

  Record graph := mkGraph {
    g_required : list (node * list node);
    g_isroot : list (node * bool);
    g_selected : list (P * Ver) }.

  Fixpoint sel_get (sel : list (P * Ver)) (p : P) : Ver :=
    match sel with
    | [] => vnone
    | (q, v) :: r => if P_eq_dec q p then v else sel_get r p
    end.

  Definition g_sel (g : graph) (p : P) : Ver := sel_get (g_selected g) p.

  Fixpoint has_key {A B : Type} (eqd : forall a b : A, {a = b} + {a <> b})
           (l : list (A * B)) (k : A) : bool :=
    match l with
    | [] => false
    | (k', _) :: r => if eqd k' k then true else has_key eqd r k
    end.

  (* the body of the loops in NewGraph / Require *)
  Definition bump (sel : list (P * Ver)) (n : node) : list (P * Ver) :=
    match vcmp (sel_get sel (npath n)) (nver n) with
    | Lt => (npath n, nver n) :: sel
    | _ => sel
    end.

  Definition new_graph (roots : list node) : graph :=
    fold_left (fun g m => mkGraph (g_required g) ((m, true) :: g_isroot g) (bump (g_selected g) m))
              roots (mkGraph [] [] []).

  (* Graph.Require; None = one of the two panics. *)
  Definition graph_require (g : graph) (m : node) (rs : list node) : option graph :=
    if negb (has_key node_eq_dec (g_isroot g) m) then None
    else if has_key node_eq_dec (g_required g) m then None
    else Some (fold_left
                 (fun g dep =>
                    mkGraph (g_required g)
                            (if has_key node_eq_dec (g_isroot g) dep then g_isroot g
                             else (dep, false) :: g_isroot g)
                            (bump (g_selected g) dep))
                 rs (mkGraph ((m, rs) :: g_required g) (g_isroot g) (g_selected g))).

  (* --- the work set ---------------------------------------------------- *)
  Record state := mkState {
    st_g : graph;
    st_added : list node;
    st_todo : list node;
    (* items being processed: None = f(m) started, Require not yet done;
       Some pend = Require done, work.Add still to be called for pend *)
    st_running : list (node * option (list node)) }.

  Definition in_b (n : node) (l : list node) : bool :=
    if in_dec node_eq_dec n l then true else false.

  Definition work_add (s : state) (r : node) : state :=
    if in_b r (st_added s) then s
    else mkState (st_g s) (r :: st_added s) (st_todo s ++ [r]) (st_running s).

  Definition init (targets : list node) : state :=
    fold_left work_add targets (mkState (new_graph targets) [] [] []).

  Inductive step_label :=
  | Pick (m : node)         (* a runner takes item m out of todo (rand.IntN: any member) *)
  | Require (m : node)      (* critical section with g.Require *)
  | Add (m : node)          (* next work.Add of m's requirement list *)
  | Finish (m : node).      (* f(m) returns *)

  Fixpoint run_get (l : list (node * option (list node))) (m : node) : option (option (list node)) :=
    match l with
    | [] => None
    | (k, v) :: r => if node_eq_dec k m then Some v else run_get r m
    end.

  Fixpoint run_del (l : list (node * option (list node))) (m : node) :=
    match l with
    | [] => []
    | (k, v) :: r => if node_eq_dec k m then run_del r m else (k, v) :: run_del r m
    end.

  Definition run_set l (m : node) (v : option (list node)) := (m, v) :: run_del l m.

  Inductive outcome := Ok (s : state) | NotEnabled | Panic.

  Definition step (s : state) (l : step_label) : outcome :=
    match l with
    | Pick m =>
      if in_b m (st_todo s) then
        Ok (mkState (st_g s) (st_added s) (remove node_eq_dec m (st_todo s))
                    (run_set (st_running s) m None))
      else NotEnabled
    | Require m =>
      match run_get (st_running s) m with
      | Some None =>
        match graph_require (st_g s) m (required_of m) with
        | None => Panic
        | Some g' => Ok (mkState g' (st_added s) (st_todo s)
                                 (run_set (st_running s) m (Some (required_of m))))
        end
      | _ => NotEnabled
      end
    | Add m =>
      match run_get (st_running s) m with
      | Some (Some (r :: rest)) =>
        let s' := work_add s r in
        Ok (mkState (st_g s') (st_added s') (st_todo s') (run_set (st_running s') m (Some rest)))
      | _ => NotEnabled
      end
    | Finish m =>
      match run_get (st_running s) m with
      | Some (Some []) => Ok (mkState (st_g s) (st_added s) (st_todo s) (run_del (st_running s) m))
      | _ => NotEnabled
      end
    end.

  Fixpoint run (s : state) (ls : list step_label) : outcome :=
    match ls with
    | [] => Ok s
    | l :: r => match step s l with Ok s' => run s' r | o => o end
    end.

  Definition complete (s : state) : Prop := st_todo s = [] /\ st_running s = [].

  (* --- a deterministic scheduler, used to execute the model: one runner,
         always taking the first todo item.  It is a particular schedule of
         [step], so everything proved for all schedules applies to it. ------ *)
  Definition labels_for (m : node) : list step_label :=
    Pick m :: Require m :: map (fun _ => Add m) (required_of m) ++ [Finish m].

  Fixpoint run_seq (fuel : nat) (s : state) : option state :=
    match st_todo s with
    | [] => Some s
    | m :: _ =>
      match fuel with
      | O => None
      | S f => match run s (labels_for m) with
               | Ok s' => run_seq f s'
               | _ => None
               end
      end
    end.

  (* --- Graph.BuildList -------------------------------------------------- *)
  Fixpoint insert_sorted (n : node) (l : list node) : list node :=
    match l with
    | [] => [n]
    | x :: r => if pleb (npath n) (npath x) then n :: l else x :: insert_sorted n r
    end.

  Definition sort_nodes (l : list node) : list node := fold_right insert_sorted [] l.

  Fixpoint dedup_paths (seen : list P) (l : list P) : list P :=
    match l with
    | [] => []
    | p :: r => if in_dec P_eq_dec p seen then dedup_paths seen r
                else p :: dedup_paths (p :: seen) r
    end.

  Definition build_list (g : graph) (roots : list node) : list node :=
    let rpaths := dedup_paths [] (map npath roots) in
    let rootpart := flat_map (fun p => let v := g_sel g p in
                                       if Ver_eq_dec v vnone then [] else [(p, v)]) rpaths in
    let others := dedup_paths rpaths (map fst (g_selected g)) in
    rootpart ++ sort_nodes (map (fun p => (p, g_sel g p)) others).

  Definition mvs_build_list (fuel : nat) (targets : list node) : option (list node) :=
    match run_seq fuel (init targets) with
    | None => None
    | Some s => Some (build_list (st_g s) targets)
    end.

  (* --- acceptance of an observed trace --------------------------------
     The harness records, in real-time order, the entry (EStart m) and the exit
     (EReturn m) of every reqs.Required(m) call made by buildList.  In the Go
     code  Pick m < EStart m < EReturn m < Require m < Add .. < Finish m, so a
     trace is feasible iff it is accepted when everything that may already have
     happened is executed eagerly. *)
  Inductive event := EStart (m : node) | EReturn (m : node).

  Definition after_return (m : node) : list step_label :=
    Require m :: map (fun _ => Add m) (required_of m) ++ [Finish m].

  (* items with version "none" produce no Required call: run them eagerly *)
  Fixpoint flush_none (fuel : nat) (s : state) : option state :=
    match find (fun n => if Ver_eq_dec (nver n) vnone then true else false) (st_todo s) with
    | None => Some s
    | Some n =>
      match fuel with
      | O => None
      | S f => match run s (labels_for n) with Ok s' => flush_none f s' | _ => None end
      end
    end.

  Fixpoint accept (fuel : nat) (s : state) (evs : list event) : option state :=
    match flush_none fuel s with
    | None => None
    | Some s =>
      match evs with
      | [] => Some s
      | EStart m :: r =>
        match step s (Pick m) with Ok s' => accept fuel s' r | _ => None end
      | EReturn m :: r =>
        match run s (after_return m) with Ok s' => accept fuel s' r | _ => None end
      end
    end.

  Definition accept_trace (fuel : nat) (targets : list node) (evs : list event)
    : option (list node) :=
    match accept fuel (init targets) evs with
    | None => None
    | Some s =>
      match st_todo s, st_running s with
      | [], [] => Some (build_list (st_g s) targets)
      | _, _ => None
      end
    end.

End MVS.
