(* Non-vacuity: concrete instances meeting the hypotheses of the C14 theorems. *)
From Verif Require Import Base.Order Semver.Model Semver.Spec Semver.Proofs MVS.Model MVS.Proofs.
From Coq Require Import List NArith Arith Bool.
Import ListNotations.

(* semver.org item 11 example chain *)
Definition s (x : list N) : str := x.
Definition v_alpha      := s [118;49;46;48;46;48;45;97;108;112;104;97].            (* v1.0.0-alpha *)
Definition v_alpha_1    := s [118;49;46;48;46;48;45;97;108;112;104;97;46;49].      (* v1.0.0-alpha.1 *)
Definition v_alpha_beta := s [118;49;46;48;46;48;45;97;108;112;104;97;46;98;101;116;97].
Definition v_beta       := s [118;49;46;48;46;48;45;98;101;116;97].
Definition v_beta_2     := s [118;49;46;48;46;48;45;98;101;116;97;46;50].
Definition v_beta_11    := s [118;49;46;48;46;48;45;98;101;116;97;46;49;49].
Definition v_rc_1       := s [118;49;46;48;46;48;45;114;99;46;49].
Definition v_100        := s [118;49;46;48;46;48].
Definition v_100_build  := s [118;49;46;48;46;48;43;98].                           (* v1.0.0+b *)

Example semver_org_chain :
  map (fun p => compare (fst p) (snd p))
      [(v_alpha, v_alpha_1); (v_alpha_1, v_alpha_beta); (v_alpha_beta, v_beta); (v_beta, v_beta_2);
       (v_beta_2, v_beta_11); (v_beta_11, v_rc_1); (v_rc_1, v_100)]
  = [Lt; Lt; Lt; Lt; Lt; Lt; Lt]
  /\ compare v_100 v_100_build = Eq
  /\ is_valid v_alpha_beta = true /\ is_valid (s [118;48;49]) = false.
Proof. vm_compute. repeat split. Qed.

Local Open Scope nat_scope.
(* a diamond with a cycle, versions as nat, "none" = 0 *)
Definition nnode := (nat * nat)%type.
Definition ex_reqs (m : nnode) : list nnode :=
  match m with
  | (0, 9) => [(1, 1); (2, 1)]
  | (1, 1) => [(3, 2)]
  | (2, 1) => [(3, 3); (1, 1)]
  | (3, 3) => [(1, 1); (3, 1)]
  | _ => []
  end.
Definition ex_targets : list nnode := [(0, 9)].

Lemma nat_none_bottom : forall v, Nat.compare 0 v <> Gt.
Proof. intros v. destruct v; simpl; discriminate. Qed.

Definition ex_sched : list (step_label nat nat) :=
  [Pick _ _ (0,9); Require _ _ (0,9); Model.Add _ _ (0,9); Pick _ _ (1,1); Model.Add _ _ (0,9); Finish _ _ (0,9);
   Pick _ _ (2,1); Require _ _ (2,1); Require _ _ (1,1); Model.Add _ _ (2,1); Model.Add _ _ (1,1); Model.Add _ _ (2,1);
   Finish _ _ (2,1); Finish _ _ (1,1); Pick _ _ (3,3); Pick _ _ (3,2); Require _ _ (3,2); Finish _ _ (3,2);
   Require _ _ (3,3); Model.Add _ _ (3,3); Model.Add _ _ (3,3); Finish _ _ (3,3); Pick _ _ (3,1); Require _ _ (3,1); Finish _ _ (3,1)].

Definition ex_run := run nat nat Nat.eq_dec Nat.eq_dec Nat.compare 0 ex_reqs
                         (init nat nat Nat.eq_dec Nat.eq_dec Nat.compare 0 ex_targets) ex_sched.

Example ex_interleaved_schedule_completes :
  match ex_run with
  | Ok _ _ st => st_todo _ _ st = [] /\ st_running _ _ st = [] /\
                 map (g_sel nat nat Nat.eq_dec 0 (st_g _ _ st)) [0;1;2;3;4] = [9;1;1;3;0]
  | _ => False
  end.
Proof. vm_compute. repeat split. Qed.

Example ex_model_scheduler_agrees :
  mvs_build_list nat nat Nat.eq_dec Nat.eq_dec Nat.compare 0 Nat.leb ex_reqs 100 ex_targets
  = Some [(0,9); (1,1); (2,1); (3,3)].
Proof. vm_compute. reflexivity. Qed.
