(* CoreCUE: the fragment of CUE on which the evaluator properties (C01, C04,
   C05, ...) are stated.  Disjunction-free expressions; disjunctions are added
   on top in Core/Disj.v.

   - scalars: atoms (int, string, bool, null), basic types, integer bounds
   - &, top, bottom
   - struct literals with regular / optional (?) / required (!) fields,
     pattern constraints, "...", embeddings
   - close(e), and references to definitions, represented as [ERefDef body]
     (the harness inlines the acyclic definition body; the constructor records
     that the body was reached through a definition, which closes recursively)

   Labels and strings are identified by numbers; a pattern constraint is
   represented by the set of regular-label ids it matches (computed by the
   harness with Go's regexp over the label universe of the program, which
   contains a fresh label standing for "any other label"). *)
From Coq Require Export List ZArith NArith Bool.
Export ListNotations.

Inductive label := LReg (s : N) | LHid (s : N) | LDef (s : N).

Inductive fkind := FRegular | FRequired | FOptional.

Inductive atom := AInt (z : Z) | AStr (s : N) | ABool (b : bool) | ANull.

Inductive skind := KInt | KStr | KBool | KNull | KStruct | KFloat.

Inductive sconstr :=
| SAtom (a : atom)
| SKind (k : skind)          (* int, string, bool, null *)
| SGt (z : Z) | SGe (z : Z) | SLt (z : Z) | SLe (z : Z) | SNe (z : Z).  (* bounds with an int operand *)

Inductive dhead :=
| HField (l : label) (k : fkind)
| HPattern (p : list N)      (* ids of the regular labels the pattern matches *)
| HEllipsis
| HEmbed.

Inductive expr :=
| ETop
| EBot
| EScalar (c : sconstr)
| EAnd (a b : expr)
| EStruct (ds : list (dhead * expr))   (* HEllipsis carries a dummy ETop *)
| EClose (e : expr)
| ERefDef (e : expr).

(* a conjunct group: the expressions that one closedness scope contributes to a
   node, plus whether that scope is a definition (closed recursively).  The
   top-level declarations of a field are singleton groups with c_rec = false;
   all the values a definition body gives to a field (field declarations and
   matching patterns) form ONE group with c_rec = true and are closed together. *)
Record conj := mkConj { c_rec : bool; c_exprs : list expr }.

(* ---- decidable equalities ---------------------------------------------- *)
Definition label_eqb (a b : label) : bool :=
  match a, b with
  | LReg x, LReg y | LHid x, LHid y | LDef x, LDef y => N.eqb x y
  | _, _ => false
  end.

Lemma label_eqb_eq a b : label_eqb a b = true <-> a = b.
Proof.
  destruct a, b; simpl; rewrite ?N.eqb_eq; split; congruence.
Qed.

Definition atom_eqb (a b : atom) : bool :=
  match a, b with
  | AInt x, AInt y => Z.eqb x y
  | AStr x, AStr y => N.eqb x y
  | ABool x, ABool y => Bool.eqb x y
  | ANull, ANull => true
  | _, _ => false
  end.

Lemma atom_eqb_eq a b : atom_eqb a b = true <-> a = b.
Proof.
  destruct a, b; simpl; rewrite ?Z.eqb_eq, ?N.eqb_eq, ?eqb_true_iff; split; congruence.
Qed.

Definition skind_eqb (a b : skind) : bool :=
  match a, b with
  | KInt, KInt | KStr, KStr | KBool, KBool | KNull, KNull | KStruct, KStruct | KFloat, KFloat => true
  | _, _ => false
  end.

Definition is_special (l : label) : bool :=
  match l with LReg _ => false | _ => true end.

(* ---- scalar satisfaction (the set semantics) ---------------------------- *)
Definition atom_kind (a : atom) : skind :=
  match a with AInt _ => KInt | AStr _ => KStr | ABool _ => KBool | ANull => KNull end.

Definition ssat (a : atom) (c : sconstr) : bool :=
  match c with
  | SAtom b => atom_eqb a b
  | SKind k => skind_eqb (atom_kind a) k
  | SGt z => match a with AInt x => Z.ltb z x | _ => false end
  | SGe z => match a with AInt x => Z.leb z x | _ => false end
  | SLt z => match a with AInt x => Z.ltb x z | _ => false end
  | SLe z => match a with AInt x => Z.leb x z | _ => false end
  | SNe z => match a with AInt x => negb (Z.eqb x z) | _ => false end
  end.

(* kinds a constraint admits (struct never) *)
Definition sc_kind_ok (k : skind) (c : sconstr) : bool :=
  match c with
  | SAtom a => skind_eqb (atom_kind a) k
  | SKind k' => skind_eqb k' k
  | _ => skind_eqb KInt k || skind_eqb KFloat k   (* a bound with a numeric operand admits any number *)
  end.

Definition all_kinds : list skind := [KInt; KStr; KBool; KNull; KStruct; KFloat].
