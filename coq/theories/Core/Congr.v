(* C01 at any depth: contextual equivalence of expressions and its congruence rules.
   [veq v v'] says that v may be replaced by v' as a member of any conjunct group in any
   context.  Every basic law of Laws.v is a [veq] fact; [veq] is an equivalence and is
   preserved by & and by the value position of a field of a struct literal (without
   embeddings) - so the rearrangements of C01 may be applied to sub-expressions at any
   depth. *)
From Verif Require Import Core.Syntax Core.Eval Core.Laws.
From Coq Require Import List Bool Permutation.
Import ListNotations.

Section Congr.
  Variable labs : list label.
  Variable atoms : list atom.

  Definition veq (v v' : expr) : Prop :=
    forall fuel r es cs,
      evalNode labs atoms fuel (mkConj r (v :: es) :: cs) = evalNode labs atoms fuel (mkConj r (v' :: es) :: cs).

  Lemma veq_refl v : veq v v.
  Proof. intros fuel r es cs. reflexivity. Qed.

  Lemma veq_sym v v' : veq v v' -> veq v' v.
  Proof. intros H fuel r es cs. symmetry. apply H. Qed.

  Lemma veq_trans a b c : veq a b -> veq b c -> veq a c.
  Proof. intros H1 H2 fuel r es cs. rewrite H1. apply H2. Qed.

  (* the laws of Laws.v as contextual equivalences *)
  Lemma veq_and_comm a b : veq (EAnd a b) (EAnd b a).
  Proof. intros fuel r es cs. apply eval_and_comm. Qed.

  Lemma veq_and_assoc a b c : veq (EAnd (EAnd a b) c) (EAnd a (EAnd b c)).
  Proof. intros fuel r es cs. apply eval_and_assoc. Qed.

  Lemma veq_and_idem a : veq (EAnd a a) a.
  Proof. intros fuel r es cs. apply eval_and_idem. Qed.

  Lemma veq_and_top a : veq (EAnd a ETop) a.
  Proof. intros fuel r es cs. apply eval_and_top. Qed.

  Lemma veq_decl_perm ds ds' :
    embed_free ds = true -> embed_free ds' = true -> Laws.seq ds ds' -> veq (EStruct ds) (EStruct ds').
  Proof. intros F F' S fuel r es cs. apply eval_decl_perm; auto. Qed.

  (* replacing members of groups by equivalent ones, anywhere in a conjunct list *)
  Definition erel (v v' : expr) (e e' : expr) : Prop := e = e' \/ (e = v /\ e' = v').
  Definition crel (v v' : expr) (c c' : conj) : Prop :=
    c_rec c = c_rec c' /\ Forall2 (erel v v') (c_exprs c) (c_exprs c').

  Lemma eval_replace_group v v' (H : veq v v') fuel r : forall es es' pre cs,
    Forall2 (erel v v') es es' ->
    evalNode labs atoms fuel (mkConj r (pre ++ es) :: cs) = evalNode labs atoms fuel (mkConj r (pre ++ es') :: cs).
  Proof.
    intros es es' pre cs F. revert pre. induction F as [|e e' es es' He F IH]; intros pre; [reflexivity|].
    destruct He as [<-|[-> ->]].
    - specialize (IH (pre ++ [e])). rewrite <- !app_assoc in IH. exact IH.
    - (* move v to the front, replace it, move v' back, continue *)
      rewrite (eval_group_perm labs atoms fuel r (pre ++ v :: es) (v :: pre ++ es))
        by (intros x; rewrite !in_app_iff; simpl; rewrite in_app_iff; tauto).
      rewrite H.
      rewrite (eval_group_perm labs atoms fuel r (v' :: pre ++ es) ((pre ++ [v']) ++ es))
        by (intros x; simpl; rewrite !in_app_iff; simpl; tauto).
      specialize (IH (pre ++ [v'])). rewrite IH. rewrite <- app_assoc. reflexivity.
  Qed.

  Lemma eval_replace v v' (H : veq v v') fuel : forall cs cs' pre,
    Forall2 (crel v v') cs cs' ->
    evalNode labs atoms fuel (pre ++ cs) = evalNode labs atoms fuel (pre ++ cs').
  Proof.
    intros cs cs' pre F. revert pre. induction F as [|c c' cs cs' Hc F IH]; intros pre; [reflexivity|].
    destruct c as [r es], c' as [r' es']. destruct Hc as [Er Fe]. simpl in Er, Fe. subst r'.
    (* bring the group to the front, replace inside it, put it back *)
    rewrite (eval_perm labs atoms fuel (pre ++ mkConj r es :: cs) (mkConj r es :: pre ++ cs))
      by (apply Permutation_sym, Permutation_middle).
    pose proof (eval_replace_group v v' H fuel r es es' [] (pre ++ cs) Fe) as E. simpl in E. rewrite E. clear E.
    rewrite (eval_perm labs atoms fuel (mkConj r es' :: pre ++ cs) ((pre ++ [mkConj r es']) ++ cs)).
    2:{ rewrite <- app_assoc. simpl. apply Permutation_middle. }
    rewrite (IH (pre ++ [mkConj r es'])). rewrite <- app_assoc. reflexivity.
  Qed.

  (* & is a congruence *)
  Theorem veq_and_congr a a' b : veq a a' -> veq (EAnd a b) (EAnd a' b).
  Proof.
    intros H fuel r es cs. rewrite !eval_and_flatten. apply H.
  Qed.

  (* ---- the value position of a field is a congruence position -------------------- *)
  Lemma evalFlat_children_ext fuel fl fl' :
    n_bot fl = n_bot fl' -> n_struct fl = n_struct fl' -> n_scal fl = n_scal fl' ->
    n_closers fl = n_closers fl' -> (forall l, presence fl l = presence fl' l) ->
    (forall l f, evalFlat labs atoms f (flat_all (children fl l)) = evalFlat labs atoms f (flat_all (children fl' l))) ->
    evalFlat labs atoms fuel fl = evalFlat labs atoms fuel fl'.
  Proof.
    intros Hb Hs Hsc Hc Hp Hch. destruct fuel as [|f]; [reflexivity|]. cbn [evalFlat].
    rewrite <- Hb, <- Hs, <- Hsc, <- Hc.
    destruct (n_bot fl); [reflexivity|]. destruct (n_struct fl && negb (null (n_scal fl))); [reflexivity|].
    destruct (n_struct fl); [|reflexivity].
    f_equal; apply map_ext; intros l; rewrite <- ?Hp, <- ?(Hch l f); reflexivity.
  Qed.

  Lemma erel_refl_list v v' l : Forall2 (erel v v') l l.
  Proof. induction l; constructor; auto. left; reflexivity. Qed.

  Lemma Forall2_erel_app v v' a a' b b' :
    Forall2 (erel v v') a a' -> Forall2 (erel v v') b b' -> Forall2 (erel v v') (a ++ b) (a' ++ b').
  Proof. intros H1 H2. apply Forall2_app; assumption. Qed.

  (* two part lists that agree except for the values v / v' of some fields *)
  Definition frel (v v' : expr) (f f' : label * fkind * expr) : Prop :=
    fst f = fst f' /\ erel v v' (snd f) (snd f').
  Definition prel (v v' : expr) (p p' : gpart) : Prop :=
    gp_rec p = gp_rec p' /\ gp_pats p = gp_pats p' /\ Forall2 (frel v v') (gp_fields p) (gp_fields p').

  Lemma part_values_rel v v' p p' l :
    prel v v' p p' -> Forall2 (erel v v') (part_values p l) (part_values p' l).
  Proof.
    intros (_ & Hp & Hf). unfold part_values. rewrite Hp. apply Forall2_erel_app; [|apply erel_refl_list].
    induction Hf as [|f f' fs fs' [Hk He] Hf IH]; simpl; [constructor|].
    rewrite <- Hk. destruct (label_eqb (fst (fst f)) l); simpl; auto.
  Qed.

  Lemma Forall2_null {A B} (R : A -> B -> Prop) l l' : Forall2 R l l' -> null l = null l'.
  Proof. intros H. destruct H; reflexivity. Qed.

  Lemma children_rel v v' ps ps' bot scal str cl l :
    Forall2 (prel v v') ps ps' ->
    Forall2 (crel v v') (children (mkNFlat bot scal str ps cl) l) (children (mkNFlat bot scal str ps' cl) l).
  Proof.
    intros F. unfold children, open_values, rec_children. cbn [n_parts].
    assert (O : Forall2 (erel v v') (flat_map (fun p => if gp_rec p then [] else part_values p l) ps)
                                     (flat_map (fun p => if gp_rec p then [] else part_values p l) ps')).
    { induction F as [|p p' ps ps' Hp F IH]; simpl; [constructor|].
      apply Forall2_erel_app; auto. pose proof (part_values_rel v v' p p' l Hp) as PV0.
      destruct Hp as (Hr & Hrest). rewrite <- Hr.
      destruct (gp_rec p); [constructor | exact PV0]. }
    apply Forall2_app.
    - rewrite <- (Forall2_null _ _ _ O). destruct (null _); constructor; [|constructor]. split; auto.
    - clear O. induction F as [|p p' ps ps' Hp F IH]; [constructor|].
      cbn [flat_map]. apply Forall2_app; [|exact IH].
      pose proof (part_values_rel v v' p p' l Hp) as PV.
      destruct Hp as (Hr & Hrest). rewrite <- Hr. destruct (gp_rec p); [|constructor].
      rewrite <- (Forall2_null _ _ _ PV). destruct (null _); constructor; [|constructor]. split; auto.
  Qed.

  Lemma has_field_rel v v' ps ps' bot scal str cl l k :
    Forall2 (prel v v') ps ps' ->
    has_field (mkNFlat bot scal str ps cl) l k = has_field (mkNFlat bot scal str ps' cl) l k.
  Proof.
    intros F. unfold has_field. cbn [n_parts]. induction F as [|p p' ps ps' Hp F IH]; simpl; auto.
    rewrite IH. f_equal. destruct Hp as (_ & _ & Hf).
    induction Hf as [|f f' fs fs' [Hk _] Hf IHf]; simpl; auto. rewrite IHf, Hk. reflexivity.
  Qed.

  Lemma declared_field_value ds1 l k v v' ds2 :
    declared (EStruct (ds1 ++ (HField l k, v) :: ds2)) = declared (EStruct (ds1 ++ (HField l k, v') :: ds2)).
  Proof.
    cbn [declared]. induction ds1 as [|[h e] ds1 IH]; simpl; [reflexivity|]. rewrite IH. reflexivity.
  Qed.

  Lemma embed_free_field_value ds1 l k v v' ds2 :
    embed_free (ds1 ++ (HField l k, v) :: ds2) = embed_free (ds1 ++ (HField l k, v') :: ds2).
  Proof. unfold embed_free. rewrite !forallb_app. reflexivity. Qed.

  Theorem veq_field_congr v v' ds1 l k ds2 :
    veq v v' -> embed_free (ds1 ++ (HField l k, v) :: ds2) = true ->
    veq (EStruct (ds1 ++ (HField l k, v) :: ds2)) (EStruct (ds1 ++ (HField l k, v') :: ds2)).
  Proof.
    intros H F fuel r es cs.
    assert (F' : embed_free (ds1 ++ (HField l k, v') :: ds2) = true)
      by (rewrite <- (embed_free_field_value ds1 l k v v' ds2); exact F).
    unfold evalNode. rewrite !flat_all_cons.
    (* both flattened groups, explicitly *)
    assert (E : forall dsx, embed_free dsx = true ->
              flat_conj (mkConj r (EStruct dsx :: es)) =
              mkNFlat (f_bot (flat_exprs r es)) (f_scal (flat_exprs r es)) true
                      (mkPart r (fields_of dsx ++ f_own (flat_exprs r es)) (pats_of dsx ++ f_ownp (flat_exprs r es))
                       :: map (fun s => mkPart true (fst s) (snd s)) (f_subs (flat_exprs r es)))
                      ((if r && (true || existsb own_lit es) then [all_declared (EStruct dsx :: es)] else []) ++
                       f_closers (flat_exprs r es))).
    { intros dsx Fx. unfold flat_conj. cbn [c_rec c_exprs]. rewrite flat_exprs_cons, (flatten_embed_free r al_empty dsx Fx).
      reflexivity. }
    rewrite (E _ F), (E _ F'). unfold nflat_app. cbn [n_bot n_scal n_struct n_parts n_closers].
    assert (D : all_declared (EStruct (ds1 ++ (HField l k, v) :: ds2) :: es) =
                all_declared (EStruct (ds1 ++ (HField l k, v') :: ds2) :: es)).
    { cbn [all_declared fold_right]. rewrite (declared_field_value ds1 l k v v' ds2). reflexivity. }
    rewrite D.
    assert (PR : Forall2 (prel v v')
                   (mkPart r (fields_of (ds1 ++ (HField l k, v) :: ds2) ++ f_own (flat_exprs r es))
                           (pats_of (ds1 ++ (HField l k, v) :: ds2) ++ f_ownp (flat_exprs r es))
                    :: map (fun s => mkPart true (fst s) (snd s)) (f_subs (flat_exprs r es)) ++ n_parts (flat_all cs))
                   (mkPart r (fields_of (ds1 ++ (HField l k, v') :: ds2) ++ f_own (flat_exprs r es))
                           (pats_of (ds1 ++ (HField l k, v') :: ds2) ++ f_ownp (flat_exprs r es))
                    :: map (fun s => mkPart true (fst s) (snd s)) (f_subs (flat_exprs r es)) ++ n_parts (flat_all cs))).
    { constructor.
      - split; [reflexivity|]. cbn [gp_pats gp_fields]. split.
        + unfold pats_of. rewrite !flat_map_app. reflexivity.
        + unfold fields_of. rewrite !flat_map_app. cbn [flat_map fst snd app].
          assert (RF : forall fs, Forall2 (frel v v') fs fs).
          { induction fs; constructor; auto. split; auto. left; reflexivity. }
          apply Forall2_app; [apply Forall2_app; [apply RF | constructor; [|apply RF]] | apply RF].
          split; [reflexivity|]. right; auto.
      - induction (map _ (f_subs (flat_exprs r es)) ++ n_parts (flat_all cs)) as [|p ps IHp]; constructor; auto.
        split; [reflexivity|split; [reflexivity|]]. induction (gp_fields p); constructor; auto. split; auto. left; reflexivity. }
    apply evalFlat_children_ext; cbn [n_bot n_scal n_struct n_closers]; try reflexivity.
    - intros l0. unfold presence. rewrite !(has_field_rel v v' _ _ _ _ _ _ l0 _ PR). reflexivity.
    - intros l0 f. pose proof (children_rel v v' _ _ (f_bot (flat_exprs r es) || n_bot (flat_all cs))
                                            (f_scal (flat_exprs r es) ++ n_scal (flat_all cs)) (true || n_struct (flat_all cs))
                                            ((if r && (true || existsb own_lit es) then [all_declared (EStruct (ds1 ++ (HField l k, v') :: ds2) :: es)] else []) ++
                                             f_closers (flat_exprs r es) ++ n_closers (flat_all cs)) l0 PR) as CR.
      rewrite <- app_assoc.
      exact (eval_replace v v' H f _ _ [] CR).
  Qed.

  (* example of the laws reaching any depth: reordering the declarations of a struct that is
     the value of a field of a struct that is the value of a field ... *)
  Corollary veq_nested_decl_perm l k ds ds' pre post :
    embed_free ds = true -> embed_free ds' = true -> Laws.seq ds ds' ->
    embed_free (pre ++ (HField l k, EStruct ds) :: post) = true ->
    veq (EStruct (pre ++ (HField l k, EStruct ds) :: post)) (EStruct (pre ++ (HField l k, EStruct ds') :: post)).
  Proof.
    intros F F' S Fo. apply veq_field_congr; auto. apply veq_decl_perm; auto.
  Qed.
End Congr.
