(* NestCUE: disjunctions BELOW the top level - as values of struct fields - and disjunctions of
   such structs (C04, C01).

     field value   fv ::= e1 & .. & en & D1 & .. & Dm      e disjunction-free CoreCUE expressions,
                                                           D flat disjunctions of such (Core/Disj.v)
     term          t  ::= {l1: fv1, .., lk: fvk}           open struct literal, regular fields
                        | scalar constraint | _|_
     node          x  ::= t1 & .. & tn & S1 & .. & Sm      S a disjunction  *c1 | c2 | ..  whose
                                                           disjuncts c are conjunctions of terms

   Semantics (order free, as in Core/Disj.v, one level up):
     - a CHOICE takes one disjunct of every struct-level disjunction; its value is
         * a scalar (evalNode of the scalar constraints) when no literal takes part,
         * an error when literals meet scalar constraints,
         * else the struct whose field l holds the value/default pair of the conjunction of
           ALL field values the literals of the choice give to l - plain operands and
           disjunctions alike, evaluated by Core/Disj.v.  Of this pair the alternative records
           the OUTCOME (resolution and acceptance of every probe atom).  The struct is an error
           iff some field has no value left (a failed field fails the struct: cue's
           regular-field error propagation);
     - survivors, effectively marked disjunctions, defaults and resolution of the node are those
       of Core/DisjGen.v over these choice values.

   This is what the spec's value/default pairs give when a disjunction is the value of a field:
   `{a: *1 | 2}` is ONE struct whose field a is the pair <1|2, 1>; `{a: *1 | 2} & {a: 2 | 3}`
   has a = <2, 2>... (U1/U2 applied at the field), and `({a: 1} | {a: 2}) & {a: 1}` keeps the
   one disjunct whose field survives.

   Field outcomes are compared with [veqb] when alternatives are de-duplicated.  With scalar
   disjuncts in the fields (what the generator of harness/core/nest.go writes) resolution +
   acceptance over the probe universe identify the pair up to the universe; with struct-valued
   disjuncts inside fields acceptance of atoms is blind, which is why the tie stays with scalar
   field disjuncts. *)
From Verif Require Import Core.Syntax Core.Eval Core.Disj Core.DisjGen.
From Coq Require Import List Bool Arith.
Import ListNotations.

Record fval := mkFval { fv_plain : list expr; fv_disjs : list disj }.

Inductive sterm :=
| TLit (fs : list (label * fval))
| TScalar (c : sconstr)
| TBot.

Definition sdisjunct : Type := list sterm.             (* a conjunction of terms *)
Definition sdisj : Type := list (bool * sdisjunct).

(* outcome of a field: resolution and acceptance bits *)
Definition fout : Type := (resolution * list bool)%type.

Inductive aval :=
| AErr
| AScal (r : res)
| AStruct (fs : list (bool * fout)).    (* per label of the universe: present?, outcome *)

Definition resolution_eqb (a b : resolution) : bool :=
  match a, b with
  | Chosen x, Chosen y => res_eqb x y
  | Ambiguous, Ambiguous | NoValue, NoValue => true
  | _, _ => false
  end.

Definition fout_eqb (a b : bool * fout) : bool :=
  Bool.eqb (fst a) (fst b) && resolution_eqb (fst (snd a)) (fst (snd b)) &&
  list_eqb Bool.eqb (snd (snd a)) (snd (snd b)).

Definition aval_eqb (a b : aval) : bool :=
  match a, b with
  | AErr, AErr => true
  | AScal x, AScal y => res_eqb x y
  | AStruct f, AStruct g => list_eqb fout_eqb f g
  | _, _ => false
  end.

Definition aval_err (a : aval) : bool := match a with AErr => true | _ => false end.

Definition is_novalue (r : resolution) : bool := match r with NoValue => true | _ => false end.

Section Nest.
  Variable labs : list label.
  Variable atoms : list atom.
  Variable fuel : nat.

  Definition lits (ts : list sterm) : list (list (label * fval)) :=
    flat_map (fun t => match t with TLit fs => [fs] | _ => [] end) ts.

  Definition scals (ts : list sterm) : list expr :=
    flat_map (fun t => match t with TScalar c => [EScalar c] | TBot => [EBot] | TLit _ => [] end) ts.

  (* all values the literals of ts give to l *)
  Definition field_vals (ts : list sterm) (l : label) : list fval :=
    flat_map (fun fs => flat_map (fun f => if label_eqb (fst f) l then [snd f] else []) fs) (lits ts).

  Definition f_plain (ts : list sterm) (l : label) : list expr := flat_map fv_plain (field_vals ts l).
  Definition f_disjs (ts : list sterm) (l : label) : list disj := flat_map fv_disjs (field_vals ts l).

  Definition field_out (ts : list sterm) (l : label) : fout :=
    let p := pair_of labs atoms fuel (f_plain ts l) (f_disjs ts l) in
    (resolve p, map (accepts p) (seq 0 (length atoms))).

  Definition field_row (ts : list sterm) (l : label) : bool * fout :=
    (negb (null (field_vals ts l)), field_out ts l).

  Definition row_failed (f : bool * fout) : bool := fst f && is_novalue (fst (snd f)).

  (* the value of a conjunction of terms *)
  Definition alt_val (ts : list sterm) : aval :=
    match lits ts with
    | [] => let r := evalNode labs atoms fuel [mkConj false (scals ts)] in
            if res_err r then AErr else AScal r
    | _ :: _ =>
      if negb (null (scals ts)) then AErr
      else let fs := map (field_row ts) labs in
           if existsb row_failed fs then AErr else AStruct fs
    end.

  Definition aval_acc (i : nat) (a : aval) : bool :=
    match a with AScal r => res_accepts i r | _ => false end.

  (* the node: plain terms and struct-level disjunctions *)
  Definition nest_tval (plain : list sterm) (t : list sdisjunct) : aval := alt_val (plain ++ concat t).

  Definition nest_pair (plain : list sterm) (ds : list sdisj) : list (aval * bool) :=
    gpair_of sdisjunct aval aval_err (nest_tval plain) ds.

  Definition nest_resolve (p : list (aval * bool)) : gresolution aval := gresolve aval aval_eqb p.
  Definition nest_accepts (p : list (aval * bool)) (i : nat) : bool := gaccepts aval aval_acc p i.

  (* the class of known finding F2 (it needs two disjunctions), at the node or at any field of any choice *)
  Definition nest_sensitive (plain : list sterm) (ds : list sdisj) : bool :=
    ((2 <=? length ds) && gfold_sensitive sdisjunct aval aval_err (nest_tval plain) ds) ||
    existsb (fun t => let ts := plain ++ concat (map snd t) in
                      existsb (fun l => (2 <=? length (f_disjs ts l)) &&
                                        fold_sensitive labs atoms fuel (f_plain ts l) (f_disjs ts l)) labs)
            (gtuples sdisjunct ds).

  (* the class of known finding F18(b): two surviving alternatives that differ ONLY in the resolution
     (the default marks) of some field - same fields, same acceptance *)
  Definition row_shape (f : bool * fout) : bool * list bool := (fst f, snd (snd f)).
  Definition shape_eqb (a b : aval) : bool :=
    match a, b with
    | AStruct f, AStruct g =>
      list_eqb (fun x y => Bool.eqb (fst x) (fst y) && list_eqb Bool.eqb (snd x) (snd y))
               (map row_shape f) (map row_shape g)
    | _, _ => false
    end.
  Definition nest_twins (p : list (aval * bool)) : bool :=
    let vs := map fst p in
    existsb (fun v => existsb (fun w => negb (aval_eqb v w) && shape_eqb v w) vs) vs.

  Definition eval_nest (plain : list sterm) (ds : list sdisj)
    : gresolution aval * list bool * bool * nat * bool :=
    let p := nest_pair plain ds in
    (nest_resolve p, map (nest_accepts p) (seq 0 (length atoms)), nest_sensitive plain ds,
     (* how many values an unresolved node shows: its defaults if there are any, else its values *)
     match gdefaults aval aval_eqb p with [] => length (gvalues aval aval_eqb p) | d => length d end,
     nest_twins p).
End Nest.
