(* More theorems about the order-free disjunction/default semantics (C04):
   the outcome (acceptance of every probe atom, resolution) is independent of the order of
   the operands of &, of the order and multiplicity of the disjuncts of a disjunction,
   of unmarked copies of marked disjuncts, and of marks put on every disjunct. *)
From Verif Require Import Core.Syntax Core.Eval Core.Laws Core.Disj Core.DisjLaws.
From Coq Require Import List Bool Arith Lia Permutation.
Import ListNotations.

(* ---- res_eqb decides equality of result trees ------------------------------------ *)
Lemma list_eqb_bool_eq x : forall y, list_eqb Bool.eqb x y = true <-> x = y.
Proof.
  induction x as [|a x IH]; intros [|b y]; simpl; split; try discriminate; auto.
  - intros H. apply andb_prop in H as [H1 H2]. apply eqb_prop in H1. apply IH in H2. congruence.
  - intros [= -> ->]. rewrite eqb_reflx. simpl. apply IH. reflexivity.
Qed.

Lemma fpres_eqb_eq a b : fpres_eqb a b = true <-> a = b.
Proof. destruct a, b; simpl; split; congruence. Qed.

Lemma res_eqb_true : forall a b, res_eqb a b = true -> a = b.
Proof.
  fix IH 1. intros a b.
  destruct a as [| |k1 a1 p1|f1 o1], b as [| |k2 a2 p2|f2 o2]; simpl; try discriminate; try reflexivity.
  - intros H. apply andb_prop in H as [H H3]. apply andb_prop in H as [H1 H2].
    apply list_eqb_bool_eq in H1, H2, H3. subst. reflexivity.
  - intros H. apply andb_prop in H as [H1 H2]. apply list_eqb_bool_eq in H2. subst o2. f_equal.
    revert f2 H1. induction f1 as [|[p r] f1 IHf]; intros [|[q s] f2]; simpl; intros H; try discriminate; try reflexivity.
    apply andb_prop in H as [H H3]. apply andb_prop in H as [H1 H2].
    apply fpres_eqb_eq in H1. apply IH in H2. apply IHf in H3. subst. reflexivity.
Qed.

Lemma res_eqb_refl : forall a, res_eqb a a = true.
Proof.
  fix IH 1. intros [| |k a p|f o]; simpl; try reflexivity.
  - rewrite !(proj2 (list_eqb_bool_eq _ _) eq_refl). reflexivity.
  - rewrite (proj2 (list_eqb_bool_eq o o) eq_refl), andb_true_r.
    induction f as [|[p r] f IHf]; [reflexivity|].
    rewrite (proj2 (fpres_eqb_eq p p) eq_refl), IH, IHf. reflexivity.
Qed.

Lemma res_eqb_eq a b : res_eqb a b = true <-> a = b.
Proof. split; [apply res_eqb_true | intros ->; apply res_eqb_refl]. Qed.

(* ---- dedup: a duplicate-free list with the same elements ---------------------------- *)
Lemma mem_res_iff r l : mem_res r l = true <-> In r l.
Proof.
  unfold mem_res. rewrite existsb_exists. split.
  - intros (x & Hx & E). apply res_eqb_eq in E. subst. exact Hx.
  - intros H. exists r. split; auto. apply res_eqb_refl.
Qed.

Lemma dedup_in l : forall r, In r (dedup l) <-> In r l.
Proof.
  induction l as [|a l IH]; intros r; simpl; [tauto|].
  destruct (mem_res a l) eqn:E.
  - rewrite IH. split; auto. intros [<-|H]; auto. apply mem_res_iff. exact E.
  - simpl. rewrite IH. tauto.
Qed.

Lemma dedup_nodup l : NoDup (dedup l).
Proof.
  induction l as [|a l IH]; simpl; [constructor|].
  destruct (mem_res a l) eqn:E; auto. constructor; auto.
  rewrite dedup_in. intros H. apply mem_res_iff in H. congruence.
Qed.

Lemma dedup_seq_perm l l' : Laws.seq l l' -> Permutation (dedup l) (dedup l').
Proof.
  intros H. apply NoDup_Permutation; auto using dedup_nodup.
  intros x. rewrite !dedup_in. apply H.
Qed.

(* ---- the outcome: what is observable of a value/default pair ---------------------- *)
Definition same_outcome (p p' : list (res * bool)) : Prop :=
  (forall i, accepts p i = accepts p' i) /\ resolve p = resolve p'.

Lemma same_outcome_refl p : same_outcome p p.
Proof. split; auto. Qed.

Lemma same_outcome_sym p p' : same_outcome p p' -> same_outcome p' p.
Proof. intros [H1 H2]. split; auto. Qed.

Lemma same_outcome_trans p1 p2 p3 : same_outcome p1 p2 -> same_outcome p2 p3 -> same_outcome p1 p3.
Proof. intros [H1 H2] [H3 H4]. split; [intros i; rewrite H1; apply H3 | congruence]. Qed.

(* resolution depends only on the SETS of values and of default values *)
Lemma resolve_ext p p' :
  Laws.seq (map fst (filter snd p)) (map fst (filter snd p')) ->
  Laws.seq (map fst p) (map fst p') -> resolve p = resolve p'.
Proof.
  intros HD HV. apply dedup_seq_perm in HD, HV. unfold resolve, defaults, values.
  destruct (dedup (map fst (filter snd p))) as [|d [|d2 dl]],
           (dedup (map fst (filter snd p'))) as [|d' [|d2' dl']];
    try (apply Permutation_length in HD; simpl in HD; lia).
  - destruct (dedup (map fst p)) as [|v [|v2 vl]], (dedup (map fst p')) as [|v' [|v2' vl']];
      try (apply Permutation_length in HV; simpl in HV; lia); try reflexivity.
    apply Permutation_length_1 in HV. congruence.
  - apply Permutation_length_1 in HD. congruence.
  - reflexivity.
Qed.

Lemma accepts_ext p p' i : Laws.seq (map fst p) (map fst p') -> accepts p i = accepts p' i.
Proof.
  intros H. unfold accepts.
  rewrite <- (existsb_map_l (res_accepts i) fst p), <- (existsb_map_l (res_accepts i) fst p').
  apply existsb_seq. exact H.
Qed.

(* all flags set / no flag set: the resolution is the one by values *)
Lemma filter_all {A} (f : A -> bool) l : (forall x, In x l -> f x = true) -> filter f l = l.
Proof.
  induction l as [|a l IH]; simpl; auto. intros H. rewrite (H a) by auto. f_equal. apply IH. auto.
Qed.

Lemma filter_none {A} (f : A -> bool) l : (forall x, In x l -> f x = false) -> filter f l = [].
Proof.
  induction l as [|a l IH]; simpl; auto. intros H. rewrite (H a) by auto. apply IH. auto.
Qed.

Lemma resolve_flags_const p p' :
  (forall vd, In vd p -> snd vd = true) -> (forall vd, In vd p' -> snd vd = false) ->
  Laws.seq (map fst p) (map fst p') -> resolve p = resolve p'.
Proof.
  intros H1 H2 HV. apply dedup_seq_perm in HV. unfold resolve, defaults, values.
  rewrite (filter_all snd p H1), (filter_none snd p' H2). cbn [map dedup].
  destruct (dedup (map fst p)) as [|v [|v2 vl]], (dedup (map fst p')) as [|v' [|v2' vl']];
    try (apply Permutation_length in HV; simpl in HV; lia); try reflexivity.
  apply Permutation_length_1 in HV. congruence.
Qed.

Lemma resolve_no_defaults p v : defaults p = [] -> (resolve p = Chosen v <-> values p = [v]).
Proof.
  intros H. unfold resolve. rewrite H. destruct (values p) as [|a [|b l]]; split; intros E; try discriminate; congruence.
Qed.

(* every default value is a value; a single surviving value is chosen whatever the marks *)
Lemma defaults_incl_values p x : In x (defaults p) -> In x (values p).
Proof.
  unfold defaults, values. rewrite !dedup_in, !in_map_iff. intros (vd & E & H).
  apply filter_In in H as [H _]. exists vd; auto.
Qed.

Theorem single_value_chosen p v : values p = [v] -> resolve p = Chosen v.
Proof.
  intros H. assert (I : forall x, In x (defaults p) -> x = v).
  { intros x Hx. apply defaults_incl_values in Hx. rewrite H in Hx. destruct Hx as [<-|[]]. reflexivity. }
  assert (N : NoDup (defaults p)) by apply dedup_nodup.
  unfold resolve. rewrite H. revert I N. destruct (defaults p) as [|a [|b l]]; intros I N.
  - reflexivity.
  - rewrite (I a) by (left; auto). reflexivity.
  - exfalso. inversion N as [|? ? Hn _]; subst. apply Hn.
    rewrite (I a) by (simpl; auto). rewrite (I b) by (simpl; auto). left; reflexivity.
Qed.

Lemma filter_map_comm {A B} (f : B -> bool) (g : A -> B) l :
  filter f (map g l) = map g (filter (fun x => f (g x)) l).
Proof. induction l as [|a l IH]; simpl; auto. destruct (f (g a)); simpl; congruence. Qed.

Lemma forallb_map_l {A B} (f : B -> bool) (g : A -> B) l : forallb f (map g l) = forallb (fun x => f (g x)) l.
Proof. induction l as [|a l IH]; simpl; auto. rewrite IH. reflexivity. Qed.

Lemma forallb_ext' {A} (f g : A -> bool) l : (forall x, f x = g x) -> forallb f l = forallb g l.
Proof. intros H. induction l as [|a l IH]; simpl; auto. rewrite H, IH. reflexivity. Qed.

Lemma existsb_seq_S f n : existsb f (seq 0 (S n)) = f 0 || existsb (fun i => f (S i)) (seq 0 n).
Proof. cbn [seq existsb]. rewrite <- seq_shift, existsb_map_l. reflexivity. Qed.

Lemma forallb_seq_S f n : forallb f (seq 0 (S n)) = f 0 && forallb (fun i => f (S i)) (seq 0 n).
Proof. cbn [seq forallb]. rewrite <- seq_shift, forallb_map_l. reflexivity. Qed.

(* ---- exchanging two adjacent elements of a list ------------------------------------ *)
Fixpoint sw {A} (k : nat) (t : list A) : list A :=
  match k, t with
  | 0, a :: b :: r => b :: a :: r
  | S k', a :: r => a :: sw k' r
  | _, _ => t
  end.

Definition swi (k i : nat) : nat := if i =? k then S k else if i =? S k then k else i.

Lemma sw_perm {A} k : forall t : list A, Permutation (sw k t) t.
Proof.
  induction k as [|k IH]; intros [|a [|b r]]; simpl; auto using perm_swap.
Qed.

Lemma sw_forall2 {A B} (R : A -> B -> Prop) l1 x y l2 : forall t,
  Forall2 R t (l1 ++ x :: y :: l2) -> Forall2 R (sw (length l1) t) (l1 ++ y :: x :: l2).
Proof.
  induction l1 as [|a l1 IH]; simpl; intros t H.
  - inversion H as [|c1 ? t1 ? Hc1 H1]; subst. inversion H1 as [|c2 ? t2 ? Hc2 H2]; subst.
    repeat constructor; auto.
  - inversion H as [|c1 ? t1 ? Hc1 H1]; subst. constructor; auto.
Qed.

Lemma swi_S k i : swi (S k) (S i) = S (swi k i).
Proof. unfold swi. simpl. destruct (i =? k); auto. destruct k; simpl; destruct (i =? _); auto. Qed.

Lemma nth_error_sw {A} k : forall (t : list A) i,
  k + 2 <= length t -> nth_error (sw k t) (swi k i) = nth_error t i.
Proof.
  induction k as [|k IH]; intros t i H.
  - destruct t as [|a [|b r]]; simpl in H; try lia.
    destruct i as [|[|i]]; reflexivity.
  - destruct t as [|a r]; simpl in H; try lia.
    destruct i as [|i].
    + reflexivity.
    + rewrite swi_S. cbn [sw nth_error]. apply IH. lia.
Qed.

Lemma swi_lt k n i : k + 2 <= n -> i < n -> swi k i < n.
Proof.
  intros H1 H2. unfold swi. destruct (i =? k) eqn:E1; [lia|]. destruct (i =? S k) eqn:E2; lia.
Qed.

Lemma swi_invol k i : swi k (swi k i) = i.
Proof.
  unfold swi. destruct (i =? k) eqn:E1.
  - apply Nat.eqb_eq in E1. subst. rewrite (proj2 (Nat.eqb_neq (S k) k)) by lia. rewrite Nat.eqb_refl. reflexivity.
  - destruct (i =? S k) eqn:E2.
    + apply Nat.eqb_eq in E2. subst. rewrite Nat.eqb_refl. reflexivity.
    + rewrite E1, E2. reflexivity.
Qed.

Lemma Forall2_same {A} (R : A -> A -> Prop) l : (forall x, R x x) -> Forall2 R l l.
Proof. intros H. induction l; constructor; auto. Qed.

Lemma Forall2_len {A B} (R : A -> B -> Prop) l l' : Forall2 R l l' -> length l = length l'.
Proof. induction 1; simpl; auto. Qed.

Section DisjLaws2.
  Variable labs : list label.
  Variable atoms : list atom.
  Variable fuel : nat.

  Notation tuple_val := (tuple_val labs atoms fuel).
  Notation survives := (survives labs atoms fuel).
  Notation survivors := (survivors labs atoms fuel).
  Notation pair_of := (pair_of labs atoms fuel).

  Lemma in_survivors plain ds t :
    In t (survivors plain ds) <-> is_tuple t ds /\ survives plain t = true.
  Proof. unfold Disj.survivors. rewrite filter_In, tuples_spec. tauto. Qed.

  Lemma survives_val plain t t' :
    tuple_val plain t' = tuple_val plain t -> survives plain t' = survives plain t.
  Proof. unfold Disj.survives. intros ->. reflexivity. Qed.

  Lemma in_pair_values plain ds x :
    In x (map fst (pair_of plain ds)) <->
    exists t, In t (survivors plain ds) /\ tuple_val plain t = x.
  Proof.
    unfold Disj.pair_of. rewrite map_map. cbn [fst]. rewrite in_map_iff.
    split; intros (t & A & B); exists t; split; assumption.
  Qed.

  Lemma in_pair_defaults plain ds x :
    In x (map fst (filter snd (pair_of plain ds))) <->
    exists t, In t (survivors plain ds) /\
              is_default (length ds) (survivors plain ds) t = true /\ tuple_val plain t = x.
  Proof.
    unfold Disj.pair_of. rewrite in_map_iff. split.
    - intros ([v b] & E & H). apply filter_In in H as [H Hb]. apply in_map_iff in H as (t & Et & Ht).
      cbn [fst snd] in *. injection Et as Ev Eb. exists t. subst. auto.
    - intros (t & Ht & Hd & E). exists (tuple_val plain t, true). split; auto.
      apply filter_In. split; auto. apply in_map_iff. exists t. rewrite Hd. auto.
  Qed.

  Lemma outcome_ext plain ds ds' :
    (forall x, (exists t, In t (survivors plain ds) /\ tuple_val plain t = x) <->
               (exists t, In t (survivors plain ds') /\ tuple_val plain t = x)) ->
    (forall x, (exists t, In t (survivors plain ds) /\
                 is_default (length ds) (survivors plain ds) t = true /\ tuple_val plain t = x) <->
               (exists t, In t (survivors plain ds') /\
                 is_default (length ds') (survivors plain ds') t = true /\ tuple_val plain t = x)) ->
    same_outcome (pair_of plain ds) (pair_of plain ds').
  Proof.
    intros HV HD. split.
    - intros i. apply accepts_ext. intros x. rewrite !in_pair_values. apply HV.
    - apply resolve_ext; intros x; [rewrite !in_pair_defaults; apply HD | rewrite !in_pair_values; apply HV].
  Qed.

  Lemma is_default_iff n svs t :
    is_default n svs t = true <->
    (exists i, i < n /\ eff_marked svs i = true) /\
    (forall i, i < n -> eff_marked svs i = true -> uses_marked i t = true).
  Proof.
    unfold is_default. rewrite andb_true_iff, existsb_exists, forallb_forall.
    split; intros [(i & Hi & E) H]; split.
    - exists i. apply in_seq in Hi. split; [lia|exact E].
    - intros j Hj Ej. specialize (H j). rewrite Ej in H. simpl in H. apply H. apply in_seq. lia.
    - exists i. split; [apply in_seq; lia|exact E].
    - intros j Hj. apply in_seq in Hj. destruct (eff_marked svs j) eqn:Ej; simpl; auto. apply H; auto. lia.
  Qed.

  (* The transfer lemma: if the choices of two lists of disjunctions correspond - every choice
     has a counterpart on the other side with the same value and at least its marks, along a
     bijection of the positions - the outcomes are equal. *)
  Lemma transfer plain ds ds' (pi : nat -> nat) :
    (forall i, i < length ds -> pi i < length ds') ->
    (forall j, j < length ds' -> exists i, i < length ds /\ pi i = j) ->
    (forall t, is_tuple t ds -> exists t', is_tuple t' ds' /\ tuple_val plain t' = tuple_val plain t /\
        forall i, i < length ds -> uses_marked i t = true -> uses_marked (pi i) t' = true) ->
    (forall t', is_tuple t' ds' -> exists t, is_tuple t ds /\ tuple_val plain t = tuple_val plain t' /\
        forall i, i < length ds -> uses_marked (pi i) t' = true -> uses_marked i t = true) ->
    same_outcome (pair_of plain ds) (pair_of plain ds').
  Proof.
    intros Hpi Hsurj Hf Hb.
    assert (F : forall t, In t (survivors plain ds) ->
               exists t', In t' (survivors plain ds') /\ tuple_val plain t' = tuple_val plain t /\
               forall i, i < length ds -> uses_marked i t = true -> uses_marked (pi i) t' = true).
    { intros t Ht. apply in_survivors in Ht as [Ht Hs]. destruct (Hf t Ht) as (t' & Ht' & Hv & Hm).
      exists t'. split; [|auto]. apply in_survivors. split; auto. rewrite (survives_val _ _ _ Hv). exact Hs. }
    assert (B : forall t', In t' (survivors plain ds') ->
               exists t, In t (survivors plain ds) /\ tuple_val plain t = tuple_val plain t' /\
               forall i, i < length ds -> uses_marked (pi i) t' = true -> uses_marked i t = true).
    { intros t' Ht'. apply in_survivors in Ht' as [Ht' Hs]. destruct (Hb t' Ht') as (t & Ht & Hv & Hm).
      exists t. split; [|auto]. apply in_survivors. split; auto. rewrite (survives_val _ _ _ Hv). exact Hs. }
    assert (E : forall i, i < length ds ->
               (eff_marked (survivors plain ds) i = true <-> eff_marked (survivors plain ds') (pi i) = true)).
    { intros i Hi. unfold eff_marked. rewrite !existsb_exists. split.
      - intros (t & Ht & Hm). destruct (F t Ht) as (t' & Ht' & _ & Hm'). exists t'. split; auto.
      - intros (t' & Ht' & Hm). destruct (B t' Ht') as (t & Ht & _ & Hm'). exists t. split; auto. }
    apply outcome_ext; intros x.
    - split.
      + intros (t & Ht & <-). destruct (F t Ht) as (t' & Ht' & Hv & _). exists t'. auto.
      + intros (t' & Ht' & <-). destruct (B t' Ht') as (t & Ht & Hv & _). exists t; auto.
    - split.
      + intros (t & Ht & Hd & <-). destruct (F t Ht) as (t' & Ht' & Hv & Hm). exists t'.
        split; [exact Ht'|]. split; [|exact Hv].
        apply is_default_iff in Hd as [(i & Hi & Ei) Hall]. apply is_default_iff. split.
        * exists (pi i). split; [apply Hpi; exact Hi | apply E; assumption].
        * intros j Hj Ej. destruct (Hsurj j Hj) as (i' & Hi' & <-). apply Hm; auto. apply Hall; auto. apply E; auto.
      + intros (t' & Ht' & Hd & <-). destruct (B t' Ht') as (t & Ht & Hv & Hm). exists t.
        split; [exact Ht|]. split; [|exact Hv].
        apply is_default_iff in Hd as [(j & Hj & Ej) Hall]. apply is_default_iff. split.
        * destruct (Hsurj j Hj) as (i & Hi & <-). exists i. split; auto. apply E; auto.
        * intros i Hi Ei. apply Hm; auto. apply Hall; [apply Hpi; auto | apply E; auto].
  Qed.

  (* ==== 1. the order of the operands of & ============================================ *)
  Lemma sw_val plain k t : tuple_val plain (sw k t) = tuple_val plain t.
  Proof.
    apply tuple_val_perm. apply perm_seq. apply Permutation_app_head. apply Permutation_map. apply sw_perm.
  Qed.

  Lemma uses_marked_sw k (t : list (bool * expr)) i :
    k + 2 <= length t -> uses_marked (swi k i) (sw k t) = uses_marked i t.
  Proof. intros H. unfold uses_marked. rewrite nth_error_sw by exact H. reflexivity. Qed.

  Theorem operand_swap plain l1 x y l2 :
    same_outcome (pair_of plain (l1 ++ y :: x :: l2)) (pair_of plain (l1 ++ x :: y :: l2)).
  Proof.
    assert (L : forall a b : disj, length (l1 ++ a :: b :: l2) = length l1 + 2 + length l2)
      by (intros; rewrite app_length; simpl; lia).
    apply (transfer plain _ _ (swi (length l1))).
    - intros i Hi. rewrite L in *. apply swi_lt; lia.
    - intros j Hj. exists (swi (length l1) j). rewrite L in *. split; [apply swi_lt; lia | apply swi_invol].
    - intros t Ht. exists (sw (length l1) t). split; [apply sw_forall2; exact Ht|]. split; [apply sw_val|].
      intros i Hi Hm. rewrite uses_marked_sw; auto. apply Forall2_len in Ht. rewrite Ht, L. lia.
    - intros t' Ht'. exists (sw (length l1) t'). split; [apply sw_forall2; exact Ht'|]. split; [apply sw_val|].
      intros i Hi Hm. rewrite <- (swi_invol (length l1) i). rewrite uses_marked_sw; auto.
      apply Forall2_len in Ht'. rewrite Ht', L. lia.
  Qed.

  Theorem operand_order_independent plain ds ds' :
    Permutation ds ds' -> same_outcome (pair_of plain ds) (pair_of plain ds').
  Proof.
    intros H. induction H using Permutation_ind_transp.
    - apply same_outcome_refl.
    - apply operand_swap.
    - eapply same_outcome_trans; eassumption.
  Qed.
  (* ==== 2. / 3. order and multiplicity of the disjuncts of a disjunction =============== *)
  Lemma is_tuple_seq t ds ds' :
    Forall2 (fun d d' : disj => forall c, In c d <-> In c d') ds ds' -> is_tuple t ds -> is_tuple t ds'.
  Proof.
    intros H. revert t. induction H as [|d d' r r' Hd Hr IH]; intros t Ht.
    - inversion Ht. constructor.
    - inversion Ht as [|c ? t0 ? Hc Ht0]; subst. constructor; [apply Hd; exact Hc | apply IH; exact Ht0].
  Qed.

  (* only the SET of disjuncts of every disjunction matters *)
  Theorem disjuncts_as_sets plain ds ds' :
    Forall2 (fun d d' : disj => forall c, In c d <-> In c d') ds ds' ->
    same_outcome (pair_of plain ds) (pair_of plain ds').
  Proof.
    intros H.
    assert (H' : Forall2 (fun d d' : disj => forall c, In c d <-> In c d') ds' ds).
    { clear -H. induction H as [|d d' r r' Hd Hr IH]; constructor; [intros c; symmetry; apply Hd | exact IH]. }
    pose proof (Forall2_len _ _ _ H) as L.
    apply (transfer plain ds ds' (fun i => i)).
    - intros i. rewrite L. auto.
    - intros j Hj. exists j. rewrite L. auto.
    - intros t Ht. exists t. split; [eapply is_tuple_seq; eauto|]. split; auto.
    - intros t Ht. exists t. split; [eapply is_tuple_seq; eauto|]. split; auto.
  Qed.

  Corollary disjunct_order_independent plain l1 d d' l2 :
    Permutation d d' ->
    same_outcome (pair_of plain (l1 ++ d :: l2)) (pair_of plain (l1 ++ d' :: l2)).
  Proof.
    intros H. apply disjuncts_as_sets. apply Forall2_app; [apply Forall2_same; intros d0 c0; tauto|].
    constructor; [|apply Forall2_same; intros d0 c0; tauto].
    intros c. split; apply Permutation_in; [exact H | apply Permutation_sym, H].
  Qed.

  Corollary duplicate_disjunct plain l1 d c l2 :
    In c d ->
    same_outcome (pair_of plain (l1 ++ (d ++ [c]) :: l2)) (pair_of plain (l1 ++ d :: l2)).
  Proof.
    intros H. apply disjuncts_as_sets. apply Forall2_app; [apply Forall2_same; intros d0 c0; tauto|].
    constructor; [|apply Forall2_same; intros d0 c0; tauto].
    intros c'. rewrite in_app_iff. simpl. split; [intros [?|[<-|[]]]; auto | auto].
  Qed.

  (* a copy of a disjunct carrying at most its mark (an unmarked copy of a marked disjunct,
     or an exact copy) changes nothing *)
  Theorem weaker_copy_irrelevant plain d r m m' e :
    In (m, e) d -> implb m' m = true ->
    same_outcome (pair_of plain ((d ++ [(m', e)]) :: r)) (pair_of plain (d :: r)).
  Proof.
    intros Hin Himp.
    apply (transfer plain _ _ (fun i => i)); cbn [length].
    - auto.
    - intros j Hj. exists j. auto.
    - intros t Ht. inversion Ht as [|c ? t0 ? Hc Ht0]; subst. apply in_app_iff in Hc as [Hc|[<-|[]]].
      + exists (c :: t0). split; [constructor; auto|]. split; auto.
      + exists ((m, e) :: t0). split; [constructor; auto|]. split; [reflexivity|].
        intros [|i] _; unfold uses_marked; simpl; auto. intros ->. destruct m; auto.
    - intros t Ht. inversion Ht as [|c ? t0 ? Hc Ht0]; subst. exists (c :: t0).
      split; [constructor; auto; apply in_or_app; auto|]. split; auto.
  Qed.

  (* ==== 4. no marks ===================================================================== *)
  Lemma tuple_member (t : list (bool * expr)) ds c :
    is_tuple t ds -> In c t -> exists d, In d ds /\ In c d.
  Proof.
    induction 1 as [|c0 d t0 r Hc Ht IH]; simpl; [tauto|].
    intros [<-|H]; [exists d; auto|]. destruct (IH H) as (d' & ? & ?). exists d'; auto.
  Qed.

  Lemma no_marks_uses ds t i :
    forallb (fun d => negb (has_marks d)) ds = true -> is_tuple t ds -> uses_marked i t = false.
  Proof.
    intros H Ht. unfold uses_marked. destruct (nth_error t i) as [[m e]|] eqn:E; auto.
    apply nth_error_In in E. destruct (tuple_member _ _ _ Ht E) as (d & Hd & Hc).
    rewrite forallb_forall in H. specialize (H d Hd). unfold has_marks in H. destruct m; auto.
    apply negb_true_iff in H.
    assert (X : existsb fst d = true) by (apply existsb_exists; exists (true, e); auto). congruence.
  Qed.

  Theorem no_marks_no_defaults plain ds :
    forallb (fun d => negb (has_marks d)) ds = true ->
    defaults (pair_of plain ds) = [] /\
    forall v, resolve (pair_of plain ds) = Chosen v <-> values (pair_of plain ds) = [v].
  Proof.
    intros H. assert (D : defaults (pair_of plain ds) = []).
    { unfold defaults. rewrite filter_none; [reflexivity|].
      intros vd Hvd. unfold Disj.pair_of in Hvd. apply in_map_iff in Hvd as (t & <- & Ht). cbn [snd].
      destruct (is_default _ _ t) eqn:Ed; auto. apply is_default_iff in Ed as [(i & Hi & Ei) _].
      unfold eff_marked in Ei. apply existsb_exists in Ei as (s & Hs & Hm). apply in_survivors in Hs as [Hs _].
      rewrite (no_marks_uses ds s i H Hs) in Hm. discriminate. }
    split; auto. intros v. apply resolve_no_defaults. exact D.
  Qed.

  (* ==== 5. no disjunctions ============================================================== *)
  Theorem no_disjunctions plain :
    let v := evalNode labs atoms fuel [mkConj false plain] in
    resolve (pair_of plain []) = (if res_err v then NoValue else Chosen v) /\
    forall i, accepts (pair_of plain []) i = res_accepts i v.
  Proof.
    intros v.
    assert (S : survivors plain [] = if res_err v then [] else [[]]).
    { unfold Disj.survivors, Disj.survives, Disj.tuple_val. cbn [tuples filter map]. rewrite app_nil_r.
      fold v. destruct (res_err v); reflexivity. }
    assert (V : tuple_val plain [] = v).
    { unfold Disj.tuple_val. cbn [map]. rewrite app_nil_r. reflexivity. }
    unfold Disj.pair_of. rewrite S. clearbody v. destruct (res_err v) eqn:E.
    - split; [reflexivity|]. intros i. symmetry. apply res_accepts_err, E.
    - cbn [map]. rewrite V. split.
      + unfold resolve, defaults, values, is_default. cbn. reflexivity.
      + intros i. unfold accepts. cbn [existsb fst]. apply orb_false_r.
  Qed.

  (* ==== 6. marks on every disjunct ====================================================== *)
  Definition unmark (d : disj) : disj := map (fun c => (false, snd c)) d.
  Definition um_head (t : list (bool * expr)) : list (bool * expr) :=
    match t with c :: t0 => (false, snd c) :: t0 | [] => [] end.

  Lemma um_head_tuple d r t :
    forallb fst d = true -> is_tuple t (d :: r) ->
    is_tuple (um_head t) (unmark d :: r) /\ uses_marked 0 t = true.
  Proof.
    intros Hd Ht. inversion Ht as [|c ? t0 ? Hc Ht0]; subst. split.
    - simpl. constructor; auto. unfold unmark. apply in_map_iff. exists c. auto.
    - unfold uses_marked. simpl. destruct c as [m e]. rewrite forallb_forall in Hd. apply (Hd (m, e) Hc).
  Qed.

  Lemma um_head_val plain t : tuple_val plain (um_head t) = tuple_val plain t.
  Proof. destruct t as [|[m e] t0]; reflexivity. Qed.

  Lemma um_head_marks t i : uses_marked (S i) (um_head t) = uses_marked (S i) t.
  Proof. destruct t; reflexivity. Qed.

  Lemma um_head_mark0 t : uses_marked 0 (um_head t) = false.
  Proof. destruct t; reflexivity. Qed.

  Lemma um_head_surj d r t' :
    is_tuple t' (unmark d :: r) -> exists t, is_tuple t (d :: r) /\ um_head t = t'.
  Proof.
    intros Ht. inversion Ht as [|c' ? t0 ? Hc Ht0]; subst. unfold unmark in Hc.
    apply in_map_iff in Hc as (c & <- & Hc).
    exists (c :: t0). split; [constructor; auto | reflexivity].
  Qed.

  (* rule M: a disjunction all of whose disjuncts are marked behaves as the unmarked one *)
  Theorem marks_on_every_disjunct plain d r :
    forallb fst d = true ->
    same_outcome (pair_of plain (d :: r)) (pair_of plain (unmark d :: r)).
  Proof.
    intros Hd.
    assert (S1 : forall t, In t (survivors plain (d :: r)) ->
                 In (um_head t) (survivors plain (unmark d :: r)) /\ uses_marked 0 t = true).
    { intros t Ht. apply in_survivors in Ht as [Ht Hs]. destruct (um_head_tuple d r t Hd Ht) as [A B].
      split; auto. apply in_survivors. split; auto.
      rewrite (survives_val plain t (um_head t)); auto. apply um_head_val. }
    assert (S2 : forall t', In t' (survivors plain (unmark d :: r)) ->
                 exists t, In t (survivors plain (d :: r)) /\ um_head t = t').
    { intros t' Ht'. apply in_survivors in Ht' as [Ht' Hs].
      destruct (um_head_surj d r t' Ht') as (t & Ht & <-).
      exists t. split; auto. apply in_survivors. split; auto.
      rewrite <- (survives_val plain t (um_head t)); auto. apply um_head_val. }
    assert (E1 : forall i, eff_marked (survivors plain (unmark d :: r)) (S i) = true <->
                           eff_marked (survivors plain (d :: r)) (S i) = true).
    { intros i. unfold eff_marked. rewrite !existsb_exists. split.
      - intros (t' & Ht' & Hm). destruct (S2 t' Ht') as (t & Ht & <-). exists t.
        rewrite um_head_marks in Hm. auto.
      - intros (t & Ht & Hm). exists (um_head t). rewrite um_head_marks. split; auto. apply S1; auto. }
    assert (E0 : eff_marked (survivors plain (unmark d :: r)) 0 = false).
    { unfold eff_marked. destruct (existsb _ _) eqn:X; auto. apply existsb_exists in X as (t' & Ht' & Hm).
      destruct (S2 t' Ht') as (t & _ & <-). rewrite um_head_mark0 in Hm. discriminate. }
    assert (HV : forall x, (exists t, In t (survivors plain (d :: r)) /\ tuple_val plain t = x) <->
                           (exists t, In t (survivors plain (unmark d :: r)) /\ tuple_val plain t = x)).
    { intros x. split.
      - intros (t & Ht & <-). exists (um_head t). split; [apply S1; auto | apply um_head_val].
      - intros (t' & Ht' & <-). destruct (S2 t' Ht') as (t & Ht & <-). exists t. split; auto.
        symmetry; apply um_head_val. }
    destruct (existsb (fun i => eff_marked (survivors plain (d :: r)) (S i)) (seq 0 (length r))) eqn:CA.
    - apply existsb_exists in CA as (i0 & Hi0 & Ei0). apply in_seq in Hi0.
      apply outcome_ext; [exact HV|]. intros x. cbn [length]. split.
      + intros (t & Ht & Hdf & <-). exists (um_head t). split; [apply S1; auto|]. split; [|apply um_head_val].
        apply is_default_iff in Hdf as [_ Hall]. apply is_default_iff. split.
        * exists (S i0). split; [unfold disj in *; lia | apply E1; exact Ei0].
        * intros [|j] Hj Ej; [congruence|]. rewrite um_head_marks. apply Hall; auto. apply E1; auto.
      + intros (t' & Ht' & Hdf & <-). destruct (S2 t' Ht') as (t & Ht & <-). exists t. split; auto.
        split; [|symmetry; apply um_head_val].
        apply is_default_iff in Hdf as [_ Hall]. apply is_default_iff. split.
        * exists (S i0). split; [unfold disj in *; lia | exact Ei0].
        * intros [|j] Hj Ej; [apply S1; auto|]. rewrite <- um_head_marks. apply Hall; auto. apply E1; auto.
    - assert (CB : forall i, i < length r -> eff_marked (survivors plain (d :: r)) (S i) = false).
      { intros i Hi. destruct (eff_marked (survivors plain (d :: r)) (S i)) eqn:X; auto.
        assert (Y : existsb (fun i => eff_marked (survivors plain (d :: r)) (S i)) (seq 0 (length r)) = true)
          by (apply existsb_exists; exists i; split; [apply in_seq; unfold disj in *; lia | exact X]). congruence. }
      split.
      + intros i. apply accepts_ext. intros x. rewrite !in_pair_values. apply HV.
      + apply resolve_flags_const.
        * intros vd Hvd. unfold Disj.pair_of in Hvd. apply in_map_iff in Hvd as (t & <- & Ht). cbn [snd length].
          apply is_default_iff. split.
          -- exists 0. split; [unfold disj in *; lia|]. unfold eff_marked. apply existsb_exists. exists t. split; auto. apply S1; auto.
          -- intros [|j] Hj Ej; [apply S1; auto|]. rewrite CB in Ej by (unfold disj in *; lia). discriminate.
        * intros vd Hvd. unfold Disj.pair_of in Hvd. apply in_map_iff in Hvd as (t' & <- & Ht'). cbn [snd length].
          destruct (is_default _ _ t') eqn:X; auto. apply is_default_iff in X as [(j & Hj & Ej) _].
          destruct j as [|j]; [congruence|]. apply E1 in Ej. rewrite CB in Ej by (unfold disj in *; lia). discriminate.
        * intros x. rewrite !in_pair_values. apply HV.
  Qed.

  Corollary marks_on_every_disjunct_at plain l1 d l2 :
    forallb fst d = true ->
    same_outcome (pair_of plain (l1 ++ d :: l2)) (pair_of plain (l1 ++ unmark d :: l2)).
  Proof.
    intros H. eapply same_outcome_trans; [apply operand_order_independent; symmetry; apply Permutation_middle|].
    eapply same_outcome_trans; [apply marks_on_every_disjunct; exact H|].
    apply operand_order_independent. apply Permutation_middle.
  Qed.

  Theorem all_marked_as_unmarked plain l2 : forall l1,
    Forall (fun d => forallb fst d = true) l2 ->
    same_outcome (pair_of plain (l1 ++ l2)) (pair_of plain (l1 ++ map unmark l2)).
  Proof.
    induction l2 as [|d l2 IH]; intros l1 H; simpl.
    - apply same_outcome_refl.
    - inversion H as [|? ? Hd Hr]; subst.
      eapply same_outcome_trans; [apply marks_on_every_disjunct_at; exact Hd|].
      specialize (IH (l1 ++ [unmark d]) Hr). rewrite <- !app_assoc in IH. exact IH.
  Qed.
  (* ==== the plain operands: only their set matters ======================================= *)
  Theorem plain_operands_as_set plain plain' ds :
    Laws.seq plain plain' -> pair_of plain ds = pair_of plain' ds.
  Proof.
    intros H.
    assert (V : forall t, tuple_val plain t = tuple_val plain' t).
    { intros t. apply tuple_val_perm. apply Laws.seq_app; [exact H | apply Laws.seq_refl]. }
    assert (S : survivors plain ds = survivors plain' ds).
    { unfold Disj.survivors. apply filter_ext. intros t. unfold Disj.survives. rewrite V. reflexivity. }
    unfold Disj.pair_of. rewrite S. apply map_ext. intros t. rewrite V. reflexivity.
  Qed.
  (* ==== an eliminated disjunct (one that fails with every choice of the others) ========== *)
  Theorem eliminated_disjunct_irrelevant plain d c r :
    (forall t, is_tuple t r -> survives plain (c :: t) = false) ->
    pair_of plain ((d ++ [c]) :: r) = pair_of plain (d :: r).
  Proof.
    intros H. unfold Disj.pair_of.
    assert (S : survivors plain ((d ++ [c]) :: r) = survivors plain (d :: r)).
    { unfold Disj.survivors. cbn [tuples]. rewrite flat_map_app, filter_app. cbn [flat_map]. rewrite app_nil_r.
      assert (Z : filter (survives plain) (map (cons c) (tuples r)) = []).
      { apply filter_none. intros t Ht. apply in_map_iff in Ht as (t0 & <- & Ht0). apply H. apply tuples_spec. exact Ht0. }
      rewrite Z, app_nil_r. reflexivity. }
    rewrite S. reflexivity.
  Qed.

  (* ==== marks never change the value (only the default) ================================= *)
  Lemma strip_tuple ds ds' :
    Forall2 (fun d d' : disj => map snd d = map snd d') ds ds' ->
    forall t, is_tuple t ds -> exists t', is_tuple t' ds' /\ map snd t' = map snd t.
  Proof.
    induction 1 as [|d d' r r' Hd Hr IH]; intros t Ht.
    - inversion Ht. exists []. split; [constructor | reflexivity].
    - inversion Ht as [|c ? t0 ? Hc Ht0]; subst. destruct (IH t0 Ht0) as (t0' & Ht0' & E).
      assert (X : In (snd c) (map snd d')) by (rewrite <- Hd; apply in_map; exact Hc).
      apply in_map_iff in X as (c' & Ec & Hc'). exists (c' :: t0'). split; [constructor; auto|].
      simpl. congruence.
  Qed.

  Theorem marks_never_change_the_value plain ds ds' :
    Forall2 (fun d d' : disj => map snd d = map snd d') ds ds' ->
    (forall i, accepts (pair_of plain ds) i = accepts (pair_of plain ds') i) /\
    Permutation (values (pair_of plain ds)) (values (pair_of plain ds')).
  Proof.
    intros H.
    assert (H' : Forall2 (fun d d' : disj => map snd d = map snd d') ds' ds).
    { clear -H. induction H; constructor; auto. }
    assert (G : forall a b, Forall2 (fun d d' : disj => map snd d = map snd d') a b ->
                forall x, In x (map fst (pair_of plain a)) -> In x (map fst (pair_of plain b))).
    { intros a b Hab x. rewrite !in_pair_values. intros (t & Ht & <-). apply in_survivors in Ht as [Ht Hs].
      destruct (strip_tuple a b Hab t Ht) as (t' & Ht' & E).
      assert (V : tuple_val plain t' = tuple_val plain t) by (unfold Disj.tuple_val; rewrite E; reflexivity).
      exists t'. split; [|exact V]. apply in_survivors. split; auto. rewrite (survives_val _ _ _ V). exact Hs. }
    assert (SQ : Laws.seq (map fst (pair_of plain ds)) (map fst (pair_of plain ds'))).
    { intros x. split; apply G; assumption. }
    split.
    - intros i. apply accepts_ext. exact SQ.
    - unfold values. apply dedup_seq_perm. exact SQ.
  Qed.

  (* ==== a plain operand is a one-disjunct disjunction ==================================== *)
  Lemma eff_marked_cons0 e svs : eff_marked (map (cons (false, e)) svs) 0 = false.
  Proof. unfold eff_marked. induction svs as [|s svs IH]; simpl; auto. Qed.

  Lemma eff_marked_consS (c : bool * expr) svs i : eff_marked (map (cons c) svs) (S i) = eff_marked svs i.
  Proof. unfold eff_marked. rewrite existsb_map_l. reflexivity. Qed.

  Lemma is_default_cons_unmarked n svs e t :
    is_default (S n) (map (cons (false, e)) svs) ((false, e) :: t) = is_default n svs t.
  Proof.
    unfold is_default. rewrite existsb_seq_S, forallb_seq_S, eff_marked_cons0. cbn [orb negb andb].
    f_equal.
    - apply existsb_ext. intros i. apply eff_marked_consS.
    - apply forallb_ext'. intros i. rewrite eff_marked_consS. reflexivity.
  Qed.

  Theorem singleton_disjunction_is_operand plain e r :
    pair_of plain ([(false, e)] :: r) = pair_of (plain ++ [e]) r.
  Proof.
    assert (V : forall t, tuple_val plain ((false, e) :: t) = tuple_val (plain ++ [e]) t).
    { intros t. unfold Disj.tuple_val. cbn [map snd]. rewrite <- app_assoc. reflexivity. }
    assert (S : survivors plain ([(false, e)] :: r) = map (cons (false, e)) (survivors (plain ++ [e]) r)).
    { unfold Disj.survivors. cbn [tuples flat_map]. rewrite app_nil_r, filter_map_comm. f_equal.
      apply filter_ext. intros t. unfold Disj.survives. rewrite V. reflexivity. }
    unfold Disj.pair_of. rewrite S, map_map. cbn [length]. apply map_ext. intros t.
    rewrite V, is_default_cons_unmarked. reflexivity.
  Qed.

  Corollary marked_singleton_is_operand plain e r :
    same_outcome (pair_of plain ([(true, e)] :: r)) (pair_of (plain ++ [e]) r).
  Proof.
    rewrite <- singleton_disjunction_is_operand. apply (marks_on_every_disjunct plain [(true, e)] r). reflexivity.
  Qed.
End DisjLaws2.

(* adding a MARKED copy of an unmarked disjunct does change the outcome: 1 | 2 is ambiguous,
   1 | 2 | *1 resolves to 1 *)
Theorem marked_copy_refuted :
  exists labs atoms fuel plain d r e,
    In (false, e) d /\
    resolve (pair_of labs atoms fuel plain ((d ++ [(true, e)]) :: r)) <>
    resolve (pair_of labs atoms fuel plain (d :: r)).
Proof.
  exists [LReg 0%N], [AInt 1%Z; AInt 2%Z], 5, [],
         [(false, EScalar (SAtom (AInt 1%Z))); (false, EScalar (SAtom (AInt 2%Z)))], [],
         (EScalar (SAtom (AInt 1%Z))).
  split; [left; reflexivity|]. vm_compute. discriminate.
Qed.
