(* The order-free value/default semantics of Core/Disj.v, stated once more over an ARBITRARY
   kind of disjunct [A] and value [V]: the value of a choice (one disjunct per disjunction,
   unified with the plain operands) is given by a function [tval]; everything else -
   survivors, effectively marked disjunctions, defaults, resolution, acceptance, the
   fold-sensitive class of known finding F2 - is defined from it exactly as in Core/Disj.v.
   Core/Nest.v instantiates it with struct-level disjuncts whose fields hold disjunctions. *)
From Coq Require Import List Bool Arith.
Import ListNotations.

Section DisjGen.
  Variables A V : Type.
  Variable veqb : V -> V -> bool.        (* decides equality of values *)
  Variable verr : V -> bool.             (* the value is an error (bottom) *)
  Variable vacc : nat -> V -> bool.      (* the value accepts the i-th probe *)
  Variable tval : list A -> V.           (* value of the conjunction of the chosen disjuncts *)

  Definition gdisj : Type := list (bool * A).

  Fixpoint gtuples (ds : list gdisj) : list (list (bool * A)) :=
    match ds with
    | [] => [[]]
    | d :: r => flat_map (fun c => map (cons c) (gtuples r)) d
    end.

  Definition gtv (t : list (bool * A)) : V := tval (map snd t).
  Definition gsurvives (t : list (bool * A)) : bool := negb (verr (gtv t)).
  Definition gsurvivors (ds : list gdisj) : list (list (bool * A)) := filter gsurvives (gtuples ds).

  Definition guses_marked (i : nat) (t : list (bool * A)) : bool :=
    match nth_error t i with Some (m, _) => m | None => false end.

  Definition geff_marked (svs : list (list (bool * A))) (i : nat) : bool :=
    existsb (guses_marked i) svs.

  Definition gis_default (n : nat) (svs : list (list (bool * A))) (t : list (bool * A)) : bool :=
    existsb (geff_marked svs) (seq 0 n) &&
    forallb (fun i => negb (geff_marked svs i) || guses_marked i t) (seq 0 n).

  Definition gpair_of (ds : list gdisj) : list (V * bool) :=
    let svs := gsurvivors ds in
    map (fun t => (gtv t, gis_default (length ds) svs t)) svs.

  Definition gmem (r : V) (l : list V) : bool := existsb (veqb r) l.

  Fixpoint gdedup (l : list V) : list V :=
    match l with
    | [] => []
    | r :: rest => if gmem r rest then gdedup rest else r :: gdedup rest
    end.

  Definition gvalues (p : list (V * bool)) : list V := gdedup (map fst p).
  Definition gdefaults (p : list (V * bool)) : list V := gdedup (map fst (filter snd p)).

  Inductive gresolution := GChosen (v : V) | GAmbiguous | GNoValue.

  Definition gresolve (p : list (V * bool)) : gresolution :=
    match gdefaults p with
    | [d] => GChosen d
    | _ :: _ :: _ => GAmbiguous
    | [] => match gvalues p with
            | [v] => GChosen v
            | [] => GNoValue
            | _ => GAmbiguous
            end
    end.

  Definition gaccepts (p : list (V * bool)) (i : nat) : bool :=
    existsb (fun vd => vacc i (fst vd)) p.

  Definition ghas_marks (d : gdisj) : bool := existsb fst d.

  Definition glate_elimination (ds : list gdisj) : bool :=
    let svs := gsurvivors ds in
    existsb (fun i => match nth_error ds i with
                      | Some d => ghas_marks d && negb (geff_marked svs i)
                      | None => false end) (seq 0 (length ds)).

  Definition gconflicting_defaults (ds : list gdisj) : bool :=
    let svs := gsurvivors ds in
    existsb (geff_marked svs) (seq 0 (length ds)) && negb (existsb (gis_default (length ds) svs) svs).

  Definition gfold_sensitive (ds : list gdisj) : bool :=
    glate_elimination ds || gconflicting_defaults ds.
End DisjGen.

Arguments GChosen {V}.
Arguments GAmbiguous {V}.
Arguments GNoValue {V}.
