(* Laws of NestCUE (Core/Nest.v): the C04 laws one level up - for disjunctions of structs whose
   fields hold disjunctions - and the C01 laws for the conjunction of terms. *)
From Verif Require Import Core.Syntax Core.Eval Core.Laws Core.Disj Core.DisjLaws Core.DisjLaws2
     Core.DisjGen Core.DisjGenLaws Core.Nest.
From Coq Require Import List Bool Arith Lia Permutation.
Import ListNotations.

(* ---- aval_eqb decides equality ------------------------------------------------------- *)
Lemma list_eqb_eq {A} (eqb : A -> A -> bool) :
  (forall a b, eqb a b = true <-> a = b) -> forall x y, list_eqb eqb x y = true <-> x = y.
Proof.
  intros H. induction x as [|a x IH]; intros [|b y]; simpl; split; try discriminate; auto.
  - intros E. apply andb_prop in E as [E1 E2]. apply H in E1. apply IH in E2. congruence.
  - intros [= -> ->]. apply andb_true_intro. split; [apply H; reflexivity | apply IH; reflexivity].
Qed.

Lemma resolution_eqb_eq a b : resolution_eqb a b = true <-> a = b.
Proof.
  destruct a, b; simpl; split; try discriminate; try reflexivity.
  - intros H. apply res_eqb_eq in H. congruence.
  - intros [= ->]. apply res_eqb_eq. reflexivity.
Qed.

Lemma fout_eqb_eq a b : fout_eqb a b = true <-> a = b.
Proof.
  destruct a as [p [r l]], b as [q [s m]]. unfold fout_eqb. cbn [fst snd]. split.
  - intros H. apply andb_prop in H as [H H3]. apply andb_prop in H as [H1 H2].
    apply eqb_prop in H1. apply resolution_eqb_eq in H2. apply list_eqb_bool_eq in H3. congruence.
  - intros [= -> -> ->]. rewrite eqb_reflx, (proj2 (resolution_eqb_eq s s) eq_refl),
      (proj2 (list_eqb_bool_eq m m) eq_refl). reflexivity.
Qed.

Lemma aval_eqb_eq a b : aval_eqb a b = true <-> a = b.
Proof.
  destruct a, b; simpl; split; try discriminate; try reflexivity.
  - intros H. apply res_eqb_eq in H. congruence.
  - intros [= ->]. apply res_eqb_eq. reflexivity.
  - intros H. apply (list_eqb_eq fout_eqb fout_eqb_eq) in H. congruence.
  - intros [= ->]. apply (list_eqb_eq fout_eqb fout_eqb_eq). reflexivity.
Qed.

Lemma Permutation_concat {A} (t t' : list (list A)) : Permutation t t' -> Permutation (concat t) (concat t').
Proof.
  induction 1; simpl; auto.
  - apply Permutation_app_head. assumption.
  - rewrite !app_assoc. apply Permutation_app_tail. apply Permutation_app_comm.
  - eapply Permutation_trans; eassumption.
Qed.

Lemma perm_null {A} (l l' : list A) : Permutation l l' -> null l = null l'.
Proof. intros H. apply Permutation_length in H. destruct l, l'; simpl in *; auto; discriminate. Qed.

Section NestLaws.
  Variable labs : list label.
  Variable atoms : list atom.
  Variable fuel : nat.

  Notation alt_val := (alt_val labs atoms fuel).
  Notation field_out := (field_out labs atoms fuel).
  Notation field_row := (field_row labs atoms fuel).
  Notation nest_tval := (nest_tval labs atoms fuel).
  Notation nest_pair := (nest_pair labs atoms fuel).
  Notation pair_of := (pair_of labs atoms fuel).

  Definition nest_same_outcome (p p' : list (aval * bool)) : Prop :=
    (forall i, nest_accepts p i = nest_accepts p' i) /\ nest_resolve p = nest_resolve p'.

  (* ==== C01: the value of a conjunction of terms does not depend on their order ========== *)
  Lemma lits_perm ts ts' : Permutation ts ts' -> Permutation (lits ts) (lits ts').
  Proof. apply Permutation_flat_map. Qed.

  Lemma scals_perm ts ts' : Permutation ts ts' -> Permutation (scals ts) (scals ts').
  Proof. apply Permutation_flat_map. Qed.

  Lemma field_vals_perm ts ts' l : Permutation ts ts' -> Permutation (field_vals ts l) (field_vals ts' l).
  Proof. intros H. unfold field_vals. apply Permutation_flat_map. apply lits_perm. exact H. Qed.

  (* the outcome of a field depends only on the SET of plain operands and the multiset of disjunctions *)
  Lemma field_out_ext pl pl' ds ds' :
    Laws.seq pl pl' -> Permutation ds ds' ->
    (let p := pair_of pl ds in (resolve p, map (accepts p) (seq 0 (length atoms)))) =
    (let p := pair_of pl' ds' in (resolve p, map (accepts p) (seq 0 (length atoms)))).
  Proof.
    intros Hp Hd. cbv zeta.
    rewrite (plain_operands_as_set labs atoms fuel pl pl' ds Hp).
    destruct (operand_order_independent labs atoms fuel pl' ds ds' Hd) as [HA HR].
    rewrite HR. f_equal. apply map_ext. intros i. apply HA.
  Qed.

  Lemma field_row_perm ts ts' l : Permutation ts ts' -> field_row ts l = field_row ts' l.
  Proof.
    intros H. pose proof (field_vals_perm ts ts' l H) as HF. unfold Nest.field_row, Nest.field_out. f_equal.
    - f_equal. apply perm_null. exact HF.
    - apply field_out_ext.
      + apply perm_seq. unfold f_plain. apply Permutation_flat_map. exact HF.
      + unfold f_disjs. apply Permutation_flat_map. exact HF.
  Qed.

  Theorem alt_val_perm ts ts' : Permutation ts ts' -> alt_val ts = alt_val ts'.
  Proof.
    intros H. unfold Nest.alt_val.
    pose proof (lits_perm _ _ H) as HL. pose proof (scals_perm _ _ H) as HS.
    assert (E : evalNode labs atoms fuel [mkConj false (scals ts)] = evalNode labs atoms fuel [mkConj false (scals ts')])
      by (apply eval_group_perm; apply perm_seq; exact HS).
    assert (R : map (field_row ts) labs = map (field_row ts') labs)
      by (apply map_ext; intros l; apply field_row_perm; exact H).
    destruct (lits ts) as [|a la] eqn:E1, (lits ts') as [|b lb] eqn:E2.
    - rewrite E. reflexivity.
    - apply Permutation_length in HL. discriminate.
    - apply Permutation_length in HL. discriminate.
    - rewrite (perm_null _ _ HS), R. reflexivity.
  Qed.

  Lemma nest_tval_perm plain t t' : Permutation t t' -> nest_tval plain t = nest_tval plain t'.
  Proof. intros H. unfold Nest.nest_tval. apply alt_val_perm. apply Permutation_app_head. apply Permutation_concat. exact H. Qed.

  (* the plain terms of a node: only their multiset matters *)
  Theorem nest_plain_perm plain plain' ds : Permutation plain plain' -> nest_pair plain ds = nest_pair plain' ds.
  Proof.
    intros H. unfold Nest.nest_pair. apply g_pair_ext. intros t. unfold Nest.nest_tval.
    apply alt_val_perm. apply Permutation_app_tail. exact H.
  Qed.

  (* a literal may be split into two literals (and merged back): {fs1, fs2} = {fs1} & {fs2} *)
  Theorem alt_val_split_literal fs1 fs2 ts : alt_val (TLit (fs1 ++ fs2) :: ts) = alt_val (TLit fs1 :: TLit fs2 :: ts).
  Proof.
    unfold Nest.alt_val. cbn [lits scals flat_map app].
    assert (F : forall l, field_vals (TLit (fs1 ++ fs2) :: ts) l = field_vals (TLit fs1 :: TLit fs2 :: ts) l).
    { intros l. unfold field_vals. cbn [lits flat_map app]. rewrite flat_map_app, app_assoc. reflexivity. }
    assert (R : map (field_row (TLit (fs1 ++ fs2) :: ts)) labs = map (field_row (TLit fs1 :: TLit fs2 :: ts)) labs).
    { apply map_ext. intros l. unfold Nest.field_row, Nest.field_out, f_plain, f_disjs. rewrite F. reflexivity. }
    rewrite R. reflexivity.
  Qed.

  (* ==== value/default pairs propagate through fields ====================================== *)
  Theorem struct_alternative_fields ts fs :
    alt_val ts = AStruct fs ->
    fs = map (fun l => (negb (null (field_vals ts l)),
                        (resolve (pair_of (f_plain ts l) (f_disjs ts l)),
                         map (accepts (pair_of (f_plain ts l) (f_disjs ts l))) (seq 0 (length atoms))))) labs /\
    (forall l, In l labs -> null (field_vals ts l) = false ->
               resolve (pair_of (f_plain ts l) (f_disjs ts l)) <> NoValue).
  Proof.
    unfold Nest.alt_val. destruct (lits ts) as [|a la].
    - destruct (res_err _); discriminate.
    - destruct (negb (null (scals ts))); [discriminate|].
      destruct (existsb row_failed (map (field_row ts) labs)) eqn:E; [discriminate|].
      intros [= <-]. split; [reflexivity|].
      intros l Hl Hn Hr.
      assert (X : existsb row_failed (map (field_row ts) labs) = true).
      { apply existsb_exists. exists (field_row ts l). split; [apply in_map; exact Hl|].
        unfold row_failed, Nest.field_row, Nest.field_out. cbn [fst snd]. rewrite Hn, Hr. reflexivity. }
      congruence.
  Qed.

  (* a field left without any value fails the struct (failed disjuncts vanish THROUGH fields) *)
  Theorem failed_field_fails_struct ts l :
    lits ts <> [] -> In l labs -> null (field_vals ts l) = false ->
    resolve (pair_of (f_plain ts l) (f_disjs ts l)) = NoValue -> alt_val ts = AErr.
  Proof.
    intros HL Hl Hn Hr. unfold Nest.alt_val. destruct (lits ts) as [|a la]; [congruence|].
    destruct (negb (null (scals ts))); [reflexivity|].
    assert (X : existsb row_failed (map (field_row ts) labs) = true).
    { apply existsb_exists. exists (field_row ts l). split; [apply in_map; exact Hl|].
      unfold row_failed, Nest.field_row, Nest.field_out. cbn [fst snd]. rewrite Hn, Hr. reflexivity. }
    rewrite X. reflexivity.
  Qed.

  (* ==== C04, one level up ================================================================== *)
  Notation GL := (fun plain => nest_tval_perm plain).

  Theorem nest_operand_order_independent plain ds ds' :
    Permutation ds ds' -> nest_same_outcome (nest_pair plain ds) (nest_pair plain ds').
  Proof.
    intros H. apply (g_operand_order_independent sdisjunct aval aval_eqb aval_eqb_eq aval_err aval_acc
                       (nest_tval plain) (nest_tval_perm plain) ds ds' H).
  Qed.

  Theorem nest_disjuncts_as_sets plain ds ds' :
    Forall2 (fun d d' : sdisj => forall c, In c d <-> In c d') ds ds' ->
    nest_same_outcome (nest_pair plain ds) (nest_pair plain ds').
  Proof.
    intros H. apply (g_disjuncts_as_sets sdisjunct aval aval_eqb aval_eqb_eq aval_err aval_acc
                       (nest_tval plain) ds ds' H).
  Qed.

  Theorem nest_disjunct_order_independent plain l1 d d' l2 :
    Permutation d d' -> nest_same_outcome (nest_pair plain (l1 ++ d :: l2)) (nest_pair plain (l1 ++ d' :: l2)).
  Proof.
    intros H. apply (g_disjunct_order_independent sdisjunct aval aval_eqb aval_eqb_eq aval_err aval_acc
                       (nest_tval plain) l1 d d' l2 H).
  Qed.

  Theorem nest_duplicate_disjunct plain l1 d c l2 :
    In c d -> nest_same_outcome (nest_pair plain (l1 ++ (d ++ [c]) :: l2)) (nest_pair plain (l1 ++ d :: l2)).
  Proof.
    intros H. apply (g_duplicate_disjunct sdisjunct aval aval_eqb aval_eqb_eq aval_err aval_acc
                       (nest_tval plain) l1 d c l2 H).
  Qed.

  Theorem nest_weaker_copy_irrelevant plain d r m m' e :
    In (m, e) d -> implb m' m = true ->
    nest_same_outcome (nest_pair plain ((d ++ [(m', e)]) :: r)) (nest_pair plain (d :: r)).
  Proof.
    intros H1 H2. apply (g_weaker_copy_irrelevant sdisjunct aval aval_eqb aval_eqb_eq aval_err aval_acc
                           (nest_tval plain) d r m m' e H1 H2).
  Qed.

  Theorem nest_resolve_never_silent (p : list (aval * bool)) v :
    nest_resolve p = GChosen v ->
    gdefaults aval aval_eqb p = [v] \/ (gdefaults aval aval_eqb p = [] /\ gvalues aval aval_eqb p = [v]).
  Proof. apply g_resolve_never_silent. Qed.

  Theorem nest_chosen_is_survivor plain ds v :
    nest_resolve (nest_pair plain ds) = GChosen v ->
    exists t, g_is_tuple sdisjunct t ds /\ aval_err (nest_tval plain (map snd t)) = false /\
              nest_tval plain (map snd t) = v.
  Proof.
    intros H. destruct (g_chosen_is_survivor sdisjunct aval aval_eqb aval_eqb_eq aval_err (nest_tval plain) ds v H)
      as (t & Ht & Hs & Hv).
    exists t. split; [exact Ht|]. split; [|exact Hv].
    unfold gsurvives, gtv in Hs. apply negb_true_iff in Hs. exact Hs.
  Qed.

  (* a disjunct that contains bottom never survives, and adding it changes nothing at all *)
  Lemma bot_term_fails ts : fuel <> 0 -> In TBot ts -> alt_val ts = AErr.
  Proof.
    intros Hf Hin. unfold Nest.alt_val.
    assert (HB : In EBot (scals ts)).
    { unfold scals. apply in_flat_map. exists TBot. split; [exact Hin | left; reflexivity]. }
    destruct (lits ts) as [|a la].
    - pose proof (bottom_disjunct_fails labs atoms fuel [] (map (fun e => (false, e)) (scals ts)) false Hf) as X.
      unfold Disj.survives, Disj.tuple_val in X. cbn [app] in X. rewrite map_map in X. cbn [snd] in X. rewrite map_id in X.
      rewrite negb_false_iff in X. cbv zeta. rewrite X; [reflexivity|].
      apply in_map_iff. exists EBot. auto.
    - destruct (scals ts); [destruct HB | reflexivity].
  Qed.

  Theorem nest_failed_disjunct_irrelevant plain d r m c :
    fuel <> 0 -> In TBot c -> nest_pair plain ((d ++ [(m, c)]) :: r) = nest_pair plain (d :: r).
  Proof.
    intros Hf Hc. apply g_eliminated_disjunct_irrelevant.
    intros t _. unfold gsurvives, gtv, Nest.nest_tval. cbn [map snd concat].
    rewrite bot_term_fails; [reflexivity | exact Hf |].
    apply in_or_app. right. apply in_or_app. left. exact Hc.
  Qed.

  (* a disjunct one of whose fields is left without a value by the plain terms vanishes as well *)
  Theorem nest_eliminated_disjunct_irrelevant plain d r c :
    (forall t, g_is_tuple sdisjunct t r -> nest_tval plain (map snd (c :: t)) = AErr) ->
    nest_pair plain ((d ++ [c]) :: r) = nest_pair plain (d :: r).
  Proof.
    intros H. apply g_eliminated_disjunct_irrelevant. intros t Ht. unfold gsurvives, gtv. rewrite (H t Ht). reflexivity.
  Qed.

  (* acceptance of a probe atom is the union over the choices *)
  Theorem nest_accept_is_union plain ds i :
    nest_accepts (nest_pair plain ds) i =
    existsb (fun t => aval_acc i (nest_tval plain (map snd t))) (gtuples sdisjunct ds).
  Proof.
    apply (g_accept_is_union sdisjunct aval aval_err aval_acc (nest_tval plain) ds i).
    intros v Hv. destruct v; simpl in *; try reflexivity; discriminate.
  Qed.
End NestLaws.
