(* C01 for CoreCUE: the value of a node depends only on the SET of what its
   conjunct groups contribute - not on order, grouping of open groups, repetition,
   nesting of &, [& _], or the order of declarations in a struct literal. *)
From Verif Require Import Core.Syntax Core.Eval.
From Coq Require Import List Bool Permutation.
Import ListNotations.

(* ---- lists as sets ---------------------------------------------------------- *)
Definition seq {A} (l l' : list A) : Prop := forall x, In x l <-> In x l'.

Lemma seq_refl {A} (l : list A) : seq l l.
Proof. intros x; tauto. Qed.

Lemma seq_sym {A} (l l' : list A) : seq l l' -> seq l' l.
Proof. intros H x; specialize (H x); tauto. Qed.

Lemma seq_trans {A} (l1 l2 l3 : list A) : seq l1 l2 -> seq l2 l3 -> seq l1 l3.
Proof. intros H1 H2 x; specialize (H1 x); specialize (H2 x); tauto. Qed.

Lemma seq_app {A} (a a' b b' : list A) : seq a a' -> seq b b' -> seq (a ++ b) (a' ++ b').
Proof. intros H1 H2 x. rewrite !in_app_iff, (H1 x), (H2 x). tauto. Qed.

Lemma seq_app_comm {A} (a b : list A) : seq (a ++ b) (b ++ a).
Proof. intros x. rewrite !in_app_iff. tauto. Qed.

Lemma seq_app_idem {A} (a : list A) : seq (a ++ a) a.
Proof. intros x. rewrite in_app_iff. tauto. Qed.

Lemma seq_flat_map {A B} (f : A -> list B) l l' : seq l l' -> seq (flat_map f l) (flat_map f l').
Proof.
  intros H y. rewrite !in_flat_map. split; intros (x & Hx & Hy); exists x; split; auto; apply H; auto.
Qed.

Lemma seq_flat_map_ext {A B} (f g : A -> list B) l :
  (forall x, In x l -> seq (f x) (g x)) -> seq (flat_map f l) (flat_map g l).
Proof.
  intros H y. rewrite !in_flat_map. split; intros (x & Hx & Hy); exists x; split; auto; apply (H x Hx); auto.
Qed.

Lemma perm_seq {A} (l l' : list A) : Permutation l l' -> seq l l'.
Proof. intros H x. split; apply Permutation_in; [exact H | apply Permutation_sym, H]. Qed.

Lemma bool_eq_iff (a b : bool) : (a = true <-> b = true) -> a = b.
Proof.
  destruct a, b; intros [H1 H2]; auto; try (symmetry; auto; fail).
Qed.

Lemma existsb_seq {A} (f : A -> bool) l l' : seq l l' -> existsb f l = existsb f l'.
Proof.
  intros H. apply bool_eq_iff. rewrite !existsb_exists.
  split; intros (x & Hx & Hf); exists x; split; auto; apply H; auto.
Qed.

Lemma forallb_seq {A} (f : A -> bool) l l' : seq l l' -> forallb f l = forallb f l'.
Proof.
  intros H. apply bool_eq_iff. rewrite !forallb_forall.
  split; intros Hf x Hx; apply Hf, H, Hx.
Qed.

Lemma existsb_ext {A} (f g : A -> bool) l : (forall x, f x = g x) -> existsb f l = existsb g l.
Proof. intros H. induction l as [|a l IH]; simpl; auto. rewrite H, IH. reflexivity. Qed.

Lemma null_seq {A} (l l' : list A) : seq l l' -> null l = null l'.
Proof.
  intros H. destruct l as [|a l], l' as [|b l']; simpl; auto.
  - destruct (proj2 (H b)); simpl; auto.
  - destruct (proj1 (H a)); simpl; auto.
Qed.

Lemma existsb_flat_map {A B} (f : B -> bool) (g : A -> list B) l :
  existsb f (flat_map g l) = existsb (fun x => existsb f (g x)) l.
Proof. induction l as [|a l IH]; simpl; auto. rewrite existsb_app, IH. reflexivity. Qed.

Lemma forallb_flat_map {A B} (f : B -> bool) (g : A -> list B) l :
  forallb f (flat_map g l) = forallb (fun x => forallb f (g x)) l.
Proof. induction l as [|a l IH]; simpl; auto. rewrite forallb_app, IH. reflexivity. Qed.

Lemma map_ext_seq_eq {A B} (f g : A -> B) l : (forall x, In x l -> f x = g x) -> map f l = map g l.
Proof. intros H. apply map_ext_in. exact H. Qed.

(* ---- allow-sets --------------------------------------------------------------- *)
Lemma allows_union a b l : allows (al_union a b) l = allows a l || allows b l.
Proof.
  unfold allows, al_union; simpl. rewrite !existsb_app.
  destruct (al_open a), (al_open b), (existsb (label_eqb l) (al_labels a)),
    (existsb (label_eqb l) (al_labels b)); simpl; auto;
    destruct l; simpl; rewrite ?existsb_app; auto;
    destruct (existsb (memN s) (al_pats a)); simpl; auto.
Qed.

Lemma allows_empty l : allows al_empty l = false.
Proof. unfold allows, al_empty; simpl. destruct l; reflexivity. Qed.

Lemma allows_all_declared es l :
  allows (all_declared es) l = existsb (fun e => allows (declared e) l) es.
Proof.
  induction es as [|e es IH]; simpl; [apply allows_empty|]. rewrite allows_union, IH. reflexivity.
Qed.

(* two closer lists are equivalent when they allow the same labels *)
Definition closers_eq (c c' : list allowset) : Prop := forall l, allowed c l = allowed c' l.

Lemma allowed_app c1 c2 l :
  allowed (c1 ++ c2) l = is_special l || (forallb (fun a => allows a l) c1 && forallb (fun a => allows a l) c2).
Proof. unfold allowed. rewrite forallb_app. reflexivity. Qed.

Lemma closers_eq_app c1 c1' c2 c2' :
  closers_eq c1 c1' -> closers_eq c2 c2' -> closers_eq (c1 ++ c2) (c1' ++ c2').
Proof.
  intros H1 H2 l. specialize (H1 l). specialize (H2 l). rewrite !allowed_app.
  unfold allowed in H1, H2. destruct (is_special l); simpl in *; auto. rewrite H1, H2. reflexivity.
Qed.

Lemma closers_eq_seq c c' : seq c c' -> closers_eq c c'.
Proof. intros H l. unfold allowed. rewrite (forallb_seq _ _ _ H). reflexivity. Qed.

(* ---- characterisation of the folds ------------------------------------------- *)
Lemma flat_exprs_cons r e es :
  flat_exprs r (e :: es) = flat_app (flatten r al_empty e) (flat_exprs r es).
Proof. reflexivity. Qed.

Lemma flat_exprs_app r es1 es2 :
  let a := flat_exprs r es1 in let b := flat_exprs r es2 in let c := flat_exprs r (es1 ++ es2) in
  f_bot c = f_bot a || f_bot b /\ f_struct c = f_struct a || f_struct b /\
  f_scal c = f_scal a ++ f_scal b /\ f_own c = f_own a ++ f_own b /\ f_ownp c = f_ownp a ++ f_ownp b /\
  f_subs c = f_subs a ++ f_subs b /\ f_closers c = f_closers a ++ f_closers b.
Proof.
  induction es1 as [|e es1 IH]; simpl.
  - repeat split; reflexivity.
  - destruct IH as (H1 & H2 & H3 & H4 & H5 & H6 & H7). simpl in *.
    rewrite H1, H2, H3, H4, H5, H6, H7, !orb_assoc, !app_assoc. repeat split; reflexivity.
Qed.

Section Components.
  Variable r : bool.

  Lemma fe_bot es : f_bot (flat_exprs r es) = existsb (fun e => f_bot (flatten r al_empty e)) es.
  Proof. induction es as [|e es IH]; simpl; auto. rewrite IH. reflexivity. Qed.

  Lemma fe_struct es : f_struct (flat_exprs r es) = existsb (fun e => f_struct (flatten r al_empty e)) es.
  Proof. induction es as [|e es IH]; simpl; auto. rewrite IH. reflexivity. Qed.

  Lemma fe_scal es : f_scal (flat_exprs r es) = flat_map (fun e => f_scal (flatten r al_empty e)) es.
  Proof. induction es as [|e es IH]; simpl; auto. rewrite IH. reflexivity. Qed.

  Lemma fe_own es : f_own (flat_exprs r es) = flat_map (fun e => f_own (flatten r al_empty e)) es.
  Proof. induction es as [|e es IH]; simpl; auto. rewrite IH. reflexivity. Qed.

  Lemma fe_ownp es : f_ownp (flat_exprs r es) = flat_map (fun e => f_ownp (flatten r al_empty e)) es.
  Proof. induction es as [|e es IH]; simpl; auto. rewrite IH. reflexivity. Qed.

  Lemma fe_subs es : f_subs (flat_exprs r es) = flat_map (fun e => f_subs (flatten r al_empty e)) es.
  Proof. induction es as [|e es IH]; simpl; auto. rewrite IH. reflexivity. Qed.

  Lemma fe_closers es : f_closers (flat_exprs r es) = flat_map (fun e => f_closers (flatten r al_empty e)) es.
  Proof. induction es as [|e es IH]; simpl; auto. rewrite IH. reflexivity. Qed.
End Components.

Lemma fa_bot cs : n_bot (flat_all cs) = existsb (fun c => n_bot (flat_conj c)) cs.
Proof. induction cs as [|c cs IH]; simpl; auto. rewrite IH. reflexivity. Qed.

Lemma fa_struct cs : n_struct (flat_all cs) = existsb (fun c => n_struct (flat_conj c)) cs.
Proof. induction cs as [|c cs IH]; simpl; auto. rewrite IH. reflexivity. Qed.

Lemma fa_scal cs : n_scal (flat_all cs) = flat_map (fun c => n_scal (flat_conj c)) cs.
Proof. induction cs as [|c cs IH]; simpl; auto. rewrite IH. reflexivity. Qed.

Lemma fa_parts cs : n_parts (flat_all cs) = flat_map (fun c => n_parts (flat_conj c)) cs.
Proof. induction cs as [|c cs IH]; simpl; auto. rewrite IH. reflexivity. Qed.

Lemma fa_closers cs : n_closers (flat_all cs) = flat_map (fun c => n_closers (flat_conj c)) cs.
Proof. induction cs as [|c cs IH]; simpl; auto. rewrite IH. reflexivity. Qed.

(* ---- equivalence of flattened nodes ----------------------------------------- *)
Definition peq (p p' : gpart) : Prop :=
  gp_rec p = gp_rec p' /\ seq (gp_fields p) (gp_fields p') /\ seq (gp_pats p) (gp_pats p').

Definition pseq (ps ps' : list gpart) : Prop :=
  (forall p, In p ps -> exists p', In p' ps' /\ peq p p') /\
  (forall p', In p' ps' -> exists p, In p ps /\ peq p p').

Definition open_parts (fl : nflat) : list gpart := filter (fun p => negb (gp_rec p)) (n_parts fl).
Definition rec_parts (fl : nflat) : list gpart := filter gp_rec (n_parts fl).
Definition ofields (fl : nflat) := flat_map gp_fields (open_parts fl).
Definition opats (fl : nflat) := flat_map gp_pats (open_parts fl).

Record neq (fl fl' : nflat) : Prop := {
  q_bot : n_bot fl = n_bot fl';
  q_struct : n_struct fl = n_struct fl';
  q_scal : seq (n_scal fl) (n_scal fl');
  q_closers : closers_eq (n_closers fl) (n_closers fl');
  q_of : seq (ofields fl) (ofields fl');
  q_op : seq (opats fl) (opats fl');
  q_rec : pseq (rec_parts fl) (rec_parts fl') }.

Lemma peq_refl p : peq p p.
Proof. repeat split; auto. Qed.

Lemma pseq_refl ps : pseq ps ps.
Proof. split; intros p Hp; exists p; split; auto; apply peq_refl. Qed.

Lemma peq_sym p p' : peq p p' -> peq p' p.
Proof. intros (A & B & C). split; [auto|split; [apply seq_sym, B | apply seq_sym, C]]. Qed.

Lemma neq_refl fl : neq fl fl.
Proof. constructor; auto using seq_refl, pseq_refl. intros l; reflexivity. Qed.

Lemma neq_sym fl fl' : neq fl fl' -> neq fl' fl.
Proof.
  intros [A B C D E F [G1 G2]]. constructor.
  - auto. - auto. - apply seq_sym, C.
  - intros l. symmetry. apply D.
  - apply seq_sym, E. - apply seq_sym, F.
  - split.
    + intros p Hp. destruct (G2 p Hp) as (p0 & H0 & E0). exists p0. split; auto using peq_sym.
    + intros p Hp. destruct (G1 p Hp) as (p0 & H0 & E0). exists p0. split; auto using peq_sym.
Qed.

(* conjunct groups *)
Definition ceq (c c' : conj) : Prop := c_rec c = c_rec c' /\ seq (c_exprs c) (c_exprs c').

Definition ceqs (cs cs' : list conj) : Prop :=
  (forall c, In c cs -> exists c', In c' cs' /\ ceq c c') /\
  (forall c', In c' cs' -> exists c, In c cs /\ ceq c c').

Lemma ceq_refl c : ceq c c.
Proof. split; auto using seq_refl. Qed.

(* ---- membership in the parts of a node ---------------------------------------- *)
Lemma part_values_in p l v :
  In v (part_values p l) <->
  (exists f, In f (gp_fields p) /\ label_eqb (fst (fst f)) l = true /\ snd f = v) \/
  (exists q, In q (gp_pats p) /\ pat_matches (fst q) l = true /\ snd q = v).
Proof.
  unfold part_values. rewrite in_app_iff, !in_flat_map. split.
  - intros [(f & Hf & Hv)|(q & Hq & Hv)].
    + left. exists f. destruct (label_eqb (fst (fst f)) l); simpl in Hv; [|tauto].
      destruct Hv as [<-|[]]. auto.
    + right. exists q. destruct (pat_matches (fst q) l); simpl in Hv; [|tauto].
      destruct Hv as [<-|[]]. auto.
  - intros [(f & Hf & Hl & <-)|(q & Hq & Hl & <-)].
    + left. exists f. rewrite Hl. simpl; auto.
    + right. exists q. rewrite Hl. simpl; auto.
Qed.

Lemma part_values_peq p p' l : peq p p' -> seq (part_values p l) (part_values p' l).
Proof.
  intros (_ & Hf & Hp) v. rewrite !part_values_in. split.
  - intros [(f & H1 & H2)|(q & H1 & H2)]; [left; exists f | right; exists q]; split; auto; [apply Hf | apply Hp]; auto.
  - intros [(f & H1 & H2)|(q & H1 & H2)]; [left; exists f | right; exists q]; split; auto; [apply Hf | apply Hp]; auto.
Qed.

Lemma open_values_parts fl l :
  open_values fl l = flat_map (fun p => part_values p l) (open_parts fl).
Proof.
  unfold open_values, open_parts. induction (n_parts fl) as [|p ps IH]; simpl; auto.
  destruct (gp_rec p); simpl; rewrite IH; reflexivity.
Qed.

Lemma open_values_in fl l v :
  In v (open_values fl l) <->
  (exists f, In f (ofields fl) /\ label_eqb (fst (fst f)) l = true /\ snd f = v) \/
  (exists q, In q (opats fl) /\ pat_matches (fst q) l = true /\ snd q = v).
Proof.
  rewrite open_values_parts, in_flat_map. unfold ofields, opats. split.
  - intros (p & Hp & Hv). apply part_values_in in Hv as [(f & H1 & H2)|(q & H1 & H2)].
    + left. exists f. split; auto. apply in_flat_map. eauto.
    + right. exists q. split; auto. apply in_flat_map. eauto.
  - intros [(f & H1 & H2)|(q & H1 & H2)]; apply in_flat_map in H1 as (p & Hp & Hin); exists p; split; auto;
      apply part_values_in; [left; exists f | right; exists q]; auto.
Qed.

Lemma open_values_neq fl fl' l : neq fl fl' -> seq (open_values fl l) (open_values fl' l).
Proof.
  intros Q v. rewrite !open_values_in. split.
  - intros [(f & H1 & H2)|(q & H1 & H2)]; [left; exists f | right; exists q]; split; auto;
      [apply (q_of _ _ Q) | apply (q_op _ _ Q)]; auto.
  - intros [(f & H1 & H2)|(q & H1 & H2)]; [left; exists f | right; exists q]; split; auto;
      [apply (q_of _ _ Q) | apply (q_op _ _ Q)]; auto.
Qed.

Lemma rec_children_in fl l c :
  In c (rec_children fl l) <->
  exists p, In p (rec_parts fl) /\ null (part_values p l) = false /\ c = mkConj true (part_values p l).
Proof.
  unfold rec_children, rec_parts. rewrite in_flat_map. split.
  - intros (p & Hp & Hc). destruct (gp_rec p) eqn:Er; [|destruct Hc].
    destruct (null (part_values p l)) eqn:En; [destruct Hc|]. destruct Hc as [<-|[]].
    exists p. split; [apply filter_In; auto | auto].
  - intros (p & Hp & Hn & ->). apply filter_In in Hp as [Hp Hr]. exists p. split; auto.
    rewrite Hr, Hn. simpl; auto.
Qed.

Lemma rec_children_neq fl fl' l : neq fl fl' -> ceqs (rec_children fl l) (rec_children fl' l).
Proof.
  assert (G : forall fl fl', pseq (rec_parts fl) (rec_parts fl') ->
              forall c, In c (rec_children fl l) -> exists c', In c' (rec_children fl' l) /\ ceq c c').
  { intros f1 f2 [H1 _] c Hc. apply rec_children_in in Hc as (p & Hp & Hn & ->).
    destruct (H1 p Hp) as (p' & Hp' & E). pose proof (part_values_peq p p' l E) as S.
    exists (mkConj true (part_values p' l)). split.
    - apply rec_children_in. exists p'. split; auto. split; auto. rewrite <- (null_seq _ _ S). exact Hn.
    - split; auto. }
  intros Q. split.
  - apply G. apply (q_rec _ _ Q).
  - intros c' Hc'. destruct (G fl' fl) with (c := c') as (c & Hc & E); auto.
    + apply (q_rec _ _ (neq_sym _ _ Q)).
    + exists c. split; auto. destruct E as [E1 E2]. split; auto using seq_sym.
Qed.

Definition all_fields (fl : nflat) := flat_map gp_fields (n_parts fl).

Lemma has_field_all fl l k :
  has_field fl l k =
  existsb (fun f => label_eqb (fst (fst f)) l && fk_is (snd (fst f)) k) (all_fields fl).
Proof. unfold has_field, all_fields. rewrite existsb_flat_map. reflexivity. Qed.

Lemma all_fields_in fl f :
  In f (all_fields fl) <-> In f (ofields fl) \/ exists p, In p (rec_parts fl) /\ In f (gp_fields p).
Proof.
  unfold all_fields, ofields, open_parts, rec_parts. rewrite !in_flat_map. split.
  - intros (p & Hp & Hf). destruct (gp_rec p) eqn:E.
    + right. exists p. split; auto. apply filter_In; auto.
    + left. exists p. split; auto. apply filter_In. rewrite E; auto.
  - intros [(p & Hp & Hf)|(p & Hp & Hf)]; apply filter_In in Hp as [Hp _]; eauto.
Qed.

Lemma all_fields_neq fl fl' : neq fl fl' -> seq (all_fields fl) (all_fields fl').
Proof.
  assert (G : forall fl fl', neq fl fl' -> forall f, In f (all_fields fl) -> In f (all_fields fl')).
  { intros f1 f2 Q f Hf. apply all_fields_in in Hf as [Hf|(p & Hp & Hf)]; apply all_fields_in.
    - left. apply (q_of _ _ Q). exact Hf.
    - right. destruct (q_rec _ _ Q) as [A _]. destruct (A p Hp) as (p' & Hp' & (_ & E & _)).
      exists p'. split; auto. apply E. exact Hf. }
  intros Q f. split; apply G; auto using neq_sym.
Qed.

Lemma presence_neq fl fl' l : neq fl fl' -> presence fl l = presence fl' l.
Proof.
  intros Q. unfold presence. rewrite !has_field_all.
  rewrite !(existsb_seq _ _ _ (all_fields_neq _ _ Q)). reflexivity.
Qed.

(* ---- flat_conj / flat_all respect the equivalences ---------------------------- *)
Lemma filter_map_const_true {A} (f : A -> gpart) l :
  (forall x, gp_rec (f x) = true) -> filter gp_rec (map f l) = map f l /\
  filter (fun p => negb (gp_rec p)) (map f l) = [].
Proof.
  intros H. induction l as [|a l [IH1 IH2]]; simpl; auto. rewrite (H a). simpl. rewrite IH1, IH2. auto.
Qed.

Lemma flat_conj_parts c :
  let fl := flat_exprs (c_rec c) (c_exprs c) in
  let subs := map (fun s => mkPart true (fst s) (snd s)) (f_subs fl) in
  open_parts (flat_conj c) = (if c_rec c then [] else [mkPart false (f_own fl) (f_ownp fl)]) /\
  rec_parts (flat_conj c) = (if c_rec c then [mkPart true (f_own fl) (f_ownp fl)] else []) ++ subs.
Proof.
  unfold open_parts, rec_parts, flat_conj; simpl.
  destruct (filter_map_const_true (fun s => mkPart true (fst s) (snd s))
              (f_subs (flat_exprs (c_rec c) (c_exprs c)))) as [E1 E2]; [reflexivity|].
  rewrite E1, E2. destruct (c_rec c); simpl; auto.
Qed.

Lemma flat_conj_ceq c c' : ceq c c' -> neq (flat_conj c) (flat_conj c').
Proof.
  destruct c as [r es], c' as [r' es']. intros [Er Es]. simpl in Er, Es. subst r'.
  destruct (flat_conj_parts (mkConj r es)) as [O1 R1]. destruct (flat_conj_parts (mkConj r es')) as [O2 R2].
  simpl in O1, R1, O2, R2.
  assert (Sown : seq (f_own (flat_exprs r es)) (f_own (flat_exprs r es')))
    by (rewrite !fe_own; apply seq_flat_map, Es).
  assert (Sownp : seq (f_ownp (flat_exprs r es)) (f_ownp (flat_exprs r es')))
    by (rewrite !fe_ownp; apply seq_flat_map, Es).
  assert (Ssubs : seq (f_subs (flat_exprs r es)) (f_subs (flat_exprs r es')))
    by (rewrite !fe_subs; apply seq_flat_map, Es).
  constructor.
  - unfold flat_conj; simpl. rewrite !fe_bot. apply existsb_seq, Es.
  - unfold flat_conj; simpl. rewrite !fe_struct. apply existsb_seq, Es.
  - unfold flat_conj; simpl. rewrite !fe_scal. apply seq_flat_map, Es.
  - unfold flat_conj; simpl. apply closers_eq_app.
    + rewrite (existsb_seq _ _ _ Es). destruct (r && existsb own_lit es'); [|intros l; reflexivity].
      intros l. unfold allowed; simpl. rewrite !allows_all_declared, (existsb_seq _ _ _ Es). reflexivity.
    + apply closers_eq_seq. rewrite !fe_closers. apply seq_flat_map, Es.
  - unfold ofields. rewrite O1, O2. destruct r; simpl; [apply seq_refl|].
    rewrite !app_nil_r. exact Sown.
  - unfold opats. rewrite O1, O2. destruct r; simpl; [apply seq_refl|].
    rewrite !app_nil_r. exact Sownp.
  - rewrite R1, R2.
    assert (G : forall es es',
               seq (f_own (flat_exprs r es)) (f_own (flat_exprs r es')) ->
               seq (f_ownp (flat_exprs r es)) (f_ownp (flat_exprs r es')) ->
               seq (f_subs (flat_exprs r es)) (f_subs (flat_exprs r es')) ->
               forall p, In p ((if r then [mkPart true (f_own (flat_exprs r es)) (f_ownp (flat_exprs r es))] else []) ++
                               map (fun s => mkPart true (fst s) (snd s)) (f_subs (flat_exprs r es))) ->
               exists p', In p' ((if r then [mkPart true (f_own (flat_exprs r es')) (f_ownp (flat_exprs r es'))] else []) ++
                                 map (fun s => mkPart true (fst s) (snd s)) (f_subs (flat_exprs r es'))) /\ peq p p').
    { intros e1 e2 A B C p Hp. apply in_app_or in Hp as [Hp|Hp].
      - destruct r; [|destruct Hp]. destruct Hp as [<-|[]].
        eexists. split; [apply in_or_app; left; left; reflexivity|]. split; [reflexivity|split; simpl; auto].
      - apply in_map_iff in Hp as (s & <- & Hs). exists (mkPart true (fst s) (snd s)). split.
        + apply in_or_app; right. apply in_map_iff. exists s. split; [reflexivity | apply C; exact Hs].
        + apply peq_refl. }
    split.
    + apply G; auto.
    + intros p' Hp'. destruct (G es' es) with (p := p') as (p & Hp & E); auto using seq_sym.
      exists p. split; auto using peq_sym.
Qed.

Lemma open_parts_all cs : open_parts (flat_all cs) = flat_map (fun c => open_parts (flat_conj c)) cs.
Proof.
  unfold open_parts. rewrite fa_parts. induction cs as [|c cs IH]; cbn [flat_map filter]; auto.
  rewrite filter_app, IH. reflexivity.
Qed.

Lemma rec_parts_all cs : rec_parts (flat_all cs) = flat_map (fun c => rec_parts (flat_conj c)) cs.
Proof.
  unfold rec_parts. rewrite fa_parts. induction cs as [|c cs IH]; cbn [flat_map filter]; auto.
  rewrite filter_app, IH. reflexivity.
Qed.

Lemma flat_map_flat_map {A B C} (f : A -> list B) (g : B -> list C) l :
  flat_map g (flat_map f l) = flat_map (fun x => flat_map g (f x)) l.
Proof. induction l as [|a l IH]; simpl; auto. rewrite flat_map_app, IH. reflexivity. Qed.

Lemma flat_all_ceqs cs cs' : ceqs cs cs' -> neq (flat_all cs) (flat_all cs').
Proof.
  intros [H1 H2].
  (* generic transfer of "exists a related conjunct" *)
  assert (EX : forall (f : conj -> bool), (forall c c', ceq c c' -> f c = f c') -> existsb f cs = existsb f cs').
  { intros f Hf. apply bool_eq_iff. rewrite !existsb_exists. split.
    - intros (c & Hc & E). destruct (H1 c Hc) as (c' & Hc' & Q). exists c'. split; auto. rewrite <- (Hf _ _ Q). exact E.
    - intros (c' & Hc' & E). destruct (H2 c' Hc') as (c & Hc & Q). exists c. split; auto. rewrite (Hf _ _ Q). exact E. }
  assert (SQ : forall {B} (f : conj -> list B), (forall c c', ceq c c' -> seq (f c) (f c')) ->
                                               seq (flat_map f cs) (flat_map f cs')).
  { intros B f Hf y. rewrite !in_flat_map. split.
    - intros (c & Hc & E). destruct (H1 c Hc) as (c' & Hc' & Q). exists c'. split; auto. apply (Hf _ _ Q). exact E.
    - intros (c' & Hc' & E). destruct (H2 c' Hc') as (c & Hc & Q). exists c. split; auto. apply (Hf _ _ Q). exact E. }
  constructor.
  - rewrite !fa_bot. apply EX. intros c c' Q. apply (q_bot _ _ (flat_conj_ceq _ _ Q)).
  - rewrite !fa_struct. apply EX. intros c c' Q. apply (q_struct _ _ (flat_conj_ceq _ _ Q)).
  - rewrite !fa_scal. apply SQ. intros c c' Q. apply (q_scal _ _ (flat_conj_ceq _ _ Q)).
  - intros l. unfold allowed. rewrite !fa_closers, !forallb_flat_map.
    destruct (is_special l) eqn:Esp; simpl; auto.
    apply bool_eq_iff. rewrite !forallb_forall. split.
    + intros Hall c' Hc'. destruct (H2 c' Hc') as (c & Hc & Q).
      pose proof (q_closers _ _ (flat_conj_ceq _ _ Q) l) as E. unfold allowed in E. rewrite Esp in E. simpl in E.
      rewrite <- E. apply Hall. exact Hc.
    + intros Hall c Hc. destruct (H1 c Hc) as (c' & Hc' & Q).
      pose proof (q_closers _ _ (flat_conj_ceq _ _ Q) l) as E. unfold allowed in E. rewrite Esp in E. simpl in E.
      rewrite E. apply Hall. exact Hc'.
  - unfold ofields. rewrite !open_parts_all, !flat_map_flat_map.
    apply (SQ _ (fun c => flat_map gp_fields (open_parts (flat_conj c)))).
    intros c c' Q. apply (q_of _ _ (flat_conj_ceq _ _ Q)).
  - unfold opats. rewrite !open_parts_all, !flat_map_flat_map.
    apply (SQ _ (fun c => flat_map gp_pats (open_parts (flat_conj c)))).
    intros c c' Q. apply (q_op _ _ (flat_conj_ceq _ _ Q)).
  - rewrite !rec_parts_all. split.
    + intros p Hp. apply in_flat_map in Hp as (c & Hc & Hp). destruct (H1 c Hc) as (c' & Hc' & Q).
      destruct (q_rec _ _ (flat_conj_ceq _ _ Q)) as [A _]. destruct (A p Hp) as (p' & Hp' & E).
      exists p'. split; auto. apply in_flat_map. eauto.
    + intros p' Hp'. apply in_flat_map in Hp' as (c' & Hc' & Hp'). destruct (H2 c' Hc') as (c & Hc & Q).
      destruct (q_rec _ _ (flat_conj_ceq _ _ Q)) as [_ B]. destruct (B p' Hp') as (p & Hp & E).
      exists p. split; auto. apply in_flat_map. eauto.
Qed.

(* ---- the master theorem --------------------------------------------------------- *)
Section Master.
  Variable labs : list label.
  Variable atoms : list atom.

  Lemma children_neq fl fl' l :
    neq fl fl' -> ceqs (children fl l) (children fl' l).
  Proof.
    intros Q. unfold children.
    pose proof (open_values_neq fl fl' l Q) as So. pose proof (rec_children_neq fl fl' l Q) as [R1 R2].
    rewrite <- (null_seq _ _ So).
    split.
    - intros c Hc. apply in_app_or in Hc as [Hc|Hc].
      + destruct (null (open_values fl l)); [destruct Hc|]. destruct Hc as [<-|[]].
        exists (mkConj false (open_values fl' l)). split; [apply in_or_app; left; left; reflexivity|].
        split; auto.
      + destruct (R1 c Hc) as (c' & Hc' & E). exists c'. split; auto. apply in_or_app; auto.
    - intros c' Hc'. apply in_app_or in Hc' as [Hc'|Hc'].
      + destruct (null (open_values fl l)); [destruct Hc'|]. destruct Hc' as [<-|[]].
        exists (mkConj false (open_values fl l)). split; [apply in_or_app; left; left; reflexivity|].
        split; auto.
      + destruct (R2 c' Hc') as (c & Hc & E). exists c. split; auto. apply in_or_app; auto.
  Qed.

  Theorem evalFlat_neq fuel : forall fl fl', neq fl fl' -> evalFlat labs atoms fuel fl = evalFlat labs atoms fuel fl'.
  Proof.
    induction fuel as [|f IH]; intros fl fl' Q; [reflexivity|]. cbn [evalFlat].
    rewrite <- (q_bot _ _ Q), <- (q_struct _ _ Q), <- (null_seq _ _ (q_scal _ _ Q)).
    destruct (n_bot fl); [reflexivity|].
    destruct (n_struct fl && negb (null (n_scal fl))); [reflexivity|].
    assert (CH : forall l, evalFlat labs atoms f (flat_all (children fl l)) =
                           evalFlat labs atoms f (flat_all (children fl' l))).
    { intros l. apply IH. apply flat_all_ceqs. apply children_neq. exact Q. }
    destruct (n_struct fl).
    - f_equal.
      + apply map_ext. intros l. rewrite <- (presence_neq _ _ l Q), <- (q_closers _ _ Q l), <- (CH l). reflexivity.
      + apply map_ext. intros l. rewrite <- (q_closers _ _ Q l), <- (CH l). reflexivity.
    - unfold scalar_bottom.
      assert (SB : forall (g : sconstr -> bool), forallb g (n_scal fl) = forallb g (n_scal fl'))
        by (intros g; apply forallb_seq, (q_scal _ _ Q)).
      assert (SE : forall (g : sconstr -> bool), existsb g (n_scal fl) = existsb g (n_scal fl'))
        by (intros g; apply existsb_seq, (q_scal _ _ Q)).
      assert (E1' : map (fun k => forallb (sc_kind_ok k) (n_scal fl)) all_kinds =
                    map (fun k => forallb (sc_kind_ok k) (n_scal fl')) all_kinds)
        by (apply map_ext; intros k; apply SB).
      assert (E2 : existsb (fun c => match c with SAtom a => negb (forallb (ssat a) (n_scal fl)) | _ => false end) (n_scal fl) =
                   existsb (fun c => match c with SAtom a => negb (forallb (ssat a) (n_scal fl')) | _ => false end) (n_scal fl')).
      { rewrite SE. apply existsb_ext. intros [a| | | | | |]; auto. rewrite SB. reflexivity. }
      assert (E0 : existsb (fun k => forallb (sc_kind_ok k) (n_scal fl)) all_kinds =
                   existsb (fun k => forallb (sc_kind_ok k) (n_scal fl')) all_kinds)
        by (apply existsb_ext; intros k; apply SB).
      rewrite E0, E2. destruct (negb _ || _); [reflexivity|].
      f_equal; auto.
      + apply map_ext. intros a. apply SB.
      + apply map_ext. intros a. apply SE.
  Qed.

  (* conjunct lists that are equal as sets of groups (groups as sets) evaluate equally *)
  Theorem evalNode_ceqs fuel cs cs' : ceqs cs cs' -> evalNode labs atoms fuel cs = evalNode labs atoms fuel cs'.
  Proof. intros H. unfold evalNode. apply evalFlat_neq, flat_all_ceqs, H. Qed.

  Lemma ceqs_of_seq cs cs' : seq cs cs' -> ceqs cs cs'.
  Proof.
    intros H. split; intros c Hc; exists c; split; auto using ceq_refl; apply H; exact Hc.
  Qed.

  (* C01: permutation of the conjuncts (declarations of a field, files of a package) *)
  Theorem eval_perm fuel cs cs' :
    Permutation cs cs' -> evalNode labs atoms fuel cs = evalNode labs atoms fuel cs'.
  Proof. intros H. apply evalNode_ceqs, ceqs_of_seq, perm_seq, H. Qed.

  (* C01: unifying with a repeated conjunct (v & v) *)
  Theorem eval_dup fuel c cs :
    evalNode labs atoms fuel (c :: c :: cs) = evalNode labs atoms fuel (c :: cs).
  Proof.
    apply evalNode_ceqs, ceqs_of_seq. intros x; simpl; tauto.
  Qed.

  (* C01: order and repetition of the operands of & inside one declaration *)
  Theorem eval_group_perm fuel r es es' cs :
    seq es es' ->
    evalNode labs atoms fuel (mkConj r es :: cs) = evalNode labs atoms fuel (mkConj r es' :: cs).
  Proof.
    intros H. apply evalNode_ceqs. split; intros c [<-|Hc].
    - exists (mkConj r es'). split; [left; reflexivity | split; auto].
    - exists c. split; [right; exact Hc | apply ceq_refl].
    - exists (mkConj r es). split; [left; reflexivity | split; auto using seq_sym].
    - exists c. split; [right; exact Hc | apply ceq_refl].
  Qed.
End Master.

(* ---- nflat_app respects neq ------------------------------------------------------- *)
Lemma open_parts_app a b : open_parts (nflat_app a b) = open_parts a ++ open_parts b.
Proof. unfold open_parts; simpl. apply filter_app. Qed.

Lemma rec_parts_app a b : rec_parts (nflat_app a b) = rec_parts a ++ rec_parts b.
Proof. unfold rec_parts; simpl. apply filter_app. Qed.

Lemma pseq_app a a' b b' : pseq a a' -> pseq b b' -> pseq (a ++ b) (a' ++ b').
Proof.
  intros [A1 A2] [B1 B2]. split; intros p Hp; apply in_app_or in Hp as [Hp|Hp].
  - destruct (A1 p Hp) as (q & Hq & E). exists q. split; auto. apply in_or_app; auto.
  - destruct (B1 p Hp) as (q & Hq & E). exists q. split; auto. apply in_or_app; auto.
  - destruct (A2 p Hp) as (q & Hq & E). exists q. split; auto. apply in_or_app; auto.
  - destruct (B2 p Hp) as (q & Hq & E). exists q. split; auto. apply in_or_app; auto.
Qed.

Lemma nflat_app_neq a a' b b' : neq a a' -> neq b b' -> neq (nflat_app a b) (nflat_app a' b').
Proof.
  intros A B. constructor.
  - simpl. rewrite (q_bot _ _ A), (q_bot _ _ B). reflexivity.
  - simpl. rewrite (q_struct _ _ A), (q_struct _ _ B). reflexivity.
  - simpl. apply seq_app; [apply (q_scal _ _ A) | apply (q_scal _ _ B)].
  - simpl. apply closers_eq_app; [apply (q_closers _ _ A) | apply (q_closers _ _ B)].
  - unfold ofields. rewrite !open_parts_app, !flat_map_app. apply seq_app; [apply (q_of _ _ A) | apply (q_of _ _ B)].
  - unfold opats. rewrite !open_parts_app, !flat_map_app. apply seq_app; [apply (q_op _ _ A) | apply (q_op _ _ B)].
  - rewrite !rec_parts_app. apply pseq_app; [apply (q_rec _ _ A) | apply (q_rec _ _ B)].
Qed.

Lemma flat_all_cons c cs : flat_all (c :: cs) = nflat_app (flat_conj c) (flat_all cs).
Proof. reflexivity. Qed.

Section Laws.
  Variable labs : list label.
  Variable atoms : list atom.

  Lemma eval_head_neq fuel c c' cs :
    neq (flat_conj c) (flat_conj c') ->
    evalNode labs atoms fuel (c :: cs) = evalNode labs atoms fuel (c' :: cs).
  Proof.
    intros H. unfold evalNode. rewrite !flat_all_cons. apply evalFlat_neq.
    apply nflat_app_neq; [exact H | apply neq_refl].
  Qed.

  Lemma flat_app_assoc a b c : flat_app (flat_app a b) c = flat_app a (flat_app b c).
  Proof. unfold flat_app; simpl. rewrite !orb_assoc, !app_assoc. reflexivity. Qed.

  Lemma flat_app_empty_l a : flat_app flat_empty a = a.
  Proof. destruct a; reflexivity. Qed.

  Lemma al_union_assoc a b c : al_union (al_union a b) c = al_union a (al_union b c).
  Proof. unfold al_union; simpl. rewrite !orb_assoc, !app_assoc. reflexivity. Qed.

  Lemma al_union_empty_l a : al_union al_empty a = a.
  Proof. destruct a; reflexivity. Qed.

  (* C01: (a & b) & rest  =  a & b & rest: grouping of & is immaterial *)
  Theorem eval_and_flatten fuel r a b es cs :
    evalNode labs atoms fuel (mkConj r (EAnd a b :: es) :: cs) =
    evalNode labs atoms fuel (mkConj r (a :: b :: es) :: cs).
  Proof.
    apply eval_head_neq.
    assert (E : flat_conj (mkConj r (EAnd a b :: es)) = flat_conj (mkConj r (a :: b :: es))).
    { unfold flat_conj; cbn [c_rec c_exprs]. rewrite !flat_exprs_cons. cbn [flatten].
      rewrite flat_app_assoc. cbn [all_declared fold_right declared existsb own_lit].
      rewrite al_union_assoc, orb_assoc. reflexivity. }
    rewrite E. apply neq_refl.
  Qed.

  (* C01: commutation of & *)
  Corollary eval_and_comm fuel r a b es cs :
    evalNode labs atoms fuel (mkConj r (EAnd a b :: es) :: cs) =
    evalNode labs atoms fuel (mkConj r (EAnd b a :: es) :: cs).
  Proof.
    rewrite !eval_and_flatten. apply eval_group_perm. intros x; simpl; tauto.
  Qed.

  (* C01: re-association of & *)
  Corollary eval_and_assoc fuel r a b c es cs :
    evalNode labs atoms fuel (mkConj r (EAnd (EAnd a b) c :: es) :: cs) =
    evalNode labs atoms fuel (mkConj r (EAnd a (EAnd b c) :: es) :: cs).
  Proof.
    rewrite !eval_and_flatten.
    rewrite (eval_group_perm labs atoms fuel r (a :: EAnd b c :: es) (EAnd b c :: a :: es)) by (intros x; simpl; tauto).
    rewrite eval_and_flatten. apply eval_group_perm. intros x; simpl; tauto.
  Qed.

  (* C01: v & v *)
  Corollary eval_and_idem fuel r a es cs :
    evalNode labs atoms fuel (mkConj r (EAnd a a :: es) :: cs) =
    evalNode labs atoms fuel (mkConj r (a :: es) :: cs).
  Proof. rewrite eval_and_flatten. apply eval_group_perm. intros x; simpl; tauto. Qed.

  (* C01: v & _ *)
  Theorem eval_top fuel r es cs :
    evalNode labs atoms fuel (mkConj r (ETop :: es) :: cs) = evalNode labs atoms fuel (mkConj r es :: cs).
  Proof.
    apply eval_head_neq.
    assert (E : flat_conj (mkConj r (ETop :: es)) = flat_conj (mkConj r es)).
    { unfold flat_conj; cbn [c_rec c_exprs]. rewrite flat_exprs_cons. cbn [flatten].
      rewrite flat_app_empty_l. cbn [all_declared fold_right declared existsb own_lit].
      rewrite al_union_empty_l. reflexivity. }
    rewrite E. apply neq_refl.
  Qed.

  Corollary eval_and_top fuel r a es cs :
    evalNode labs atoms fuel (mkConj r (EAnd a ETop :: es) :: cs) =
    evalNode labs atoms fuel (mkConj r (a :: es) :: cs).
  Proof.
    rewrite eval_and_flatten.
    rewrite (eval_group_perm labs atoms fuel r (a :: ETop :: es) (ETop :: a :: es)) by (intros x; simpl; tauto).
    apply eval_top.
  Qed.

  (* a declaration [x: _] adds nothing *)
  Theorem eval_top_decl fuel cs :
    evalNode labs atoms fuel (mkConj false [ETop] :: cs) = evalNode labs atoms fuel cs.
  Proof.
    unfold evalNode. rewrite flat_all_cons. apply evalFlat_neq.
    constructor.
    - reflexivity.
    - reflexivity.
    - simpl. apply seq_refl.
    - intros l. reflexivity.
    - unfold ofields, open_parts; simpl. apply seq_refl.
    - unfold opats, open_parts; simpl. apply seq_refl.
    - unfold rec_parts; simpl. apply pseq_refl.
  Qed.

  (* C01: splitting [x: a & b] into two declarations of x (and merging them back) *)
  Theorem eval_split_decl fuel es1 es2 cs :
    evalNode labs atoms fuel (mkConj false (es1 ++ es2) :: cs) =
    evalNode labs atoms fuel (mkConj false es1 :: mkConj false es2 :: cs).
  Proof.
    unfold evalNode. rewrite !flat_all_cons. apply evalFlat_neq.
    assert (N : neq (flat_conj (mkConj false (es1 ++ es2)))
                    (nflat_app (flat_conj (mkConj false es1)) (flat_conj (mkConj false es2)))).
    { destruct (flat_exprs_app false es1 es2) as (H1 & H2 & H3 & H4 & H5 & H6 & H7).
      destruct (flat_conj_parts (mkConj false (es1 ++ es2))) as [O R].
      destruct (flat_conj_parts (mkConj false es1)) as [O1 R1].
      destruct (flat_conj_parts (mkConj false es2)) as [O2 R2]. simpl in *.
      constructor.
      - simpl. exact H1.
      - simpl. exact H2.
      - simpl. rewrite H3. apply seq_refl.
      - simpl. rewrite H7. intros l; reflexivity.
      - unfold ofields. rewrite open_parts_app, O, O1, O2. simpl. rewrite !app_nil_r, H4. apply seq_refl.
      - unfold opats. rewrite open_parts_app, O, O1, O2. simpl. rewrite !app_nil_r, H5. apply seq_refl.
      - rewrite rec_parts_app, R, R1, R2. simpl. rewrite H6, map_app. apply pseq_refl. }
    pose proof (nflat_app_neq _ _ (flat_all cs) (flat_all cs) N (neq_refl _)) as Q.
    assert (A : nflat_app (nflat_app (flat_conj (mkConj false es1)) (flat_conj (mkConj false es2))) (flat_all cs) =
                nflat_app (flat_conj (mkConj false es1)) (nflat_app (flat_conj (mkConj false es2)) (flat_all cs))).
    { unfold nflat_app. cbn [n_bot n_scal n_struct n_parts n_closers].
      rewrite <- !orb_assoc, <- !app_assoc. reflexivity. }
    rewrite <- A. exact Q.
  Qed.

  (* the root-level version the property text mentions: x: a & b   vs   x: a, x: b *)
  Corollary eval_split_and fuel a b cs :
    evalNode labs atoms fuel (mkConj false [EAnd a b] :: cs) =
    evalNode labs atoms fuel (mkConj false [a] :: mkConj false [b] :: cs).
  Proof. rewrite eval_and_flatten. apply (eval_split_decl fuel [a] [b]). Qed.
End Laws.

(* ---- wrapping in { } as a sole embedding ------------------------------------------ *)
Lemma flat_app_empty_r a : flat_app a flat_empty = a.
Proof. destruct a; unfold flat_app; simpl. rewrite !orb_false_r, !app_nil_r. reflexivity. Qed.

Lemma al_union_empty_r a : al_union a al_empty = a.
Proof. destruct a; unfold al_union; simpl. rewrite orb_false_r, !app_nil_r. reflexivity. Qed.

Definition simple_embed (e : expr) : bool :=
  match e with ERefDef _ | EClose _ | EScalar _ => true | _ => false end.

Lemma flatten_sole_embed e :
  simple_embed e = true ->
  flatten false al_empty (EStruct [(HEmbed, e)]) = flatten false al_empty e.
Proof.
  destruct e; try discriminate; intros _.
  - (* scalar *) cbn. reflexivity.
  - (* close *) cbn [flatten reaches_def reaches_open_def negb andb orb decl_declared decls_declared fold_right fst snd].
    cbn. rewrite ?al_union_empty_r, ?app_nil_r, ?orb_false_r. reflexivity.
  - (* definition *)
    cbn [flatten reaches_def reaches_open_def negb andb orb decl_declared decls_declared fold_right fst snd].
    destruct (al_open (declared e)) eqn:Eo; cbn; rewrite ?Eo; cbn;
      rewrite ?al_union_empty_r, ?app_nil_r, ?orb_false_r; reflexivity.
Qed.

Section SoleEmbed.
  Variable labs : list label.
  Variable atoms : list atom.

  (* C01: {e} as a sole embedding is e *)
  Theorem eval_sole_embed fuel e es cs :
    simple_embed e = true ->
    evalNode labs atoms fuel (mkConj false (EStruct [(HEmbed, e)] :: es) :: cs) =
    evalNode labs atoms fuel (mkConj false (e :: es) :: cs).
  Proof.
    intros H. apply eval_head_neq.
    assert (E : flat_conj (mkConj false (EStruct [(HEmbed, e)] :: es)) = flat_conj (mkConj false (e :: es))).
    { unfold flat_conj; cbn [c_rec c_exprs andb]. rewrite !flat_exprs_cons, (flatten_sole_embed e H). reflexivity. }
    rewrite E. apply neq_refl.
  Qed.
End SoleEmbed.

(* ---- order of the declarations of a struct literal ---------------------------------- *)
Lemma flat_conj_neq_of r es es' :
  f_bot (flat_exprs r es) = f_bot (flat_exprs r es') ->
  f_struct (flat_exprs r es) = f_struct (flat_exprs r es') ->
  seq (f_scal (flat_exprs r es)) (f_scal (flat_exprs r es')) ->
  seq (f_own (flat_exprs r es)) (f_own (flat_exprs r es')) ->
  seq (f_ownp (flat_exprs r es)) (f_ownp (flat_exprs r es')) ->
  seq (f_subs (flat_exprs r es)) (f_subs (flat_exprs r es')) ->
  closers_eq (f_closers (flat_exprs r es)) (f_closers (flat_exprs r es')) ->
  existsb own_lit es = existsb own_lit es' ->
  (forall l, allows (all_declared es) l = allows (all_declared es') l) ->
  neq (flat_conj (mkConj r es)) (flat_conj (mkConj r es')).
Proof.
  intros Hb Hs Hsc Sown Sownp Ssubs Hcl Hlit Hdecl.
  destruct (flat_conj_parts (mkConj r es)) as [O1 R1]. destruct (flat_conj_parts (mkConj r es')) as [O2 R2].
  simpl in O1, R1, O2, R2.
  constructor.
  - exact Hb.
  - exact Hs.
  - exact Hsc.
  - unfold flat_conj; simpl. apply closers_eq_app; [|exact Hcl].
    rewrite Hlit. destruct (r && existsb own_lit es'); [|intros l; reflexivity].
    intros l. unfold allowed; simpl. rewrite Hdecl. reflexivity.
  - unfold ofields. rewrite O1, O2. destruct r; simpl; [apply seq_refl|]. rewrite !app_nil_r. exact Sown.
  - unfold opats. rewrite O1, O2. destruct r; simpl; [apply seq_refl|]. rewrite !app_nil_r. exact Sownp.
  - rewrite R1, R2.
    assert (G : forall e1 e2,
               seq (f_own (flat_exprs r e1)) (f_own (flat_exprs r e2)) ->
               seq (f_ownp (flat_exprs r e1)) (f_ownp (flat_exprs r e2)) ->
               seq (f_subs (flat_exprs r e1)) (f_subs (flat_exprs r e2)) ->
               forall p, In p ((if r then [mkPart true (f_own (flat_exprs r e1)) (f_ownp (flat_exprs r e1))] else []) ++
                               map (fun s => mkPart true (fst s) (snd s)) (f_subs (flat_exprs r e1))) ->
               exists p', In p' ((if r then [mkPart true (f_own (flat_exprs r e2)) (f_ownp (flat_exprs r e2))] else []) ++
                                 map (fun s => mkPart true (fst s) (snd s)) (f_subs (flat_exprs r e2))) /\ peq p p').
    { intros e1 e2 A B C p Hp. apply in_app_or in Hp as [Hp|Hp].
      - destruct r; [|destruct Hp]. destruct Hp as [<-|[]].
        eexists. split; [apply in_or_app; left; left; reflexivity|]. split; [reflexivity|split; simpl; auto].
      - apply in_map_iff in Hp as (s & <- & Hs'). exists (mkPart true (fst s) (snd s)). split.
        + apply in_or_app; right. apply in_map_iff. exists s. split; [reflexivity | apply C; exact Hs'].
        + apply peq_refl. }
    split.
    + apply G; auto.
    + intros p' Hp'. destruct (G es' es) with (p := p') as (p & Hp & E); auto using seq_sym.
      exists p. split; auto using peq_sym.
Qed.

Definition embed_free (ds : list (dhead * expr)) : bool :=
  forallb (fun d => negb (is_embed (fst d))) ds.

Definition fields_of (ds : list (dhead * expr)) : list (label * fkind * expr) :=
  flat_map (fun d => match fst d with HField l k => [(l, k, snd d)] | _ => [] end) ds.

Definition pats_of (ds : list (dhead * expr)) : list (list N * expr) :=
  flat_map (fun d => match fst d with HPattern p => [(p, snd d)] | _ => [] end) ds.

Lemma reaches_def_embed_free ds : embed_free ds = true -> reaches_def (EStruct ds) = false.
Proof.
  cbn [reaches_def]. induction ds as [|[h e] ds IH]; simpl; auto.
  intros H. apply andb_true_iff in H as [Hh Hr]. destruct h; simpl in *; try discriminate; auto.
Qed.

Lemma flatten_embed_free r x ds :
  embed_free ds = true ->
  flatten r x (EStruct ds) = mkFlat false [] true (fields_of ds) (pats_of ds) [] [].
Proof.
  intros H. cbn [flatten]. rewrite (reaches_def_embed_free ds H), andb_false_r. cbn [andb].
  assert (G : forall before,
             (fix go (before : allowset) (ds : list (dhead * expr)) : flat :=
                match ds with
                | [] => flat_empty
                | (h, e') :: r0 =>
                  let rest := go (al_union before (decl_declared (h, e'))) r0 in
                  match h with
                  | HField l k => flat_app (mkFlat false [] true [(l, k, e')] [] [] []) rest
                  | HPattern p => flat_app (mkFlat false [] true [] [(p, e')] [] []) rest
                  | HEllipsis => flat_app (mkFlat false [] true [] [] [] []) rest
                  | HEmbed =>
                    let ex := al_union (al_union before (decls_declared r0)) x in
                    match e' with
                    | ERefDef b =>
                      if r || false
                      then flat_app (with_closer (al_union (declared b) ex) (flatten true ex b)) rest
                      else flat_app (flatten r ex e') rest
                    | _ => flat_app (flatten (r || false) ex e') rest
                    end
                  end
                end) before ds
             = mkFlat false [] (negb (null ds)) (fields_of ds) (pats_of ds) [] []).
  { induction ds as [|[h e] ds IH]; intros before; [reflexivity|].
    simpl in H. apply andb_true_iff in H as [Hh Hr].
    destruct h; simpl in Hh; try discriminate; rewrite (IH Hr); reflexivity. }
  rewrite G. destruct ds as [|d ds']; [reflexivity|].
  simpl. reflexivity.
Qed.

Lemma allows_declared_struct ds l :
  allows (declared (EStruct ds)) l = existsb (fun d => allows (decl_declared d) l) ds.
Proof.
  cbn [declared]. induction ds as [|[h e] ds IH]; [apply allows_empty|].
  cbn [existsb]. rewrite <- IH. rewrite allows_union. unfold decl_declared; simpl. destruct h; reflexivity.
Qed.

Section DeclPerm.
  Variable labs : list label.
  Variable atoms : list atom.

  (* C01: reordering (or repeating) the declarations of a struct literal without embeddings *)
  Theorem eval_decl_perm fuel r ds ds' es cs :
    embed_free ds = true -> embed_free ds' = true -> seq ds ds' ->
    evalNode labs atoms fuel (mkConj r (EStruct ds :: es) :: cs) =
    evalNode labs atoms fuel (mkConj r (EStruct ds' :: es) :: cs).
  Proof.
    intros F F' S. apply eval_head_neq. apply flat_conj_neq_of;
      rewrite ?flat_exprs_cons, ?(flatten_embed_free r al_empty ds F), ?(flatten_embed_free r al_empty ds' F');
      cbn [flat_app f_bot f_struct f_scal f_own f_ownp f_subs f_closers app orb].
    - reflexivity.
    - reflexivity.
    - apply seq_refl.
    - apply seq_app; [apply seq_flat_map, S | apply seq_refl].
    - apply seq_app; [apply seq_flat_map, S | apply seq_refl].
    - apply seq_refl.
    - intros l; reflexivity.
    - reflexivity.
    - intros l. cbn [all_declared fold_right]. rewrite !allows_union, !allows_declared_struct.
      rewrite (existsb_seq _ _ _ S). reflexivity.
  Qed.
End DeclPerm.
