(* C05, clause by clause: consequences of the conjunct-set semantics (Core/Eval.v) stated
   in the words of the property, on top of [admission] (Core/Spec.v).
     1. optional constraints on absent fields never make a struct fail
     2. the constraints matching a present field are satisfied (the child is the evaluation
        of all declared values and all matching patterns, and it is ok)
     3. definitions close recursively
     4. close() closes one level
     5. embeddings widen the enclosing struct
     6. an ellipsis opens
     7. errors are monotone in the set of conjuncts (a failing unification stays failing) *)
From Verif Require Import Core.Syntax Core.Eval Core.Laws Core.Spec.
From Coq Require Import List Bool Permutation.
Import ListNotations.

(* ---- small facts ------------------------------------------------------------------ *)
Lemma label_eqb_refl l : label_eqb l l = true.
Proof. apply label_eqb_eq. reflexivity. Qed.

Lemma fk_is_refl k : fk_is k k = true.
Proof. destruct k; reflexivity. Qed.

Lemma flat_map_nil {A B} (f : A -> list B) l : (forall x, In x l -> f x = []) -> flat_map f l = [].
Proof.
  induction l as [|a l IH]; intros H; [reflexivity|]. cbn [flat_map].
  rewrite (H a) by (left; reflexivity). apply IH. intros x Hx. apply H. right. exact Hx.
Qed.

Lemma part_values_single r l k e l' :
  part_values (mkPart r [(l, k, e)] []) l' = if label_eqb l l' then [e] else [].
Proof.
  unfold part_values. cbn [gp_fields gp_pats flat_map fst snd]. rewrite !app_nil_r. reflexivity.
Qed.

Lemma has_field_intro fl p l k v :
  In p (n_parts fl) -> In (l, k, v) (gp_fields p) -> has_field fl l k = true.
Proof.
  intros Hp Hf. unfold has_field. apply existsb_exists. exists p. split; [exact Hp|].
  apply existsb_exists. exists (l, k, v). split; [exact Hf|]. cbn [fst snd].
  rewrite label_eqb_refl, fk_is_refl. reflexivity.
Qed.

Lemma presence_regular fl l : has_field fl l FRegular = true -> presence fl l = PRegular.
Proof. intros H. unfold presence. rewrite H. reflexivity. Qed.

Lemma allowed_conj c1 c2 l : allowed (c1 ++ c2) l = allowed c1 l && allowed c2 l.
Proof.
  rewrite allowed_app. unfold allowed.
  destruct (is_special l), (forallb (fun a => allows a l) c1), (forallb (fun a => allows a l) c2); reflexivity.
Qed.

Lemma closer_rejects closers a l :
  In a closers -> allows a l = false -> is_special l = false -> allowed closers l = false.
Proof.
  intros Ha Hl Hs. unfold allowed. rewrite Hs. cbn [orb].
  apply not_true_is_false. intros H. rewrite forallb_forall in H. specialize (H a Ha). congruence.
Qed.

(* the flattening of a literal without embeddings, as one open group *)
Lemma flat_conj_open_lit ds :
  embed_free ds = true ->
  flat_conj (mkConj false [EStruct ds]) =
  mkNFlat false [] true [mkPart false (fields_of ds) (pats_of ds)] [].
Proof.
  intros H. unfold flat_conj. cbn [c_rec c_exprs flat_exprs fold_right andb].
  rewrite (flatten_embed_free false al_empty ds H).
  cbn [flat_app flat_empty f_bot f_scal f_struct f_own f_ownp f_subs f_closers orb app map].
  rewrite !app_nil_r. reflexivity.
Qed.

(* ---- where the pieces of a conjunct end up in the flattened node --------------------- *)
Lemma lit_struct cs g ds :
  In g cs -> In (EStruct ds) (c_exprs g) -> embed_free ds = true -> n_struct (flat_all cs) = true.
Proof.
  intros Hg He Hf. rewrite fa_struct. apply existsb_exists. exists g. split; [exact Hg|].
  unfold flat_conj. cbn [n_struct]. rewrite fe_struct. apply existsb_exists.
  exists (EStruct ds). split; [exact He|]. rewrite (flatten_embed_free _ _ ds Hf). reflexivity.
Qed.

Lemma in_fields_of ds l k v : In (HField l k, v) ds -> In (l, k, v) (fields_of ds).
Proof.
  intros H. unfold fields_of. apply in_flat_map. exists (HField l k, v). split; [exact H|]. left. reflexivity.
Qed.

Lemma fields_of_in ds f : In f (fields_of ds) -> exists d, In d ds /\ snd d = snd f.
Proof.
  unfold fields_of. intros H. apply in_flat_map in H as ([h e] & Hd & Hf). exists (h, e). split; [exact Hd|].
  destruct h; cbn [fst snd] in Hf; try (destruct Hf; fail). destruct Hf as [<-|[]]. reflexivity.
Qed.

Lemma pats_of_in ds q : In q (pats_of ds) -> exists d, In d ds /\ snd d = snd q.
Proof.
  unfold pats_of. intros H. apply in_flat_map in H as ([h e] & Hd & Hf). exists (h, e). split; [exact Hd|].
  destruct h; cbn [fst snd] in Hf; try (destruct Hf; fail). destruct Hf as [<-|[]]. reflexivity.
Qed.

Lemma lit_field_part cs g ds l k v :
  In g cs -> In (EStruct ds) (c_exprs g) -> embed_free ds = true -> In (HField l k, v) ds ->
  exists p, In p (n_parts (flat_all cs)) /\ In (l, k, v) (gp_fields p).
Proof.
  intros Hg He Hf Hd.
  exists (mkPart (c_rec g) (f_own (flat_exprs (c_rec g) (c_exprs g))) (f_ownp (flat_exprs (c_rec g) (c_exprs g)))).
  split.
  - rewrite fa_parts. apply in_flat_map. exists g. split; [exact Hg|]. unfold flat_conj. cbn [n_parts]. left. reflexivity.
  - cbn [gp_fields]. rewrite fe_own. apply in_flat_map. exists (EStruct ds). split; [exact He|].
    rewrite (flatten_embed_free _ _ ds Hf). cbn [f_own]. apply in_fields_of. exact Hd.
Qed.

Lemma flatten_refdef r x b :
  flatten r x (ERefDef b) = with_closer (al_union (declared b) x) (seal (flatten true x b)).
Proof. reflexivity. Qed.

Lemma flatten_close r x b :
  flatten r x (EClose b) = with_closer (al_union (declared b) x) (flatten r x b).
Proof. reflexivity. Qed.

(* a definition (with a literal body) anywhere in a group contributes one recursively
   closed part holding all its fields and patterns, and a closer for what it declares *)
Lemma def_part cs g ds :
  In g cs -> In (ERefDef (EStruct ds)) (c_exprs g) -> embed_free ds = true ->
  In (mkPart true (fields_of ds) (pats_of ds)) (n_parts (flat_all cs)).
Proof.
  intros Hg He Hf. rewrite fa_parts. apply in_flat_map. exists g. split; [exact Hg|].
  unfold flat_conj. cbn [n_parts]. right. apply in_map_iff.
  exists (fields_of ds, pats_of ds). split; [reflexivity|].
  rewrite fe_subs. apply in_flat_map. exists (ERefDef (EStruct ds)). split; [exact He|].
  rewrite flatten_refdef, (flatten_embed_free _ _ ds Hf). cbn. left. reflexivity.
Qed.

Lemma in_f_closers_n_closers cs g e a :
  In g cs -> In e (c_exprs g) -> In a (f_closers (flatten (c_rec g) al_empty e)) ->
  In a (n_closers (flat_all cs)).
Proof.
  intros Hg He Ha. rewrite fa_closers. apply in_flat_map. exists g. split; [exact Hg|].
  unfold flat_conj. cbn [n_closers]. apply in_or_app. right.
  rewrite fe_closers. apply in_flat_map. exists e. split; [exact He | exact Ha].
Qed.

Lemma def_closer cs g b :
  In g cs -> In (ERefDef b) (c_exprs g) ->
  In (al_union (declared b) al_empty) (n_closers (flat_all cs)).
Proof.
  intros Hg He. apply (in_f_closers_n_closers cs g (ERefDef b)); auto.
  rewrite flatten_refdef. cbn [with_closer f_closers]. left. reflexivity.
Qed.

Lemma close_closer cs g b :
  In g cs -> In (EClose b) (c_exprs g) ->
  In (al_union (declared b) al_empty) (n_closers (flat_all cs)).
Proof.
  intros Hg He. apply (in_f_closers_n_closers cs g (EClose b)); auto.
  rewrite flatten_close. cbn [with_closer f_closers]. left. reflexivity.
Qed.

(* a recursively closed group with a literal of its own is closed by what the group declares *)
Lemma rec_group_closer cs g :
  In g cs -> c_rec g = true -> existsb own_lit (c_exprs g) = true ->
  In (all_declared (c_exprs g)) (n_closers (flat_all cs)).
Proof.
  intros Hg Hr Hl. rewrite fa_closers. apply in_flat_map. exists g. split; [exact Hg|].
  unfold flat_conj. cbn [n_closers]. rewrite Hr, Hl. cbn [andb]. left. reflexivity.
Qed.

(* ---- the groups of a child: exactly the declared values and the matching patterns ---- *)
Lemma children_values fl l v :
  (exists c, In c (children fl l) /\ In v (c_exprs c)) <->
  (exists p, In p (n_parts fl) /\ In v (part_values p l)).
Proof.
  unfold children. split.
  - intros (c & Hc & Hv). apply in_app_or in Hc as [Hc|Hc].
    + destruct (null (open_values fl l)); [destruct Hc|]. destruct Hc as [<-|[]]. cbn [c_exprs] in Hv.
      unfold open_values in Hv. apply in_flat_map in Hv as (p & Hp & Hv). exists p. split; [exact Hp|].
      destruct (gp_rec p); [destruct Hv | exact Hv].
    + apply rec_children_in in Hc as (p & Hp & _ & ->). cbn [c_exprs] in Hv.
      unfold rec_parts in Hp. apply filter_In in Hp as [Hp _]. eauto.
  - intros (p & Hp & Hv). destruct (gp_rec p) eqn:Er.
    + exists (mkConj true (part_values p l)). split; [|exact Hv]. apply in_or_app. right.
      apply rec_children_in. exists p. split; [apply filter_In; auto|]. split; [|reflexivity].
      destruct (part_values p l); [destruct Hv | reflexivity].
    + assert (Ho : In v (open_values fl l)).
      { unfold open_values. apply in_flat_map. exists p. split; [exact Hp|]. rewrite Er. exact Hv. }
      exists (mkConj false (open_values fl l)). split; [|exact Ho]. apply in_or_app. left.
      destruct (open_values fl l); [destruct Ho | left; reflexivity].
Qed.

(* the same with [part_values] spelled out *)
Corollary children_values_spelled fl l v :
  (exists c, In c (children fl l) /\ In v (c_exprs c)) <->
  (exists p, In p (n_parts fl) /\
     ((exists f, In f (gp_fields p) /\ label_eqb (fst (fst f)) l = true /\ snd f = v) \/
      (exists q, In q (gp_pats p) /\ pat_matches (fst q) l = true /\ snd q = v))).
Proof.
  rewrite children_values. split; intros (p & Hp & H); exists p; split; auto; apply part_values_in; exact H.
Qed.

Lemma children_rec_or_open fl l c :
  In c (children fl l) -> c = mkConj false (open_values fl l) \/ c_rec c = true.
Proof.
  unfold children. intros Hc. apply in_app_or in Hc as [Hc|Hc].
  - destruct (null (open_values fl l)); [destruct Hc|]. destruct Hc as [<-|[]]. left. reflexivity.
  - apply rec_children_in in Hc as (p & _ & _ & ->). right. reflexivity.
Qed.

Lemma rec_part_child fl p l :
  In p (n_parts fl) -> gp_rec p = true -> null (part_values p l) = false ->
  In (mkConj true (part_values p l)) (children fl l).
Proof.
  intros Hp Hr Hn. unfold children. apply in_or_app. right. apply rec_children_in.
  exists p. split; [apply filter_In; auto | auto].
Qed.

Lemma scal_in_flat_all cs g c : In g cs -> In (EScalar c) (c_exprs g) -> In c (n_scal (flat_all cs)).
Proof.
  intros Hg He. rewrite fa_scal. apply in_flat_map. exists g. split; [exact Hg|].
  unfold flat_conj. cbn [n_scal]. rewrite fe_scal. apply in_flat_map. exists (EScalar c). split; [exact He|].
  left. reflexivity.
Qed.

(* field lookup in a result tree (the fields are reported in the order of the universe) *)
Fixpoint lookup_field (ls : list label) (fs : list (fpres * res)) (l : label) : option (fpres * res) :=
  match ls, fs with
  | l' :: ls', x :: fs' => if label_eqb l' l then Some x else lookup_field ls' fs' l
  | _, _ => None
  end.

Lemma lookup_field_map (F : label -> fpres * res) ls l :
  In l ls -> lookup_field ls (map F ls) l = Some (F l).
Proof.
  induction ls as [|a ls IH]; intros H; [destruct H|]. cbn [map lookup_field].
  destruct (label_eqb a l) eqn:E.
  - apply label_eqb_eq in E. subst. reflexivity.
  - destruct H as [->|H]; [|auto]. rewrite label_eqb_refl in E. discriminate.
Qed.

(* ---- 1. optional constraints on absent fields ---------------------------------------- *)
Definition opt_conj (l : label) (e : expr) : conj := mkConj false [EStruct [(HField l FOptional, e)]].

Lemma flat_conj_opt l e :
  flat_conj (opt_conj l e) = mkNFlat false [] true [mkPart false [(l, FOptional, e)] []] [].
Proof. reflexivity. Qed.

Lemma has_field_opt fl l e l' k :
  has_field (nflat_app (flat_conj (opt_conj l e)) fl) l' k =
  (label_eqb l l' && fk_is FOptional k) || has_field fl l' k.
Proof.
  rewrite flat_conj_opt. unfold has_field. cbn [nflat_app n_parts app existsb gp_fields fst snd].
  rewrite orb_false_r. reflexivity.
Qed.

Lemma children_opt_other fl l e l' :
  label_eqb l l' = false ->
  children (nflat_app (flat_conj (opt_conj l e)) fl) l' = children fl l'.
Proof.
  intros E. rewrite flat_conj_opt. unfold children, open_values, rec_children.
  cbn [nflat_app n_parts app flat_map gp_rec]. rewrite part_values_single, E. reflexivity.
Qed.

Section Spec2.
  Variable labs : list label.
  Variable atoms : list atom.

  (* adding the declaration [l?: e] for a label that is not a regular field of the struct
     does not change the verdict (for a present regular field it is a constraint like any other:
     see C05_example_optional_absent) *)
  Theorem optional_absent_admits fuel cs l e :
    n_struct (flat_all cs) = true ->
    presence (flat_all cs) l <> PRegular ->
    admits_conjs labs atoms fuel (opt_conj l e :: cs) = admits_conjs labs atoms fuel cs.
  Proof.
    intros Hs H1. unfold admits_conjs. rewrite flat_all_cons. set (fl := flat_all cs) in *.
    destruct fuel as [|f]; [reflexivity|]. cbn [admits].
    assert (Eb : n_bot (nflat_app (flat_conj (opt_conj l e)) fl) = n_bot fl) by reflexivity.
    assert (Est : n_struct (nflat_app (flat_conj (opt_conj l e)) fl) = true) by reflexivity.
    assert (Esc : n_scal (nflat_app (flat_conj (opt_conj l e)) fl) = n_scal fl) by reflexivity.
    assert (Ecl : n_closers (nflat_app (flat_conj (opt_conj l e)) fl) = n_closers fl) by reflexivity.
    rewrite Eb, Est, Esc, Ecl, Hs. f_equal. f_equal.
    apply forallb_ext'. intros l'. unfold presence. rewrite !has_field_opt.
    destruct (label_eqb l l') eqn:E.
    - apply label_eqb_eq in E. subst l'. unfold presence in H1.
      destruct (has_field fl l FRegular); [congruence|].
      destruct (has_field fl l FRequired); [reflexivity|].
      cbn [andb orb fk_is]. destruct (has_field fl l FOptional); reflexivity.
    - cbn [andb orb]. rewrite (children_opt_other fl l e l' E). reflexivity.
  Qed.

  Corollary optional_absent_never_fails fuel cs l e :
    n_struct (flat_all cs) = true ->
    presence (flat_all cs) l <> PRegular ->
    res_ok (evalNode labs atoms fuel cs) = true ->
    res_ok (evalNode labs atoms fuel (cs ++ [opt_conj l e])) = true.
  Proof.
    intros Hs H1 H.
    rewrite (eval_perm labs atoms fuel (cs ++ [opt_conj l e]) (opt_conj l e :: cs))
      by (apply Permutation_sym, Permutation_cons_append).
    rewrite admission_conjs, optional_absent_admits, <- admission_conjs; auto.
  Qed.

  (* the same for a declaration added to an existing literal of an open group *)
  Theorem optional_absent_in_literal fuel ds es cs l e :
    embed_free ds = true ->
    presence (flat_all (mkConj false (EStruct ds :: es) :: cs)) l <> PRegular ->
    res_ok (evalNode labs atoms fuel (mkConj false (EStruct ((HField l FOptional, e) :: ds) :: es) :: cs)) =
    res_ok (evalNode labs atoms fuel (mkConj false (EStruct ds :: es) :: cs)).
  Proof.
    intros Hf H1.
    assert (Hf' : embed_free ((HField l FOptional, e) :: ds) = true) by (cbn; exact Hf).
    assert (E : flat_conj (mkConj false (EStruct ((HField l FOptional, e) :: ds) :: es)) =
                flat_conj (mkConj false ([EStruct [(HField l FOptional, e)]] ++ EStruct ds :: es))).
    { unfold flat_conj. cbn [c_rec c_exprs app andb]. rewrite !flat_exprs_cons.
      rewrite (flatten_embed_free false al_empty _ Hf'), (flatten_embed_free false al_empty _ Hf).
      reflexivity. }
    transitivity (res_ok (evalNode labs atoms fuel (opt_conj l e :: mkConj false (EStruct ds :: es) :: cs))).
    - f_equal. unfold opt_conj. rewrite <- eval_split_decl. apply eval_head_neq. rewrite E. apply neq_refl.
    - rewrite !admission_conjs. apply optional_absent_admits; auto.
      apply (lit_struct _ (mkConj false (EStruct ds :: es)) ds); [left; reflexivity | left; reflexivity | exact Hf].
  Qed.
End Spec2.

(* ---- 2. the constraints matching a present field are satisfied -------------------------- *)
Section Present.
  Variable labs : list label.
  Variable atoms : list atom.

  Definition field_at (r : res) (l : label) : option (fpres * res) :=
    match r with RStruct fs _ => lookup_field labs fs l | _ => None end.

  Lemma admits_struct_inv f fl :
    admits labs atoms (S f) fl = true -> n_struct fl = true ->
    n_bot fl = false /\ null (n_scal fl) = true /\
    forall l, In l labs -> presence fl l = PRegular ->
              allowed (n_closers fl) l = true /\ admits labs atoms f (flat_all (children fl l)) = true.
  Proof.
    cbn [admits]. intros H Hs. rewrite Hs in H.
    apply andb_true_iff in H as [Hb H]. apply andb_true_iff in H as [Hn H].
    split; [apply negb_true_iff, Hb|]. split; [exact Hn|].
    intros l Hl Hp. rewrite forallb_forall in H. specialize (H l Hl). rewrite Hp in H.
    apply andb_true_iff in H. exact H.
  Qed.

  (* the child of a present field is the evaluation of the groups [children]: it is reported at l,
     l is allowed by every closer, and the child is itself ok *)
  Theorem present_field_child f cs l :
    n_struct (flat_all cs) = true -> In l labs -> presence (flat_all cs) l = PRegular ->
    res_ok (evalNode labs atoms (S f) cs) = true ->
    field_at (evalNode labs atoms (S f) cs) l =
      Some (PRegular, evalNode labs atoms f (children (flat_all cs) l)) /\
    allowed (n_closers (flat_all cs)) l = true /\
    res_ok (evalNode labs atoms f (children (flat_all cs) l)) = true.
  Proof.
    intros Hs Hl Hp H. rewrite admission_conjs in H. unfold admits_conjs in H.
    destruct (admits_struct_inv f _ H Hs) as (Hb & Hn & Hall). destruct (Hall l Hl Hp) as [Ha Hc].
    split; [|split; [exact Ha | rewrite admission_conjs; exact Hc]].
    unfold evalNode. cbn [evalFlat]. rewrite Hb, Hs, Hn. cbn [negb andb field_at].
    rewrite (lookup_field_map _ labs l Hl), Hp, Ha. reflexivity.
  Qed.

  (* ... and the scalar constraints among them hold of one probe atom, the value of the field *)
  Theorem present_scalar_constraints_hold f cs l :
    n_struct (flat_all cs) = true -> In l labs -> presence (flat_all cs) l = PRegular ->
    res_ok (evalNode labs atoms (S (S f)) cs) = true ->
    forall p0 c0, In p0 (n_parts (flat_all cs)) -> In (EScalar c0) (part_values p0 l) ->
    exists a, In a atoms /\
              forall p c, In p (n_parts (flat_all cs)) -> In (EScalar c) (part_values p l) -> ssat a c = true.
  Proof.
    intros Hs Hl Hp H p0 c0 Hp0 Hc0.
    destruct (present_field_child (S f) cs l Hs Hl Hp H) as (_ & _ & Hc).
    rewrite admission_conjs in Hc. unfold admits_conjs in Hc.
    set (ch := children (flat_all cs) l) in *.
    assert (IN : forall p c, In p (n_parts (flat_all cs)) -> In (EScalar c) (part_values p l) ->
                             In c (n_scal (flat_all ch))).
    { intros p c Hpp Hcc. destruct (proj2 (children_values (flat_all cs) l (EScalar c))) as (g & Hg & Hv); [eauto|].
      apply (scal_in_flat_all ch g c Hg Hv). }
    cbn [admits] in Hc. apply andb_true_iff in Hc as [_ Hc].
    destruct (n_struct (flat_all ch)).
    - apply andb_true_iff in Hc as [Hn _]. pose proof (IN p0 c0 Hp0 Hc0) as X.
      destruct (n_scal (flat_all ch)); [destruct X | discriminate].
    - apply existsb_exists in Hc as (a & Ha & Hc). apply andb_true_iff in Hc as [_ Hc].
      exists a. split; [exact Ha|]. intros p c Hpp Hcc. rewrite forallb_forall in Hc. apply Hc. eauto.
  Qed.
End Present.

(* ---- 3. definitions close recursively ---------------------------------------------------- *)
Lemma rec_group_parts g p : c_rec g = true -> In p (n_parts (flat_conj g)) -> gp_rec p = true.
Proof.
  intros Hr. unfold flat_conj. cbn [n_parts]. rewrite Hr. intros [<-|Hp]; [reflexivity|].
  apply in_map_iff in Hp as (s & <- & _). reflexivity.
Qed.

(* every group a recursively closed node passes down is recursively closed again *)
Theorem rec_children_rec cs l :
  (forall g, In g cs -> c_rec g = true) -> forall c, In c (children (flat_all cs) l) -> c_rec c = true.
Proof.
  intros Hall c Hc. destruct (children_rec_or_open _ _ _ Hc) as [->|Hr]; [|exact Hr]. exfalso.
  assert (O : open_values (flat_all cs) l = []).
  { unfold open_values. apply flat_map_nil. intros p Hp. rewrite fa_parts in Hp.
    apply in_flat_map in Hp as (g & Hg & Hp). rewrite (rec_group_parts g p (Hall g Hg) Hp). reflexivity. }
  unfold children in Hc. rewrite O in Hc. cbn [null app] in Hc.
  apply rec_children_in in Hc as (p & _ & _ & E). discriminate E.
Qed.

Fixpoint descend (cs : list conj) (path : list label) : list conj :=
  match path with
  | [] => cs
  | l :: path' => descend (children (flat_all cs) l) path'
  end.

Theorem rec_descend_rec path : forall cs,
  (forall g, In g cs -> c_rec g = true) -> forall c, In c (descend cs path) -> c_rec c = true.
Proof.
  induction path as [|l path IH]; intros cs Hall; cbn [descend]; [exact Hall|].
  apply IH. apply rec_children_rec. exact Hall.
Qed.

(* what a definition gives to a field goes down as ONE recursively closed group *)
Theorem def_child_group cs g ds l :
  In g cs -> In (ERefDef (EStruct ds)) (c_exprs g) -> embed_free ds = true ->
  null (part_values (mkPart true (fields_of ds) (pats_of ds)) l) = false ->
  In (mkConj true (part_values (mkPart true (fields_of ds) (pats_of ds)) l)) (children (flat_all cs) l).
Proof.
  intros Hg He Hf Hn. apply rec_part_child; [apply (def_part cs g ds Hg He Hf) | reflexivity | exact Hn].
Qed.

(* a label that a recursively closed group with a literal does not declare is not allowed *)
Theorem rec_group_rejects cs g l :
  In g cs -> c_rec g = true -> existsb own_lit (c_exprs g) = true ->
  allows (all_declared (c_exprs g)) l = false -> is_special l = false ->
  allowed (n_closers (flat_all cs)) l = false.
Proof.
  intros Hg Hr Hl Ha Hs. apply (closer_rejects _ (all_declared (c_exprs g))); auto.
  apply rec_group_closer; auto.
Qed.

(* at every depth below a recursively closed node, a group with a literal rejects what it does not declare *)
Theorem rec_descend_rejects path cs c l :
  (forall g, In g cs -> c_rec g = true) -> In c (descend cs path) ->
  existsb own_lit (c_exprs c) = true -> allows (all_declared (c_exprs c)) l = false -> is_special l = false ->
  allowed (n_closers (flat_all (descend cs path))) l = false.
Proof.
  intros Hall Hc Hl Ha Hs. apply (rec_group_rejects _ c); auto. apply (rec_descend_rec path cs Hall c Hc).
Qed.

Section DefRec.
  Variable labs : list label.
  Variable atoms : list atom.

  (* a data field at depth 2 that the definition does not declare makes the unification fail *)
  Theorem def_closes_recursively fuel cs g ds gd dds dds2 l1 l2 v :
    In g cs -> In (ERefDef (EStruct ds)) (c_exprs g) -> embed_free ds = true ->
    In gd cs -> In (EStruct dds) (c_exprs gd) -> embed_free dds = true ->
    In (HField l1 FRegular, EStruct dds2) dds -> embed_free dds2 = true -> In (HField l2 FRegular, v) dds2 ->
    existsb own_lit (part_values (mkPart true (fields_of ds) (pats_of ds)) l1) = true ->
    allows (all_declared (part_values (mkPart true (fields_of ds) (pats_of ds)) l1)) l2 = false ->
    is_special l2 = false -> In l1 labs -> In l2 labs ->
    res_ok (evalNode labs atoms fuel cs) = false.
  Proof.
    intros Hg He Hf Hgd Hed Hfd Hd1 Hf2 Hd2 Hlit Hno Hsp Hl1 Hl2.
    set (vs := part_values (mkPart true (fields_of ds) (pats_of ds)) l1) in *.
    destruct (res_ok (evalNode labs atoms fuel cs)) eqn:R; [exfalso|reflexivity].
    destruct fuel as [|f]; [discriminate R|].
    destruct (lit_field_part cs gd dds l1 FRegular _ Hgd Hed Hfd Hd1) as (p & Hp & Hpf).
    assert (P1 : presence (flat_all cs) l1 = PRegular)
      by (apply presence_regular, (has_field_intro _ p _ _ _ Hp Hpf)).
    assert (S1 : n_struct (flat_all cs) = true) by (apply (lit_struct cs gd dds); auto).
    destruct (present_field_child labs atoms f cs l1 S1 Hl1 P1 R) as (_ & _ & Rc).
    set (ch := children (flat_all cs) l1) in *.
    (* the data reaches the child *)
    destruct (proj2 (children_values (flat_all cs) l1 (EStruct dds2))) as (c & Hc & Hcv).
    { exists p. split; [exact Hp|]. apply part_values_in. left. exists (l1, FRegular, EStruct dds2).
      cbn [fst snd]. rewrite label_eqb_refl. auto. }
    destruct (lit_field_part ch c dds2 l2 FRegular v Hc Hcv Hf2 Hd2) as (p2 & Hp2 & Hpf2).
    assert (P2 : presence (flat_all ch) l2 = PRegular)
      by (apply presence_regular, (has_field_intro _ p2 _ _ _ Hp2 Hpf2)).
    assert (S2 : n_struct (flat_all ch) = true) by (apply (lit_struct ch c dds2); auto).
    (* so does the closed group of the definition *)
    assert (Hn : null vs = false) by (destruct vs; [discriminate Hlit | reflexivity]).
    pose proof (def_child_group cs g ds l1 Hg He Hf Hn) as Hgrp. fold vs in Hgrp. fold ch in Hgrp.
    assert (A2 : allowed (n_closers (flat_all ch)) l2 = false)
      by (apply (rec_group_rejects ch (mkConj true vs)); auto).
    rewrite (closed_never_gains labs atoms f ch l2 Hl2 P2 A2 S2) in Rc. discriminate.
  Qed.
End DefRec.

(* ---- 4. close() closes one level ---------------------------------------------------------- *)
(* no definition and no close() at the level of e itself (nested field values are arbitrary) *)
Fixpoint plain (e : expr) : bool :=
  match e with
  | ETop | EBot | EScalar _ => true
  | EAnd a b => plain a && plain b
  | EStruct ds => embed_free ds
  | EClose _ | ERefDef _ => false
  end.

Lemma plain_flat r x e : plain e = true -> f_closers (flatten r x e) = [] /\ f_subs (flatten r x e) = [].
Proof.
  induction e as [| |c|a IHa b IHb|ds|e _|e _]; cbn [plain]; intros H; try discriminate; try (split; reflexivity).
  - apply andb_true_iff in H as [Ha Hb]. destruct (IHa Ha) as [A1 A2]. destruct (IHb Hb) as [B1 B2].
    cbn [flatten flat_app f_closers f_subs]. rewrite A1, A2, B1, B2. split; reflexivity.
  - rewrite (flatten_embed_free r x ds H). split; reflexivity.
Qed.

(* a literal, or close() of a literal, whose field values are plain *)
Definition one_level (e : expr) : bool :=
  match e with
  | EStruct ds | EClose (EStruct ds) => embed_free ds && forallb (fun d => plain (snd d)) ds
  | _ => false
  end.

Lemma one_level_flat e :
  one_level e = true ->
  exists ds, forallb (fun d => plain (snd d)) ds = true /\
             f_own (flatten false al_empty e) = fields_of ds /\
             f_ownp (flatten false al_empty e) = pats_of ds /\
             f_subs (flatten false al_empty e) = [].
Proof.
  destruct e as [| |c|a b|ds|e|e]; cbn [one_level]; try discriminate.
  - intros H. apply andb_true_iff in H as [Hf Hp]. exists ds.
    rewrite (flatten_embed_free _ _ ds Hf). auto.
  - destruct e as [| |c|a b|ds|e|e]; try discriminate.
    intros H. apply andb_true_iff in H as [Hf Hp]. exists ds.
    rewrite flatten_close, (flatten_embed_free _ _ ds Hf). auto.
Qed.

Definition open_plain (fl : nflat) : Prop :=
  forall p, In p (n_parts fl) ->
    gp_rec p = false /\ (forall f, In f (gp_fields p) -> plain (snd f) = true) /\
    (forall q, In q (gp_pats p) -> plain (snd q) = true).

Lemma open_plain_children_open fl l : open_plain fl -> n_closers (flat_all (children fl l)) = [].
Proof.
  intros H. unfold children.
  assert (R : rec_children fl l = []).
  { unfold rec_children. apply flat_map_nil. intros p Hp. destruct (H p Hp) as [-> _]. reflexivity. }
  rewrite R, app_nil_r. destruct (null (open_values fl l)); [reflexivity|].
  cbn [flat_all fold_right nflat_app n_closers nflat_empty]. rewrite app_nil_r.
  unfold flat_conj. cbn [n_closers c_rec c_exprs andb app]. rewrite fe_closers.
  apply flat_map_nil. intros v Hv. apply plain_flat.
  unfold open_values in Hv. apply in_flat_map in Hv as (p & Hp & Hv). destruct (H p Hp) as (Hr & Hfs & Hps).
  rewrite Hr in Hv. apply part_values_in in Hv as [(f & Hf & _ & <-)|(q & Hq & _ & <-)]; auto.
Qed.

Lemma one_level_open_plain cs :
  (forall g, In g cs -> c_rec g = false /\ forall e, In e (c_exprs g) -> one_level e = true) ->
  open_plain (flat_all cs).
Proof.
  intros H p Hp. rewrite fa_parts in Hp. apply in_flat_map in Hp as (g & Hg & Hp).
  destruct (H g Hg) as [Hr Hes]. unfold flat_conj in Hp. cbn [n_parts] in Hp. rewrite Hr in Hp.
  assert (Sb : f_subs (flat_exprs false (c_exprs g)) = []).
  { rewrite fe_subs. apply flat_map_nil. intros e He. destruct (one_level_flat e (Hes e He)) as (ds & _ & _ & _ & X). exact X. }
  rewrite Sb in Hp. cbn [map] in Hp. destruct Hp as [<-|[]]. cbn [gp_rec gp_fields gp_pats].
  split; [reflexivity|]. split.
  - intros f Hf. rewrite fe_own in Hf. apply in_flat_map in Hf as (e & He & Hf).
    destruct (one_level_flat e (Hes e He)) as (ds & Hpl & E1 & _ & _). rewrite E1 in Hf.
    apply fields_of_in in Hf as (d & Hd & <-). rewrite forallb_forall in Hpl. apply Hpl. exact Hd.
  - intros q Hq. rewrite fe_ownp in Hq. apply in_flat_map in Hq as (e & He & Hq).
    destruct (one_level_flat e (Hes e He)) as (ds & Hpl & _ & E2 & _). rewrite E2 in Hq.
    apply pats_of_in in Hq as (d & Hd & <-). rewrite forallb_forall in Hpl. apply Hpl. exact Hd.
Qed.

(* when the only closers of a node come from close(), its children have no closer at all:
   one level down every label is allowed *)
Theorem close_one_level cs l :
  (forall g, In g cs -> c_rec g = false /\ forall e, In e (c_exprs g) -> one_level e = true) ->
  n_closers (flat_all (children (flat_all cs) l)) = [].
Proof. intros H. apply open_plain_children_open, one_level_open_plain, H. Qed.

Corollary close_one_level_allows cs l l' :
  (forall g, In g cs -> c_rec g = false /\ forall e, In e (c_exprs g) -> one_level e = true) ->
  allowed (n_closers (flat_all (children (flat_all cs) l))) l' = true.
Proof. intros H. apply open_never_rejects, close_one_level, H. Qed.

(* ... while at its own level close() rejects what the literal does not declare *)
Theorem close_rejects_undeclared cs g b l :
  In g cs -> In (EClose b) (c_exprs g) -> allows (declared b) l = false -> is_special l = false ->
  allowed (n_closers (flat_all cs)) l = false.
Proof.
  intros Hg He Ha Hs. apply (closer_rejects _ (al_union (declared b) al_empty)); auto.
  - apply (close_closer cs g b Hg He).
  - rewrite allows_union, Ha, allows_empty. reflexivity.
Qed.

(* an open struct: groups that are not recursively closed and hold no definition and no close()
   at their own level contribute no closer, so no label is rejected *)
Theorem plain_no_closers cs :
  (forall g, In g cs -> c_rec g = false /\ forall e, In e (c_exprs g) -> plain e = true) ->
  n_closers (flat_all cs) = [].
Proof.
  intros H. rewrite fa_closers. apply flat_map_nil. intros g Hg. destruct (H g Hg) as [Hr Hes].
  unfold flat_conj. cbn [n_closers]. rewrite Hr. cbn [andb app]. rewrite fe_closers.
  apply flat_map_nil. intros e He. apply plain_flat, Hes, He.
Qed.

Corollary plain_never_rejects cs l :
  (forall g, In g cs -> c_rec g = false /\ forall e, In e (c_exprs g) -> plain e = true) ->
  allowed (n_closers (flat_all cs)) l = true.
Proof. intros H. apply open_never_rejects, plain_no_closers, H. Qed.

(* ---- 5. embeddings widen the enclosing struct ---------------------------------------------- *)
(* the declaration loop of [flatten] on a literal, named *)
Definition lit_go (rec merge : bool) (extra : allowset) :=
  fix go (before : allowset) (ds : list (dhead * expr)) : flat :=
    match ds with
    | [] => flat_empty
    | (h, e') :: r =>
      let rest := go (al_union before (decl_declared (h, e'))) r in
      match h with
      | HField l k => flat_app (mkFlat false [] true [(l, k, e')] [] [] []) rest
      | HPattern p => flat_app (mkFlat false [] true [] [(p, e')] [] []) rest
      | HEllipsis => flat_app (mkFlat false [] true [] [] [] []) rest
      | HEmbed =>
        let ex := al_union (al_union before (decls_declared r)) extra in
        match e' with
        | ERefDef b =>
          if merge
          then flat_app (with_closer (al_union (declared b) ex) (flatten true ex b)) rest
          else flat_app (flatten rec ex e') rest
        | _ => flat_app (flatten merge ex e') rest
        end
      end
    end.

Lemma flatten_struct_eq rec extra ds :
  flatten rec extra (EStruct ds) =
  let sealed := negb rec && reaches_def (EStruct ds) && negb (reaches_open_def (EStruct ds)) in
  let body := lit_go rec (rec || sealed) extra al_empty ds in
  let body := mkFlat (f_bot body) (f_scal body) (f_struct body || own_struct ds)
                     (f_own body) (f_ownp body) (f_subs body) (f_closers body) in
  if sealed then seal body else body.
Proof. reflexivity. Qed.

Lemma lit_go_cons rec merge extra before h e' r :
  lit_go rec merge extra before ((h, e') :: r) =
  let rest := lit_go rec merge extra (al_union before (decl_declared (h, e'))) r in
  match h with
  | HField l k => flat_app (mkFlat false [] true [(l, k, e')] [] [] []) rest
  | HPattern p => flat_app (mkFlat false [] true [] [(p, e')] [] []) rest
  | HEllipsis => flat_app (mkFlat false [] true [] [] [] []) rest
  | HEmbed =>
    let ex := al_union (al_union before (decls_declared r)) extra in
    match e' with
    | ERefDef b =>
      if merge
      then flat_app (with_closer (al_union (declared b) ex) (flatten true ex b)) rest
      else flat_app (flatten rec ex e') rest
    | _ => flat_app (flatten merge ex e') rest
    end
  end.
Proof. reflexivity. Qed.

Lemma f_closers_app a b : f_closers (flat_app a b) = f_closers a ++ f_closers b.
Proof. reflexivity. Qed.

Lemma lit_go_free_closers rec merge extra ds : forall before,
  embed_free ds = true -> f_closers (lit_go rec merge extra before ds) = [].
Proof.
  induction ds as [|[h e] ds IH]; intros before H; [reflexivity|].
  cbn [embed_free forallb fst] in H. apply andb_true_iff in H as [Hh Hr]. fold (embed_free ds) in Hr.
  rewrite lit_go_cons. destruct h; cbn [is_embed negb] in Hh; try discriminate;
    cbv zeta; rewrite f_closers_app, (IH _ Hr); reflexivity.
Qed.

Definition decl_union (before : allowset) (ds : list (dhead * expr)) : allowset :=
  fold_left (fun b d => al_union b (decl_declared d)) ds before.

(* the closers of a literal with exactly one embedding, a definition with a literal body *)
Lemma lit_go_one_embed_closers rec merge extra ds0 post pre : forall before,
  embed_free pre = true -> embed_free post = true -> embed_free ds0 = true ->
  f_closers (lit_go rec merge extra before (pre ++ (HEmbed, ERefDef (EStruct ds0)) :: post)) =
  [al_union (declared (EStruct ds0))
            (al_union (al_union (decl_union before pre) (decls_declared post)) extra)].
Proof.
  induction pre as [|[h e] pre IH]; intros before Hpre Hpost H0.
  - cbn [app decl_union fold_left]. rewrite lit_go_cons. cbv zeta.
    destruct merge.
    + rewrite f_closers_app, (lit_go_free_closers _ _ _ post _ Hpost), app_nil_r.
      cbn [with_closer f_closers]. rewrite (flatten_embed_free _ _ ds0 H0). reflexivity.
    + rewrite f_closers_app, (lit_go_free_closers _ _ _ post _ Hpost), app_nil_r.
      rewrite flatten_refdef. cbn [with_closer f_closers seal]. rewrite (flatten_embed_free _ _ ds0 H0). reflexivity.
  - cbn [embed_free forallb fst] in Hpre. apply andb_true_iff in Hpre as [Hh Hr]. fold (embed_free pre) in Hr.
    cbn [app]. rewrite lit_go_cons.
    destruct h; cbn [is_embed negb] in Hh; try discriminate;
      cbv zeta; rewrite f_closers_app, (IH _ Hr Hpost H0); reflexivity.
Qed.

Lemma allows_decl_union ds l : forall before,
  allows (decl_union before ds) l = allows before l || existsb (fun d => allows (decl_declared d) l) ds.
Proof.
  induction ds as [|d ds IH]; intros before; cbn [decl_union fold_left existsb].
  - rewrite orb_false_r. reflexivity.
  - fold (decl_union (al_union before (decl_declared d)) ds). rewrite IH, allows_union, orb_assoc. reflexivity.
Qed.

Lemma allows_decls_declared ds l :
  allows (decls_declared ds) l = existsb (fun d => allows (decl_declared d) l) ds.
Proof.
  induction ds as [|d ds IH]; cbn [decls_declared fold_right existsb]; [apply allows_empty|].
  fold (decls_declared ds). rewrite allows_union, IH. reflexivity.
Qed.

Definition embed_lit (pre : list (dhead * expr)) (ds0 : list (dhead * expr)) (post : list (dhead * expr)) : expr :=
  EStruct (pre ++ (HEmbed, ERefDef (EStruct ds0)) :: post).

Lemma embed_lit_closers rec extra pre ds0 post :
  embed_free pre = true -> embed_free post = true -> embed_free ds0 = true ->
  f_closers (flatten rec extra (embed_lit pre ds0 post)) =
  [al_union (declared (EStruct ds0))
            (al_union (al_union (decl_union al_empty pre) (decls_declared post)) extra)].
Proof.
  intros Hpre Hpost H0. unfold embed_lit. rewrite flatten_struct_eq. cbv zeta.
  set (sealed := negb rec && _ && _). set (body := lit_go _ _ _ _ _).
  assert (E : f_closers body = [al_union (declared (EStruct ds0))
            (al_union (al_union (decl_union al_empty pre) (decls_declared post)) extra)])
    by (apply lit_go_one_embed_closers; auto).
  destruct sealed; cbn [seal f_closers]; exact E.
Qed.

(* which labels the literal {pre..., #E, post...} admits: what #E declares and what the
   literal's own declarations declare - nothing else *)
Theorem embedding_widens pre ds0 post l :
  embed_free pre = true -> embed_free post = true -> embed_free ds0 = true ->
  allowed (n_closers (flat_all [mkConj false [embed_lit pre ds0 post]])) l =
  is_special l || allows (declared (EStruct ds0)) l ||
  existsb (fun d => allows (decl_declared d) l) (pre ++ post).
Proof.
  intros Hpre Hpost H0. cbn [flat_all fold_right nflat_app n_closers nflat_empty]. rewrite app_nil_r.
  unfold flat_conj. cbn [n_closers c_rec c_exprs andb app flat_exprs fold_right].
  rewrite f_closers_app, (embed_lit_closers false al_empty pre ds0 post Hpre Hpost H0).
  cbn [flat_empty f_closers app]. unfold allowed. cbn [forallb]. rewrite andb_true_r.
  rewrite !allows_union, allows_decl_union, allows_decls_declared, !allows_empty, existsb_app.
  cbn [orb]. rewrite orb_false_r, orb_assoc. reflexivity.
Qed.

(* the definition alone admits only what it declares *)
Theorem definition_alone_allows ds0 l :
  embed_free ds0 = true ->
  allowed (n_closers (flat_all [mkConj false [ERefDef (EStruct ds0)]])) l =
  is_special l || allows (declared (EStruct ds0)) l.
Proof.
  intros H0. cbn [flat_all fold_right nflat_app n_closers nflat_empty]. rewrite app_nil_r.
  unfold flat_conj. cbn [n_closers c_rec c_exprs andb app flat_exprs fold_right].
  rewrite f_closers_app, flatten_refdef. cbn [with_closer f_closers seal flat_empty].
  rewrite (flatten_embed_free _ _ ds0 H0). cbn [f_closers app]. unfold allowed. cbn [forallb].
  rewrite andb_true_r, allows_union, allows_empty, orb_false_r. reflexivity.
Qed.

(* the closers of further conjuncts only restrict *)
Lemma allowed_cons g cs l :
  allowed (n_closers (flat_all (g :: cs))) l =
  allowed (n_closers (flat_all [g])) l && allowed (n_closers (flat_all cs)) l.
Proof.
  cbn [flat_all fold_right nflat_app n_closers nflat_empty]. rewrite app_nil_r. apply allowed_conj.
Qed.

(* in words: a field the literal declares next to the embedded definition is allowed although the
   definition alone rejects it; a label declared by neither is rejected, whatever else is unified *)
Corollary embedding_widens_declared pre ds0 post l k v :
  embed_free pre = true -> embed_free post = true -> embed_free ds0 = true ->
  In (HField l k, v) (pre ++ post) ->
  allowed (n_closers (flat_all [mkConj false [embed_lit pre ds0 post]])) l = true.
Proof.
  intros Hpre Hpost H0 Hin. rewrite embedding_widens by auto.
  assert (X : existsb (fun d => allows (decl_declared d) l) (pre ++ post) = true).
  { apply existsb_exists. exists (HField l k, v). split; [exact Hin|].
    unfold decl_declared, allows. cbn [fst decl_head_declared al_open al_labels existsb orb].
    rewrite label_eqb_refl. reflexivity. }
  rewrite X. apply orb_true_r.
Qed.

Corollary embedding_still_closed pre ds0 post cs l :
  embed_free pre = true -> embed_free post = true -> embed_free ds0 = true ->
  is_special l = false -> allows (declared (EStruct ds0)) l = false ->
  existsb (fun d => allows (decl_declared d) l) (pre ++ post) = false ->
  allowed (n_closers (flat_all (mkConj false [embed_lit pre ds0 post] :: cs))) l = false.
Proof.
  intros Hpre Hpost H0 Hs Ha Hd. rewrite allowed_cons, embedding_widens by auto.
  rewrite Hs, Ha, Hd. reflexivity.
Qed.

(* ---- 6. an ellipsis opens -------------------------------------------------------------------- *)
Lemma ellipsis_declared_open ds x l : In (HEllipsis, x) ds -> allows (declared (EStruct ds)) l = true.
Proof.
  intros H. rewrite allows_declared_struct. apply existsb_exists. exists (HEllipsis, x). split; [exact H|].
  reflexivity.
Qed.

(* a definition whose body has an ellipsis allows every label *)
Theorem ellipsis_opens_definition ds x l :
  embed_free ds = true -> In (HEllipsis, x) ds ->
  allowed (n_closers (flat_all [mkConj false [ERefDef (EStruct ds)]])) l = true.
Proof.
  intros Hf H. rewrite (definition_alone_allows ds l Hf), (ellipsis_declared_open ds x l H). apply orb_true_r.
Qed.

(* so does close() of such a literal *)
Theorem ellipsis_opens_close ds x l :
  embed_free ds = true -> In (HEllipsis, x) ds ->
  allowed (n_closers (flat_all [mkConj false [EClose (EStruct ds)]])) l = true.
Proof.
  intros Hf H. cbn [flat_all fold_right nflat_app n_closers nflat_empty]. rewrite app_nil_r.
  unfold flat_conj. cbn [n_closers c_rec c_exprs andb app flat_exprs fold_right].
  rewrite f_closers_app, flatten_close. cbn [with_closer f_closers flat_empty].
  rewrite (flatten_embed_free _ _ ds Hf). cbn [f_closers app]. unfold allowed. cbn [forallb].
  rewrite andb_true_r, allows_union, (ellipsis_declared_open ds x l H). apply orb_true_r.
Qed.

(* and a literal with an ellipsis below a definition (a recursively closed group) *)
Theorem ellipsis_opens_nested ds x l :
  embed_free ds = true -> In (HEllipsis, x) ds ->
  allowed (n_closers (flat_all [mkConj true [EStruct ds]])) l = true.
Proof.
  intros Hf H. cbn [flat_all fold_right nflat_app n_closers nflat_empty]. rewrite app_nil_r.
  unfold flat_conj. cbn [n_closers c_rec c_exprs andb existsb own_lit orb flat_exprs fold_right].
  rewrite f_closers_app, (flatten_embed_free _ _ ds Hf). cbn [f_closers flat_empty app all_declared fold_right].
  unfold allowed. cbn [forallb]. rewrite andb_true_r, allows_union, (ellipsis_declared_open ds x l H).
  apply orb_true_r.
Qed.

(* without the ellipsis the same group rejects what it does not declare *)
Theorem no_ellipsis_nested_rejects ds l :
  embed_free ds = true -> is_special l = false -> allows (declared (EStruct ds)) l = false ->
  allowed (n_closers (flat_all [mkConj true [EStruct ds]])) l = false.
Proof.
  intros Hf Hs H. apply (rec_group_rejects _ (mkConj true [EStruct ds])); auto.
  - left. reflexivity.
  - cbn [c_exprs all_declared fold_right]. rewrite allows_union, H, allows_empty. reflexivity.
Qed.

(* ---- 7. errors are monotone: more conjuncts never repair a failing unification ---------------- *)
Lemma existsb_incl {A} (f : A -> bool) l l' : incl l l' -> existsb f l = true -> existsb f l' = true.
Proof. intros H E. apply existsb_exists in E as (x & Hx & E). apply existsb_exists. exists x. auto. Qed.

Lemma forallb_incl {A} (f : A -> bool) l l' : incl l l' -> forallb f l' = true -> forallb f l = true.
Proof. intros H E. rewrite forallb_forall in *. auto. Qed.

Lemma flat_map_incl {A B} (f : A -> list B) l l' : incl l l' -> incl (flat_map f l) (flat_map f l').
Proof. intros H y Hy. apply in_flat_map in Hy as (x & Hx & Hy). apply in_flat_map. exists x. auto. Qed.

Lemma scalar_bottom_incl scs scs' : incl scs scs' -> scalar_bottom scs = true -> scalar_bottom scs' = true.
Proof.
  unfold scalar_bottom. intros H E. apply orb_true_iff in E as [E|E]; apply orb_true_iff; [left|right].
  - apply negb_true_iff in E. apply negb_true_iff. apply not_true_is_false. intros X.
    apply existsb_exists in X as (k & Hk & X). apply (forallb_incl _ _ _ H) in X.
    assert (Y : existsb (fun k => forallb (sc_kind_ok k) scs) all_kinds = true) by (apply existsb_exists; eauto).
    congruence.
  - apply existsb_exists in E as (c & Hc & E). apply existsb_exists. exists c. split; [auto|].
    destruct c as [a| | | | | |]; try discriminate. apply negb_true_iff in E. apply negb_true_iff.
    apply not_true_is_false. intros X. apply (forallb_incl _ _ _ H) in X. congruence.
Qed.

(* fl' carries everything fl carries (and possibly more) *)
Record nle (fl fl' : nflat) : Prop := {
  l_bot : n_bot fl = true -> n_bot fl' = true;
  l_struct : n_struct fl = true -> n_struct fl' = true;
  l_scal : incl (n_scal fl) (n_scal fl');
  l_closers : forall l, allowed (n_closers fl') l = true -> allowed (n_closers fl) l = true;
  l_of : incl (ofields fl) (ofields fl');
  l_op : incl (opats fl) (opats fl');
  l_rec : forall p, In p (rec_parts fl) -> exists p', In p' (rec_parts fl') /\ peq p p' }.

Lemma neq_nle fl fl' : neq fl fl' -> nle fl fl'.
Proof.
  intros Q. constructor.
  - rewrite (q_bot _ _ Q). auto.
  - rewrite (q_struct _ _ Q). auto.
  - intros x Hx. apply (q_scal _ _ Q). exact Hx.
  - intros l. rewrite (q_closers _ _ Q l). auto.
  - intros x Hx. apply (q_of _ _ Q). exact Hx.
  - intros x Hx. apply (q_op _ _ Q). exact Hx.
  - apply (q_rec _ _ Q).
Qed.

(* group lists: every group of cs is found in cs', recursively closed groups unchanged,
   open groups possibly with more members *)
Definition cle1 (c c' : conj) : Prop :=
  c_rec c = c_rec c' /\
  if c_rec c then Laws.seq (c_exprs c) (c_exprs c') else incl (c_exprs c) (c_exprs c').

Definition cle (cs cs' : list conj) : Prop :=
  forall c, In c cs -> exists c', In c' cs' /\ cle1 c c'.

Lemma cle1_refl c : cle1 c c.
Proof. split; [reflexivity|]. destruct (c_rec c); [apply seq_refl | apply incl_refl]. Qed.

Lemma cle_app cs extra : cle cs (cs ++ extra).
Proof. intros c Hc. exists c. split; [apply in_or_app; auto | apply cle1_refl]. Qed.

Lemma flat_conj_cle1 c c' : cle1 c c' -> nle (flat_conj c) (flat_conj c').
Proof.
  destruct c as [r es], c' as [r' es']. intros [Er H]. cbn [c_rec c_exprs] in Er, H. subst r'.
  destruct r.
  - apply neq_nle, flat_conj_ceq. split; auto.
  - destruct (flat_conj_parts (mkConj false es)) as [O1 R1]. destruct (flat_conj_parts (mkConj false es')) as [O2 R2].
    cbn [c_rec c_exprs] in O1, R1, O2, R2.
    constructor.
    + unfold flat_conj; cbn [n_bot c_rec c_exprs]. rewrite !fe_bot. apply existsb_incl, H.
    + unfold flat_conj; cbn [n_struct c_rec c_exprs]. rewrite !fe_struct. apply existsb_incl, H.
    + unfold flat_conj; cbn [n_scal c_rec c_exprs]. rewrite !fe_scal. apply flat_map_incl, H.
    + intros l. unfold flat_conj; cbn [n_closers c_rec c_exprs andb app]. rewrite !fe_closers.
      unfold allowed. destruct (is_special l); [auto|]. cbn [orb]. apply forallb_incl, flat_map_incl, H.
    + unfold ofields. rewrite O1, O2. cbn [flat_map gp_fields]. rewrite !app_nil_r, !fe_own.
      apply flat_map_incl, H.
    + unfold opats. rewrite O1, O2. cbn [flat_map gp_pats]. rewrite !app_nil_r, !fe_ownp.
      apply flat_map_incl, H.
    + rewrite R1, R2. cbn [app]. intros p Hp. exists p. split; [|apply peq_refl].
      apply in_map_iff in Hp as (s & <- & Hs). apply in_map_iff. exists s. split; [reflexivity|].
      rewrite fe_subs in *. apply (flat_map_incl _ _ _ H). exact Hs.
Qed.

Lemma flat_all_cle cs cs' : cle cs cs' -> nle (flat_all cs) (flat_all cs').
Proof.
  intros H.
  assert (EX : forall (f : conj -> bool),
             (forall c c', cle1 c c' -> f c = true -> f c' = true) -> existsb f cs = true -> existsb f cs' = true).
  { intros f Hf E. apply existsb_exists in E as (c & Hc & E). destruct (H c Hc) as (c' & Hc' & Q).
    apply existsb_exists. exists c'. split; [exact Hc' | apply (Hf c c' Q E)]. }
  assert (IN : forall {B} (f : conj -> list B),
             (forall c c', cle1 c c' -> incl (f c) (f c')) -> incl (flat_map f cs) (flat_map f cs')).
  { intros B f Hf y Hy. apply in_flat_map in Hy as (c & Hc & Hy). destruct (H c Hc) as (c' & Hc' & Q).
    apply in_flat_map. exists c'. split; [exact Hc' | apply (Hf c c' Q y Hy)]. }
  constructor.
  - rewrite !fa_bot. apply EX. intros c c' Q. apply (l_bot _ _ (flat_conj_cle1 _ _ Q)).
  - rewrite !fa_struct. apply EX. intros c c' Q. apply (l_struct _ _ (flat_conj_cle1 _ _ Q)).
  - rewrite !fa_scal. apply IN. intros c c' Q. apply (l_scal _ _ (flat_conj_cle1 _ _ Q)).
  - intros l. unfold allowed. rewrite !fa_closers, !forallb_flat_map.
    destruct (is_special l) eqn:Esp; [auto|]. cbn [orb]. rewrite !forallb_forall.
    intros Hall c Hc. destruct (H c Hc) as (c' & Hc' & Q).
    pose proof (l_closers _ _ (flat_conj_cle1 _ _ Q) l) as E. unfold allowed in E. rewrite Esp in E.
    cbn [orb] in E. apply E. apply Hall. exact Hc'.
  - unfold ofields. rewrite !open_parts_all, !flat_map_flat_map.
    apply (IN _ (fun c => flat_map gp_fields (open_parts (flat_conj c)))).
    intros c c' Q. apply (l_of _ _ (flat_conj_cle1 _ _ Q)).
  - unfold opats. rewrite !open_parts_all, !flat_map_flat_map.
    apply (IN _ (fun c => flat_map gp_pats (open_parts (flat_conj c)))).
    intros c c' Q. apply (l_op _ _ (flat_conj_cle1 _ _ Q)).
  - rewrite !rec_parts_all. intros p Hp. apply in_flat_map in Hp as (c & Hc & Hp).
    destruct (H c Hc) as (c' & Hc' & Q).
    destruct (l_rec _ _ (flat_conj_cle1 _ _ Q) p Hp) as (p' & Hp' & E).
    exists p'. split; [|exact E]. apply in_flat_map. eauto.
Qed.

Lemma open_values_nle fl fl' l : nle fl fl' -> incl (open_values fl l) (open_values fl' l).
Proof.
  intros Q v. rewrite !open_values_in.
  intros [(f & H1 & H2)|(q & H1 & H2)]; [left; exists f | right; exists q]; split; auto;
    [apply (l_of _ _ Q) | apply (l_op _ _ Q)]; auto.
Qed.

Lemma children_cle fl fl' l : nle fl fl' -> cle (children fl l) (children fl' l).
Proof.
  intros Q c Hc. unfold children in Hc. apply in_app_or in Hc as [Hc|Hc].
  - destruct (open_values fl l) as [|v vs] eqn:E; [destruct Hc|]. destruct Hc as [<-|[]].
    exists (mkConj false (open_values fl' l)). split.
    + unfold children. apply in_or_app. left.
      pose proof (open_values_nle fl fl' l Q v) as X. rewrite E in X. specialize (X (or_introl eq_refl)).
      destruct (open_values fl' l); [destruct X | left; reflexivity].
    + split; [reflexivity|]. cbn [c_rec c_exprs]. rewrite <- E. apply open_values_nle, Q.
  - apply rec_children_in in Hc as (p & Hp & Hn & ->).
    destruct (l_rec _ _ Q p Hp) as (p' & Hp' & E). pose proof (part_values_peq p p' l E) as S.
    exists (mkConj true (part_values p' l)). split.
    + unfold children. apply in_or_app. right. apply rec_children_in. exists p'. split; [exact Hp'|].
      split; [|reflexivity]. rewrite <- (null_seq _ _ S). exact Hn.
    + split; [reflexivity|]. exact S.
Qed.

Lemma all_fields_nle fl fl' : nle fl fl' -> incl (all_fields fl) (all_fields fl').
Proof.
  intros Q f Hf. apply all_fields_in in Hf as [Hf|(p & Hp & Hf)]; apply all_fields_in.
  - left. apply (l_of _ _ Q). exact Hf.
  - right. destruct (l_rec _ _ Q p Hp) as (p' & Hp' & (_ & E & _)). exists p'. split; [exact Hp'|]. apply E. exact Hf.
Qed.

Lemma has_field_nle fl fl' l k : nle fl fl' -> has_field fl l k = true -> has_field fl' l k = true.
Proof. intros Q. rewrite !has_field_all. apply existsb_incl, all_fields_nle, Q. Qed.

Section Monotone.
  Variable labs : list label.
  Variable atoms : list atom.

  Theorem evalFlat_err_mono fuel : forall fl fl',
    nle fl fl' -> res_err (evalFlat labs atoms fuel fl) = true -> res_err (evalFlat labs atoms fuel fl') = true.
  Proof.
    unfold res_err. induction fuel as [|f IH]; intros fl fl' Q; [auto|]. cbn [evalFlat].
    destruct (n_bot fl') eqn:Eb'; [reflexivity|].
    destruct (n_bot fl) eqn:Eb; [rewrite (l_bot _ _ Q Eb) in Eb'; discriminate|].
    destruct (n_struct fl') eqn:Es'.
    - cbn [andb]. destruct (null (n_scal fl')) eqn:En'; [|reflexivity]. cbn [negb].
      assert (En : n_scal fl = []).
      { pose proof (l_scal _ _ Q) as I. destruct (n_scal fl') ; [|discriminate].
        destruct (n_scal fl) as [|c r]; [reflexivity|]. destruct (I c (or_introl eq_refl)). }
      rewrite En. cbn [null negb andb]. rewrite andb_false_r.
      destruct (n_struct fl) eqn:Es.
      + cbn [res_err_aux]. rewrite !existsb_map'. intros E. apply existsb_exists in E as (l & Hl & E).
        apply existsb_exists. exists l. split; [exact Hl|].
        assert (P : presence fl l = PRegular \/ presence fl l = PRequired)
          by (destruct (presence fl l); cbn [fst] in E; try discriminate; auto).
        assert (P' : presence fl' l = PRegular \/ presence fl' l = PRequired).
        { unfold presence in *.
          destruct (has_field fl l FRegular) eqn:H1.
          - rewrite (has_field_nle _ _ _ _ Q H1). auto.
          - destruct (has_field fl l FRequired) eqn:H2.
            + rewrite (has_field_nle _ _ _ _ Q H2). destruct (has_field fl' l FRegular); auto.
            + destruct (has_field fl l FOptional); destruct P; discriminate. }
        assert (V : res_err_aux (if allowed (n_closers fl') l
                                 then evalFlat labs atoms f (flat_all (children fl' l)) else RBot) = true).
        { destruct (allowed (n_closers fl') l) eqn:A'; [|reflexivity].
          rewrite (l_closers _ _ Q l A') in E.
          apply (IH (flat_all (children fl l))); [apply flat_all_cle, children_cle, Q|].
          destruct P as [P|P]; rewrite P in E; exact E. }
        destruct P' as [P'|P']; rewrite P'; exact V.
      + cbn. discriminate.
    - assert (Es : n_struct fl = false)
        by (destruct (n_struct fl) eqn:X; [rewrite (l_struct _ _ Q X) in Es'; discriminate | reflexivity]).
      rewrite Es. cbn [andb].
      destruct (scalar_bottom (n_scal fl)) eqn:B; [|cbn; discriminate].
      rewrite (scalar_bottom_incl _ _ (l_scal _ _ Q) B). reflexivity.
  Qed.

  (* a failing unification stays failing whatever is unified in addition (more conjuncts,
     or more members in an open group) *)
  Theorem err_monotone_cle fuel cs cs' :
    cle cs cs' -> res_err (evalNode labs atoms fuel cs) = true -> res_err (evalNode labs atoms fuel cs') = true.
  Proof. intros H. apply evalFlat_err_mono, flat_all_cle, H. Qed.

  Corollary err_monotone fuel cs extra :
    res_err (evalNode labs atoms fuel cs) = true -> res_err (evalNode labs atoms fuel (cs ++ extra)) = true.
  Proof. apply err_monotone_cle, cle_app. Qed.

  (* the direction that holds for the verdict: when schema & data is ok, the schema alone had no error *)
  Corollary ok_with_more_not_err fuel cs extra :
    res_ok (evalNode labs atoms fuel (cs ++ extra)) = true -> res_err (evalNode labs atoms fuel cs) = false.
  Proof.
    intros H. destruct (res_err (evalNode labs atoms fuel cs)) eqn:E; [|reflexivity].
    apply (err_monotone fuel cs extra) in E. unfold res_ok in H. rewrite E in H. discriminate.
  Qed.
End Monotone.

(* the verdict itself is NOT antitone: the schema {a: int} alone is not concrete, with the data it is *)
Theorem ok_not_antitone_refuted :
  exists labs atoms fuel cs c,
    res_ok (evalNode labs atoms fuel (cs ++ [c])) = true /\ res_ok (evalNode labs atoms fuel cs) = false.
Proof.
  exists [LReg 0%N], [AInt 1%Z], 3,
    [mkConj false [EStruct [(HField (LReg 0%N) FRegular, EScalar (SKind KInt))]]],
    (mkConj false [EStruct [(HField (LReg 0%N) FRegular, EScalar (SAtom (AInt 1%Z)))]]).
  vm_compute. split; reflexivity.
Qed.
