(* The laws of Core/DisjLaws.v and Core/DisjLaws2.v for the generic semantics of Core/DisjGen.v:
   they need nothing about the value function [tval] except that it does not depend on the
   ORDER of the chosen disjuncts, and that [veqb] decides equality of values. *)
From Verif Require Import Core.Syntax Core.Eval Core.Laws Core.Disj Core.DisjLaws Core.DisjLaws2 Core.DisjGen.
From Coq Require Import List Bool Arith Lia Permutation.
Import ListNotations.

Section GenLaws.
  Variables A V : Type.
  Variable veqb : V -> V -> bool.
  Hypothesis veqb_eq : forall a b, veqb a b = true <-> a = b.
  Variable verr : V -> bool.
  Variable vacc : nat -> V -> bool.
  Variable tval : list A -> V.
  Hypothesis tval_perm : forall t t', Permutation t t' -> tval t = tval t'.

  Notation tv := (gtv A V tval).
  Notation survives := (gsurvives A V verr tval).
  Notation survivors := (gsurvivors A V verr tval).
  Notation pair_of := (gpair_of A V verr tval).
  Notation resolve := (gresolve V veqb).
  Notation accepts := (gaccepts V vacc).
  Notation values := (gvalues V veqb).
  Notation defaults := (gdefaults V veqb).
  Notation uses_marked := (guses_marked A).
  Notation eff_marked := (geff_marked A).
  Notation is_default := (gis_default A).
  Notation tuples := (gtuples A).
  Notation dedup := (gdedup V veqb).
  Notation gd := (gdisj A).

  Definition g_is_tuple (t : list (bool * A)) (ds : list gd) : Prop := Forall2 (fun c d => In c d) t ds.

  Lemma g_tuples_spec ds : forall t, In t (tuples ds) <-> g_is_tuple t ds.
  Proof.
    induction ds as [|d r IH]; intros t; simpl.
    - split; [intros [<-|[]]; constructor | intros H; inversion H; auto].
    - rewrite in_flat_map. split.
      + intros (c & Hc & Ht). apply in_map_iff in Ht as (t' & <- & Ht'). constructor; auto. apply IH; auto.
      + intros H. inversion H as [|c d' t' r' Hc Ht']; subst. exists c. split; auto.
        apply in_map. apply IH. exact Ht'.
  Qed.

  (* ---- dedup ---- *)
  Lemma g_mem_iff r l : gmem V veqb r l = true <-> In r l.
  Proof.
    unfold gmem. rewrite existsb_exists. split.
    - intros (x & Hx & E). apply veqb_eq in E. subst. exact Hx.
    - intros H. exists r. split; auto. apply veqb_eq. reflexivity.
  Qed.

  Lemma g_dedup_in l : forall r, In r (dedup l) <-> In r l.
  Proof.
    induction l as [|a l IH]; intros r; simpl; [tauto|].
    destruct (gmem V veqb a l) eqn:E.
    - rewrite IH. split; auto. intros [<-|H]; auto. apply g_mem_iff. exact E.
    - simpl. rewrite IH. tauto.
  Qed.

  Lemma g_dedup_nodup l : NoDup (dedup l).
  Proof.
    induction l as [|a l IH]; simpl; [constructor|].
    destruct (gmem V veqb a l) eqn:E; auto. constructor; auto.
    rewrite g_dedup_in. intros H. apply g_mem_iff in H. congruence.
  Qed.

  Lemma g_dedup_seq_perm l l' : Laws.seq l l' -> Permutation (dedup l) (dedup l').
  Proof.
    intros H. apply NoDup_Permutation; auto using g_dedup_nodup.
    intros x. rewrite !g_dedup_in. apply H.
  Qed.

  Definition g_same_outcome (p p' : list (V * bool)) : Prop :=
    (forall i, accepts p i = accepts p' i) /\ resolve p = resolve p'.

  Lemma g_same_outcome_refl p : g_same_outcome p p.
  Proof. split; auto. Qed.

  Lemma g_same_outcome_trans p1 p2 p3 : g_same_outcome p1 p2 -> g_same_outcome p2 p3 -> g_same_outcome p1 p3.
  Proof. intros [H1 H2] [H3 H4]. split; [intros i; rewrite H1; apply H3 | congruence]. Qed.

  Lemma g_resolve_ext p p' :
    Laws.seq (map fst (filter snd p)) (map fst (filter snd p')) ->
    Laws.seq (map fst p) (map fst p') -> resolve p = resolve p'.
  Proof.
    intros HD HV. apply g_dedup_seq_perm in HD, HV. unfold gresolve, gdefaults, gvalues.
    destruct (dedup (map fst (filter snd p))) as [|d [|d2 dl]],
             (dedup (map fst (filter snd p'))) as [|d' [|d2' dl']];
      try (apply Permutation_length in HD; simpl in HD; lia).
    - destruct (dedup (map fst p)) as [|v [|v2 vl]], (dedup (map fst p')) as [|v' [|v2' vl']];
        try (apply Permutation_length in HV; simpl in HV; lia); try reflexivity.
      apply Permutation_length_1 in HV. congruence.
    - apply Permutation_length_1 in HD. congruence.
    - reflexivity.
  Qed.

  Lemma g_accepts_ext p p' i : Laws.seq (map fst p) (map fst p') -> accepts p i = accepts p' i.
  Proof.
    intros H. unfold gaccepts.
    rewrite <- (existsb_map_l (vacc i) fst p), <- (existsb_map_l (vacc i) fst p').
    apply existsb_seq. exact H.
  Qed.

  (* ---- resolution never chooses silently ---- *)
  Theorem g_resolve_never_silent p v :
    resolve p = GChosen v ->
    (defaults p = [v]) \/ (defaults p = [] /\ values p = [v]).
  Proof.
    unfold gresolve. destruct (defaults p) as [|d [|d' ds]].
    - destruct (values p) as [|x [|y ys]]; try discriminate. intros [= ->]. right; auto.
    - intros [= ->]. left; reflexivity.
    - discriminate.
  Qed.

  Lemma g_in_survivors ds t :
    In t (survivors ds) <-> g_is_tuple t ds /\ survives t = true.
  Proof. unfold gsurvivors. rewrite filter_In, g_tuples_spec. tauto. Qed.

  Lemma g_in_pair_values ds x :
    In x (map fst (pair_of ds)) <-> exists t, In t (survivors ds) /\ tv t = x.
  Proof.
    unfold gpair_of. rewrite map_map. cbn [fst]. rewrite in_map_iff.
    split; intros (t & H1 & H2); exists t; split; assumption.
  Qed.

  Lemma g_in_pair_defaults ds x :
    In x (map fst (filter snd (pair_of ds))) <->
    exists t, In t (survivors ds) /\ is_default (length ds) (survivors ds) t = true /\ tv t = x.
  Proof.
    unfold gpair_of. rewrite in_map_iff. split.
    - intros ([v b] & E & H). apply filter_In in H as [H Hb]. apply in_map_iff in H as (t & Et & Ht).
      cbn [fst snd] in *. injection Et as Ev Eb. exists t. subst. auto.
    - intros (t & Ht & Hd & E). exists (tv t, true). split; auto.
      apply filter_In. split; auto. apply in_map_iff. exists t. rewrite Hd. auto.
  Qed.

  Theorem g_chosen_is_survivor ds v :
    resolve (pair_of ds) = GChosen v ->
    exists t, g_is_tuple t ds /\ survives t = true /\ tv t = v.
  Proof.
    intros H. apply g_resolve_never_silent in H.
    assert (Hin : In v (map fst (pair_of ds))).
    { destruct H as [H|[_ H]].
      - unfold gdefaults in H.
        assert (I : In v (dedup (map fst (filter snd (pair_of ds))))) by (rewrite H; left; auto).
        apply (proj1 (g_dedup_in _ _)) in I. apply in_map_iff in I as (x & <- & Hx). apply filter_In in Hx as [Hx _].
        apply in_map. exact Hx.
      - unfold gvalues in H. assert (I : In v (dedup (map fst (pair_of ds)))) by (rewrite H; left; auto).
        apply (proj1 (g_dedup_in _ _)) in I. exact I. }
    apply g_in_pair_values in Hin as (t & Ht & E). apply g_in_survivors in Ht as [Ht Hs].
    exists t. auto.
  Qed.

  Lemma g_survives_val t t' : tv t' = tv t -> survives t' = survives t.
  Proof. unfold gsurvives. intros ->. reflexivity. Qed.

  Lemma g_outcome_ext ds ds' :
    (forall x, (exists t, In t (survivors ds) /\ tv t = x) <-> (exists t, In t (survivors ds') /\ tv t = x)) ->
    (forall x, (exists t, In t (survivors ds) /\ is_default (length ds) (survivors ds) t = true /\ tv t = x) <->
               (exists t, In t (survivors ds') /\ is_default (length ds') (survivors ds') t = true /\ tv t = x)) ->
    g_same_outcome (pair_of ds) (pair_of ds').
  Proof.
    intros HV HD. split.
    - intros i. apply g_accepts_ext. intros x. rewrite !g_in_pair_values. apply HV.
    - apply g_resolve_ext; intros x; [rewrite !g_in_pair_defaults; apply HD | rewrite !g_in_pair_values; apply HV].
  Qed.

  Lemma g_is_default_iff n svs t :
    is_default n svs t = true <->
    (exists i, i < n /\ eff_marked svs i = true) /\
    (forall i, i < n -> eff_marked svs i = true -> uses_marked i t = true).
  Proof.
    unfold gis_default. rewrite andb_true_iff, existsb_exists, forallb_forall.
    split; intros [(i & Hi & E) H]; split.
    - exists i. apply in_seq in Hi. split; [lia|exact E].
    - intros j Hj Ej. specialize (H j). rewrite Ej in H. simpl in H. apply H. apply in_seq. lia.
    - exists i. split; [apply in_seq; lia|exact E].
    - intros j Hj. apply in_seq in Hj. destruct (eff_marked svs j) eqn:Ej; simpl; auto. apply H; auto. lia.
  Qed.

  Lemma g_transfer ds ds' (pi : nat -> nat) :
    (forall i, i < length ds -> pi i < length ds') ->
    (forall j, j < length ds' -> exists i, i < length ds /\ pi i = j) ->
    (forall t, g_is_tuple t ds -> exists t', g_is_tuple t' ds' /\ tv t' = tv t /\
        forall i, i < length ds -> uses_marked i t = true -> uses_marked (pi i) t' = true) ->
    (forall t', g_is_tuple t' ds' -> exists t, g_is_tuple t ds /\ tv t = tv t' /\
        forall i, i < length ds -> uses_marked (pi i) t' = true -> uses_marked i t = true) ->
    g_same_outcome (pair_of ds) (pair_of ds').
  Proof.
    intros Hpi Hsurj Hf Hb.
    assert (F : forall t, In t (survivors ds) ->
               exists t', In t' (survivors ds') /\ tv t' = tv t /\
               forall i, i < length ds -> uses_marked i t = true -> uses_marked (pi i) t' = true).
    { intros t Ht. apply g_in_survivors in Ht as [Ht Hs]. destruct (Hf t Ht) as (t' & Ht' & Hv & Hm).
      exists t'. split; [|auto]. apply g_in_survivors. split; auto. rewrite (g_survives_val _ _ Hv). exact Hs. }
    assert (B : forall t', In t' (survivors ds') ->
               exists t, In t (survivors ds) /\ tv t = tv t' /\
               forall i, i < length ds -> uses_marked (pi i) t' = true -> uses_marked i t = true).
    { intros t' Ht'. apply g_in_survivors in Ht' as [Ht' Hs]. destruct (Hb t' Ht') as (t & Ht & Hv & Hm).
      exists t. split; [|auto]. apply g_in_survivors. split; auto. rewrite (g_survives_val _ _ Hv). exact Hs. }
    assert (E : forall i, i < length ds ->
               (eff_marked (survivors ds) i = true <-> eff_marked (survivors ds') (pi i) = true)).
    { intros i Hi. unfold geff_marked. rewrite !existsb_exists. split.
      - intros (t & Ht & Hm). destruct (F t Ht) as (t' & Ht' & _ & Hm'). exists t'. split; auto.
      - intros (t' & Ht' & Hm). destruct (B t' Ht') as (t & Ht & _ & Hm'). exists t. split; auto. }
    apply g_outcome_ext; intros x.
    - split.
      + intros (t & Ht & <-). destruct (F t Ht) as (t' & Ht' & Hv & _). exists t'. auto.
      + intros (t' & Ht' & <-). destruct (B t' Ht') as (t & Ht & Hv & _). exists t; auto.
    - split.
      + intros (t & Ht & Hd & <-). destruct (F t Ht) as (t' & Ht' & Hv & Hm). exists t'.
        split; [exact Ht'|]. split; [|exact Hv].
        apply g_is_default_iff in Hd as [(i & Hi & Ei) Hall]. apply g_is_default_iff. split.
        * exists (pi i). split; [apply Hpi; exact Hi | apply E; assumption].
        * intros j Hj Ej. destruct (Hsurj j Hj) as (i' & Hi' & <-). apply Hm; auto. apply Hall; auto. apply E; auto.
      + intros (t' & Ht' & Hd & <-). destruct (B t' Ht') as (t & Ht & Hv & Hm). exists t.
        split; [exact Ht|]. split; [|exact Hv].
        apply g_is_default_iff in Hd as [(j & Hj & Ej) Hall]. apply g_is_default_iff. split.
        * destruct (Hsurj j Hj) as (i & Hi & <-). exists i. split; auto. apply E; auto.
        * intros i Hi Ei. apply Hm; auto. apply Hall; [apply Hpi; auto | apply E; auto].
  Qed.

  (* ==== the order of the operands of & ==== *)
  Lemma g_sw_val k t : tv (sw k t) = tv t.
  Proof. unfold gtv. apply tval_perm. apply Permutation_map. apply sw_perm. Qed.

  Lemma g_uses_marked_sw k (t : list (bool * A)) i :
    k + 2 <= length t -> uses_marked (swi k i) (sw k t) = uses_marked i t.
  Proof. intros H. unfold guses_marked. rewrite nth_error_sw by exact H. reflexivity. Qed.

  Theorem g_operand_swap l1 x y l2 :
    g_same_outcome (pair_of (l1 ++ y :: x :: l2)) (pair_of (l1 ++ x :: y :: l2)).
  Proof.
    assert (L : forall a b : gd, length (l1 ++ a :: b :: l2) = length l1 + 2 + length l2)
      by (intros; rewrite app_length; simpl; lia).
    apply (g_transfer _ _ (swi (length l1))).
    - intros i Hi. rewrite L in *. apply swi_lt; lia.
    - intros j Hj. exists (swi (length l1) j). rewrite L in *. split; [apply swi_lt; lia | apply swi_invol].
    - intros t Ht. exists (sw (length l1) t). split; [apply sw_forall2; exact Ht|]. split; [apply g_sw_val|].
      intros i Hi Hm. rewrite g_uses_marked_sw; auto. apply Forall2_len in Ht. rewrite Ht, L. lia.
    - intros t' Ht'. exists (sw (length l1) t'). split; [apply sw_forall2; exact Ht'|]. split; [apply g_sw_val|].
      intros i Hi Hm. rewrite <- (swi_invol (length l1) i). rewrite g_uses_marked_sw; auto.
      apply Forall2_len in Ht'. rewrite Ht', L. lia.
  Qed.

  Theorem g_operand_order_independent ds ds' :
    Permutation ds ds' -> g_same_outcome (pair_of ds) (pair_of ds').
  Proof.
    intros H. induction H using Permutation_ind_transp.
    - apply g_same_outcome_refl.
    - apply g_operand_swap.
    - eapply g_same_outcome_trans; eassumption.
  Qed.

  (* ==== order and multiplicity of the disjuncts ==== *)
  Lemma g_is_tuple_seq t ds ds' :
    Forall2 (fun d d' : gd => forall c, In c d <-> In c d') ds ds' -> g_is_tuple t ds -> g_is_tuple t ds'.
  Proof.
    intros H. revert t. induction H as [|d d' r r' Hd Hr IH]; intros t Ht.
    - inversion Ht. constructor.
    - inversion Ht as [|c ? t0 ? Hc Ht0]; subst. constructor; [apply Hd; exact Hc | apply IH; exact Ht0].
  Qed.

  Theorem g_disjuncts_as_sets ds ds' :
    Forall2 (fun d d' : gd => forall c, In c d <-> In c d') ds ds' ->
    g_same_outcome (pair_of ds) (pair_of ds').
  Proof.
    intros H.
    assert (H' : Forall2 (fun d d' : gd => forall c, In c d <-> In c d') ds' ds).
    { clear -H. induction H as [|d d' r r' Hd Hr IH]; constructor; [intros c; symmetry; apply Hd | exact IH]. }
    pose proof (Forall2_len _ _ _ H) as L.
    apply (g_transfer ds ds' (fun i => i)).
    - intros i. rewrite L. auto.
    - intros j Hj. exists j. rewrite L. auto.
    - intros t Ht. exists t. split; [eapply g_is_tuple_seq; eauto|]. split; auto.
    - intros t Ht. exists t. split; [eapply g_is_tuple_seq; eauto|]. split; auto.
  Qed.

  Corollary g_disjunct_order_independent l1 d d' l2 :
    Permutation d d' -> g_same_outcome (pair_of (l1 ++ d :: l2)) (pair_of (l1 ++ d' :: l2)).
  Proof.
    intros H. apply g_disjuncts_as_sets. apply Forall2_app; [apply Forall2_same; intros d0 c0; tauto|].
    constructor; [|apply Forall2_same; intros d0 c0; tauto].
    intros c. split; apply Permutation_in; [exact H | apply Permutation_sym, H].
  Qed.

  Corollary g_duplicate_disjunct l1 d c l2 :
    In c d -> g_same_outcome (pair_of (l1 ++ (d ++ [c]) :: l2)) (pair_of (l1 ++ d :: l2)).
  Proof.
    intros H. apply g_disjuncts_as_sets. apply Forall2_app; [apply Forall2_same; intros d0 c0; tauto|].
    constructor; [|apply Forall2_same; intros d0 c0; tauto].
    intros c'. rewrite in_app_iff. simpl. split; [intros [?|[<-|[]]]; auto | auto].
  Qed.

  Theorem g_weaker_copy_irrelevant d r m m' e :
    In (m, e) d -> implb m' m = true ->
    g_same_outcome (pair_of ((d ++ [(m', e)]) :: r)) (pair_of (d :: r)).
  Proof.
    intros Hin Himp.
    apply (g_transfer _ _ (fun i => i)); cbn [length].
    - auto.
    - intros j Hj. exists j. auto.
    - intros t Ht. inversion Ht as [|c ? t0 ? Hc Ht0]; subst. apply in_app_iff in Hc as [Hc|[<-|[]]].
      + exists (c :: t0). split; [constructor; auto|]. split; auto.
      + exists ((m, e) :: t0). split; [constructor; auto|]. split; [reflexivity|].
        intros [|i] _; unfold guses_marked; simpl; auto. intros ->. destruct m; auto.
    - intros t Ht. inversion Ht as [|c ? t0 ? Hc Ht0]; subst. exists (c :: t0).
      split; [constructor; auto; apply in_or_app; auto|]. split; auto.
  Qed.

  (* ==== an eliminated disjunct (one that fails with every choice of the others) ==== *)
  Theorem g_eliminated_disjunct_irrelevant d c r :
    (forall t, g_is_tuple t r -> survives (c :: t) = false) ->
    pair_of ((d ++ [c]) :: r) = pair_of (d :: r).
  Proof.
    intros H. unfold gpair_of.
    assert (S : survivors ((d ++ [c]) :: r) = survivors (d :: r)).
    { unfold gsurvivors. cbn [gtuples]. rewrite flat_map_app, filter_app. cbn [flat_map]. rewrite app_nil_r.
      assert (Z : filter survives (map (cons c) (tuples r)) = []).
      { apply filter_none. intros t Ht. apply in_map_iff in Ht as (t0 & <- & Ht0). apply H. apply g_tuples_spec. exact Ht0. }
      rewrite Z, app_nil_r. reflexivity. }
    rewrite S. reflexivity.
  Qed.

  (* acceptance is the union over the choices, provided errors accept nothing *)
  Theorem g_accept_is_union ds i :
    (forall v, verr v = true -> vacc i v = false) ->
    accepts (pair_of ds) i = existsb (fun t => vacc i (tv t)) (tuples ds).
  Proof.
    intros HE. unfold gaccepts, gpair_of, gsurvivors. rewrite existsb_map_l, existsb_filter. cbn [fst].
    apply existsb_ext. intros t. unfold gsurvives.
    destruct (verr (tv t)) eqn:E; simpl; auto. symmetry. apply HE. exact E.
  Qed.
End GenLaws.

(* two value functions that agree give the same value/default pair *)
Lemma g_pair_ext A V verr (tval tval' : list A -> V) ds :
  (forall t, tval t = tval' t) -> gpair_of A V verr tval ds = gpair_of A V verr tval' ds.
Proof.
  intros H.
  assert (S : gsurvivors A V verr tval ds = gsurvivors A V verr tval' ds).
  { unfold gsurvivors. apply filter_ext. intros t. unfold gsurvives, gtv. rewrite H. reflexivity. }
  unfold gpair_of. rewrite S. apply map_ext. intros t. unfold gtv. rewrite H. reflexivity.
Qed.
