(* Theorems about the order-free disjunction/default semantics (C04). *)
From Verif Require Import Core.Syntax Core.Eval Core.Laws Core.Disj.
From Coq Require Import List Bool Arith Lia Permutation.
Import ListNotations.

Lemma existsb_map_l {A B} (f : B -> bool) (g : A -> B) l : existsb f (map g l) = existsb (fun x => f (g x)) l.
Proof. induction l as [|a l IH]; simpl; auto. rewrite IH. reflexivity. Qed.

Lemma existsb_filter {A} (f p : A -> bool) l : existsb f (filter p l) = existsb (fun x => p x && f x) l.
Proof. induction l as [|a l IH]; simpl; auto. destruct (p a); simpl; rewrite IH; reflexivity. Qed.

Section DisjLaws.
  Variable labs : list label.
  Variable atoms : list atom.
  Variable fuel : nat.

  Notation tuple_val := (tuple_val labs atoms fuel).
  Notation survives := (survives labs atoms fuel).
  Notation survivors := (survivors labs atoms fuel).
  Notation pair_of := (pair_of labs atoms fuel).

  (* ---- tuples are exactly the choices of one disjunct per disjunction ---------- *)
  Definition is_tuple (t : list (bool * expr)) (ds : list disj) : Prop :=
    Forall2 (fun c d => In c d) t ds.

  Lemma tuples_spec ds : forall t, In t (tuples ds) <-> is_tuple t ds.
  Proof.
    induction ds as [|d r IH]; intros t; simpl.
    - split; [intros [<-|[]]; constructor | intros H; inversion H; auto].
    - rewrite in_flat_map. split.
      + intros (c & Hc & Ht). apply in_map_iff in Ht as (t' & <- & Ht'). constructor; auto. apply IH; auto.
      + intros H. inversion H as [|c d' t' r' Hc Ht']; subst. exists c. split; auto.
        apply in_map. apply IH. exact Ht'.
  Qed.

  (* ---- the value is the union of the disjuncts distributed over & -------------- *)
  Lemma res_accepts_err i r : res_err r = true -> res_accepts i r = false.
  Proof. destruct r; simpl; try reflexivity; discriminate. Qed.

  Theorem accept_is_union plain ds i :
    accepts (pair_of plain ds) i =
    existsb (fun t => res_accepts i (tuple_val plain t)) (tuples ds).
  Proof.
    unfold accepts, Disj.pair_of, Disj.survivors. rewrite existsb_map_l, existsb_filter. cbn [fst].
    apply existsb_ext. intros t. unfold Disj.survives.
    destruct (res_err (Disj.tuple_val labs atoms fuel plain t)) eqn:E; simpl; auto.
    symmetry. apply res_accepts_err. exact E.
  Qed.

  (* ---- resolution never chooses silently ---------------------------------------- *)
  Theorem resolve_never_silent p v :
    resolve p = Chosen v ->
    (defaults p = [v]) \/ (defaults p = [] /\ values p = [v]).
  Proof.
    unfold resolve. destruct (defaults p) as [|d [|d' ds]].
    - destruct (values p) as [|x [|y ys]]; try discriminate. intros [= ->]. right; auto.
    - intros [= ->]. left; reflexivity.
    - discriminate.
  Qed.

  Lemma mem_res_in r l : mem_res r l = true -> exists r', In r' l /\ res_eqb r r' = true.
  Proof. unfold mem_res. rewrite existsb_exists. intros (x & H1 & H2). eauto. Qed.

  Lemma dedup_incl l : forall r, In r (dedup l) -> In r l.
  Proof.
    induction l as [|a l IH]; simpl; auto. intros r. destruct (mem_res a l); simpl; auto.
    intros [->|H]; auto.
  Qed.

  (* a chosen value is the value of a surviving tuple *)
  Theorem chosen_is_survivor plain ds v :
    resolve (pair_of plain ds) = Chosen v ->
    exists t, is_tuple t ds /\ survives plain t = true /\ tuple_val plain t = v.
  Proof.
    intros H. apply resolve_never_silent in H.
    assert (Hin : In v (map fst (pair_of plain ds))).
    { destruct H as [H|[_ H]].
      - unfold defaults in H. assert (I : In v (dedup (map fst (filter snd (pair_of plain ds))))) by (rewrite H; left; auto).
        apply dedup_incl in I. apply in_map_iff in I as (x & <- & Hx). apply filter_In in Hx as [Hx _].
        apply in_map. exact Hx.
      - unfold values in H. assert (I : In v (dedup (map fst (pair_of plain ds)))) by (rewrite H; left; auto).
        apply dedup_incl in I. exact I. }
    apply in_map_iff in Hin as ([v' f] & E & Hp). simpl in E. subst v'.
    unfold Disj.pair_of in Hp. apply in_map_iff in Hp as (t & E & Ht). injection E as E _.
    unfold Disj.survivors in Ht. apply filter_In in Ht as [Ht Hs].
    exists t. split; [apply tuples_spec; exact Ht | auto].
  Qed.

  (* ---- order of the operands inside a tuple / of the plain operands -------------- *)
  Theorem tuple_val_perm plain plain' t t' :
    Laws.seq (plain ++ map snd t) (plain' ++ map snd t') -> tuple_val plain t = tuple_val plain' t'.
  Proof. intros H. unfold Disj.tuple_val. apply eval_group_perm. exact H. Qed.

  (* a failed disjunct (bottom) never survives, whatever the other choices *)
  Theorem bottom_disjunct_fails plain t m :
    fuel <> 0 -> In (m, EBot) t -> survives plain t = false.
  Proof.
    intros Hf Hin. unfold Disj.survives, Disj.tuple_val, evalNode.
    destruct fuel as [|f]; [congruence|]. cbn [evalFlat].
    assert (B : n_bot (flat_all [mkConj false (plain ++ map snd t)]) = true).
    { rewrite fa_bot. cbn [existsb]. rewrite orb_false_r. unfold flat_conj. cbn [n_bot c_rec c_exprs].
      rewrite fe_bot. apply existsb_exists. exists EBot. split; [|reflexivity].
      apply in_or_app. right. apply in_map_iff. exists (m, EBot). auto. }
    rewrite B. reflexivity.
  Qed.

  (* a failed disjunct - marked or not - added to a disjunction changes nothing: neither the
     values, nor their default flags, nor the resolution, nor acceptance *)
  Theorem failed_disjunct_irrelevant plain d r m :
    fuel <> 0 ->
    pair_of plain ((d ++ [(m, EBot)]) :: r) = pair_of plain (d :: r).
  Proof.
    intros Hf. unfold Disj.pair_of.
    assert (S : survivors plain ((d ++ [(m, EBot)]) :: r) = survivors plain (d :: r)).
    { unfold Disj.survivors. cbn [tuples]. rewrite flat_map_app, filter_app. cbn [flat_map].
      rewrite app_nil_r.
      assert (Z : filter (survives plain) (map (cons (m, EBot)) (tuples r)) = []).
      { induction (tuples r) as [|t ts IH]; simpl; auto.
        rewrite (bottom_disjunct_fails plain ((m, EBot) :: t) m Hf) by (left; reflexivity). exact IH. }
      rewrite Z, app_nil_r. reflexivity. }
    rewrite S. reflexivity.
  Qed.

  (* two copies of the same surviving value resolve like one ("a|a, *a|a, *a|*a resolve to a") *)
  Theorem resolve_single_value v f1 f2 :
    res_eqb v v = true -> resolve [(v, f1); (v, f2)] = Chosen v.
  Proof.
    intros E. unfold resolve, defaults, values. destruct f1, f2; simpl; unfold mem_res; simpl; rewrite ?E; simpl; reflexivity.
  Qed.
End DisjLaws.
