(* C04: disjunctions and defaults on top of CoreCUE, order free.

   An expression is a conjunction of plain (disjunction-free) operands and flat
   disjunctions D_i = [(marked, e)], whose disjuncts are disjunction-free.
   Following the spec (value/default pairs, rules U0-U2, D0-D2, M0-M1 and the rule
   that a marked disjunction all of whose marked disjuncts are eliminated counts as
   unmarked), read without reference to the order of the operands:

     - the value is the set of SURVIVORS: the tuples (one disjunct per disjunction)
       whose unification with the plain operands is not an error;
     - a disjunction is EFFECTIVELY MARKED iff some survivor uses one of its marked
       disjuncts;
     - a survivor is a DEFAULT iff some disjunction is effectively marked and the
       survivor uses a marked disjunct of every effectively marked disjunction;
     - resolution: the unique default value, else the unique value, else ambiguity
       (never a silently chosen value). *)
From Verif Require Import Core.Syntax Core.Eval.
From Coq Require Import List Bool Arith.
Import ListNotations.

Definition disj : Type := list (bool * expr).

(* decidable equality of result trees *)
Fixpoint list_eqb {A} (eqb : A -> A -> bool) (x y : list A) : bool :=
  match x, y with
  | [], [] => true
  | a :: x', b :: y' => eqb a b && list_eqb eqb x' y'
  | _, _ => false
  end.

Definition fpres_eqb (a b : fpres) : bool :=
  match a, b with
  | PAbsent, PAbsent | POptional, POptional | PRequired, PRequired | PRegular, PRegular => true
  | _, _ => false
  end.

Fixpoint res_eqb (a b : res) : bool :=
  match a, b with
  | RBot, RBot | RFuel, RFuel => true
  | RVal k1 a1 p1, RVal k2 a2 p2 => list_eqb Bool.eqb k1 k2 && list_eqb Bool.eqb a1 a2 && list_eqb Bool.eqb p1 p2
  | RStruct f1 o1, RStruct f2 o2 =>
    (fix go (x y : list (fpres * res)) : bool :=
       match x, y with
       | [], [] => true
       | (p, r) :: x', (q, s) :: y' => fpres_eqb p q && res_eqb r s && go x' y'
       | _, _ => false
       end) f1 f2 && list_eqb Bool.eqb o1 o2
  | _, _ => false
  end.

Section Disj.
  Variable labs : list label.
  Variable atoms : list atom.
  Variable fuel : nat.

  (* all choices of one disjunct per disjunction *)
  Fixpoint tuples (ds : list disj) : list (list (bool * expr)) :=
    match ds with
    | [] => [[]]
    | d :: r => flat_map (fun c => map (cons c) (tuples r)) d
    end.

  Definition tuple_val (plain : list expr) (t : list (bool * expr)) : res :=
    evalNode labs atoms fuel [mkConj false (plain ++ map snd t)].

  Definition survives (plain : list expr) (t : list (bool * expr)) : bool :=
    negb (res_err (tuple_val plain t)).

  Definition survivors (plain : list expr) (ds : list disj) : list (list (bool * expr)) :=
    filter (survives plain) (tuples ds).

  (* does the survivor use a marked disjunct at position i? *)
  Definition uses_marked (i : nat) (t : list (bool * expr)) : bool :=
    match nth_error t i with Some (m, _) => m | None => false end.

  Definition eff_marked (svs : list (list (bool * expr))) (i : nat) : bool :=
    existsb (uses_marked i) svs.

  Definition is_default (n : nat) (svs : list (list (bool * expr))) (t : list (bool * expr)) : bool :=
    existsb (eff_marked svs) (seq 0 n) &&
    forallb (fun i => negb (eff_marked svs i) || uses_marked i t) (seq 0 n).

  (* the value/default pair: surviving values, each with its default flag *)
  Definition pair_of (plain : list expr) (ds : list disj) : list (res * bool) :=
    let svs := survivors plain ds in
    map (fun t => (tuple_val plain t, is_default (length ds) svs t)) svs.

  Definition mem_res (r : res) (l : list res) : bool := existsb (res_eqb r) l.

  Fixpoint dedup (l : list res) : list res :=
    match l with
    | [] => []
    | r :: rest => if mem_res r rest then dedup rest else r :: dedup rest
    end.

  Definition values (p : list (res * bool)) : list res := dedup (map fst p).
  Definition defaults (p : list (res * bool)) : list res :=
    dedup (map fst (filter snd p)).

  Inductive resolution := Chosen (r : res) | Ambiguous | NoValue.

  Definition resolve (p : list (res * bool)) : resolution :=
    match defaults p with
    | [d] => Chosen d
    | _ :: _ :: _ => Ambiguous
    | [] => match values p with
            | [v] => Chosen v
            | [] => NoValue
            | _ => Ambiguous
            end
    end.

  (* an atom is accepted iff some survivor accepts it: the value is the union of the
     disjuncts distributed over & *)
  Definition res_accepts (i : nat) (r : res) : bool :=
    match r with RVal _ acc _ => nth i acc false | _ => false end.

  Definition accepts (p : list (res * bool)) (i : nat) : bool :=
    existsb (fun vd => res_accepts i (fst vd)) p.

  (* some disjunction carries marks, yet none of its marked disjuncts survives: the case in
     which the spec's prose rule ("counts as unmarked") matters and in which a left fold over
     the disjunctions is order dependent (known finding F2) *)
  Definition has_marks (d : disj) : bool := existsb fst d.

  Definition late_elimination (plain : list expr) (ds : list disj) : bool :=
    let svs := survivors plain ds in
    existsb (fun i => match nth_error ds i with
                      | Some d => has_marks d && negb (eff_marked svs i)
                      | None => false end) (seq 0 (length ds)).

  (* some disjunction is effectively marked, yet no survivor uses a marked disjunct of all of
     them: the defaults of the operands conflict (U2 gives the default bottom) *)
  Definition conflicting_defaults (plain : list expr) (ds : list disj) : bool :=
    let svs := survivors plain ds in
    existsb (eff_marked svs) (seq 0 (length ds)) && negb (existsb (is_default (length ds) svs) svs).

  (* the class on which a left fold with per-step default bookkeeping (cue's crossProduct)
     is order dependent: known finding F2 *)
  Definition fold_sensitive (plain : list expr) (ds : list disj) : bool :=
    late_elimination plain ds || conflicting_defaults plain ds.

  Definition eval_disj (plain : list expr) (ds : list disj)
    : resolution * list bool * bool * list res :=
    let p := pair_of plain ds in
    (resolve p, map (accepts p) (seq 0 (length atoms)), fold_sensitive plain ds, values p).
End Disj.
