(* Conjunct-set semantics of disjunction-free CoreCUE.

   [evalNode fuel cs] evaluates a node given ALL its conjuncts.  Every component
   of the result is a query ([existsb]/[forallb]/[flat_map]) over what the
   conjuncts declare, reported over a fixed universe of labels [labs] and probe
   atoms [atoms] - so the result does not depend on the order, grouping or
   multiplicity of the conjuncts (Core/Laws.v).

   Closedness follows the calibration probes of DESIGN.md Appendix A and
   design/Core.md: every closed scope contributes one "closer" (an allow-set);
   a regular field is an error unless EVERY closer of the node allows it.
     - a struct literal reached through a definition ([ERefDef], recursively:
       [c_rec]) or directly under [close()] is a closer allowing what it declares
       (fields, patterns, "...", through its embeddings);
     - a closed expression at an embedded position additionally allows what the
       OTHER declarations of the enclosing literal declare ([extra]), which is
       why [{#A, z: 1}] admits z, [{#A, #B}] admits the fields of both, but
       [{#A & #B} & {a: 1}] does not admit a;
     - hidden and definition labels are never restricted. *)
From Verif Require Import Core.Syntax.
From Coq Require Import List Bool ZArith NArith.
Import ListNotations.

Record allowset := mkAllow { al_labels : list label; al_pats : list (list N); al_open : bool }.

Definition al_empty : allowset := mkAllow [] [] false.
Definition al_union (a b : allowset) : allowset :=
  mkAllow (al_labels a ++ al_labels b) (al_pats a ++ al_pats b) (al_open a || al_open b).

Definition memN (x : N) (l : list N) : bool := existsb (N.eqb x) l.

Definition allows (a : allowset) (l : label) : bool :=
  al_open a || existsb (label_eqb l) (al_labels a) ||
  match l with LReg s => existsb (memN s) (al_pats a) | _ => false end.

Definition allowed (closers : list allowset) (l : label) : bool :=
  is_special l || forallb (fun a => allows a l) closers.

Definition decl_head_declared (h : dhead) : allowset :=
  match h with
  | HField l _ => mkAllow [l] [] false
  | HPattern p => mkAllow [] [p] false
  | HEllipsis => mkAllow [] [] true
  | HEmbed => al_empty
  end.

(* everything declared beneath e, through &, close, definition bodies and embeddings *)
Fixpoint declared (e : expr) : allowset :=
  match e with
  | EAnd a b => al_union (declared a) (declared b)
  | EClose e' | ERefDef e' => declared e'
  | EStruct ds =>
    (fix go (ds : list (dhead * expr)) : allowset :=
       match ds with
       | [] => al_empty
       | (h, e') :: r =>
         al_union (match h with HEmbed => declared e' | _ => decl_head_declared h end) (go r)
       end) ds
  | _ => al_empty
  end.

Definition decl_declared (d : dhead * expr) : allowset :=
  match fst d with HEmbed => declared (snd d) | h => decl_head_declared h end.

Definition decls_declared (ds : list (dhead * expr)) : allowset :=
  fold_right (fun d acc => al_union (decl_declared d) acc) al_empty ds.

Record gpart := mkPart {
  gp_rec : bool;
  gp_fields : list (label * fkind * expr);
  gp_pats : list (list N * expr) }.

Record flat := mkFlat {
  f_bot : bool;
  f_scal : list sconstr;
  f_struct : bool;
  f_own : list (label * fkind * expr);    (* fields of the current group *)
  f_ownp : list (list N * expr);          (* patterns of the current group *)
  f_subs : list (list (label * fkind * expr) * list (list N * expr));
                                          (* new recursively closed groups started at this node *)
  f_closers : list allowset }.

Definition flat_empty : flat := mkFlat false [] false [] [] [] [].
Definition flat_app (a b : flat) : flat :=
  mkFlat (f_bot a || f_bot b) (f_scal a ++ f_scal b) (f_struct a || f_struct b)
         (f_own a ++ f_own b) (f_ownp a ++ f_ownp b) (f_subs a ++ f_subs b)
         (f_closers a ++ f_closers b).

Definition is_embed (h : dhead) : bool := match h with HEmbed => true | _ => false end.

(* a literal is struct-like by itself unless it consists of embeddings only *)
Definition own_struct (ds : list (dhead * expr)) : bool :=
  match ds with [] => true | _ => existsb (fun d => negb (is_embed (fst d))) ds end.

(* does e reach a definition through &, and embeddings of literals (not through close)?
   A literal embedding such an expression becomes itself recursively closed. *)
Fixpoint reaches_def (e : expr) : bool :=
  match e with
  | ERefDef _ => true
  | EAnd a b => reaches_def a || reaches_def b
  | EStruct ds =>
    (fix go (ds : list (dhead * expr)) : bool :=
       match ds with
       | [] => false
       | (h, e') :: r => (match h with HEmbed => reaches_def e' | _ => false end) || go r
       end) ds
  | _ => false
  end.

(* does e reach an OPEN definition or close() (one declaring "...") the same way? *)
Fixpoint reaches_open_def (e : expr) : bool :=
  match e with
  | ERefDef e' | EClose e' => al_open (declared e')
  | EAnd a b => reaches_open_def a || reaches_open_def b
  | EStruct ds =>
    (fix go (ds : list (dhead * expr)) : bool :=
       match ds with
       | [] => false
       | (h, e') :: r => (match h with HEmbed => reaches_open_def e' | _ => false end) || go r
       end) ds
  | _ => false
  end.

(* turn the current-group part of a flat into a new recursively closed group *)
Definition seal (fl : flat) : flat :=
  mkFlat (f_bot fl) (f_scal fl) (f_struct fl) [] []
         ((f_own fl, f_ownp fl) :: f_subs fl) (f_closers fl).

Definition with_closer (a : allowset) (fl : flat) : flat :=
  mkFlat (f_bot fl) (f_scal fl) (f_struct fl) (f_own fl) (f_ownp fl) (f_subs fl)
         (a :: f_closers fl).

(* [rec]: the current group is recursively closed (inside a definition).
   [extra]: what the enclosing embedding scope declares (widens closers met here). *)
Fixpoint flatten (rec : bool) (extra : allowset) (e : expr) : flat :=
  match e with
  | ETop => flat_empty
  | EBot => mkFlat true [] false [] [] [] []
  | EScalar c => mkFlat false [c] false [] [] [] []
  | EAnd a b => flat_app (flatten rec extra a) (flatten rec extra b)
  | ERefDef e' =>
    (* a definition in & position is a recursively closed group of its own *)
    with_closer (al_union (declared e') extra) (seal (flatten true extra e'))
  | EClose e' => with_closer (al_union (declared e') extra) (flatten rec extra e')
  | EStruct ds =>
    (* a literal that embeds (closed) definitions in an open context becomes one
       recursively closed group together with them, unless one of them is open *)
    let sealed := negb rec && reaches_def e && negb (reaches_open_def e) in
    let merge := rec || sealed in
    let body :=
      (fix go (before : allowset) (ds : list (dhead * expr)) : flat :=
         match ds with
         | [] => flat_empty
         | (h, e') :: r =>
           let rest := go (al_union before (decl_declared (h, e'))) r in
           match h with
           | HField l k => flat_app (mkFlat false [] true [(l, k, e')] [] [] []) rest
           | HPattern p => flat_app (mkFlat false [] true [] [(p, e')] [] []) rest
           | HEllipsis => flat_app (mkFlat false [] true [] [] [] []) rest
           | HEmbed =>
             let ex := al_union (al_union before (decls_declared r)) extra in
             match e' with
             | ERefDef b =>
               (* an embedded definition: its fields merge with the literal's own
                  (one group, closed together at the children as well) *)
               if merge
               then flat_app (with_closer (al_union (declared b) ex) (flatten true ex b)) rest
               else flat_app (flatten rec ex e') rest
             | _ => flat_app (flatten merge ex e') rest
             end
           end
         end) al_empty ds in
    let body := mkFlat (f_bot body) (f_scal body) (f_struct body || own_struct ds)
                       (f_own body) (f_ownp body) (f_subs body) (f_closers body) in
    if sealed then seal body else body
  end.

(* one group: its expressions are flattened in the same scope; a recursively closed
   group is closed as a whole by what all its members declare *)
Definition all_declared (es : list expr) : allowset :=
  fold_right (fun e acc => al_union (declared e) acc) al_empty es.

(* does the group contain a struct literal of its own (through & and close, not through
   a definition reference, which has its own closer)? *)
Fixpoint own_lit (e : expr) : bool :=
  match e with
  | EStruct _ => true
  | EAnd a b => own_lit a || own_lit b
  | EClose e' => own_lit e'
  | _ => false
  end.

Definition flat_exprs (rec : bool) (es : list expr) : flat :=
  fold_right (fun e acc => flat_app (flatten rec al_empty e) acc) flat_empty es.

Record nflat := mkNFlat {
  n_bot : bool;
  n_scal : list sconstr;
  n_struct : bool;
  n_parts : list gpart;
  n_closers : list allowset }.

Definition nflat_empty : nflat := mkNFlat false [] false [] [].
Definition nflat_app (a b : nflat) : nflat :=
  mkNFlat (n_bot a || n_bot b) (n_scal a ++ n_scal b) (n_struct a || n_struct b)
          (n_parts a ++ n_parts b) (n_closers a ++ n_closers b).

Definition flat_conj (c : conj) : nflat :=
  let fl := flat_exprs (c_rec c) (c_exprs c) in
  mkNFlat (f_bot fl) (f_scal fl) (f_struct fl)
          (mkPart (c_rec c) (f_own fl) (f_ownp fl) ::
           map (fun s => mkPart true (fst s) (snd s)) (f_subs fl))
          ((if c_rec c && existsb own_lit (c_exprs c) then [all_declared (c_exprs c)] else []) ++ f_closers fl).

Definition flat_all (cs : list conj) : nflat :=
  fold_right (fun c acc => nflat_app (flat_conj c) acc) nflat_empty cs.


(* ---- results -------------------------------------------------------------- *)
Inductive fpres := PAbsent | POptional | PRequired | PRegular.

Inductive res :=
| RBot
| RFuel
| RVal (kinds : list bool)     (* per kind of all_kinds: admitted *)
       (acc : list bool)       (* per probe atom: accepted *)
       (pin : list bool)       (* per probe atom: the value is that atom *)
| RStruct (fs : list (fpres * res))   (* per label of the universe *)
          (open_for : list bool).     (* per label of the universe: may be added *)

Definition fk_is (k k' : fkind) : bool :=
  match k, k' with FRegular, FRegular | FRequired, FRequired | FOptional, FOptional => true | _, _ => false end.

Definition has_field (fl : nflat) (l : label) (k : fkind) : bool :=
  existsb (fun p => existsb (fun f => label_eqb (fst (fst f)) l && fk_is (snd (fst f)) k) (gp_fields p))
          (n_parts fl).

Definition presence (fl : nflat) (l : label) : fpres :=
  if has_field fl l FRegular then PRegular
  else if has_field fl l FRequired then PRequired
  else if has_field fl l FOptional then POptional
  else PAbsent.

Definition pat_matches (p : list N) (l : label) : bool :=
  match l with LReg s => memN s p | _ => false end.

(* the values one group gives to the field l: declared values and values of matching patterns *)
Definition part_values (p : gpart) (l : label) : list expr :=
  flat_map (fun f => if label_eqb (fst (fst f)) l then [snd f] else []) (gp_fields p) ++
  flat_map (fun q => if pat_matches (fst q) l then [snd q] else []) (gp_pats p).

Definition null {A} (l : list A) : bool := match l with [] => true | _ => false end.

(* all conjunct groups of the field l.  What the open (not recursively closed) groups
   of the node give to l forms ONE open group - open groups are not closed as a unit, so
   how their values are grouped is immaterial; every recursively closed group of the
   node gives one recursively closed group. *)
Definition open_values (fl : nflat) (l : label) : list expr :=
  flat_map (fun p => if gp_rec p then [] else part_values p l) (n_parts fl).

Definition rec_children (fl : nflat) (l : label) : list conj :=
  flat_map (fun p => if gp_rec p
                     then (let vs := part_values p l in if null vs then [] else [mkConj true vs])
                     else []) (n_parts fl).

Definition children (fl : nflat) (l : label) : list conj :=
  (let vs := open_values fl l in if null vs then [] else [mkConj false vs]) ++ rec_children fl l.

Definition is_atom_c (a : atom) (c : sconstr) : bool :=
  match c with SAtom b => atom_eqb a b | _ => false end.

Definition scalar_bottom (scs : list sconstr) : bool :=
  negb (existsb (fun k => forallb (sc_kind_ok k) scs) all_kinds) ||
  existsb (fun c => match c with SAtom a => negb (forallb (ssat a) scs) | _ => false end) scs.


(* a struct with an erroneous regular or required field is itself an error *)
Fixpoint res_err_aux (r : res) : bool :=
  match r with
  | RBot | RFuel => true
  | RVal _ _ _ => false
  | RStruct fs _ =>
    existsb (fun pr => match fst pr with
                       | PRegular | PRequired => res_err_aux (snd pr)
                       | _ => false end) fs
  end.

Section Eval.
  Variable labs : list label.     (* label universe of the program (incl. a fresh label) *)
  Variable atoms : list atom.     (* probe atoms *)

  Fixpoint evalFlat (fuel : nat) (fl : nflat) : res :=
    match fuel with
    | O => RFuel
    | S f =>
      if n_bot fl then RBot
      else if n_struct fl && negb (null (n_scal fl)) then RBot
      else if n_struct fl then
        RStruct
          (map (fun l =>
                  match presence fl l with
                  | PAbsent => (PAbsent, RVal [] [] [])
                  | p =>
                    (* a declared field (of any kind) whose label some closer does not
                       allow is an error ("field not allowed") *)
                    (p, if allowed (n_closers fl) l then evalFlat f (flat_all (children fl l)) else RBot)
                  end) labs)
          (* may a regular field l be added by a further conjunct {l: _} ?  It must be
             allowed by every closer and the constraints already applying to l
             (declared values and matching patterns) must not be in error *)
          (map (fun l => allowed (n_closers fl) l &&
                         negb (res_err_aux (evalFlat f (flat_all (children fl l))))) labs)
      else if scalar_bottom (n_scal fl) then RBot
      else RVal (map (fun k => forallb (sc_kind_ok k) (n_scal fl)) all_kinds)
                (map (fun a => forallb (ssat a) (n_scal fl)) atoms)
                (map (fun a => existsb (is_atom_c a) (n_scal fl)) atoms)
    end.

  Definition evalNode (fuel : nat) (cs : list conj) : res := evalFlat fuel (flat_all cs).

  Definition res_err := res_err_aux.

  (* no error, every regular field concrete, no required field left unfilled *)
  Fixpoint res_concrete (r : res) : bool :=
    match r with
    | RBot | RFuel => false
    | RVal _ _ pin => existsb (fun b => b) pin
    | RStruct fs _ =>
      forallb (fun pr => match fst pr with
                         | PRegular => res_concrete (snd pr)
                         | PRequired => false
                         | _ => true end) fs
    end.
End Eval.
