(* C05, declaratively: when does a set of conjuncts (schemas and a data struct)
   unify to a concrete, error-free value?  [admits] reads like the property:
     - every field PRESENT in the result (declared regular by any conjunct) is allowed
       by EVERY closer of the node (named field, matching pattern or "...", embeddings
       widen; hidden/definition labels are never restricted),
     - every constraint that applies to a present field (declared values of any kind and
       matching patterns, from every conjunct) is satisfied, recursively,
     - every required field is present,
     - optional constraints on absent fields do not matter,
     - a scalar position holds one atom that satisfies every constraint.
   [admission] shows that the evaluator's result tree is concrete and error free
   exactly in that case. *)
From Verif Require Import Core.Syntax Core.Eval Core.Laws.
From Coq Require Import List Bool.
Import ListNotations.

Section Spec.
  Variable labs : list label.
  Variable atoms : list atom.

  Fixpoint admits (fuel : nat) (fl : nflat) : bool :=
    match fuel with
    | O => false
    | S f =>
      negb (n_bot fl) &&
      if n_struct fl then
        null (n_scal fl) &&
        forallb (fun l => match presence fl l with
                          | PAbsent | POptional => true
                          | PRequired => false
                          | PRegular => allowed (n_closers fl) l && admits f (flat_all (children fl l))
                          end) labs
      else
        existsb (fun a => existsb (is_atom_c a) (n_scal fl) && forallb (ssat a) (n_scal fl)) atoms
    end.

  Definition res_ok (r : res) : bool := negb (res_err r) && res_concrete r.

  Lemma ssat_kind_ok a c : ssat a c = true -> sc_kind_ok (atom_kind a) c = true.
  Proof.
    destruct c as [b| k | z | z | z | z | z]; simpl.
    - intros H. apply atom_eqb_eq in H. subst b. destruct a; reflexivity.
    - destruct a, k; simpl; auto.
    - destruct a; try discriminate; reflexivity.
    - destruct a; try discriminate; reflexivity.
    - destruct a; try discriminate; reflexivity.
    - destruct a; try discriminate; reflexivity.
    - destruct a; try discriminate; reflexivity.
  Qed.

  Lemma atom_kind_in_all a : In (atom_kind a) all_kinds.
  Proof. destruct a; simpl; auto. Qed.

  Lemma scalar_ok scs :
    negb (scalar_bottom scs) && existsb (fun b => b) (map (fun a => existsb (is_atom_c a) scs) atoms) =
    existsb (fun a => existsb (is_atom_c a) scs && forallb (ssat a) scs) atoms.
  Proof.
    apply bool_eq_iff. rewrite andb_true_iff, negb_true_iff, !existsb_exists. split.
    - intros [Hb (b & Hb1 & Hb2)]. apply in_map_iff in Hb1 as (a & <- & Ha).
      exists a. split; auto. rewrite Hb2. simpl.
      unfold scalar_bottom in Hb. apply orb_false_iff in Hb as [_ Hb].
      apply existsb_exists in Hb2 as (c & Hc & Hac). destruct c as [a'| | | | | |]; try discriminate.
      apply atom_eqb_eq in Hac. subst a'.
      destruct (forallb (ssat a) scs) eqn:E; auto.
      assert (X : existsb (fun c => match c with SAtom a0 => negb (forallb (ssat a0) scs) | _ => false end) scs = true).
      { apply existsb_exists. exists (SAtom a). split; auto. rewrite E. reflexivity. }
      congruence.
    - intros (a & Ha & H). apply andb_true_iff in H as [H1 H2]. split.
      + unfold scalar_bottom. apply orb_false_iff. split.
        * apply negb_false_iff. apply existsb_exists. exists (atom_kind a). split; [apply atom_kind_in_all|].
          apply forallb_forall. intros c Hc. apply ssat_kind_ok. rewrite forallb_forall in H2. auto.
        * apply not_true_is_false. intros X. apply existsb_exists in X as (c & Hc & X).
          destruct c as [b| | | | | |]; try discriminate. apply negb_true_iff in X.
          rewrite forallb_forall in H2. pose proof (H2 _ Hc) as E. simpl in E. apply atom_eqb_eq in E. subst b.
          assert (forallb (ssat a) scs = true) by (apply forallb_forall; auto). congruence.
      + exists true. split; auto. apply in_map_iff. exists a. split; auto.
  Qed.

  Lemma existsb_map' {A B} (f : B -> bool) (g : A -> B) l : existsb f (map g l) = existsb (fun x => f (g x)) l.
  Proof. induction l as [|a l IH]; simpl; auto. rewrite IH. reflexivity. Qed.

  Lemma forallb_map' {A B} (f : B -> bool) (g : A -> B) l : forallb f (map g l) = forallb (fun x => f (g x)) l.
  Proof. induction l as [|a l IH]; simpl; auto. rewrite IH. reflexivity. Qed.

  Lemma negb_existsb_forallb {A} (e c : A -> bool) l :
    negb (existsb e l) && forallb c l = forallb (fun x => negb (e x) && c x) l.
  Proof.
    induction l as [|a l IH]; simpl; auto. rewrite <- IH.
    destruct (e a), (c a), (existsb e l), (forallb c l); reflexivity.
  Qed.

  Lemma forallb_ext' {A} (f g : A -> bool) l : (forall x, f x = g x) -> forallb f l = forallb g l.
  Proof. intros H. induction l as [|a l IH]; simpl; auto. rewrite H, IH. reflexivity. Qed.

  (* C05: the evaluator's result is concrete and error free exactly when the conjuncts admit *)
  Theorem admission fuel : forall fl, res_ok (evalFlat labs atoms fuel fl) = admits fuel fl.
  Proof.
    induction fuel as [|f IH]; intros fl; [reflexivity|].
    cbn [evalFlat admits]. destruct (n_bot fl); [reflexivity|]. cbn [negb andb].
    destruct (n_struct fl) eqn:Es.
    - cbn [andb]. destruct (null (n_scal fl)) eqn:En; cbn [negb andb]; [|reflexivity].
      unfold res_ok, res_err. cbn [res_err_aux res_concrete].
      rewrite existsb_map', forallb_map', negb_existsb_forallb.
      apply forallb_ext'. intros l.
      specialize (IH (flat_all (children fl l))). unfold res_ok, res_err in IH.
      destruct (presence fl l) eqn:Ep; cbn [fst snd res_err_aux res_concrete negb andb]; auto.
      + apply andb_false_r.
      + destruct (allowed (n_closers fl) l); cbn [res_err_aux res_concrete andb orb negb]; auto.
    - destruct (scalar_bottom (n_scal fl)) eqn:Eb.
      + unfold res_ok; cbn. symmetry. rewrite <- scalar_ok, Eb. reflexivity.
      + unfold res_ok, res_err. cbn [res_err_aux res_concrete negb andb]. rewrite <- scalar_ok, Eb. reflexivity.
  Qed.

  Definition admits_conjs (fuel : nat) (cs : list conj) : bool := admits fuel (flat_all cs).

  Corollary admission_conjs fuel cs :
    res_ok (evalNode labs atoms fuel cs) = admits_conjs fuel cs.
  Proof. apply admission. Qed.

  Corollary admits_order_free fuel cs cs' :
    ceqs cs cs' -> res_ok (evalNode labs atoms fuel cs) = res_ok (evalNode labs atoms fuel cs').
  Proof. intros H. rewrite (evalNode_ceqs labs atoms fuel cs cs' H). reflexivity. Qed.

  (* ---- consequences, in the words of the property ------------------------------ *)
  (* a closed struct never silently gains a disallowed field *)
  Theorem closed_never_gains fuel cs l :
    In l labs -> presence (flat_all cs) l = PRegular -> allowed (n_closers (flat_all cs)) l = false ->
    n_struct (flat_all cs) = true ->
    res_ok (evalNode labs atoms fuel cs) = false.
  Proof.
    intros Hl Hp Ha Hs. rewrite admission_conjs. unfold admits_conjs.
    destruct fuel as [|f]; [reflexivity|]. cbn [admits]. rewrite Hs.
    destruct (n_bot (flat_all cs)); [reflexivity|]. cbn [negb andb].
    destruct (null (n_scal (flat_all cs))); [|reflexivity]. cbn [andb].
    apply not_true_is_false. intros H. rewrite forallb_forall in H. specialize (H l Hl).
    rewrite Hp, Ha in H. discriminate.
  Qed.

  (* hidden and definition fields are never restricted *)
  Theorem special_always_allowed closers l : is_special l = true -> allowed closers l = true.
  Proof. intros H. unfold allowed. rewrite H. reflexivity. Qed.

  (* an open struct (no closed scope at the node) never rejects a field for its label *)
  Theorem open_never_rejects closers l : closers = [] -> allowed closers l = true.
  Proof. intros ->. unfold allowed. simpl. apply orb_true_r. Qed.

  (* a required field that no conjunct provides makes the unification fail *)
  Theorem required_must_be_present fuel cs l :
    In l labs -> presence (flat_all cs) l = PRequired -> n_struct (flat_all cs) = true ->
    res_ok (evalNode labs atoms fuel cs) = false.
  Proof.
    intros Hl Hp Hs. rewrite admission_conjs. unfold admits_conjs.
    destruct fuel as [|f]; [reflexivity|]. cbn [admits]. rewrite Hs.
    destruct (n_bot (flat_all cs)); [reflexivity|]. cbn [negb andb].
    destruct (null (n_scal (flat_all cs))); [|reflexivity]. cbn [andb].
    apply not_true_is_false. intros H. rewrite forallb_forall in H. specialize (H l Hl).
    rewrite Hp in H. discriminate.
  Qed.
End Spec.
