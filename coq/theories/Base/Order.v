(* Comparison functions that are total orders, and their lexicographic combinations. *)
From Coq Require Import List Arith NArith Lia.
Import ListNotations.

Record total_cmp {A : Type} (c : A -> A -> comparison) : Prop := {
  tc_eq : forall x y, c x y = Eq <-> x = y;
  tc_opp : forall x y, c x y = CompOpp (c y x);
  tc_trans : forall x y z, c x y = Lt -> c y z = Lt -> c x z = Lt }.

Lemma tc_refl {A} (c : A -> A -> comparison) : total_cmp c -> forall x, c x x = Eq.
Proof. intros H x. apply (tc_eq c H). reflexivity. Qed.

Lemma tc_gt_lt {A} (c : A -> A -> comparison) : total_cmp c -> forall x y, c x y = Gt <-> c y x = Lt.
Proof.
  intros H x y. rewrite (tc_opp c H x y). destruct (c y x); simpl; split; congruence.
Qed.

Lemma N_compare_total : total_cmp N.compare.
Proof.
  constructor.
  - intros; apply N.compare_eq_iff.
  - intros; apply N.compare_antisym.
  - intros x y z. rewrite !N.compare_lt_iff. lia.
Qed.

Lemma nat_compare_total : total_cmp Nat.compare.
Proof.
  constructor.
  - intros; apply Nat.compare_eq_iff.
  - intros; apply Nat.compare_antisym.
  - intros x y z. rewrite !Nat.compare_lt_iff. lia.
Qed.

(* lexicographic product *)
Definition lex {A B} (ca : A -> A -> comparison) (cb : B -> B -> comparison)
           (x y : A * B) : comparison :=
  match ca (fst x) (fst y) with Eq => cb (snd x) (snd y) | c => c end.

Lemma lex_total {A B} (ca : A -> A -> comparison) (cb : B -> B -> comparison) :
  total_cmp ca -> total_cmp cb -> total_cmp (lex ca cb).
Proof.
  intros Ha Hb. constructor.
  - intros [a b] [a' b']; unfold lex; simpl. split.
    + destruct (ca a a') eqn:E; try discriminate. intros E2.
      apply (tc_eq ca Ha) in E. apply (tc_eq cb Hb) in E2. congruence.
    + intros [= -> ->]. rewrite (tc_refl ca Ha). apply (tc_refl cb Hb).
  - intros [a b] [a' b']; unfold lex; simpl.
    rewrite (tc_opp ca Ha a a'). destruct (ca a' a); simpl; auto. apply (tc_opp cb Hb).
  - intros [a b] [a' b'] [a'' b'']; unfold lex; simpl.
    destruct (ca a a') eqn:E1; try discriminate.
    + apply (tc_eq ca Ha) in E1; subst a'.
      destruct (ca a a'') eqn:E2; auto. apply (tc_trans cb Hb).
    + intros _. destruct (ca a' a'') eqn:E2; try discriminate.
      * apply (tc_eq ca Ha) in E2; subst a''. rewrite E1. auto.
      * intros _. rewrite (tc_trans ca Ha _ _ _ E1 E2). auto.
Qed.

(* lexicographic order on lists, shorter prefix first *)
Fixpoint list_cmp {A} (c : A -> A -> comparison) (x y : list A) : comparison :=
  match x, y with
  | [], [] => Eq
  | [], _ => Lt
  | _, [] => Gt
  | a :: x', b :: y' => match c a b with Eq => list_cmp c x' y' | r => r end
  end.

Lemma list_cmp_total {A} (c : A -> A -> comparison) : total_cmp c -> total_cmp (list_cmp c).
Proof.
  intros H. constructor.
  - induction x as [|a x IH]; destruct y as [|b y]; simpl; split; try congruence; auto.
    + destruct (c a b) eqn:E; try discriminate. intros E2.
      apply (tc_eq c H) in E. apply IH in E2. congruence.
    + intros [= -> ->]. rewrite (tc_refl c H). apply IH. reflexivity.
  - induction x as [|a x IH]; destruct y as [|b y]; simpl; auto.
    rewrite (tc_opp c H a b). destruct (c b a); simpl; auto.
  - induction x as [|a x IH]; destruct y as [|b y]; destruct z as [|d z]; simpl; try congruence.
    destruct (c a b) eqn:E1; try discriminate.
    + apply (tc_eq c H) in E1; subst b. destruct (c a d); auto. apply IH.
    + intros _. destruct (c b d) eqn:E2; try discriminate.
      * apply (tc_eq c H) in E2; subst d. rewrite E1; auto.
      * intros _. rewrite (tc_trans c H _ _ _ E1 E2); auto.
Qed.

(* transport along an injection *)
Lemma total_cmp_inj {A B} (c : B -> B -> comparison) (f : A -> B) :
  total_cmp c -> (forall x y, f x = f y -> x = y) -> total_cmp (fun x y => c (f x) (f y)).
Proof.
  intros H inj. constructor.
  - intros x y. rewrite (tc_eq c H). split; [apply inj | congruence].
  - intros; apply (tc_opp c H).
  - intros x y z; apply (tc_trans c H).
Qed.

(* a total preorder induced by a map into a total order (no injectivity):
   all order laws except "Eq implies equal". *)
Record total_pre {A : Type} (c : A -> A -> comparison) : Prop := {
  tp_refl : forall x, c x x = Eq;
  tp_opp : forall x y, c x y = CompOpp (c y x);
  tp_trans : forall x y z, c x y = Lt -> c y z = Lt -> c x z = Lt;
  tp_eq_l : forall x y z, c x y = Eq -> c x z = c y z }.

Lemma total_pre_of_map {A B} (c : B -> B -> comparison) (f : A -> B) :
  total_cmp c -> total_pre (fun x y => c (f x) (f y)).
Proof.
  intros H. constructor.
  - intros; apply (tc_refl c H).
  - intros; apply (tc_opp c H).
  - intros x y z; apply (tc_trans c H).
  - intros x y z E. apply (tc_eq c H) in E. rewrite E. reflexivity.
Qed.
