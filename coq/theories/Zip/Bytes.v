(* Byte strings, '/'-splitting, UTF-8 scanning (Go's utf8 decoding rules), and the
   lexical path functions of Go's package path (Clean, Split, Dir, IsAbs) used by
   mod/modzip/zip.go and mod/module/path.go.  Model only; proofs in BytesProofs.v. *)
From Coq Require Import List NArith ZArith Bool.
From Coq Require String Ascii.
Import ListNotations.
Local Open Scope N_scope.

Definition str := list N.

Definition lit (s : String.string) : str :=
  map Ascii.N_of_ascii (String.list_ascii_of_string s).

Fixpoint str_eqb (a b : str) : bool :=
  match a, b with
  | [], [] => true
  | x :: a', y :: b' => (x =? y) && str_eqb a' b'
  | _, _ => false
  end.

Fixpoint mem_str (x : str) (l : list str) : bool :=
  match l with [] => false | y :: r => str_eqb x y || mem_str x r end.

Definition c_slash : N := 47.
Definition c_dot : N := 46.
Definition c_backslash : N := 92.
Definition c_colon : N := 58.

Fixpoint has_prefix (p s : str) : bool :=
  match p, s with
  | [], _ => true
  | x :: p', y :: s' => (x =? y) && has_prefix p' s'
  | _ :: _, [] => false
  end.

Fixpoint last_byte (s : str) : option N :=
  match s with [] => None | [b] => Some b | _ :: t => last_byte t end.

Definition ends_with_slash (s : str) : bool :=
  match last_byte s with Some b => b =? c_slash | None => false end.

(* strings.Contains(s, "//") *)
Fixpoint has_double_slash (s : str) : bool :=
  match s with
  | a :: ((b :: _) as t) => ((a =? c_slash) && (b =? c_slash)) || has_double_slash t
  | _ => false
  end.

(* split at every byte c; always returns a non-empty list (strings.Split) *)
Fixpoint split_on (c : N) (s : str) : list str :=
  match s with
  | [] => [[]]
  | b :: t =>
    if b =? c then [] :: split_on c t
    else match split_on c t with
         | e :: es => (b :: e) :: es
         | [] => [[b]]
         end
  end.

Fixpoint join_with (c : N) (es : list str) : str :=
  match es with
  | [] => []
  | [e] => e
  | e :: es' => e ++ c :: join_with c es'
  end.

Definition split_slash := split_on c_slash.
Definition join_slash := join_with c_slash.

(* strings.Cut(s, sep) for a one-byte separator: (before, after); after = "" when absent *)
Fixpoint cut_on (c : N) (s : str) : str * str :=
  match s with
  | [] => ([], [])
  | b :: t => if b =? c then ([], t) else let (x, y) := cut_on c t in (b :: x, y)
  end.

Fixpoint contains_byte (c : N) (s : str) : bool :=
  match s with [] => false | b :: t => (b =? c) || contains_byte c t end.

(* ---------------------------------------------------------------- ASCII case *)
Definition is_upper (b : N) : bool := (65 <=? b) && (b <=? 90).
Definition ascii_lower (b : N) : N := if is_upper b then b + 32 else b.

(* strings.EqualFold(s, t) when one side is an ASCII literal none of whose letters
   has a non-ASCII simple-fold partner (no 'k', no 's'): plain ASCII case folding. *)
Definition ascii_eqfold (a b : str) : bool := str_eqb (map ascii_lower a) (map ascii_lower b).

(* ---------------------------------------------------------------- UTF-8 *)
Definition rune_error : N := 65533.
Definition cont (b : N) : bool := (128 <=? b) && (b <=? 191).
Definition two_ok (b0 b1 : N) : bool := (194 <=? b0) && (b0 <=? 223) && cont b1.
Definition three_ok (b0 b1 b2 : N) : bool :=
  (((b0 =? 224) && (160 <=? b1) && (b1 <=? 191))
   || ((225 <=? b0) && (b0 <=? 236) && cont b1)
   || ((b0 =? 237) && (128 <=? b1) && (b1 <=? 159))
   || ((238 <=? b0) && (b0 <=? 239) && cont b1)) && cont b2.
Definition four_ok (b0 b1 b2 b3 : N) : bool :=
  (((b0 =? 240) && (144 <=? b1) && (b1 <=? 191))
   || ((241 <=? b0) && (b0 <=? 243) && cont b1)
   || ((b0 =? 244) && (128 <=? b1) && (b1 <=? 143))) && cont b2 && cont b3.

(* One result per decoded position, exactly as `for _, r := range s` in Go:
   Some r for a well-formed sequence, None (RuneError, width 1) otherwise. *)
Fixpoint utf8_scan (s : str) : list (option N) :=
  match s with
  | [] => []
  | b0 :: t =>
    if b0 <? 128 then Some b0 :: utf8_scan t else
    match t with
    | [] => [None]
    | b1 :: t1 =>
      if two_ok b0 b1 then Some ((b0 - 192) * 64 + (b1 - 128)) :: utf8_scan t1 else
      match t1 with
      | [] => None :: utf8_scan t
      | b2 :: t2 =>
        if three_ok b0 b1 b2
        then Some ((b0 - 224) * 4096 + (b1 - 128) * 64 + (b2 - 128)) :: utf8_scan t2 else
        match t2 with
        | [] => None :: utf8_scan t
        | b3 :: t3 =>
          if four_ok b0 b1 b2 b3
          then Some ((b0 - 240) * 262144 + (b1 - 128) * 4096 + (b2 - 128) * 64 + (b3 - 128)) :: utf8_scan t3
          else None :: utf8_scan t
        end
      end
    end
  end.

Definition is_some {A} (o : option A) : bool := match o with Some _ => true | None => false end.
Definition valid_utf8 (s : str) : bool := forallb is_some (utf8_scan s).
Definition runes (s : str) : list N :=
  map (fun o => match o with Some r => r | None => rune_error end) (utf8_scan s).

(* utf8.AppendRune *)
Definition utf8_encode (r : N) : str :=
  if r <? 128 then [r]
  else if r <? 2048 then [192 + r / 64; 128 + r mod 64]
  else if ((55296 <=? r) && (r <=? 57343)) || (1114111 <? r) then [239; 191; 189]
  else if r <? 65536 then [224 + r / 4096; 128 + (r / 64) mod 64; 128 + r mod 64]
  else [240 + r / 262144; 128 + (r / 4096) mod 64; 128 + (r / 64) mod 64; 128 + r mod 64].

(* ---------------------------------------------------------------- package path *)
Definition is_abs (p : str) : bool :=
  match p with b :: _ => b =? c_slash | [] => false end.

Definition s_dot : str := [c_dot].
Definition s_dotdot : str := [c_dot; c_dot].

(* The element stack of path.Clean (kept reversed).  `rooted` paths drop a ".." that
   would climb above the root; relative paths keep leading ".." elements. *)
Fixpoint clean_elems (rooted : bool) (stack : list str) (es : list str) : list str :=
  match es with
  | [] => rev stack
  | e :: r =>
    if str_eqb e [] || str_eqb e s_dot then clean_elems rooted stack r
    else if str_eqb e s_dotdot then
      match stack with
      | top :: below =>
        if str_eqb top s_dotdot then clean_elems rooted (e :: stack) r
        else clean_elems rooted below r
      | [] => if rooted then clean_elems rooted [] r else clean_elems rooted [e] r
      end
    else clean_elems rooted (e :: stack) r
  end.

(* path.Clean *)
Definition clean (p : str) : str :=
  match p with
  | [] => s_dot
  | _ =>
    let rooted := is_abs p in
    let body := join_slash (clean_elems rooted [] (split_slash p)) in
    if rooted then c_slash :: body
    else match body with [] => s_dot | _ => body end
  end.

(* path.Split: (dir including the final slash, file) *)
Fixpoint path_split (s : str) : str * str :=
  match s with
  | [] => ([], [])
  | b :: t =>
    let (d, f) := path_split t in
    match d with
    | _ :: _ => (b :: d, f)
    | [] => if b =? c_slash then ([b], f) else ([], b :: f)
    end
  end.

(* path.Dir *)
Definition path_dir (p : str) : str := clean (fst (path_split p)).

(* strings.TrimRight(s, "/") *)
Fixpoint trim_right_slash (s : str) : str :=
  match s with
  | [] => []
  | b :: t =>
    match trim_right_slash t with
    | [] => if b =? c_slash then [] else [b]
    | t' => b :: t'
    end
  end.

(* bytewise lexicographic order = Go string comparison *)
Fixpoint str_leb (a b : str) : bool :=
  match a, b with
  | [], _ => true
  | _ :: _, [] => false
  | x :: a', y :: b' => if x <? y then true else if y <? x then false else str_leb a' b'
  end.
