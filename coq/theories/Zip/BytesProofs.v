(* Lemmas about Zip/Bytes.v: string equality, split/join, UTF-8 scanning, path.Clean. *)
From Coq Require Import List NArith ZArith Bool Lia.
From Verif Require Import Zip.Bytes.
Import ListNotations.
Local Open Scope N_scope.

Lemma str_eqb_eq : forall a b, str_eqb a b = true <-> a = b.
Proof.
  induction a as [|x a IH]; destruct b as [|y b]; simpl; split; try congruence; auto.
  - rewrite andb_true_iff, N.eqb_eq, IH. intros [-> ->]; reflexivity.
  - intros [= -> ->]. rewrite N.eqb_refl. simpl. apply IH. reflexivity.
Qed.

Lemma str_eqb_refl : forall a, str_eqb a a = true.
Proof. intros; apply str_eqb_eq; reflexivity. Qed.

Lemma str_eqb_neq : forall a b, str_eqb a b = false <-> a <> b.
Proof.
  intros a b. split.
  - intros H E. apply str_eqb_eq in E. congruence.
  - intros H. destruct (str_eqb a b) eqn:E; auto. apply str_eqb_eq in E. contradiction.
Qed.

Lemma str_eqb_sym : forall a b, str_eqb a b = str_eqb b a.
Proof.
  intros. destruct (str_eqb a b) eqn:E1, (str_eqb b a) eqn:E2; auto.
  - apply str_eqb_eq in E1. subst. rewrite str_eqb_refl in E2. discriminate.
  - apply str_eqb_eq in E2. subst. rewrite str_eqb_refl in E1. discriminate.
Qed.

Lemma mem_str_In : forall x l, mem_str x l = true <-> In x l.
Proof.
  induction l as [|y l IH]; simpl; split; try congruence; try tauto.
  - rewrite orb_true_iff, str_eqb_eq, IH. intuition.
  - rewrite orb_true_iff, str_eqb_eq, IH. intuition.
Qed.

(* ------------------------------------------------------------ split / join *)

Lemma split_on_nonempty : forall c s, split_on c s <> [].
Proof.
  induction s as [|b t IH]; simpl; try congruence.
  destruct (b =? c); try congruence. destruct (split_on c t); congruence.
Qed.

Lemma join_split : forall c s, join_with c (split_on c s) = s.
Proof.
  induction s as [|b t IH]; simpl; auto.
  destruct (b =? c) eqn:E.
  - apply N.eqb_eq in E. subst b.
    destruct (split_on c t) as [|e es] eqn:S; [exfalso; eapply split_on_nonempty; eauto|].
    simpl in *. rewrite IH. reflexivity.
  - destruct (split_on c t) as [|e es] eqn:S; [exfalso; eapply split_on_nonempty; eauto|].
    simpl in *. destruct es; simpl in *; congruence.
Qed.

Lemma split_no_sep : forall c s e, In e (split_on c s) -> ~ In c e.
Proof.
  induction s as [|b t IH]; simpl; intros e H.
  - destruct H as [<-|[]]. auto.
  - destruct (b =? c) eqn:E.
    + destruct H as [<-|H]; auto.
    + destruct (split_on c t) as [|e0 es] eqn:S; simpl in H.
      * destruct H as [<-|[]]. simpl. intros [->|[]]. rewrite N.eqb_refl in E. discriminate.
      * destruct H as [<-|H].
        -- simpl. intros [->|H']. rewrite N.eqb_refl in E; discriminate.
           apply (IH e0); simpl; auto.
        -- apply IH. simpl. auto.
Qed.

Lemma split_on_no_sep_single : forall c e, ~ In c e -> split_on c e = [e].
Proof.
  induction e as [|b t IH]; simpl; intros H; auto.
  destruct (b =? c) eqn:E. apply N.eqb_eq in E. subst. tauto.
  rewrite IH by tauto. reflexivity.
Qed.

Lemma split_on_app_sep : forall c e s, ~ In c e -> split_on c (e ++ c :: s) = e :: split_on c s.
Proof.
  induction e as [|b t IH]; simpl; intros s H.
  - rewrite N.eqb_refl. reflexivity.
  - destruct (b =? c) eqn:E. apply N.eqb_eq in E. subst. tauto.
    rewrite IH by tauto. reflexivity.
Qed.

Lemma split_join : forall c es, es <> [] -> (forall e, In e es -> ~ In c e) ->
  split_on c (join_with c es) = es.
Proof.
  induction es as [|e es IH]; intros NE H; try congruence.
  destruct es as [|e' es'].
  - simpl. apply split_on_no_sep_single. apply H. simpl; auto.
  - change (join_with c (e :: e' :: es')) with (e ++ c :: join_with c (e' :: es')).
    rewrite split_on_app_sep by (apply H; simpl; auto).
    rewrite IH; auto. congruence. intros; apply H; simpl; auto.
Qed.

Lemma join_with_cons : forall c e es, es <> [] -> join_with c (e :: es) = e ++ c :: join_with c es.
Proof. intros. destruct es; try congruence. reflexivity. Qed.

Lemma join_with_app : forall c a b, a <> [] -> b <> [] ->
  join_with c (a ++ b) = join_with c a ++ c :: join_with c b.
Proof.
  induction a as [|e a IH]; intros b NA NB; try congruence.
  destruct a as [|e' a'].
  - simpl app. rewrite join_with_cons; auto.
  - change ((e :: e' :: a') ++ b) with (e :: (e' :: a') ++ b).
    rewrite join_with_cons by (simpl; congruence).
    rewrite IH by congruence.
    rewrite (join_with_cons c e (e' :: a')) by congruence.
    rewrite <- app_assoc. reflexivity.
Qed.

Lemma In_join_with : forall c es b, In b (join_with c es) -> b = c \/ exists e, In e es /\ In b e.
Proof.
  induction es as [|e es IH]; simpl; intros b H; [tauto|].
  destruct es as [|e' es'].
  - right. exists e. auto.
  - apply in_app_or in H. destruct H as [H|[H|H]].
    + right; exists e; auto.
    + left; auto.
    + destruct (IH b H) as [->|[e0 [I1 I2]]]; auto. right; exists e0; auto.
Qed.

Lemma In_split_bytes : forall c s e b, In e (split_on c s) -> In b e -> In b s.
Proof.
  induction s as [|x t IH]; simpl; intros e b H Hb.
  - destruct H as [<-|[]]. destruct Hb.
  - destruct (x =? c) eqn:E.
    + destruct H as [<-|H]. destruct Hb. right. eapply IH; eauto.
    + destruct (split_on c t) as [|e0 es] eqn:S; simpl in H.
      * destruct H as [<-|[]]. destruct Hb as [<-|[]]. auto.
      * destruct H as [<-|H].
        -- destruct Hb as [<-|Hb]; auto. right. eapply IH; eauto. simpl; auto.
        -- right. eapply IH; eauto. simpl; auto.
Qed.

(* ------------------------------------------------------------ UTF-8 *)

(* every ASCII byte of a string is one of its runes (a multi-byte sequence is only
   consumed when all its continuation bytes are >= 0x80) *)
Lemma cont_ge : forall b, cont b = true -> 128 <= b.
Proof. unfold cont. intros b H. apply andb_true_iff in H. destruct H as [H _]. apply N.leb_le in H. auto. Qed.

Lemma ascii_in_scan : forall n s, (length s <= n)%nat -> forall b, In b s -> b < 128 -> In (Some b) (utf8_scan s).
Proof.
  induction n as [|n IH]; intros s L b Hb Hlt.
  - destruct s; simpl in *; [tauto|lia].
  - destruct s as [|b0 t]; [destruct Hb|].
    simpl in L. simpl utf8_scan.
    destruct (b0 <? 128) eqn:E0.
    + destruct Hb as [->|Hb]; [left; auto|right; apply IH; auto; lia].
    + apply N.ltb_ge in E0.
      destruct Hb as [->|Hb]; [lia|].
      destruct t as [|b1 t1]; [destruct Hb|].
      assert (Ht : In (Some b) (utf8_scan (b1 :: t1))) by (apply IH; auto; simpl in *; lia).
      destruct (two_ok b0 b1) eqn:E2.
      { unfold two_ok in E2. apply andb_true_iff in E2. destruct E2 as [_ C1]. apply cont_ge in C1.
        destruct Hb as [->|Hb]; [lia|]. right. apply IH; auto. simpl in *; lia. }
      destruct t1 as [|b2 t2]; [right; exact Ht|].
      destruct (three_ok b0 b1 b2) eqn:E3.
      { assert (C : 128 <= b1 /\ 128 <= b2).
        { unfold three_ok in E3. apply andb_true_iff in E3. destruct E3 as [E3 C2]. apply cont_ge in C2.
          split; auto.
          repeat (apply orb_true_iff in E3; destruct E3 as [E3|E3]);
            repeat (apply andb_true_iff in E3; destruct E3 as [E3 ?]);
            try (apply cont_ge; assumption);
            repeat match goal with H : (_ <=? _) = true |- _ => apply N.leb_le in H end; lia. }
        destruct Hb as [->|[->|Hb]]; try lia. right. apply IH; auto. simpl in *; lia. }
      destruct t2 as [|b3 t3]; [right; exact Ht|].
      destruct (four_ok b0 b1 b2 b3) eqn:E4; [|right; exact Ht].
      assert (C : 128 <= b1 /\ 128 <= b2 /\ 128 <= b3).
      { unfold four_ok in E4. apply andb_true_iff in E4. destruct E4 as [E4 C3]. apply cont_ge in C3.
        apply andb_true_iff in E4. destruct E4 as [E4 C2]. apply cont_ge in C2.
        repeat split; auto.
        repeat (apply orb_true_iff in E4; destruct E4 as [E4|E4]);
          repeat (apply andb_true_iff in E4; destruct E4 as [E4 ?]);
          try (apply cont_ge; assumption);
          repeat match goal with H : (_ <=? _) = true |- _ => apply N.leb_le in H end; lia. }
      destruct Hb as [->|[->|[->|Hb]]]; try lia. right. apply IH; auto. simpl in *; lia.
Qed.

Lemma ascii_in_runes : forall s b, In b s -> b < 128 -> In b (runes s).
Proof.
  intros s b H L. unfold runes.
  change b with ((fun o : option N => match o with Some r => r | None => rune_error end) (Some b)).
  apply in_map. eapply ascii_in_scan; eauto.
Qed.

(* ------------------------------------------------------------ path.Clean *)

Definition plain_elem (e : str) : Prop := e <> [] /\ e <> s_dot /\ e <> s_dotdot.

Lemma plain_elem_tests : forall e, plain_elem e ->
  str_eqb e [] = false /\ str_eqb e s_dot = false /\ str_eqb e s_dotdot = false.
Proof. intros e [A [B C]]. repeat split; apply str_eqb_neq; auto. Qed.

Lemma clean_elems_plain : forall r es stack, Forall plain_elem es ->
  clean_elems r stack es = rev stack ++ es.
Proof.
  induction es as [|e es IH]; intros stack H; simpl.
  - rewrite app_nil_r. reflexivity.
  - inversion H; subst. destruct (plain_elem_tests e H2) as [A [B C]].
    rewrite A, B, C. simpl. rewrite IH; auto. simpl. rewrite <- app_assoc. reflexivity.
Qed.

Lemma clean_elems_app : forall r a b stack,
  clean_elems r stack (a ++ b) = clean_elems r (rev (clean_elems r stack a)) b.
Proof.
  induction a as [|e a IH]; intros b stack; simpl.
  - rewrite rev_involutive. reflexivity.
  - destruct (str_eqb e [] || str_eqb e s_dot); auto.
    destruct (str_eqb e s_dotdot); auto.
    destruct stack as [|top below]; auto.
    + destruct r; auto.
    + destruct (str_eqb top s_dotdot); auto.
Qed.

Lemma is_abs_join : forall e es, e <> [] -> ~ In c_slash e -> is_abs (join_slash (e :: es)) = false.
Proof.
  intros e es NE NS. unfold join_slash. destruct e as [|b e']; try congruence.
  assert (b <> c_slash) by (intro; subst; apply NS; left; reflexivity).
  destruct es; simpl; apply N.eqb_neq; auto.
Qed.

(* a relative path made of plain, slash-free elements is its own Clean *)
Lemma clean_join_plain : forall es, es <> [] -> Forall plain_elem es ->
  (forall e, In e es -> ~ In c_slash e) -> clean (join_slash es) = join_slash es.
Proof.
  intros es NE P NS. destruct es as [|e es]; try congruence.
  assert (Ee : e <> []) by (inversion P; subst; destruct H1; auto).
  assert (A : is_abs (join_slash (e :: es)) = false) by (apply is_abs_join; auto; apply NS; left; auto).
  unfold clean. rewrite A.
  destruct (join_slash (e :: es)) as [|b t] eqn:J.
  - exfalso. unfold join_slash in J. destruct e; try congruence. destruct es; simpl in J; congruence.
  - rewrite <- J. unfold split_slash, join_slash. rewrite split_join; auto; try congruence.
    rewrite clean_elems_plain; auto. simpl rev. simpl app.
    fold join_slash. rewrite J. reflexivity.
Qed.
