(* Create: the archive it writes passes CheckZip and extracts to exactly the valid files. *)
From Coq Require Import String.
From Coq Require Import List NArith ZArith Bool Lia Sorted.
From Verif Require Import Zip.Bytes Zip.BytesProofs Zip.Model Zip.PathProofs Zip.ZipProofs Zip.FsProofs
  Zip.UnzipProofs Zip.CollisionProofs Zip.HostileProofs Zip.ElemProofs Zip.RoundtripProofs.
Import ListNotations.
Local Open Scope N_scope.

Section Oracle.
  Variable is_letter : N -> bool.
  Variable fold_min : N -> N.
  Notation fold := (str_to_fold fold_min).
  Notation check_path := (check_path is_letter).
  Notation cc_one := (cc_one fold_min).
  Notation cc_walk := (cc_walk fold_min).
  Notation cc_check := (cc_check fold_min).
  Notation cf_step := (cf_step is_letter fold_min).
  Notation cf_loop := (cf_loop is_letter fold_min).
  Notation cz_step := (cz_step is_letter fold_min).
  Notation cz_loop := (cz_loop is_letter fold_min).

  (* ---------------------------------------------------------------- sub-tables *)
  Definition cc_sub (m M : cc_map) : Prop := forall k v, cc_lookup k m = Some v -> cc_lookup k M = Some v.

  Lemma cc_sub_refl : forall m, cc_sub m m.
  Proof. intros m k v H; exact H. Qed.

  Lemma cc_sub_trans : forall a b c, cc_sub a b -> cc_sub b c -> cc_sub a c.
  Proof. intros a b c H1 H2 k v L. auto. Qed.

  Lemma cc_one_sub : forall m M p d M', cc_sub m M -> cc_one M p d = (M', true) ->
    exists m', cc_one m p d = (m', true) /\ cc_sub m' M'.
  Proof.
    intros m M p d M' SUB H.
    pose proof (cc_one_ok fold_min _ _ _ _ H) as OK.
    assert (MONO : cc_sub M M') by (intros k v L; eapply cc_one_mono; eauto).
    unfold Model.cc_one. destruct (cc_lookup (fold p) m) as [other|] eqn:L.
    - pose proof (SUB _ _ L) as LM. destruct other as [p0 d0].
      destruct (cc_one_taken fold_min _ _ _ _ _ _ LM H) as [-> [-> ->]].
      cbn [pi_path pi_dir]. rewrite str_eqb_refl. cbn. exists m. split; auto. eapply cc_sub_trans; eauto.
    - exists ((fold p, mkPI p d) :: m). split; auto.
      intros k v Lk. rewrite cc_lookup_cons in Lk. destruct (str_eqb k (fold p)) eqn:E.
      + apply str_eqb_eq in E. subst. inversion Lk; subst. exact OK.
      + apply MONO. apply SUB. exact Lk.
  Qed.

  Lemma cc_walk_sub : forall l m M M', cc_sub m M -> cc_walk M l = (M', true) ->
    exists m', cc_walk m l = (m', true) /\ cc_sub m' M'.
  Proof.
    induction l as [|[p d] l IH]; intros m M M' SUB H; cbn [Model.cc_walk] in *.
    - inversion H; subst. exists m. auto.
    - destruct (Model.cc_one fold_min M p d) as [M1 ok] eqn:O. destruct ok; [|inversion H].
      destruct (cc_one_sub _ _ _ _ _ SUB O) as [m1 [O1 S1]]. rewrite O1. eapply IH; eauto.
  Qed.

  Lemma cc_check_sub : forall m M p d M', cc_sub m M -> cc_check M p d = (M', true) ->
    exists m', cc_check m p d = (m', true) /\ cc_sub m' M'.
  Proof. intros. eapply cc_walk_sub; eauto. Qed.

  (* ---------------------------------------------------------------- one step of checkFiles *)
  Record cf_valid (hcm : list str) (st : cf_state) (f : file) (st' : cf_state) : Prop := {
    fv_kind : f_kind f = KRegular;
    fv_clean : clean (f_name f) = f_name f;
    fv_sub : in_submodule hcm (f_name f) = false;
    fv_local : f_name f <> s_local_module;
    fv_path : check_path (f_name f) = true;
    fv_cue : cf_cue_mod_bad (f_name f) = false;
    fv_cc : cc_check (st_cc st) (f_name f) false = (st_cc st', true);
    fv_size : st_size_err st' = false ->
              st_size_err st = false /\ (0 <= f_size f <= st_max st)%Z /\ st_max st' = (st_max st - f_size f)%Z;
    fv_mod : f_name f = s_cue_mod_module_cue -> (f_size f <= MaxCUEMod)%Z /\ st_found st' = true;
    fv_lic : f_name f = s_license -> (f_size f <= MaxLICENSE)%Z;
    fv_found : st_found st = true -> st_found st' = true;
    fv_found_eq : st_found st' = st_found st || str_eqb (f_name f) s_cue_mod_module_cue
  }.

  Lemma cf_account_facts : forall st z,
    st_cc (cf_account st z) = st_cc st /\ st_found (cf_account st z) = st_found st /\
    (st_max (cf_account st z) <= st_max st \/ z < 0)%Z /\
    (st_size_err (cf_account st z) = false ->
       st_size_err st = false /\ (0 <= z <= st_max st)%Z /\ st_max (cf_account st z) = (st_max st - z)%Z).
  Proof.
    intros st z. unfold cf_account.
    destruct ((0 <=? z)%Z && (z <=? st_max st)%Z) eqn:C; cbn [st_cc st_found st_max st_size_err].
    - apply andb_true_iff in C. destruct C as [C1 C2]. apply Z.leb_le in C1. apply Z.leb_le in C2.
      repeat split; auto; try lia.
    - repeat split; auto; try lia; discriminate.
  Qed.

  Lemma cf_step_valid : forall hcm st f st', cf_step hcm st f = (VValid, st') -> cf_valid hcm st f st'.
  Proof.
    intros hcm st f st' H. unfold Model.cf_step in H.
    destruct (f_kind f) eqn:K; try (inversion H; fail).
    all: destruct (str_eqb (f_name f) (clean (f_name f))) eqn:C; cbn [negb] in H; [|inversion H].
    all: destruct (is_abs (f_name f)); [inversion H|].
    all: destruct (is_vendored (f_name f)); [inversion H|].
    all: destruct (in_submodule hcm (f_name f)) eqn:SUB; [inversion H|].
    all: destruct (str_eqb (f_name f) s_hg_archival); [inversion H|].
    all: destruct (str_eqb (f_name f) s_local_module) eqn:L; [inversion H|].
    all: destruct (Model.check_path is_letter (f_name f)) eqn:P; cbn [negb] in H; [|inversion H].
    all: destruct (cf_cue_mod_bad (f_name f)) eqn:B; [inversion H|].
    all: destruct (Model.cc_check fold_min (st_cc st) (f_name f) false) as [cc' ok] eqn:CC.
    all: destruct ok; cbn [negb] in H; [|inversion H].
    all: try (inversion H; fail).
    set (st1 := mkCF cc' (st_max st) (st_size_err st) (st_found st)) in *.
    destruct (cf_account_facts st1 (f_size f)) as [A1 [A2 [A3 A4]]].
    destruct (str_eqb (f_name f) s_cue_mod_module_cue && (MaxCUEMod <? f_size f)%Z) eqn:M1; [inversion H|].
    destruct (str_eqb (f_name f) s_license && (MaxLICENSE <? f_size f)%Z) eqn:M2; [inversion H|].
    inversion H; subst; clear H.
    apply str_eqb_eq in C. apply str_eqb_neq in L.
    constructor; cbn [st_cc st_max st_size_err st_found]; auto; try congruence.
    - rewrite A1. exact CC.
    - intros E. rewrite E, str_eqb_refl in *. cbn [andb] in M1. apply Z.ltb_ge in M1. split; auto.
      apply orb_true_r.
    - intros E. rewrite E, str_eqb_refl in M2. cbn [andb] in M2. apply Z.ltb_ge in M2. auto.
    - intros F. rewrite A2. cbn [st_found st1]. rewrite F. reflexivity.
    - rewrite A2. reflexivity.
  Qed.

  (* whatever the verdict: the collision table only grows, maxSize only shrinks (for the sizes
     that can occur without a size error), the flags are sticky *)
  Lemma cf_step_mono : forall hcm st f v st', cf_step hcm st f = (v, st') ->
    cc_sub (st_cc st) (st_cc st') /\ (st_found st = true -> st_found st' = true) /\
    (st_size_err st' = false -> st_size_err st = false /\ (st_max st' <= st_max st)%Z).
  Proof.
    intros hcm st f v st' H. unfold Model.cf_step in H.
    assert (ID : cc_sub (st_cc st) (st_cc st) /\ (st_found st = true -> st_found st = true) /\
                 (st_size_err st = false -> st_size_err st = false /\ (st_max st <= st_max st)%Z))
      by (split; [apply cc_sub_refl|split; auto; intros; split; auto; lia]).
    destruct (f_kind f) eqn:K; try (inversion H; subst; exact ID).
    all: destruct (negb (str_eqb (f_name f) (clean (f_name f)))); [inversion H; subst; exact ID|].
    all: destruct (is_abs (f_name f)); [inversion H; subst; exact ID|].
    all: destruct (is_vendored (f_name f)); [inversion H; subst; exact ID|].
    all: destruct (in_submodule hcm (f_name f)); [inversion H; subst; exact ID|].
    all: destruct (str_eqb (f_name f) s_hg_archival); [inversion H; subst; exact ID|].
    all: destruct (str_eqb (f_name f) s_local_module); [inversion H; subst; exact ID|].
    all: destruct (negb (Model.check_path is_letter (f_name f))); [inversion H; subst; exact ID|].
    all: destruct (cf_cue_mod_bad (f_name f)); [inversion H; subst; exact ID|].
    all: destruct (Model.cc_check fold_min (st_cc st) (f_name f) false) as [cc' ok] eqn:CC.
    all: assert (SUB : cc_sub (st_cc st) cc') by (intros k w L; eapply cc_check_mono; eauto).
    all: assert (ID1 : cc_sub (st_cc st) cc' /\ (st_found st = true -> st_found st = true) /\
                 (st_size_err st = false -> st_size_err st = false /\ (st_max st <= st_max st)%Z))
      by (split; [exact SUB|split; auto; intros; split; auto; lia]).
    all: destruct (negb ok); [inversion H; subst; exact ID1|].
    all: try (inversion H; subst; exact ID1).
    set (st1 := mkCF cc' (st_max st) (st_size_err st) (st_found st)) in *.
    destruct (cf_account_facts st1 (f_size f)) as [A1 [A2 [A3 A4]]].
    assert (G : forall fo, cc_sub (st_cc st) (st_cc (cf_account st1 (f_size f))) /\
              (st_found st = true -> st_found (cf_account st1 (f_size f)) || fo = true) /\
              (st_size_err (cf_account st1 (f_size f)) = false -> st_size_err st = false /\ (st_max (cf_account st1 (f_size f)) <= st_max st)%Z)).
    { intros fo. rewrite A1, A2. split; [exact SUB|]. split; [intros F; cbn [st_found st1]; rewrite F; reflexivity|].
      intros E. destruct (A4 E) as [B1 [B2 B3]]. cbn [st1 st_size_err st_max] in *. split; auto. lia. }
    destruct (str_eqb (f_name f) s_cue_mod_module_cue && (MaxCUEMod <? f_size f)%Z).
    - inversion H; subst. destruct (G false) as [G1 [G2 G3]]. split; auto. split; auto.
      intros F. specialize (G2 F). rewrite orb_false_r in G2. exact G2.
    - destruct (str_eqb (f_name f) s_license && (MaxLICENSE <? f_size f)%Z); inversion H; subst;
        cbn [st_cc st_max st_size_err st_found]; apply G.
  Qed.

  (* ---------------------------------------------------------------- cue.mod placement *)
  Lemma str_eqb_app_same : forall a b c, str_eqb (a ++ b) (a ++ c) = str_eqb b c.
  Proof. induction a as [|x a IH]; intros; simpl; auto. rewrite N.eqb_refl. simpl. apply IH. Qed.

  Lemma check_path_not_dir : forall p, check_path p = true -> ends_with_slash p = false.
  Proof.
    intros p H. unfold Model.check_path in H. destruct (negb (valid_utf8 p)); [discriminate|].
    destruct p; [discriminate|]. destruct (has_double_slash (n :: p)); [discriminate|].
    destruct (ends_with_slash (n :: p)); [discriminate|reflexivity].
  Qed.

  Lemma cz_cue_mod_valid : forall hcm p,
    check_path p = true -> cf_cue_mod_bad p = false -> in_submodule hcm p = false ->
    (forall a b, split_cue_mod p = (a, b) -> b <> [] -> In a hcm) ->
    p <> s_cue_mod ->
    cz_cue_mod p = Some (str_eqb p s_cue_mod_module_cue).
  Proof.
    intros hcm p CP BAD SUB HCM NR. unfold cz_cue_mod.
    destruct (split_cue_mod p) as [a b] eqn:SC.
    pose proof (split_cue_mod_aux_app _ _ _ _ _ SC) as APP.
    destruct b as [|b0 bt].
    - destruct (str_eqb p s_cue_mod_module_cue) eqn:E; auto.
      apply str_eqb_eq in E. rewrite E in SC. vm_compute in SC. inversion SC.
    - destruct (checked_scm is_letter p hcm a (b0 :: bt) CP SC ltac:(discriminate)) as [A B].
      destruct a as [|a0 at'].
      2:{ rewrite B in SUB; [discriminate|discriminate|]. eapply HCM; eauto. discriminate. }
      specialize (A eq_refl). simpl in APP. rewrite <- APP.
      destruct (checked_elems is_letter p CP) as [J [NE F]].
      destruct (split_slash p) as [|top es'] eqn:SP; [congruence|].
      assert (NS : ~ In c_slash top) by (inversion F; subst; destruct H1; auto).
      rewrite J in A, BAD. unfold cf_cue_mod_bad in BAD. rewrite cut_on_join in A, BAD by auto. cbn [fst] in A.
      rewrite A in BAD. cbn [andb] in BAD.
      apply orb_false_iff in BAD. destruct BAD as [BAD _]. apply orb_false_iff in BAD. destruct BAD as [B1 B2].
      apply negb_false_iff in B1. apply str_eqb_eq in B1. subst top.
      destruct es' as [|e2 es''].
      { exfalso. apply NR. rewrite J. reflexivity. }
      assert (PE : p = s_cue_mod ++ c_slash :: join_slash (e2 :: es'')) by (rewrite J; reflexivity).
      set (r := join_slash (e2 :: es'')) in *.
      assert (C1 : contains_byte c_slash p = true) by (rewrite PE; vm_compute; reflexivity).
      assert (C2 : has_prefix s_cue_mod_slash p = true).
      { rewrite PE. unfold s_cue_mod_slash, s_cue_mod, lit. simpl. reflexivity. }
      rewrite C1, C2. cbn [negb].
      assert (EF : ascii_eqfold p s_cue_mod_module_cue = ascii_eqfold r s_module_cue).
      { rewrite PE. unfold ascii_eqfold.
        change s_cue_mod_module_cue with ((s_cue_mod ++ [c_slash]) ++ s_module_cue).
        change (s_cue_mod ++ c_slash :: r) with ((s_cue_mod ++ [c_slash]) ++ r).
        rewrite !map_app. apply str_eqb_app_same. }
      assert (EQ : str_eqb p s_cue_mod_module_cue = str_eqb r s_module_cue).
      { rewrite PE.
        change s_cue_mod_module_cue with ((s_cue_mod ++ [c_slash]) ++ s_module_cue).
        change (s_cue_mod ++ c_slash :: r) with ((s_cue_mod ++ [c_slash]) ++ r).
        apply str_eqb_app_same. }
      rewrite EF, EQ.
      destruct (ascii_eqfold r s_module_cue) eqn:E1.
      + cbn [andb] in B2. apply negb_false_iff in B2. rewrite B2. reflexivity.
      + destruct (str_eqb r s_module_cue) eqn:E2; auto.
        apply str_eqb_eq in E2. rewrite E2 in E1. vm_compute in E1. discriminate.
  Qed.

  (* ---------------------------------------------------------------- simulation *)
  Record sim (st : cf_state) (zst : cz_state) : Prop := {
    sim_cc : cc_sub (zs_cc zst) (st_cc st);
    sim_err : zs_size_err zst = false;
    sim_size : (0 <= zs_size zst <= MaxZipFile - st_max st)%Z;
    sim_max : (st_max st <= MaxZipFile)%Z;
    sim_mod : st_found st = true -> zs_mod zst = true }.

  (* the entry addFile writes for a valid file *)
  Definition created_entry (f : file) : entry :=
    mkEntry (f_name f) (N.of_nat (length (f_data f))) KRegular (f_data f) true true true.

  Lemma MaxZipFile_small : (MaxZipFile < 9223372036854775808)%Z.
  Proof. vm_compute. reflexivity. Qed.

  Lemma created_honest : forall f, (Z.of_nat (length (f_data f)) <= MaxZipFile)%Z -> honest (created_entry f).
  Proof.
    intros f B. unfold honest, created_entry. cbn. repeat split; auto.
    pose proof MaxZipFile_small. lia.
  Qed.

  Lemma sim_step_valid : forall hcm st f st' zst,
    cf_valid hcm st f st' -> st_size_err st' = false -> sim st zst ->
    (Z.of_nat (length (f_data f)) <= f_size f)%Z ->
    f_name f <> s_cue_mod ->
    (forall a b, split_cue_mod (f_name f) = (a, b) -> b <> [] -> In a hcm) ->
    exists zst', cz_step zst (created_entry f) = (VValid, zst') /\ sim st' zst'.
  Proof.
    intros hcm st f st' zst V NE [S1 S2 S3 S4 S5] LEN NR HCM.
    destruct (fv_size _ _ _ _ V NE) as [E0 [SZ MX]].
    pose proof (check_path_not_dir _ (fv_path _ _ _ _ V)) as ND.
    unfold Model.cz_step.
    assert (ED : entry_is_dir (created_entry f) = false) by exact ND.
    assert (EN : entry_name (created_entry f) = f_name f) by (unfold entry_name; rewrite ED; reflexivity).
    rewrite ED, EN. rewrite (fv_clean _ _ _ _ V), str_eqb_refl. cbn [negb].
    rewrite (fv_path _ _ _ _ V). cbn [negb].
    assert (L : str_eqb (f_name f) s_local_module = false) by (apply str_eqb_neq; apply (fv_local _ _ _ _ V)).
    rewrite L.
    destruct (cc_check_sub _ _ _ _ _ S1 (fv_cc _ _ _ _ V)) as [m' [CC SUB]]. rewrite CC. cbn [negb].
    rewrite (cz_cue_mod_valid hcm (f_name f) (fv_path _ _ _ _ V) (fv_cue _ _ _ _ V) (fv_sub _ _ _ _ V) HCM NR).
    cbn [created_entry e_declared].
    pose proof MaxZipFile_small as MS.
    assert (TI : to_int64 (N.of_nat (length (f_data f))) = Z.of_nat (length (f_data f))).
    { rewrite to_int64_small by lia. lia. }
    rewrite TI. set (sz := Z.of_nat (length (f_data f))) in *.
    assert (M1 : str_eqb (f_name f) s_cue_mod_module_cue && (MaxCUEMod <? sz)%Z = false).
    { destruct (str_eqb (f_name f) s_cue_mod_module_cue) eqn:E; auto. apply str_eqb_eq in E.
      destruct (fv_mod _ _ _ _ V E) as [X _]. cbn [andb]. apply Z.ltb_ge. lia. }
    assert (M2 : str_eqb (f_name f) s_license && (MaxLICENSE <? sz)%Z = false).
    { destruct (str_eqb (f_name f) s_license) eqn:E; auto. apply str_eqb_eq in E.
      pose proof (fv_lic _ _ _ _ V E) as X. cbn [andb]. apply Z.ltb_ge. lia. }
    rewrite M1, M2. eexists. split; [reflexivity|].
    unfold cz_account. cbn [zs_size zs_cc zs_size_err zs_mod].
    assert (C : ((0 <=? sz)%Z && (sz <=? MaxZipFile - zs_size zst)%Z) = true).
    { apply andb_true_iff. split; [apply Z.leb_le; lia|apply Z.leb_le; lia]. }
    rewrite C. constructor; cbn [zs_size zs_cc zs_size_err zs_mod]; auto.
    - rewrite MX. lia.
    - lia.
    - intros F. destruct (str_eqb (f_name f) s_cue_mod_module_cue) eqn:E; [apply orb_true_r|].
      rewrite orb_false_r. apply S5.
      (* found was already set before this file *)
      rewrite (fv_found_eq _ _ _ _ V), E, orb_false_r in F. exact F.
  Qed.

  Lemma cf_step_found_only_valid : forall hcm st f v st', cf_step hcm st f = (v, st') -> v <> VValid ->
    st_found st' = st_found st.
  Proof.
    intros hcm st f v st' H NV. unfold Model.cf_step in H.
    destruct (f_kind f) eqn:K; try (inversion H; subst; reflexivity).
    all: destruct (negb (str_eqb (f_name f) (clean (f_name f)))); [inversion H; subst; reflexivity|].
    all: destruct (is_abs (f_name f)); [inversion H; subst; reflexivity|].
    all: destruct (is_vendored (f_name f)); [inversion H; subst; reflexivity|].
    all: destruct (in_submodule hcm (f_name f)); [inversion H; subst; reflexivity|].
    all: destruct (str_eqb (f_name f) s_hg_archival); [inversion H; subst; reflexivity|].
    all: destruct (str_eqb (f_name f) s_local_module); [inversion H; subst; reflexivity|].
    all: destruct (negb (Model.check_path is_letter (f_name f))); [inversion H; subst; reflexivity|].
    all: destruct (cf_cue_mod_bad (f_name f)); [inversion H; subst; reflexivity|].
    all: destruct (Model.cc_check fold_min (st_cc st) (f_name f) false) as [cc' ok] eqn:CC.
    all: destruct (negb ok); [inversion H; subst; reflexivity|].
    all: try (inversion H; subst; reflexivity).
    set (st1 := mkCF cc' (st_max st) (st_size_err st) (st_found st)) in *.
    destruct (cf_account_facts st1 (f_size f)) as [A1 [A2 _]].
    destruct (str_eqb (f_name f) s_cue_mod_module_cue && (MaxCUEMod <? f_size f)%Z).
    - inversion H; subst. rewrite A2. reflexivity.
    - destruct (str_eqb (f_name f) s_license && (MaxLICENSE <? f_size f)%Z) eqn:M2; inversion H; subst; [|congruence].
      cbn [st_found]. rewrite A2. cbn [st1 st_found].
      apply andb_true_iff in M2. destruct M2 as [M2 _]. apply str_eqb_eq in M2. rewrite M2.
      vm_compute (str_eqb s_license s_cue_mod_module_cue). apply orb_false_r.
  Qed.

  Lemma cf_loop_err_sticky : forall hcm files st vs st', cf_loop hcm st files = (vs, st') ->
    st_size_err st' = false -> st_size_err st = false.
  Proof.
    induction files as [|f r IH]; intros st vs st' H E; cbn [Model.cf_loop] in H.
    - inversion H; subst; auto.
    - destruct (cf_step hcm st f) as [v st1] eqn:S. destruct (cf_loop hcm st1 r) as [vs' st2] eqn:L.
      inversion H; subst. specialize (IH _ _ _ L E).
      destruct (cf_step_mono _ _ _ _ _ S) as [_ [_ X]]. apply X; auto.
  Qed.

  Definition valid_of (files : list file) (vs : list verdict) : list file :=
    map fst (filter (fun fv : file * verdict => verdict_eqb (snd fv) VValid) (combine files vs)).

  Lemma sim_loop : forall hcm files st vs st_end zst es,
    cf_loop hcm st files = (vs, st_end) -> st_size_err st_end = false ->
    sim st zst ->
    add_files (valid_of files vs) = Some es ->
    (forall f v, In (f, v) (combine files vs) -> v = VValid -> f_name f <> s_cue_mod) ->
    (forall f a b, In f files -> split_cue_mod (f_name f) = (a, b) -> b <> [] -> In a hcm) ->
    exists zst_end, cz_loop zst es = (map (fun _ => VValid) es, zst_end) /\ sim st_end zst_end /\
                    es = map created_entry (valid_of files vs) /\
                    Forall (fun e => is_file e /\ honest e) es.
  Proof.
    induction files as [|f r IH]; intros st vs st_end zst es H E SIM ADD ROOT HCM; cbn [Model.cf_loop] in H.
    - inversion H; subst. unfold valid_of in *. simpl in *. inversion ADD; subst. simpl. eauto 6.
    - destruct (cf_step hcm st f) as [v st1] eqn:S. destruct (cf_loop hcm st1 r) as [vs' st2] eqn:L.
      inversion H; subst. clear H.
      pose proof (cf_loop_err_sticky _ _ _ _ _ L E) as E1.
      assert (ROOT' : forall f0 v0, In (f0, v0) (combine r vs') -> v0 = VValid -> f_name f0 <> s_cue_mod)
        by (intros; eapply ROOT; eauto; simpl; right; eauto).
      assert (HCM' : forall f0 a b, In f0 r -> split_cue_mod (f_name f0) = (a, b) -> b <> [] -> In a hcm)
        by (intros; eapply HCM; eauto; right; auto).
      unfold valid_of in *. cbn [combine filter snd] in *.
      destruct (verdict_eqb v VValid) eqn:V.
      + assert (v = VValid) by (destruct v; try discriminate; reflexivity). subst v.
        cbn [map fst] in *. cbn [add_files] in ADD.
        destruct (f_size f <? Z.of_nat (length (f_data f)))%Z eqn:LEN; [discriminate|]. apply Z.ltb_ge in LEN.
        destruct (add_files (map fst (filter (fun fv : file * verdict => verdict_eqb (snd fv) VValid) (combine r vs')))) as [es'|] eqn:ADD'; [|discriminate].
        inversion ADD; subst. clear ADD.
        destruct (sim_step_valid hcm st f st1 zst (cf_step_valid _ _ _ _ S) E1 SIM LEN) as [zst1 [ZS SIM1]].
        * eapply ROOT; [left; reflexivity|reflexivity].
        * intros a b. apply HCM. left; reflexivity.
        * destruct (IH st1 vs' st_end zst1 es' L E SIM1 ADD' ROOT' HCM') as [zend [ZL [SE [EQ HF]]]].
          exists zend. cbn [Model.cz_loop]. fold (created_entry f). rewrite ZS, ZL. cbn [map]. split; auto. split; auto.
          split; [rewrite EQ; reflexivity|].
          constructor; auto. pose proof (cf_step_valid _ _ _ _ S) as CV. split.
          -- exact (check_path_not_dir _ (fv_path _ _ _ _ CV)).
          -- apply created_honest. destruct (fv_size _ _ _ _ CV E1) as [_ [SZ _]]. destruct SIM. lia.
      + assert (NV : v <> VValid) by (intros ->; discriminate).
        destruct (cf_step_mono _ _ _ _ _ S) as [M1 [M2 M3]]. destruct (M3 E1) as [E0 MX].
        pose proof (cf_step_found_only_valid _ _ _ _ _ S NV) as FO.
        assert (SIM1 : sim st1 zst).
        { destruct SIM as [S1 S2 S3 S4 S5]. constructor; auto.
          - eapply cc_sub_trans; eauto.
          - lia.
          - lia.
          - rewrite FO. exact S5. }
        eapply IH; eauto.
  Qed.

  (* ---------------------------------------------------------------- no regular root file "cue.mod"
     next to a valid cue.mod/module.cue: they would be registered under the same key, once as a file
     and once as a directory *)
  Lemma cf_loop_cc_mono : forall hcm files st vs st', cf_loop hcm st files = (vs, st') -> cc_sub (st_cc st) (st_cc st').
  Proof.
    induction files as [|f r IH]; intros st vs st' H; cbn [Model.cf_loop] in H.
    - inversion H; subst. apply cc_sub_refl.
    - destruct (cf_step hcm st f) as [v st1] eqn:S. destruct (cf_loop hcm st1 r) as [vs' st2] eqn:L.
      inversion H; subst. destruct (cf_step_mono _ _ _ _ _ S) as [M _]. eapply cc_sub_trans; eauto.
  Qed.

  Definition root_key := fold s_cue_mod.

  Lemma module_cue_registers_dir : In (s_cue_mod, true) (cc_targets s_cue_mod_module_cue false).
  Proof. vm_compute. right. left. reflexivity. Qed.

  Lemma found_registers_dir : forall hcm files st vs st', cf_loop hcm st files = (vs, st') ->
    (st_found st = true -> cc_lookup root_key (st_cc st) = Some (mkPI s_cue_mod true)) ->
    st_found st' = true -> cc_lookup root_key (st_cc st') = Some (mkPI s_cue_mod true).
  Proof.
    induction files as [|f r IH]; intros st vs st' H INV F; cbn [Model.cf_loop] in H.
    - inversion H; subst. auto.
    - destruct (cf_step hcm st f) as [v st1] eqn:S. destruct (cf_loop hcm st1 r) as [vs' st2] eqn:L.
      inversion H; subst. eapply IH; eauto. intros F1.
      destruct (cf_step_mono _ _ _ _ _ S) as [M _].
      destruct (verdict_eqb v VValid) eqn:V.
      + assert (v = VValid) by (destruct v; try discriminate; reflexivity). subst v.
        pose proof (cf_step_valid _ _ _ _ S) as CV.
        rewrite (fv_found_eq _ _ _ _ CV) in F1. apply orb_true_iff in F1. destruct F1 as [F0|E].
        * apply M. auto.
        * apply str_eqb_eq in E. pose proof (fv_cc _ _ _ _ CV) as CC. rewrite E in CC.
          apply (cc_check_ok fold_min _ _ _ _ CC _ _ module_cue_registers_dir).
      + assert (NV : v <> VValid) by (intros ->; discriminate).
        rewrite (cf_step_found_only_valid _ _ _ _ _ S NV) in F1. apply M. auto.
  Qed.

  Lemma valid_root_file_registers_file : forall hcm files st vs st' g, cf_loop hcm st files = (vs, st') ->
    In (g, VValid) (combine files vs) -> f_name g = s_cue_mod ->
    cc_lookup root_key (st_cc st') = Some (mkPI s_cue_mod false).
  Proof.
    induction files as [|f r IH]; intros st vs st' g H I N; cbn [Model.cf_loop] in H.
    - inversion H; subst. destruct I.
    - destruct (cf_step hcm st f) as [v st1] eqn:S. destruct (cf_loop hcm st1 r) as [vs' st2] eqn:L.
      inversion H; subst. cbn [combine] in I. destruct I as [I|I].
      + inversion I; subst. pose proof (cf_step_valid _ _ _ _ S) as CV.
        pose proof (fv_cc _ _ _ _ CV) as CC. rewrite N in CC.
        apply (cf_loop_cc_mono _ _ _ _ _ L).
        apply (cc_check_ok fold_min _ _ _ _ CC s_cue_mod false). left. reflexivity.
      + eapply IH; eauto.
  Qed.

  Lemma no_valid_root_cue_mod_file : forall hcm files vs st' g,
    cf_loop hcm cf_init files = (vs, st') -> st_found st' = true ->
    In (g, VValid) (combine files vs) -> f_name g <> s_cue_mod.
  Proof.
    intros hcm files vs st' g H F I N.
    pose proof (valid_root_file_registers_file _ _ _ _ _ _ H I N) as A.
    pose proof (found_registers_dir _ _ _ _ _ H ltac:(cbn; discriminate) F) as B.
    rewrite A in B. discriminate.
  Qed.

  (* ---------------------------------------------------------------- sorting is a permutation *)
  Lemma In_insert_sorted : forall x f l, In x (insert_sorted f l) <-> x = f \/ In x l.
  Proof.
    induction l as [|g r IH]; simpl.
    - intuition.
    - destruct (str_leb (f_name f) (f_name g)); simpl; rewrite ?IH; intuition.
  Qed.

  Lemma In_sort_files : forall x l, In x (sort_files l) <-> In x l.
  Proof.
    induction l as [|f r IH]; simpl; [tauto|]. rewrite In_insert_sorted, IH. intuition.
  Qed.

  Lemma names_with_all_valid : forall (ns : list str) n, length ns = n ->
    names_with VInvalid (combine ns (repeat VValid n)) = [].
  Proof.
    induction ns as [|x ns IH]; intros n L; destruct n; simpl in *; try reflexivity; try lia.
    unfold names_with in *. simpl. apply IH. lia.
  Qed.

  Lemma map_const_repeat : forall (A B : Type) (b : B) (l : list A), map (fun _ => b) l = repeat b (length l).
  Proof. induction l; simpl; congruence. Qed.

  (* C15 create_passes_check: every archive Create emits passes CheckZip, consists of the valid
     files of the sorted list in that order, with honest headers *)
  Theorem create_passes_check : forall files es zs,
    create is_letter fold_min files = Some es -> (zs <= MaxZipFile)%Z ->
    checked_err (check_zip is_letter fold_min zs es) = false /\
    es = map created_entry (valid_files is_letter fold_min (sort_files files)) /\
    Forall (fun e => is_file e /\ honest e) es.
  Proof.
    intros files es zs H ZS. unfold create in H.
    set (sorted := sort_files files) in *.
    destruct (checked_err (check_files is_letter fold_min sorted)) eqn:CE; [discriminate|].
    unfold check_files, check_files_verdicts in CE. unfold valid_files, check_files_verdicts in H |- *.
    destruct (cf_loop (have_cue_mod sorted) cf_init sorted) as [vs st'] eqn:L. cbn [fst] in *.
    destruct (collect_errs [] (combine (map f_name sorted) vs)) as [o i].
    unfold checked_err in CE. cbn [c_size_err c_invalid c_nomod] in CE.
    apply orb_false_iff in CE. destruct CE as [CE NM]. apply orb_false_iff in CE. destruct CE as [SE _].
    apply negb_false_iff in NM.
    assert (SIM0 : sim cf_init cz_init).
    { constructor; cbn; try discriminate; try lia; try (intros k v X; exact X). }
    destruct (sim_loop (have_cue_mod sorted) sorted cf_init vs st' cz_init es L SE SIM0 H) as [zend [ZL [SIM [EQ HF]]]].
    - intros f v I ->. eapply no_valid_root_cue_mod_file; eauto.
    - intros f a b I SC NB. unfold have_cue_mod. apply in_flat_map. exists f. split; auto.
      rewrite SC. destruct b; [congruence|left; reflexivity].
    - split; [|split; auto]. unfold Model.check_zip.
      destruct (MaxZipFile <? zs)%Z eqn:Z; [apply Z.ltb_lt in Z; lia|].
      unfold check_zip_verdicts. rewrite ZL. unfold checked_err. cbn [c_size_err c_invalid c_nomod].
      destruct SIM as [_ S2 _ _ S5]. rewrite S2, (S5 NM). cbn [negb orb].
      rewrite map_const_repeat, names_with_all_valid; [reflexivity|apply map_length].
  Qed.

  (* C15 create_unzip_roundtrip: for every file list Create accepts, extracting the archive it writes
     into an empty or missing directory succeeds, and afterwards the regular files beneath the
     directory are exactly the valid files of the list, each with its content *)
  Theorem create_unzip_roundtrip : forall dir, clean_elems true [] dir = dir -> dir <> [] ->
    forall files es fs zs,
    create is_letter fold_min files = Some es -> (zs <= MaxZipFile)%Z ->
    dir_nonempty fs dir = false -> mkdir_all fs dir <> None ->
    exists fs', unzip is_letter fold_min dir fs zs es = (fs', UOk) /\
      (forall f, In f (valid_files is_letter fold_min (sort_files files)) ->
         fs_lookup fs' (dir ++ split_slash (f_name f)) = Some (NFile (f_data f))) /\
      (forall q c, fs_lookup fs' q = Some (NFile c) -> strict_prefix dir q = true ->
         exists f, In f (valid_files is_letter fold_min (sort_files files)) /\
                   q = dir ++ split_slash (f_name f) /\ c = f_data f).
  Proof.
    intros dir DC DN files es fs zs CR ZS EMP MK.
    destruct (create_passes_check files es zs CR ZS) as [OK [EQ HF]].
    assert (HO : Forall honest es) by (eapply Forall_impl; [|exact HF]; intros e [_ X]; exact X).
    destruct (unzip_accepted_honest_ok is_letter fold_min dir DC DN fs zs es OK HO EMP MK) as [fs' [U [_ [I1 _]]]].
    exists fs'. split; auto. split.
    - intros f I.
      assert (UE : Forall uint64_entry es).
      { eapply Forall_impl; [|exact HO]. intros e [_ [_ [_ B]]]. unfold uint64_entry. lia. }
      destruct (unzip_ok_exact is_letter fold_min dir DC fs zs es fs' UE U) as [X _].
      destruct (X (created_entry f)) as [Y _].
      + rewrite EQ. apply in_map. exact I.
      + rewrite Forall_forall in HF. destruct (HF (created_entry f)) as [A _]; [rewrite EQ; apply in_map; exact I|exact A].
      + exact Y.
    - intros q c L S. destruct (I1 q c L S) as [e [A [B [C D]]]].
      rewrite EQ in A. apply in_map_iff in A. destruct A as [f [<- A]]. exists f. auto.
  Qed.

  (* ---------------------------------------------------------------- the order of the archive *)
  Definition name_le (a b : file) : Prop := str_leb (f_name a) (f_name b) = true.

  Lemma str_leb_total : forall a b, str_leb a b = false -> str_leb b a = true.
  Proof.
    induction a as [|x a IH]; intros [|y b] H; simpl in *; try discriminate; auto.
    destruct (x <? y)%N eqn:E1; [discriminate|]. destruct (y <? x)%N eqn:E2; auto.
  Qed.

  Lemma insert_sorted_sorted : forall f l, Sorted name_le l -> Sorted name_le (insert_sorted f l).
  Proof.
    induction l as [|g r IH]; intros S; simpl.
    - repeat constructor.
    - destruct (str_leb (f_name f) (f_name g)) eqn:E.
      + constructor; auto.
      + inversion S; subst. constructor; auto.
        destruct r as [|h r']; simpl.
        * constructor. apply str_leb_total; auto.
        * destruct (str_leb (f_name f) (f_name h)); constructor; auto.
          -- apply str_leb_total; auto.
          -- inversion H2; auto.
  Qed.

  (* Create writes the files in byte order of their paths *)
  Theorem sort_files_sorted : forall l, Sorted name_le (sort_files l).
  Proof. induction l as [|f r IH]; simpl; [constructor|apply insert_sorted_sorted; auto]. Qed.
End Oracle.
