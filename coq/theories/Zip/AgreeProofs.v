(* The file-list check and the zip check give every file the same verdict - under an explicit
   side condition; without it they differ (known finding F7). *)
From Coq Require Import String.
From Coq Require Import List NArith ZArith Bool Lia.
From Verif Require Import Zip.Bytes Zip.BytesProofs Zip.Model Zip.PathProofs Zip.ZipProofs Zip.FsProofs
  Zip.UnzipProofs Zip.CollisionProofs Zip.HostileProofs Zip.ElemProofs Zip.RoundtripProofs Zip.CreateProofs.
Import ListNotations.
Local Open Scope N_scope.

(* the same regular file as a zip entry: declared size = Lstat size *)
Definition entry_of_file (f : file) : entry :=
  mkEntry (f_name f) (Z.to_N (f_size f)) KRegular (f_data f) true true false.

(* the side condition: a regular file that the zip format can express and that checkFiles
   neither omits nor treats specially *)
Record agree_cond (hcm : list str) (f : file) : Prop := {
  ac_kind : f_kind f = KRegular;
  ac_size : (0 <= f_size f < 9223372036854775808)%Z;
  ac_nodir : ends_with_slash (f_name f) = false;        (* else the zip entry is a directory entry *)
  ac_vendor : is_vendored (f_name f) = false;            (* omitted by checkFiles *)
  ac_submod : in_submodule hcm (f_name f) = false;       (* omitted by checkFiles *)
  ac_hg : f_name f <> s_hg_archival;                     (* omitted by checkFiles *)
  ac_local : f_name f <> s_local_module;                 (* omitted by checkFiles, invalid in a zip *)
  ac_root : f_name f <> s_cue_mod;                       (* F7a *)
  ac_case : cf_cue_mod_bad (f_name f) = false            (* F7b: wrongly-cased cue.mod / module.cue *)
}.

Section Oracle.
  Variable is_letter : N -> bool.
  Variable fold_min : N -> N.
  Notation cf_step := (cf_step is_letter fold_min).
  Notation cf_loop := (cf_loop is_letter fold_min).
  Notation cz_step := (cz_step is_letter fold_min).
  Notation cz_loop := (cz_loop is_letter fold_min).

  Record same_state (st : cf_state) (zst : cz_state) : Prop := {
    ss_cc : st_cc st = zs_cc zst;
    ss_size : st_max st = (MaxZipFile - zs_size zst)%Z;
    ss_err : st_size_err st = zs_size_err zst }.

  Lemma agree_step : forall hcm st zst f v st' v' zst',
    agree_cond hcm f -> same_state st zst ->
    (forall a b, split_cue_mod (f_name f) = (a, b) -> b <> [] -> In a hcm) ->
    cf_step hcm st f = (v, st') -> cz_step zst (entry_of_file f) = (v', zst') ->
    v = v' /\ same_state st' zst'.
  Proof.
    intros hcm st zst f v st' v' zst' AC [S1 S2 S3] HCM HF HZ.
    destruct AC as [K SZ ND VE SM HG LO RT CS].
    unfold Model.cf_step in HF. unfold Model.cz_step in HZ.
    assert (ED : entry_is_dir (entry_of_file f) = false) by exact ND.
    assert (EN : entry_name (entry_of_file f) = f_name f) by (unfold entry_name; rewrite ED; reflexivity).
    rewrite ED, EN in HZ. rewrite K in HF.
    rewrite (str_eqb_sym (clean (f_name f)) (f_name f)) in HZ.
    destruct (str_eqb (f_name f) (clean (f_name f))) eqn:C; cbn [negb] in HF, HZ.
    2:{ inversion HF; inversion HZ; subst. split; auto. constructor; auto. }
    destruct (is_abs (f_name f)) eqn:AB.
    { rewrite (is_abs_rejected is_letter _ AB) in HZ. cbn [negb] in HZ.
      inversion HF; inversion HZ; subst. split; auto. constructor; auto. }
    rewrite VE, SM in HF.
    assert (HG' : str_eqb (f_name f) s_hg_archival = false) by (apply str_eqb_neq; auto).
    assert (LO' : str_eqb (f_name f) s_local_module = false) by (apply str_eqb_neq; auto).
    rewrite HG', LO' in HF. rewrite LO' in HZ.
    destruct (check_path is_letter (f_name f)) eqn:CP; cbn [negb] in HF, HZ.
    2:{ inversion HF; inversion HZ; subst. split; auto. constructor; auto. }
    rewrite CS in HF. rewrite <- S1 in HZ.
    destruct (cc_check fold_min (st_cc st) (f_name f) false) as [cc' ok] eqn:CC.
    destruct ok; cbn [negb] in HF, HZ.
    2:{ inversion HF; inversion HZ; subst. split; auto. constructor; auto. }
    rewrite (cz_cue_mod_valid is_letter hcm (f_name f) CP CS SM HCM RT) in HZ.
    cbn [entry_of_file e_declared] in HZ.
    assert (TI : to_int64 (Z.to_N (f_size f)) = f_size f).
    { rewrite to_int64_small by lia. lia. }
    rewrite TI in HZ.
    set (st1 := mkCF cc' (st_max st) (st_size_err st) (st_found st)) in *.
    set (zs2 := mkCZ cc' (zs_size zst) (zs_size_err zst) (zs_mod zst || str_eqb (f_name f) s_cue_mod_module_cue)) in *.
    assert (ACC : same_state (cf_account st1 (f_size f)) (cz_account zs2 (f_size f)) /\
                  st_found (cf_account st1 (f_size f)) = st_found st).
    { unfold cf_account, cz_account. cbn [st1 zs2 st_max zs_size st_cc zs_cc st_size_err zs_size_err st_found zs_mod].
      rewrite S2.
      destruct ((0 <=? f_size f)%Z && (f_size f <=? MaxZipFile - zs_size zst)%Z);
        (split; [constructor; cbn [st_cc st_max st_size_err zs_cc zs_size zs_size_err]; auto; lia|reflexivity]). }
    destruct ACC as [ACC _].
    destruct (str_eqb (f_name f) s_cue_mod_module_cue && (MaxCUEMod <? f_size f)%Z).
    { inversion HF; inversion HZ; subst. split; auto. }
    destruct (str_eqb (f_name f) s_license && (MaxLICENSE <? f_size f)%Z);
      inversion HF; inversion HZ; subst; (split; [reflexivity|]);
      destruct ACC as [A1 A2 A3]; constructor; cbn [st_cc st_max st_size_err]; auto.
  Qed.

  Lemma agree_loop : forall hcm files st zst vs st' vs' zst',
    Forall (agree_cond hcm) files -> same_state st zst ->
    (forall f a b, In f files -> split_cue_mod (f_name f) = (a, b) -> b <> [] -> In a hcm) ->
    cf_loop hcm st files = (vs, st') -> cz_loop zst (map entry_of_file files) = (vs', zst') ->
    vs = vs' /\ same_state st' zst'.
  Proof.
    induction files as [|f r IH]; intros st zst vs st' vs' zst' AC SS HCM HF HZ;
      cbn [Model.cf_loop Model.cz_loop map] in HF, HZ.
    - inversion HF; inversion HZ; subst. auto.
    - destruct (cf_step hcm st f) as [v st1] eqn:S1. destruct (cf_loop hcm st1 r) as [vr st2] eqn:L1.
      destruct (cz_step zst (entry_of_file f)) as [w zs1] eqn:S2.
      destruct (cz_loop zs1 (map entry_of_file r)) as [wr zs2] eqn:L2.
      inversion HF; inversion HZ; subst. inversion AC; subst.
      destruct (agree_step hcm st zst f v st1 w zs1) as [-> SS1]; auto.
      { intros a b. apply HCM. left; reflexivity. }
      destruct (IH st1 zs1 vr st' wr zst') as [-> SS2]; auto.
      intros; eapply HCM; eauto. right; auto.
  Qed.

  (* C15 three_checks_agree: per-file verdicts of CheckFiles and CheckZip coincide *)
  Theorem checks_agree_when : forall files,
    Forall (agree_cond (have_cue_mod files)) files ->
    fst (check_files_verdicts is_letter fold_min files) =
    fst (check_zip_verdicts is_letter fold_min (map entry_of_file files)).
  Proof.
    intros files AC. unfold check_files_verdicts, check_zip_verdicts.
    destruct (cf_loop (have_cue_mod files) cf_init files) as [vs st'] eqn:L1.
    destruct (cz_loop cz_init (map entry_of_file files)) as [vs' zst'] eqn:L2. cbn [fst].
    destruct (agree_loop (have_cue_mod files) files cf_init cz_init vs st' vs' zst') as [E _]; auto.
    - constructor; cbn [cf_init cz_init st_cc st_max st_size_err zs_cc zs_size zs_size_err]; auto; lia.
    - intros f a b I SC NB. unfold have_cue_mod. apply in_flat_map. exists f. split; auto.
      rewrite SC. destruct b; [congruence|left; reflexivity].
  Qed.

  (* ... and so do the lists of valid names the two entry points report *)
  Theorem checks_agree_valid_lists : forall files zs, (zs <= MaxZipFile)%Z ->
    Forall (agree_cond (have_cue_mod files)) files ->
    c_valid (check_files is_letter fold_min files) =
    c_valid (check_zip is_letter fold_min zs (map entry_of_file files)).
  Proof.
    intros files zs ZS AC. pose proof (checks_agree_when files AC) as E.
    unfold check_files, Model.check_zip.
    destruct (MaxZipFile <? zs)%Z eqn:Z; [apply Z.ltb_lt in Z; lia|].
    destruct (check_files_verdicts is_letter fold_min files) as [vs st].
    destruct (check_zip_verdicts is_letter fold_min (map entry_of_file files)) as [vs' zst]. cbn [fst] in E. subst vs'.
    destruct (collect_errs [] (combine (map f_name files) vs)). cbn [c_valid].
    rewrite map_map. reflexivity.
  Qed.
End Oracle.

(* ---------------------------------------------------------------- refutations (known finding F7)
   Without the side condition the two checks reject different files.  Concrete witnesses, computed. *)
Definition rf (name : String.string) : file := mkFile (lit name) KRegular 0 [].

(* F7a: a regular root file named cue.mod - Valid for CheckFiles, Invalid for CheckZip *)
Theorem checks_agree_refuted_root_file :
  exists files, Forall (fun f => f_kind f = KRegular) files /\
    fst (check_files_verdicts (fun _ => false) (fun r => r) files) = [VValid] /\
    fst (check_zip_verdicts (fun _ => false) (fun r => r) (map entry_of_file files)) = [VInvalid].
Proof. exists [rf "cue.mod"]. split; [repeat constructor|]. split; vm_compute; reflexivity. Qed.

(* F7b: CheckZip registers the wrongly-cased Cue.Mod/x in its collision table before rejecting it,
   CheckFiles rejects it first; the later cue.mod/module.cue is then rejected only by CheckZip *)
Theorem checks_agree_refuted_case_variant :
  exists files, Forall (fun f => f_kind f = KRegular) files /\
    fst (check_files_verdicts (fun _ => false) (fun r => r) files) = [VInvalid; VValid] /\
    fst (check_zip_verdicts (fun _ => false) (fun r => r) (map entry_of_file files)) = [VInvalid; VInvalid].
Proof. exists [rf "Cue.Mod/x"; rf "cue.mod/module.cue"]. split; [repeat constructor|]. split; vm_compute; reflexivity. Qed.

(* the overall verdicts still agree on both witnesses (both checks report an error) *)
Example refuted_witnesses_overall_agree :
  checked_err (check_files (fun _ => false) (fun r => r) [rf "cue.mod"]) = true /\
  checked_err (check_zip (fun _ => false) (fun r => r) 0 (map entry_of_file [rf "cue.mod"])) = true /\
  checked_err (check_files (fun _ => false) (fun r => r) [rf "Cue.Mod/x"; rf "cue.mod/module.cue"]) = true /\
  checked_err (check_zip (fun _ => false) (fun r => r) 0 (map entry_of_file [rf "Cue.Mod/x"; rf "cue.mod/module.cue"])) = true.
Proof. vm_compute. repeat split; reflexivity. Qed.

(* non-vacuity of the side condition: an ordinary module satisfies it *)
Example agree_cond_nonvacuous :
  let files := [rf "cue.mod/module.cue"; rf "x.cue"; rf "sub/y.cue"; rf "LICENSE"] in
  Forall (agree_cond (have_cue_mod files)) files /\
  fst (check_files_verdicts (fun _ => false) (fun r => r) files) = [VValid; VValid; VValid; VValid].
Proof.
  split.
  - repeat constructor; try (vm_compute; congruence); try (vm_compute; reflexivity); try (vm_compute; discriminate).
  - vm_compute. reflexivity.
Qed.
