(* Hostile archives are rejected by CheckZip (and therefore never extracted). *)
From Coq Require Import String.
From Coq Require Import List NArith ZArith Bool Lia.
From Verif Require Import Zip.Bytes Zip.BytesProofs Zip.Model Zip.PathProofs Zip.ZipProofs Zip.FsProofs
  Zip.UnzipProofs Zip.CollisionProofs Zip.ElemProofs.
Import ListNotations.
Local Open Scope N_scope.

Section Oracle.
  Variable is_letter : N -> bool.
  Variable fold_min : N -> N.
  Notation fold := (str_to_fold fold_min).
  Notation check_zip := (check_zip is_letter fold_min).
  Notation check_path := (check_path is_letter).
  Notation entry_ok := (entry_ok is_letter fold_min).
  Notation cz_chain := (cz_chain is_letter fold_min).

  Lemma accepted_entry : forall zs es e, checked_err (check_zip zs es) = false -> In e es ->
    exists s v s', entry_ok s e v s'.
  Proof.
    intros zs es e H I. pose proof (check_zip_ok_entries is_letter fold_min zs es H) as F.
    rewrite Forall_forall in F. auto.
  Qed.

  Lemma accepted_name_safe : forall zs es e, checked_err (check_zip zs es) = false -> In e es ->
    check_path (entry_name e) = true.
  Proof.
    intros zs es e H I. destruct (accepted_entry zs es e H I) as [s [v [s' OK]]]. apply (eo_path _ _ _ _ _ _ OK).
  Qed.

  (* the raw zf.Name is the checked name, plus one '/' for a directory entry *)
  Lemma e_name_shape : forall e, e_name e = entry_name e \/ e_name e = entry_name e ++ [c_slash].
  Proof.
    intros e. unfold entry_name, entry_is_dir. destruct (ends_with_slash (e_name e)) eqn:D; auto.
    right. apply ends_with_slash_removelast. exact D.
  Qed.

  (* absolute names *)
  Theorem hostile_absolute_rejected : forall zs es e, In e es -> is_abs (e_name e) = true ->
    checked_err (check_zip zs es) = true.
  Proof.
    intros zs es e I A. destruct (checked_err (check_zip zs es)) eqn:C; auto.
    pose proof (accepted_name_safe zs es e C I) as P.
    destruct (check_path_safe is_letter _ P) as [_ [_ [_ [NA _]]]].
    destruct (check_path_elems is_letter _ P) as [_ [_ NE]].
    destruct (e_name_shape e) as [E|E]; rewrite E in A; [congruence|].
    destruct (entry_name e) as [|b t]; [congruence|]. simpl in *. congruence.
  Qed.

  (* "." , ".." and empty elements *)
  Theorem hostile_dot_element_rejected : forall zs es e x, In e es ->
    In x (split_slash (entry_name e)) -> x = s_dot \/ x = s_dotdot \/ x = [] ->
    checked_err (check_zip zs es) = true.
  Proof.
    intros zs es e x I X B. destruct (checked_err (check_zip zs es)) eqn:C; auto.
    pose proof (accepted_name_safe zs es e C I) as P.
    destruct (check_path_safe is_letter _ P) as [_ [_ [G _]]].
    rewrite Forall_forall in G. destruct (G _ X) as [A1 [A2 [A3 _]]]. intuition congruence.
  Qed.

  (* backslash, colon, NUL anywhere in the name *)
  Theorem hostile_byte_rejected : forall zs es e b, In e es -> In b (e_name e) ->
    b = c_backslash \/ b = c_colon \/ b = 0 ->
    checked_err (check_zip zs es) = true.
  Proof.
    intros zs es e b I X B. destruct (checked_err (check_zip zs es)) eqn:C; auto.
    pose proof (accepted_name_safe zs es e C I) as P.
    destruct (check_path_safe is_letter _ P) as [_ [_ [_ [_ [_ S]]]]].
    assert (Y : In b (entry_name e)).
    { destruct (e_name_shape e) as [E|E]; rewrite E in X; auto.
      apply in_app_or in X. destruct X as [X|[X|[]]]; auto. subst b.
      destruct B as [B|[B|B]]; vm_compute in B; discriminate. }
    destruct (S _ Y) as [S1 [S2 S3]]. intuition congruence.
  Qed.

  (* a vendored development-time local-module file *)
  Theorem hostile_local_module_rejected : forall zs es e, In e es -> entry_name e = s_local_module ->
    checked_err (check_zip zs es) = true.
  Proof.
    intros zs es e I X. destruct (checked_err (check_zip zs es)) eqn:C; auto.
    destruct (accepted_entry zs es e C I) as [s [v [s' OK]]]. exfalso. apply (eo_local _ _ _ _ _ _ OK). exact X.
  Qed.

  (* oversized cue.mod/module.cue or LICENSE *)
  Theorem hostile_oversize_rejected : forall zs es e, In e es -> entry_is_dir e = false ->
    (entry_name e = s_cue_mod_module_cue /\ (MaxCUEMod < to_int64 (e_declared e))%Z) \/
    (entry_name e = s_license /\ (MaxLICENSE < to_int64 (e_declared e))%Z) ->
    checked_err (check_zip zs es) = true.
  Proof.
    intros zs es e I D X. destruct (checked_err (check_zip zs es)) eqn:C; auto.
    destruct (accepted_entry zs es e C I) as [s [v [s' OK]]].
    destruct (eo_file _ _ _ _ _ _ OK D) as [_ [_ [A B]]]. tauto.
  Qed.

  (* total declared size above MaxZipFile, or a declared size that is negative as int64 *)
  Theorem hostile_total_size_rejected : forall zs es,
    (MaxZipFile < declared_sum es)%Z \/ (exists e, In e es /\ entry_is_dir e = false /\ (to_int64 (e_declared e) < 0)%Z) ->
    checked_err (check_zip zs es) = true.
  Proof.
    intros zs es X. destruct (checked_err (check_zip zs es)) eqn:C; auto.
    destruct (check_zip_total_size is_letter fold_min zs es C) as [A B].
    destruct X as [X|[e [I [D N]]]]; [lia|].
    rewrite Forall_forall in B. specialize (B _ I D). lia.
  Qed.

  (* the zip file itself above MaxZipFile *)
  Theorem hostile_zip_size_rejected : forall zs es, (MaxZipFile < zs)%Z -> checked_err (check_zip zs es) = true.
  Proof.
    intros zs es X. destruct (checked_err (check_zip zs es)) eqn:C; auto.
    destruct (check_zip_ok is_letter fold_min zs es C) as [A _]. lia.
  Qed.

  (* a cue.mod anywhere but as the root directory (nested, a plain file, wrong case) *)
  Theorem hostile_cue_mod_rejected : forall zs es e, In e es -> cz_cue_mod (entry_name e) = None ->
    checked_err (check_zip zs es) = true.
  Proof.
    intros zs es e I X. destruct (checked_err (check_zip zs es)) eqn:C; auto.
    destruct (accepted_entry zs es e C I) as [s [v [s' OK]]]. exfalso. apply (eo_cue_mod _ _ _ _ _ _ OK). exact X.
  Qed.

  (* a cue.mod (any case) as a non-first element of a name: nested module *)
  Theorem hostile_nested_cue_mod_rejected : forall zs es e pre x suf, In e es ->
    split_slash (entry_name e) = pre ++ x :: suf -> pre <> [] -> ascii_eqfold x s_cue_mod = true ->
    checked_err (check_zip zs es) = true.
  Proof.
    intros zs es e pre x suf I SP NP EQ. destruct (checked_err (check_zip zs es)) eqn:C; auto.
    pose proof (accepted_name_safe zs es e C I) as P.
    rewrite <- C. eapply hostile_cue_mod_rejected; eauto.
    eapply checked_nested_cue_mod; eauto.
  Qed.

  (* no module file *)
  Theorem no_module_file_rejected : forall zs es,
    (forall e, In e es -> entry_name e <> s_cue_mod_module_cue) -> checked_err (check_zip zs es) = true.
  Proof.
    intros zs es X. destruct (checked_err (check_zip zs es)) eqn:C; auto. exfalso.
    destruct (check_zip_ok is_letter fold_min zs es C) as [_ [st' [CH [_ M]]]].
    assert (G : forall es st st', cz_chain st es st' -> (forall e, In e es -> entry_name e <> s_cue_mod_module_cue) ->
                zs_mod st' = true -> zs_mod st = true).
    { clear. induction es as [|e es IH]; intros st st' H X M; simpl in H.
      - subst; auto.
      - destruct H as [v [s1 [OK CH]]].
        assert (M1 : zs_mod s1 = true) by (eapply IH; eauto; intros; apply X; right; auto).
        destruct (eo_mod _ _ _ _ _ _ OK M1) as [A|A]; auto. exfalso. apply (X e); [left; auto|exact A]. }
    specialize (G _ _ _ CH X M). discriminate.
  Qed.

  (* ---------------------------------------------------------------- collisions *)
  Lemma cz_chain_app : forall a b st st', cz_chain st (a ++ b) st' <-> exists s, cz_chain st a s /\ cz_chain s b st'.
  Proof.
    induction a as [|e a IH]; intros b st st'; simpl.
    - split; [intros H; exists st; auto|intros [s [-> H]]; auto].
    - split.
      + intros [v [s1 [OK H]]]. apply IH in H. destruct H as [s [H1 H2]]. exists s. split; auto. exists v, s1. auto.
      + intros [s [[v [s1 [OK H1]]] H2]]. exists v, s1. split; auto. apply IH. exists s. auto.
  Qed.

  Lemma cz_chain_cc_mono : forall es st st', cz_chain st es st' ->
    forall k v, cc_lookup k (zs_cc st) = Some v -> cc_lookup k (zs_cc st') = Some v.
  Proof.
    induction es as [|e es IH]; intros st st' H k v L; simpl in H.
    - subst; auto.
    - destruct H as [w [s1 [OK CH]]]. eapply IH; eauto.
      eapply cc_check_mono; [apply (eo_cc _ _ _ _ _ _ OK)|exact L].
  Qed.

  (* Two entries of an accepted archive never register fold-equal paths, except the same
     directory twice.  [cc_targets name isDir] = the name itself and all its parent directories. *)
  Theorem accepted_no_collision : forall zs l1 e1 l2 e2 l3 q1 x1 q2 x2,
    checked_err (check_zip zs (l1 ++ e1 :: l2 ++ e2 :: l3)) = false ->
    In (q1, x1) (cc_targets (entry_name e1) (entry_is_dir e1)) ->
    In (q2, x2) (cc_targets (entry_name e2) (entry_is_dir e2)) ->
    fold q1 = fold q2 -> q1 = q2 /\ x1 = true /\ x2 = true.
  Proof.
    intros zs l1 e1 l2 e2 l3 q1 x1 q2 x2 H I1 I2 F.
    destruct (check_zip_ok is_letter fold_min _ _ H) as [_ [st' [CH _]]].
    apply cz_chain_app in CH. destruct CH as [sa [_ CH]]. simpl in CH.
    destruct CH as [v1 [sb [OK1 CH]]]. apply cz_chain_app in CH. destruct CH as [sc [CH2 CH]]. simpl in CH.
    destruct CH as [v2 [sd [OK2 _]]].
    eapply (cc_no_collision fold_min); [apply (eo_cc _ _ _ _ _ _ OK1)| |apply (eo_cc _ _ _ _ _ _ OK2)| | |]; eauto.
    apply (cz_chain_cc_mono _ _ _ CH2).
  Qed.

  (* duplicate names and case-insensitive (Unicode simple folding) collisions between a file
     entry and any other entry *)
  Theorem hostile_collision_rejected : forall zs l1 e1 l2 e2 l3,
    entry_is_dir e1 = false \/ entry_is_dir e2 = false ->
    fold (entry_name e1) = fold (entry_name e2) ->
    checked_err (check_zip zs (l1 ++ e1 :: l2 ++ e2 :: l3)) = true.
  Proof.
    intros zs l1 e1 l2 e2 l3 D F. destruct (checked_err (check_zip zs (l1 ++ e1 :: l2 ++ e2 :: l3))) eqn:C; auto.
    destruct (accepted_no_collision zs l1 e1 l2 e2 l3 (entry_name e1) (entry_is_dir e1) (entry_name e2) (entry_is_dir e2) C)
      as [_ [A B]]; auto; try (left; reflexivity).
    destruct D; congruence.
  Qed.

  (* ---------------------------------------------------------------- mode bits are irrelevant:
     symlink / directory / irregular mode bits in the header change nothing; whatever Unzip
     creates is created as a regular file (or a directory by MkdirAll) *)
  Definition rekind (g : entry -> kind) (e : entry) : entry :=
    mkEntry (e_name e) (e_declared e) (g e) (e_data e) (e_crc_ok e) (e_open_ok e) (e_deflate e).

  Lemma cz_loop_rekind : forall g es st,
    cz_loop is_letter fold_min st (map (rekind g) es) = cz_loop is_letter fold_min st es.
  Proof.
    induction es as [|e es IH]; intros st; cbn [map Model.cz_loop]; auto.
    change (cz_step is_letter fold_min st (rekind g e)) with (cz_step is_letter fold_min st e).
    destruct (cz_step is_letter fold_min st e) as [v s1]. rewrite IH. reflexivity.
  Qed.

  Lemma unzip_entries_rekind : forall g dir es fs,
    unzip_entries dir fs (map (rekind g) es) = unzip_entries dir fs es.
  Proof.
    induction es as [|e es IH]; intros fs; cbn [map unzip_entries]; auto.
    cbn [rekind e_name e_open_ok e_declared].
    change (zip_read (rekind g e)) with (zip_read e).
    destruct (e_name e); auto. destruct (ends_with_slash (n :: s)); auto.
    destruct (mkdir_all fs (removelast (join_path dir (n :: s)))); auto.
    destruct (e_open_ok e); cbn [negb]; auto.
    destruct (zip_read e) as [dl rerr]. destruct (limited_copy (to_int64 (e_declared e)) dl rerr) as [w err].
    destruct (create_excl f (join_path dir (n :: s)) w); auto. destruct err; auto.
  Qed.

  Theorem unzip_ignores_mode_bits : forall g dir fs zs es,
    unzip is_letter fold_min dir fs zs (map (rekind g) es) = unzip is_letter fold_min dir fs zs es.
  Proof.
    intros. unfold unzip, Model.check_zip, check_zip_verdicts.
    rewrite cz_loop_rekind, map_map.
    replace (map (fun x => e_name (rekind g x)) es) with (map e_name es) by (apply map_ext; reflexivity).
    destruct (dir_nonempty fs dir); auto.
    match goal with |- (if ?c then _ else _) = _ => destruct c end; auto.
    destruct (mkdir_all fs dir); auto. apply unzip_entries_rekind.
  Qed.
End Oracle.
