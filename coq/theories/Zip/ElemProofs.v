(* Element-level behaviour of the byte-level path walkers (path.Split/Dir, dir_chain,
   splitCUEMod, inSubmodule) on paths that are joins of slash-free, plain elements. *)
From Coq Require Import String.
From Coq Require Import List NArith ZArith Bool Lia.
From Verif Require Import Zip.Bytes Zip.BytesProofs Zip.Model Zip.PathProofs.
Import ListNotations.
Local Open Scope N_scope.

Definition pelem (e : str) : Prop := plain_elem e /\ ~ In c_slash e.

Lemma good_pelem : forall e, good_elem e -> pelem e.
Proof. intros e G. split; [apply good_plain; auto|apply good_no_slash; auto]. Qed.

Lemma path_split_noslash : forall x, ~ In c_slash x -> path_split x = ([], x).
Proof.
  induction x as [|b t IH]; simpl; intros H; auto.
  rewrite IH by tauto. destruct (b =? c_slash) eqn:E; auto.
  apply N.eqb_eq in E. subst. tauto.
Qed.

Lemma path_split_app : forall a x, ~ In c_slash x -> path_split (a ++ c_slash :: x) = (a ++ [c_slash], x).
Proof.
  induction a as [|b a IH]; intros x H.
  - simpl. rewrite path_split_noslash by auto. reflexivity.
  - simpl. rewrite IH by auto. destruct (a ++ [c_slash]) eqn:E; auto.
    destruct a; discriminate.
Qed.

Lemma join_snoc : forall pre x, pre <> [] -> join_slash (pre ++ [x]) = join_slash pre ++ c_slash :: x.
Proof. intros. unfold join_slash. rewrite join_with_app; auto. congruence. Qed.

Lemma path_split_join : forall pre x, pre <> [] -> ~ In c_slash x ->
  path_split (join_slash (pre ++ [x])) = (join_slash pre ++ [c_slash], x).
Proof. intros. rewrite join_snoc by auto. apply path_split_app; auto. Qed.

Lemma join_nonempty : forall es, es <> [] -> Forall pelem es -> join_slash es <> [].
Proof.
  intros [|e es] NE F; try congruence. inversion F; subst. destruct H1 as [[A _] _].
  unfold join_slash. destruct es; simpl; destruct e; simpl; congruence.
Qed.

Lemma last_byte_app : forall a b t, last_byte (a ++ b :: t) = last_byte (b :: t).
Proof.
  induction a as [|x a IH]; intros; auto. simpl app.
  destruct (a ++ b :: t) eqn:E; [destruct a; discriminate|]. rewrite <- E. simpl. rewrite E. rewrite <- E. apply IH.
Qed.

Lemma join_last_not_slash : forall es, es <> [] -> Forall pelem es -> ends_with_slash (join_slash es) = false.
Proof.
  intros es NE F. destruct (exists_last NE) as [pre [x ->]].
  apply Forall_app in F. destruct F as [Fp Fx]. inversion Fx; subst. destruct H1 as [[XN _] XS].
  assert (L : ends_with_slash x = false).
  { unfold ends_with_slash. destruct (last_byte x) eqn:E; auto. apply N.eqb_neq. intros ->.
    apply XS. clear -E. induction x as [|b t IH]; [discriminate|]. destruct t; [inversion E; left; auto|].
    right. apply IH. exact E. }
  destruct pre as [|p0 pre'].
  - exact L.
  - rewrite join_snoc by congruence. unfold ends_with_slash in *.
    destruct x as [|b t]; [congruence|]. change (c_slash :: b :: t) with ([c_slash] ++ b :: t).
    rewrite app_assoc, last_byte_app. exact L.
Qed.

Lemma trim_right_slash_id : forall s, ends_with_slash s = false -> trim_right_slash s = s.
Proof.
  unfold ends_with_slash. induction s as [|b t IH]; intros H; auto.
  simpl. destruct t as [|b1 t1].
  - simpl in *. rewrite H. reflexivity.
  - rewrite IH by exact H. reflexivity.
Qed.

Lemma trim_right_slash_snoc : forall s, trim_right_slash (s ++ [c_slash]) = trim_right_slash s.
Proof.
  induction s as [|b t IH]; simpl; auto. rewrite IH. reflexivity.
Qed.

Lemma trim_join_slash : forall pre, pre <> [] -> Forall pelem pre ->
  trim_right_slash (join_slash pre ++ [c_slash]) = join_slash pre.
Proof.
  intros. rewrite trim_right_slash_snoc. apply trim_right_slash_id. apply join_last_not_slash; auto.
Qed.

Lemma removelast_snoc : forall (A : Type) (l : list A) x, removelast (l ++ [x]) = l.
Proof. intros. rewrite removelast_app by congruence. simpl. apply app_nil_r. Qed.

(* path.Dir on a join *)
Lemma path_dir_join : forall pre x, pre <> [] -> Forall pelem pre -> pelem x ->
  path_dir (join_slash (pre ++ [x])) = join_slash pre.
Proof.
  intros pre x NE F [_ XS]. unfold path_dir. rewrite path_split_join by auto. cbn [fst].
  assert (E : join_slash pre ++ [c_slash] = join_slash (pre ++ [[]])).
  { rewrite join_snoc by auto. reflexivity. }
  rewrite E.
  assert (NS : forall e, In e (pre ++ [[]]) -> ~ In c_slash e).
  { intros e I. apply in_app_or in I. destruct I as [I|[<-|[]]]; [|tauto].
    rewrite Forall_forall in F. apply F; auto. }
  destruct pre as [|p0 pre']; try congruence.
  assert (P0 : pelem p0) by (inversion F; auto).
  assert (A : is_abs (join_slash ((p0 :: pre') ++ [[]])) = false).
  { apply is_abs_join; [destruct P0 as [[X _] _]; auto|apply NS; left; auto]. }
  unfold clean. rewrite A.
  destruct (join_slash ((p0 :: pre') ++ [[]])) as [|b t] eqn:J.
  { exfalso. rewrite <- E in J. destruct (join_slash (p0 :: pre')); discriminate. }
  rewrite <- J. unfold split_slash, join_slash. rewrite split_join; auto; [|destruct pre'; discriminate].
  rewrite clean_elems_app.
  rewrite (clean_elems_plain false (p0 :: pre') []) by (eapply Forall_impl; [|exact F]; intros ? [X _]; exact X).
  change (rev [] ++ p0 :: pre') with (p0 :: pre').
  cbn [clean_elems str_eqb orb]. rewrite rev_involutive. fold join_slash.
  destruct (join_slash (p0 :: pre')) eqn:JJ; auto.
  exfalso. revert JJ. apply join_nonempty; auto.
Qed.

Lemma path_dir_single : forall x, ~ In c_slash x -> path_dir x = s_dot.
Proof. intros. unfold path_dir. rewrite path_split_noslash by auto. reflexivity. Qed.

Lemma join_not_dot : forall es, es <> [] -> Forall pelem es -> join_slash es <> s_dot.
Proof.
  intros es NE F E. destruct es as [|e es]; try congruence. inversion F; subst.
  destruct H1 as [[A [B C]] S]. unfold join_slash in E. destruct es as [|e2 es].
  - simpl in E. congruence.
  - change (join_with c_slash (e :: e2 :: es)) with (e ++ c_slash :: join_with c_slash (e2 :: es)) in E.
    destruct e as [|b [|b' t]]; try congruence; simpl in E; try discriminate.
Qed.

(* every proper directory prefix of a joined path is in its dir_chain *)
Lemma dir_chain_contains : forall suf pre k,
  pre <> [] -> suf <> [] -> Forall pelem (pre ++ suf) -> (length suf <= k)%nat ->
  In (join_slash pre) (dir_chain k (join_slash (pre ++ suf))).
Proof.
  intros suf. induction suf as [|x suf' IH] using rev_ind; intros pre k NP NS F L; try congruence.
  rewrite app_length in L. simpl in L. destruct k as [|k]; [lia|].
  rewrite app_assoc in *. apply Forall_app in F. destruct F as [F1 Fx]. inversion Fx; subst.
  assert (NN : pre ++ suf' <> []) by (destruct pre; [congruence|discriminate]).
  cbn [dir_chain]. rewrite path_dir_join; auto.
  assert (ND : str_eqb (join_slash (pre ++ suf')) s_dot = false).
  { apply str_eqb_neq. apply join_not_dot; auto. }
  rewrite ND. destruct suf' as [|y suf''].
  - rewrite app_nil_r. left; reflexivity.
  - right. apply IH; auto; try discriminate. lia.
Qed.

Lemma join_length_ge : forall es, Forall pelem es -> (length es <= length (join_slash es))%nat.
Proof.
  induction es as [|e es IH]; intros F; simpl; auto.
  inversion F; subst. destruct H1 as [[A _] _]. specialize (IH H2).
  destruct es as [|e' es'].
  - simpl. destruct e; simpl; try congruence; lia.
  - change (join_slash (e :: e' :: es')) with (e ++ c_slash :: join_slash (e' :: es')).
    rewrite app_length. simpl in *. lia.
Qed.

Lemma cut_on_nosep : forall c e, ~ In c e -> cut_on c e = (e, []).
Proof.
  induction e as [|b t IH]; simpl; intros NS; auto.
  destruct (b =? c) eqn:E; [apply N.eqb_eq in E; subst; tauto|].
  rewrite IH by tauto. reflexivity.
Qed.

Lemma cut_on_app : forall c e rest, ~ In c e -> cut_on c (e ++ c :: rest) = (e, rest).
Proof.
  induction e as [|b t IH]; simpl; intros rest NS.
  - rewrite N.eqb_refl. reflexivity.
  - destruct (b =? c) eqn:E; [apply N.eqb_eq in E; subst; tauto|].
    rewrite IH by tauto. reflexivity.
Qed.

Lemma cut_on_join : forall e es, ~ In c_slash e -> cut_on c_slash (join_slash (e :: es)) = (e, join_slash es).
Proof.
  intros e es NS. destruct es as [|e2 es].
  - change (join_slash [e]) with e. apply cut_on_nosep; auto.
  - change (join_slash (e :: e2 :: es)) with (e ++ c_slash :: join_slash (e2 :: es)). apply cut_on_app; auto.
Qed.

Lemma firstn_app_exact : forall (A : Type) (a b : list A), firstn (length a) (a ++ b) = a.
Proof. intros. rewrite firstn_app, Nat.sub_diag, firstn_all. simpl. apply app_nil_r. Qed.

(* splitCUEMod and inSubmodule walk up the same chain of directory prefixes *)
Lemma scm_walk : forall pre suf k k2 hcm a b,
  pre <> [] -> Forall pelem (pre ++ suf) -> (length pre <= k)%nat -> (length pre <= k2)%nat ->
  split_cue_mod_aux k (join_slash (pre ++ suf)) (join_slash pre) = (a, b) -> b <> [] ->
  (a = [] -> ascii_eqfold (hd [] pre) s_cue_mod = true) /\
  (a <> [] -> In a hcm -> in_submodule_aux k2 hcm (join_slash pre) = true).
Proof.
  intros pre. induction pre as [|x pre' IH] using rev_ind; intros suf k k2 hcm a b NP F Lk Lk2 H NB; try congruence.
  rewrite app_length in Lk, Lk2. simpl in Lk, Lk2.
  destruct k as [|k]; [lia|]. destruct k2 as [|k2]; [lia|].
  assert (Fx : pelem x).
  { apply Forall_app in F. destruct F as [F _]. apply Forall_app in F. destruct F as [_ F]. inversion F; auto. }
  destruct Fx as [Px Sx].
  cbn [split_cue_mod_aux] in H. cbn [in_submodule_aux].
  destruct pre' as [|y pre''].
  - (* a single element *)
    simpl app in *. change (join_slash [x]) with x in *.
    rewrite path_split_noslash in H by auto. rewrite path_split_noslash by auto. cbn [fst].
    destruct (ascii_eqfold x s_cue_mod) eqn:E.
    + simpl in H. inversion H; subst. simpl. split; auto; congruence.
    + simpl in H. inversion H; subst. congruence.
  - assert (NE' : y :: pre'' <> []) by discriminate.
    assert (F' : Forall pelem (y :: pre'')).
    { apply Forall_app in F. destruct F as [F _]. apply Forall_app in F. tauto. }
    rewrite path_split_join in H by auto. rewrite path_split_join by auto. cbn [fst].
    destruct (ascii_eqfold x s_cue_mod) eqn:E.
    + assert (P : join_slash (((y :: pre'') ++ [x]) ++ suf) = (join_slash (y :: pre'') ++ [c_slash]) ++ join_slash (x :: suf)).
      { rewrite <- app_assoc. unfold join_slash. rewrite join_with_app by (try discriminate; auto).
        rewrite <- app_assoc. reflexivity. }
      rewrite P in H. rewrite firstn_app_exact in H. inversion H; subst.
      split; [intros Q; destruct (join_slash (y :: pre'')); discriminate|].
      intros _ I. destruct (join_slash (y :: pre'') ++ [c_slash]) eqn:Q; [destruct (join_slash (y :: pre'')); discriminate|].
      apply mem_str_In in I. rewrite I. reflexivity.
    + rewrite trim_join_slash in H by auto.
      destruct (join_slash (y :: pre'')) as [|j0 jt] eqn:J; [exfalso; revert J; apply join_nonempty; auto|].
      rewrite <- J in *. rewrite <- app_assoc in H, F.
      destruct (IH ([x] ++ suf) k k2 hcm a b NE' F ltac:(simpl in *; lia) ltac:(simpl in *; lia) H NB) as [A B].
      split; auto.
      intros NA I.
      destruct (join_slash (y :: pre'') ++ [c_slash]) eqn:Q; [destruct (join_slash (y :: pre'')); discriminate|].
      rewrite <- Q. destruct (mem_str (join_slash (y :: pre'') ++ [c_slash]) hcm); auto.
      rewrite removelast_snoc. auto.
Qed.

Lemma skipn_app_exact : forall (A : Type) (a b : list A), skipn (length a) (a ++ b) = b.
Proof. intros. rewrite skipn_app, Nat.sub_diag, skipn_all. reflexivity. Qed.

(* a cue.mod-like element below the root is found by splitCUEMod with a non-empty prefix *)
Lemma scm_finds_nested : forall cur rest k,
  Forall pelem (cur ++ rest) -> (length cur <= k)%nat ->
  (exists pre x suf, cur = pre ++ x :: suf /\ pre <> [] /\ ascii_eqfold x s_cue_mod = true) ->
  exists a b, split_cue_mod_aux k (join_slash (cur ++ rest)) (join_slash cur) = (a, b) /\ a <> [] /\ b <> [].
Proof.
  intros cur. induction cur as [|y cur' IH] using rev_ind; intros rest k F L [pre [x [suf [E [NP EQ]]]]].
  - destruct pre; discriminate.
  - rewrite app_length in L. simpl in L. destruct k as [|k]; [lia|].
    assert (Fy : pelem y).
    { apply Forall_app in F. destruct F as [F _]. apply Forall_app in F. destruct F as [_ F]. inversion F; auto. }
    destruct Fy as [[Yn _] Ys].
    destruct cur' as [|c0 cur''].
    { exfalso. destruct pre as [|p0 pre']; [congruence|]. simpl in E. inversion E. destruct pre'; discriminate. }
    assert (NE' : c0 :: cur'' <> []) by discriminate.
    assert (F' : Forall pelem (c0 :: cur'')).
    { apply Forall_app in F. destruct F as [F _]. apply Forall_app in F. tauto. }
    cbn [split_cue_mod_aux]. rewrite path_split_join by auto.
    assert (P : join_slash (((c0 :: cur'') ++ [y]) ++ rest) = (join_slash (c0 :: cur'') ++ [c_slash]) ++ join_slash (y :: rest)).
    { rewrite <- app_assoc. unfold join_slash. rewrite join_with_app by (try discriminate; auto).
      rewrite <- app_assoc. reflexivity. }
    destruct (ascii_eqfold y s_cue_mod) eqn:EY.
    + rewrite P, firstn_app_exact, skipn_app_exact. eexists. eexists. split; [reflexivity|]. split.
      * destruct (join_slash (c0 :: cur'')); discriminate.
      * unfold join_slash. destruct rest; simpl; destruct y; try congruence; discriminate.
    + rewrite trim_join_slash by auto.
      destruct (join_slash (c0 :: cur'')) as [|j0 jt] eqn:J; [exfalso; revert J; apply join_nonempty; auto|].
      rewrite <- app_assoc. apply IH.
      * rewrite <- app_assoc in F. exact F.
      * simpl in *. lia.
      * (* the witness lies in cur' because y itself is not cue.mod-like *)
        assert (SUF : suf <> []).
        { intro Q. subst suf. apply app_inj_tail in E. destruct E as [_ E]. subst. congruence. }
        destruct (exists_last SUF) as [suf' [z Ez]]. subst suf. exists pre, x, suf'. split; auto.
        rewrite app_comm_cons, app_assoc in E. apply app_inj_tail in E. tauto.
Qed.

Section Oracle.
  Variable is_letter : N -> bool.

  Lemma checked_elems : forall p, check_path is_letter p = true ->
    p = join_slash (split_slash p) /\ split_slash p <> [] /\ Forall pelem (split_slash p).
  Proof.
    intros p H. destruct (check_path_safe is_letter p H) as [J [NE [G _]]].
    repeat split; auto. eapply Forall_impl; [|exact G]. apply good_pelem.
  Qed.

  (* a checked name registers every proper directory prefix (as a joined string) *)
  Lemma checked_dir_chain : forall p pre suf, check_path is_letter p = true ->
    split_slash p = pre ++ suf -> pre <> [] -> suf <> [] ->
    In (join_slash pre) (dir_chain (S (length p)) p).
  Proof.
    intros p pre suf H E NP NS. destruct (checked_elems p H) as [J [_ F]].
    rewrite E in *. rewrite J at 2. apply dir_chain_contains; auto.
    pose proof (join_length_ge _ F) as L. rewrite <- J in L. rewrite app_length in L.
    destruct pre; [congruence|]. simpl in L. lia.
  Qed.

  Lemma checked_scm : forall p hcm a b, check_path is_letter p = true -> split_cue_mod p = (a, b) -> b <> [] ->
    (a = [] -> ascii_eqfold (fst (cut_on c_slash p)) s_cue_mod = true) /\
    (a <> [] -> In a hcm -> in_submodule hcm p = true).
  Proof.
    intros p hcm a b H SC NB. destruct (checked_elems p H) as [J [NE F]].
    pose proof (join_length_ge _ F) as L. rewrite <- J in L.
    unfold split_cue_mod in SC. unfold in_submodule.
    destruct (scm_walk (split_slash p) [] (S (length p)) (S (length p)) hcm a b) as [A B]; auto.
    - rewrite app_nil_r. exact F.
    - rewrite app_nil_r, <- J. exact SC.
    - split.
      + intros Q. specialize (A Q). destruct (split_slash p) as [|e es] eqn:SP; try congruence.
        rewrite J. rewrite cut_on_join; auto. inversion F; subst. destruct H2; auto.
      + intros NA I. rewrite J at 2. auto.
  Qed.

  Lemma checked_nested_cue_mod : forall p pre x suf, check_path is_letter p = true ->
    split_slash p = pre ++ x :: suf -> pre <> [] -> ascii_eqfold x s_cue_mod = true ->
    cz_cue_mod p = None.
  Proof.
    intros p pre x suf H SP NP EQ. destruct (checked_elems p H) as [J [NE F]].
    pose proof (join_length_ge _ F) as L. rewrite <- J in L.
    destruct (scm_finds_nested (split_slash p) [] (S (length p))) as [a [b [SC [NA NB]]]].
    - rewrite app_nil_r. exact F.
    - lia.
    - exists pre, x, suf. auto.
    - rewrite app_nil_r, <- J in SC. unfold cz_cue_mod, split_cue_mod. rewrite SC.
      destruct b; [congruence|]. destruct a; [congruence|]. reflexivity.
  Qed.
End Oracle.
