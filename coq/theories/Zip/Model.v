(* Executable model of mod/modzip/zip.go (CheckFiles/checkFiles, CheckZip, Create, Unzip,
   collisionChecker, strToFold, splitCUEMod) and of mod/module/path.go (CheckFilePath =
   checkPath/checkElem/fileNameOK with kind filePath).  It follows the Go code branch
   by branch; every definition names the Go function it models.  No proofs here.

   Oracles (Section variables): the two Unicode-table facts the code consults for runes
   >= 0x80.  ASCII behaviour is modelled exactly.
     is_letter r  = unicode.IsLetter(r)
     fold_min r   = the minimum of r's unicode.SimpleFold orbit (what the inner loop of
                    strToFold computes). *)
From Coq Require Import String.
From Coq Require Import List NArith ZArith Bool.
From Verif Require Import Zip.Bytes.
Import ListNotations.
Local Open Scope N_scope.

Definition MaxZipFile : Z := 524288000.   (* 500 << 20 *)
Definition MaxCUEMod : Z := 16777216.     (* 16 << 20 *)
Definition MaxLICENSE : Z := 16777216.

Definition s_cue_mod := lit "cue.mod"%string.
Definition s_module_cue := lit "module.cue"%string.
Definition s_cue_mod_slash := lit "cue.mod/"%string.
Definition s_cue_mod_module_cue := lit "cue.mod/module.cue"%string.
Definition s_local_module := lit "cue.mod/local-module.cue"%string.
Definition s_vendor_prefix := lit "cue.mod/vendor/"%string.
Definition s_hg_archival := lit ".hg_archival.txt"%string.
Definition s_license := lit "LICENSE"%string.

Definition bad_windows_names : list str :=
  map lit ["CON"; "PRN"; "AUX"; "NUL"; "COM1"; "COM2"; "COM3"; "COM4"; "COM5"; "COM6"; "COM7";
           "COM8"; "COM9"; "LPT1"; "LPT2"; "LPT3"; "LPT4"; "LPT5"; "LPT6"; "LPT7"; "LPT8"; "LPT9"]%string.

Inductive kind := KRegular | KDir | KSymlink | KOther.
Inductive verdict := VValid | VOmitted | VInvalid | VSkipped.

Definition verdict_eqb (a b : verdict) : bool :=
  match a, b with
  | VValid, VValid | VOmitted, VOmitted | VInvalid, VInvalid | VSkipped, VSkipped => true
  | _, _ => false
  end.

Section Oracle.
  Variable is_letter : N -> bool.
  Variable fold_min : N -> N.

  (* ------------------------------------------------------------ module/path.go *)

  (* fileNameOK; allowed = "!#$%&()+,-.=@[]^_{}~ " *)
  Definition ascii_file_char_ok (r : N) : bool :=
    ((48 <=? r) && (r <=? 57)) || ((65 <=? r) && (r <=? 90)) || ((97 <=? r) && (r <=? 122))
    || existsb (N.eqb r) [33; 35; 36; 37; 38; 40; 41; 43; 44; 45; 46; 61; 64; 91; 93; 94; 95; 123; 125; 126; 32].

  Definition file_name_ok (r : N) : bool :=
    if r <? 128 then ascii_file_char_ok r else is_letter r.

  (* checkElem(elem, filePath) : true = nil error *)
  Definition check_elem (e : str) : bool :=
    match e with
    | [] => false                                             (* empty path element *)
    | _ =>
      if forallb (N.eqb c_dot) e then false                   (* Count(elem,".") == len(elem) *)
      else if match last_byte e with Some b => b =? c_dot | None => false end then false
      else if negb (forallb file_name_ok (runes e)) then false
      else negb (existsb (fun bad => ascii_eqfold bad (fst (cut_on c_dot e))) bad_windows_names)
    end.

  (* checkPath(path, filePath) = CheckFilePath : true = nil error *)
  Definition check_path (p : str) : bool :=
    if negb (valid_utf8 p) then false
    else match p with
         | [] => false
         | _ =>
           if has_double_slash p then false
           else if ends_with_slash p then false
           else forallb check_elem (split_slash p)
         end.

  (* ------------------------------------------------------------ strToFold *)
  Definition fold_rune (r : N) : N :=
    let m := if r <? 128 then (if (97 <=? r) && (r <=? 122) then r - 32 else r) else fold_min r in
    if is_upper m then m + 32 else m.

  Definition str_to_fold (s : str) : str := concat (map (fun r => utf8_encode (fold_rune r)) (runes s)).

  (* ------------------------------------------------------------ collisionChecker *)
  Record path_info := mkPI { pi_path : str; pi_dir : bool }.
  Definition cc_map := list (str * path_info).

  Fixpoint cc_lookup (k : str) (m : cc_map) : option path_info :=
    match m with
    | [] => None
    | (k', v) :: r => if str_eqb k k' then Some v else cc_lookup k r
    end.

  (* the chain p, Dir(p), Dir(Dir(p)), ... that collisionChecker.check recurses over,
     stopping when the parent is "." *)
  Fixpoint dir_chain (fuel : nat) (p : str) : list str :=
    match fuel with
    | O => []
    | S k => let d := path_dir p in if str_eqb d s_dot then [] else d :: dir_chain k d
    end.

  (* collisionChecker.check on one (path, isDir) pair, without the recursion *)
  Definition cc_one (m : cc_map) (p : str) (isDir : bool) : cc_map * bool :=
    let k := str_to_fold p in
    match cc_lookup k m with
    | Some other =>
      if negb (str_eqb p (pi_path other)) then (m, false)       (* case-insensitive collision *)
      else if negb (Bool.eqb isDir (pi_dir other)) then (m, false)   (* both a file and a directory *)
      else if negb isDir then (m, false)                             (* multiple entries for file *)
      else (m, true)
    | None => ((k, mkPI p isDir) :: m, true)
    end.

  Fixpoint cc_walk (m : cc_map) (l : list (str * bool)) : cc_map * bool :=
    match l with
    | [] => (m, true)
    | (p, d) :: r =>
      let (m1, ok) := cc_one m p d in
      if ok then cc_walk m1 r else (m1, false)
    end.

  (* collisionChecker.check(p, isDir) *)
  Definition cc_check (m : cc_map) (p : str) (isDir : bool) : cc_map * bool :=
    cc_walk m ((p, isDir) :: map (fun d => (d, true)) (dir_chain (S (length p)) p)).

  (* ------------------------------------------------------------ splitCUEMod *)
  Fixpoint split_cue_mod_aux (fuel : nat) (p s : str) : str * str :=
    match fuel with
    | O => (p, [])
    | S k =>
      let (dir, f) := path_split s in
      if ascii_eqfold f s_cue_mod then (firstn (length dir) p, skipn (length dir) p)
      else let d := trim_right_slash dir in
           match d with
           | [] => (p, [])
           | _ => split_cue_mod_aux k p d
           end
    end.
  Definition split_cue_mod (p : str) : str * str := split_cue_mod_aux (S (length p)) p p.

  (* ------------------------------------------------------------ checkFiles *)
  Record file := mkFile { f_name : str; f_kind : kind; f_size : Z; f_data : str }.

  Definition is_vendored (p : str) : bool := has_prefix s_vendor_prefix p.

  (* haveCUEMod: the set of `dir`s for which splitCUEMod(path) has a non-empty rest *)
  Definition have_cue_mod (files : list file) : list str :=
    flat_map (fun f => let (d, rest) := split_cue_mod (f_name f) in
                       match rest with [] => [] | _ => [d] end) files.

  (* inSubmodule *)
  Fixpoint in_submodule_aux (fuel : nat) (hcm : list str) (p : str) : bool :=
    match fuel with
    | O => false
    | S k =>
      let dir := fst (path_split p) in
      match dir with
      | [] => false
      | _ => if mem_str dir hcm then true else in_submodule_aux k hcm (removelast dir)
      end
    end.
  Definition in_submodule (hcm : list str) (p : str) : bool := in_submodule_aux (S (length p)) hcm p.

  Record cf_state := mkCF {
    st_cc : cc_map; st_max : Z; st_size_err : bool; st_found : bool }.

  Definition cf_init : cf_state := mkCF [] MaxZipFile false false.

  (* the three cue.mod tests of checkFiles (the third one is dead code: topDir is "cue.mod" there) *)
  Definition cf_cue_mod_bad (p : str) : bool :=
    let (top, rest) := cut_on c_slash p in
    ascii_eqfold top s_cue_mod &&
    (negb (str_eqb top s_cue_mod)                                                    (* errCUEModCase *)
     || (ascii_eqfold rest s_module_cue && negb (str_eqb rest s_module_cue))          (* errCUEModuleCase *)
     || mem_str (fst (cut_on c_slash top)) [lit "pkg"%string; lit "usr"%string; lit "gen"%string]).

  (* if size >= 0 && size <= maxSize { maxSize -= size } else if cf.SizeError == nil { ... } *)
  Definition cf_account (st : cf_state) (size : Z) : cf_state :=
    if (0 <=? size)%Z && (size <=? st_max st)%Z
    then mkCF (st_cc st) (st_max st - size)%Z (st_size_err st) (st_found st)
    else mkCF (st_cc st) (st_max st) true (st_found st).

  (* the body of the main loop of checkFiles for one file: classification + new state *)
  Definition cf_step (hcm : list str) (st : cf_state) (f : file) : verdict * cf_state :=
    let p := f_name f in
    match f_kind f with
    | KDir => (VSkipped, st)
    | _ =>
      if negb (str_eqb p (clean p)) then (VInvalid, st)            (* errPathNotClean *)
      else if is_abs p then (VInvalid, st)                         (* errPathNotRelative *)
      else if is_vendored p then (VOmitted, st)
      else if in_submodule hcm p then (VOmitted, st)
      else if str_eqb p s_hg_archival then (VOmitted, st)
      else if str_eqb p s_local_module then (VOmitted, st)
      else if negb (check_path p) then (VInvalid, st)
      else if cf_cue_mod_bad p then (VInvalid, st)
      else
        let (cc', ok) := cc_check (st_cc st) p false in           (* info.IsDir() is false here *)
        let st1 := mkCF cc' (st_max st) (st_size_err st) (st_found st) in
        if negb ok then (VInvalid, st1)
        else match f_kind f with
             | KSymlink => (VOmitted, st1)
             | KOther => (VOmitted, st1)
             | _ =>
               let size := f_size f in
               let st2 := cf_account st1 size in
               if str_eqb p s_cue_mod_module_cue && (MaxCUEMod <? size)%Z then (VInvalid, st2)
               else
                 let st3 := mkCF (st_cc st2) (st_max st2) (st_size_err st2)
                                 (st_found st2 || str_eqb p s_cue_mod_module_cue) in
                 if str_eqb p s_license && (MaxLICENSE <? size)%Z then (VInvalid, st3)
                 else (VValid, st3)
             end
    end.

  Fixpoint cf_loop (hcm : list str) (st : cf_state) (files : list file) : list verdict * cf_state :=
    match files with
    | [] => ([], st)
    | f :: r =>
      let (v, st1) := cf_step hcm st f in
      let (vs, st2) := cf_loop hcm st1 r in
      (v :: vs, st2)
    end.

  (* CheckedFiles, names only; addError's errPaths de-duplication is applied by [dedup_errs] *)
  Record checked := mkChecked {
    c_valid : list str; c_omitted : list str; c_invalid : list str;
    c_size_err : bool; c_nomod : bool }.

  Definition checked_err (c : checked) : bool :=
    c_size_err c || match c_invalid c with [] => false | _ => true end || c_nomod c.

  (* addError: an error for a path already in errPaths is dropped (from both lists) *)
  Fixpoint collect_errs (seen : list str) (l : list (str * verdict)) : list str * list str :=
    match l with
    | [] => ([], [])
    | (p, v) :: r =>
      match v with
      | VOmitted | VInvalid =>
        if mem_str p seen then collect_errs seen r
        else let (o, i) := collect_errs (p :: seen) r in
             match v with VOmitted => (p :: o, i) | _ => (o, p :: i) end
      | _ => collect_errs seen r
      end
    end.

  Definition names_with (v : verdict) (l : list (str * verdict)) : list str :=
    map fst (filter (fun pv => verdict_eqb (snd pv) v) l).

  Definition check_files_verdicts (files : list file) : list verdict * cf_state :=
    cf_loop (have_cue_mod files) cf_init files.

  (* CheckFiles *)
  Definition check_files (files : list file) : checked :=
    let (vs, st) := check_files_verdicts files in
    let pv := combine (map f_name files) vs in
    let (o, i) := collect_errs [] pv in
    mkChecked (names_with VValid pv) o i (st_size_err st) (negb (st_found st)).

  (* validFiles of checkFiles *)
  Definition valid_files (files : list file) : list file :=
    map fst (filter (fun fv => verdict_eqb (snd fv) VValid)
                    (combine files (fst (check_files_verdicts files)))).

  (* ------------------------------------------------------------ CheckZip *)
  (* One zip.File as the code sees it.  e_data/e_crc_ok/e_open_ok describe what
     zf.Open() will deliver (archive/zip is modelled by [zip_read] below). *)
  Record entry := mkEntry {
    e_name : str; e_declared : N;          (* zf.Name, zf.UncompressedSize64 *)
    e_kind : kind;                          (* mode bits of the header; never consulted by CheckZip/Unzip *)
    e_data : str; e_crc_ok : bool; e_open_ok : bool;
    e_deflate : bool }.                      (* compression method 8 (else Store) *)

  (* int64(zf.UncompressedSize64) *)
  Definition to_int64 (n : N) : Z :=
    let m := (n mod 18446744073709551616)%N in
    if (m <? 9223372036854775808)%N then Z.of_N m else (Z.of_N m - 18446744073709551616)%Z.

  Record cz_state := mkCZ { zs_cc : cc_map; zs_size : Z; zs_size_err : bool; zs_mod : bool }.
  Definition cz_init : cz_state := mkCZ [] 0%Z false false.

  Definition entry_is_dir (e : entry) : bool := ends_with_slash (e_name e).
  Definition entry_name (e : entry) : str :=
    if entry_is_dir e then removelast (e_name e) else e_name e.

  (* the splitCUEMod block of CheckZip: None = addError, Some b = accepted, b = "this is modFile" *)
  Definition cz_cue_mod (name : str) : option bool :=
    let (prefix, rest) := split_cue_mod name in
    match rest with
    | [] => Some false
    | _ :: _ =>
      match prefix with
      | _ :: _ => None                                         (* cue.mod not in module root *)
      | [] =>
        if negb (contains_byte c_slash rest) then None         (* cue.mod is not a directory *)
        else if negb (has_prefix s_cue_mod_slash rest) then None   (* errCUEModCase *)
        else if ascii_eqfold rest s_cue_mod_module_cue
             then if negb (str_eqb rest s_cue_mod_module_cue) then None   (* errCUEModuleCase *)
                  else Some true
             else Some false
      end
    end.

  (* if sz >= 0 && MaxZipFile-size >= sz { size += sz } else if cf.SizeError == nil { ... } *)
  Definition cz_account (st : cz_state) (sz : Z) : cz_state :=
    if (0 <=? sz)%Z && (sz <=? MaxZipFile - zs_size st)%Z
    then mkCZ (zs_cc st) (zs_size st + sz)%Z (zs_size_err st) (zs_mod st)
    else mkCZ (zs_cc st) (zs_size st) true (zs_mod st).

  (* the body of the loop of CheckZip for one zip.File *)
  Definition cz_step (st : cz_state) (e : entry) : verdict * cz_state :=
    let isDir := entry_is_dir e in
    let name := entry_name e in
    if negb (str_eqb (clean name) name) then (VInvalid, st)
    else if negb (check_path name) then (VInvalid, st)
    else if str_eqb name s_local_module then (VInvalid, st)
    else
      let (cc', ok) := cc_check (zs_cc st) name isDir in
      let st1 := mkCZ cc' (zs_size st) (zs_size_err st) (zs_mod st) in
      if negb ok then (VInvalid, st1)
      else
        match cz_cue_mod name with
        | None => (VInvalid, st1)
        | Some is_mod =>
          let st2 := mkCZ cc' (zs_size st) (zs_size_err st) (zs_mod st || is_mod) in
          if isDir then (VSkipped, st2)
          else
            let sz := to_int64 (e_declared e) in
            let st3 := cz_account st2 sz in
            if str_eqb name s_cue_mod_module_cue && (MaxCUEMod <? sz)%Z then (VInvalid, st3)
            else if str_eqb name s_license && (MaxLICENSE <? sz)%Z then (VInvalid, st3)
            else (VValid, st3)
        end.

  Fixpoint cz_loop (st : cz_state) (es : list entry) : list verdict * cz_state :=
    match es with
    | [] => ([], st)
    | e :: r =>
      let (v, st1) := cz_step st e in
      let (vs, st2) := cz_loop st1 r in
      (v :: vs, st2)
    end.

  Definition check_zip_verdicts (es : list entry) : list verdict * cz_state := cz_loop cz_init es.

  (* CheckZip(m, r, zipSize): Valid/Invalid carry zf.Name (the unstripped name) *)
  Definition check_zip (zip_size : Z) (es : list entry) : checked :=
    if (MaxZipFile <? zip_size)%Z then mkChecked [] [] [] true false
    else
      let (vs, st) := check_zip_verdicts es in
      let pv := combine (map e_name es) vs in
      mkChecked (names_with VValid pv) [] (names_with VInvalid pv) (zs_size_err st) (negb (zs_mod st)).

  (* ------------------------------------------------------------ Create *)
  Fixpoint insert_sorted (f : file) (l : list file) : list file :=
    match l with
    | [] => [f]
    | g :: r => if str_leb (f_name f) (f_name g) then f :: l else g :: insert_sorted f r
    end.
  (* slices.SortFunc with the comparison of Create: ca and cb are both computed from ap,
     so the order is plain string order of the paths *)
  Definition sort_files (l : list file) : list file := fold_right insert_sorted [] l.

  (* addFile: LimitedReader{N: size+1}; error when the file delivers more than size bytes.
     The zip writer records the number of bytes actually written as the entry size. *)
  Fixpoint add_files (l : list file) : option (list entry) :=
    match l with
    | [] => Some []
    | f :: r =>
      if (f_size f <? Z.of_nat (length (f_data f)))%Z then None
      else match add_files r with
           | None => None
           | Some es => Some (mkEntry (f_name f) (N.of_nat (length (f_data f))) KRegular (f_data f) true true true :: es)
           end
    end.

  (* Create: None = error, Some entries = the archive written (in order) *)
  Definition create (files : list file) : option (list entry) :=
    let sorted := sort_files files in
    if checked_err (check_files sorted) then None
    else add_files (valid_files sorted).

  Fixpoint is_path_prefix_str (a b : list str) : bool :=
    match a, b with
    | [], _ => true
    | x :: a', y :: b' => str_eqb x y && is_path_prefix_str a' b'
    | _ :: _, [] => false
    end.

  (* ------------------------------------------------------------ CheckDir / CreateFromDir *)
  (* A directory tree is given by its leaves (regular files, symlinks, other irregular files and
     explicitly listed - possibly empty - directories), named by clean relative slash paths.
     listFilesInDir: filepath.WalkDir visits every directory's entries in byte order of their
     names; entries under cue.mod/vendor/ are omitted one by one; a directory (other than the root)
     named .bzr/.git/.hg/.svn or containing an entry called cue.mod is skipped with everything
     below it; irregular files are omitted. *)
  Definition vcs_names : list str := map lit [".bzr"; ".git"; ".hg"; ".svn"]%string.

  Fixpoint dir_prefixes (es : list str) : list (list str) :=      (* non-empty proper prefixes *)
    match es with
    | [] => []
    | e :: r => match r with [] => [] | _ => [e] :: map (cons e) (dir_prefixes r) end
    end.

  Definition dir_skipped (tree : list file) (d : list str) : bool :=
    negb (is_vendored (join_slash d)) &&
    (mem_str (last d []) vcs_names
     || existsb (fun g => is_path_prefix_str (d ++ [s_cue_mod]) (split_slash (f_name g))) tree).

  Definition listed (tree : list file) (f : file) : bool :=
    match f_kind f with
    | KRegular =>
      negb (is_vendored (f_name f)) &&
      negb (existsb (dir_skipped tree) (dir_prefixes (split_slash (f_name f))))
    | _ => false
    end.

  (* element-wise byte order = the order in which WalkDir reaches the files *)
  Fixpoint elems_leb (a b : list str) : bool :=
    match a, b with
    | [], _ => true
    | _ :: _, [] => false
    | x :: a', y :: b' => if str_eqb x y then elems_leb a' b' else str_leb x y
    end.

  Fixpoint insert_walk (f : file) (l : list file) : list file :=
    match l with
    | [] => [f]
    | g :: r => if elems_leb (split_slash (f_name f)) (split_slash (f_name g)) then f :: l else g :: insert_walk f r
    end.

  Definition list_files_in_dir (tree : list file) : list file :=
    fold_right insert_walk [] (filter (listed tree) tree).

  Definition check_dir (tree : list file) : checked := check_files (list_files_in_dir tree).
  Definition create_from_dir (tree : list file) : option (list entry) := create (list_files_in_dir tree).

  (* ------------------------------------------------------------ file system + Unzip *)
  Inductive node := NFile (content : str) | NDir.
  Definition fpath := list str.                (* absolute path as its list of elements *)
  Definition fsys := list (fpath * node).

  Fixpoint path_eqb (a b : fpath) : bool :=
    match a, b with
    | [], [] => true
    | x :: a', y :: b' => str_eqb x y && path_eqb a' b'
    | _, _ => false
    end.

  Fixpoint fs_lookup (fs : fsys) (p : fpath) : option node :=
    match fs with
    | [] => None
    | (q, n) :: r => if path_eqb p q then Some n else fs_lookup r p
    end.

  Fixpoint is_path_prefix (a b : fpath) : bool :=        (* a is a prefix of b *)
    match a, b with
    | [], _ => true
    | x :: a', y :: b' => str_eqb x y && is_path_prefix a' b'
    | _ :: _, [] => false
    end.
  Definition strict_prefix (a b : fpath) : bool := is_path_prefix a b && negb (path_eqb a b).

  (* os.MkdirAll on the reversed path: an existing directory is fine, an existing file
     is ENOTDIR, otherwise create the parent first and then the directory itself.
     The root (empty path) always exists. *)
  Fixpoint mkdir_all_rev (fs : fsys) (rp : list str) : option fsys :=
    match fs_lookup fs (rev rp) with
    | Some NDir => Some fs
    | Some (NFile _) => None
    | None =>
      match rp with
      | [] => Some fs
      | _ :: rp' =>
        match mkdir_all_rev fs rp' with
        | None => None
        | Some fs1 => Some ((rev rp, NDir) :: fs1)
        end
      end
    end.
  Definition mkdir_all (fs : fsys) (p : fpath) : option fsys := mkdir_all_rev fs (rev p).

  (* os.OpenFile(dst, O_WRONLY|O_CREATE|O_EXCL) followed by writing [c] *)
  Definition create_excl (fs : fsys) (p : fpath) (c : str) : option fsys :=
    match fs_lookup fs p with
    | Some _ => None                                   (* EEXIST *)
    | None =>
      match p with
      | [] => None
      | _ =>
        match removelast p, fs_lookup fs (removelast p) with
        | [], _ => Some ((p, NFile c) :: fs)
        | _, Some NDir => Some ((p, NFile c) :: fs)
        | _, _ => None                                 (* ENOENT / ENOTDIR *)
        end
      end
    end.

  (* filepath.Join(dir, name) for an absolute clean dir given by its elements *)
  Definition join_path (dir : fpath) (name : str) : fpath :=
    clean_elems true [] (dir ++ split_slash name).

  (* What zf.Open() + reads deliver, under a LimitedReader of [limit] bytes with
     limit <= 32 KiB (archive/zip checksumReader of the pinned toolchain, Store/Deflate):
     a chunk that pushes the count above the declared size is dropped with ErrFormat;
     at EOF a short count or a CRC mismatch is an error.
     Result: (bytes delivered to the writer, reader reported an error). *)
  Definition zip_read (e : entry) : str * bool :=
    let n := N.of_nat (length (e_data e)) in
    if (e_declared e <? n)%N then ([], true)                          (* ErrFormat, chunk dropped *)
    else if (n <? e_declared e)%N
         then ((if e_deflate e then [] else e_data e), true)          (* ErrUnexpectedEOF; flate reports EOF
                                                                         together with its last chunk, which
                                                                         checksumReader then drops *)
         else (e_data e, negb (e_crc_ok e)).                          (* ErrChecksum comes with the data *)

  Inductive unzip_result := UOk | UErr.

  (* The copy loop of Unzip for the reader behaviour (delivered, rerr):
     io.Copy(w, &io.LimitedReader{R: r, N: declared+1}); error when lr.N <= 0 afterwards. *)
  Definition limited_copy (declared : Z) (delivered : str) (rerr : bool) : str * bool :=
    if (declared + 1 <=? Z.of_nat (length delivered))%Z
    then (firstn (Z.to_nat (declared + 1)) delivered, true)     (* lr.N <= 0: larger than declared *)
    else (delivered, rerr).

  Fixpoint unzip_entries (dir : fpath) (fs : fsys) (es : list entry) : fsys * unzip_result :=
    match es with
    | [] => (fs, UOk)
    | e :: r =>
      match e_name e with
      | [] => unzip_entries dir fs r
      | _ =>
        if ends_with_slash (e_name e) then unzip_entries dir fs r
        else
          let dst := join_path dir (e_name e) in
          match mkdir_all fs (removelast dst) with
          | None => (fs, UErr)
          | Some fs1 =>
            if negb (e_open_ok e) then
              match create_excl fs1 dst [] with
              | None => (fs1, UErr)
              | Some fs2 => (fs2, UErr)                           (* zf.Open failed after the create *)
              end
            else
              let (delivered, rerr) := zip_read e in
              let (written, err) := limited_copy (to_int64 (e_declared e)) delivered rerr in
              match create_excl fs1 dst written with
              | None => (fs1, UErr)
              | Some fs2 => if err then (fs2, UErr) else unzip_entries dir fs2 r
              end
          end
      end
    end.

  Definition dir_nonempty (fs : fsys) (dir : fpath) : bool :=
    existsb (fun pn => strict_prefix dir (fst pn)) fs.

  (* Unzip(dir, m, zipFile) *)
  Definition unzip (dir : fpath) (fs : fsys) (zip_size : Z) (es : list entry) : fsys * unzip_result :=
    if dir_nonempty fs dir then (fs, UErr)
    else if checked_err (check_zip zip_size es) then (fs, UErr)
    else match mkdir_all fs dir with
         | None => (fs, UErr)
         | Some fs1 => unzip_entries dir fs1 es
         end.
End Oracle.
