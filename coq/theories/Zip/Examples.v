(* Concrete evaluations of the C15 model (non-vacuity and hostile-archive examples). *)
From Coq Require Import String.
From Coq Require Import List NArith ZArith Bool.
From Verif Require Import Zip.Bytes Zip.Model.
Import ListNotations.

Definition no_letter (r : N) : bool := false.
Definition id_fold (r : N) : N := r.

Example ex_good_path : check_path no_letter (lit "cue.mod/module.cue") = true.
Proof. vm_compute. reflexivity. Qed.

Example ex_dotdot_rejected : check_path no_letter (lit "a/../b") = false.
Proof. vm_compute. reflexivity. Qed.

(* filepath.Join really would escape for an unchecked name *)
Example ex_join_escapes : join_path [lit "P"; lit "t"] (lit "../sentinel") = [lit "P"; lit "sentinel"].
Proof. vm_compute. reflexivity. Qed.
