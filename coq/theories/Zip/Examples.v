(* Concrete evaluations of the C15 model (non-vacuity and hostile-archive examples). *)
From Coq Require Import String.
From Coq Require Import List NArith ZArith Bool.
From Verif Require Import Zip.Bytes Zip.Model.
Import ListNotations.

Definition no_letter (r : N) : bool := false.
Definition id_fold (r : N) : N := r.

Example ex_good_path : check_path no_letter (lit "cue.mod/module.cue") = true.
Proof. vm_compute. reflexivity. Qed.

Example ex_dotdot_rejected : check_path no_letter (lit "a/../b") = false.
Proof. vm_compute. reflexivity. Qed.

(* filepath.Join really would escape for an unchecked name *)
Example ex_join_escapes : join_path [lit "P"; lit "t"] (lit "../sentinel") = [lit "P"; lit "sentinel"].
Proof. vm_compute. reflexivity. Qed.

(* a small module: Create keeps the regular files (sorted by path), drops the symlink and
   the local-module file; the archive passes CheckZip and extracts to exactly those files *)
Definition ex_files : list file :=
  [ mkFile (lit "x.cue") KRegular 3 [1; 2; 3]%N;
    mkFile (lit "cue.mod/module.cue") KRegular 2 [7; 8]%N;
    mkFile (lit "link") KSymlink 0 [];
    mkFile (lit "cue.mod/local-module.cue") KRegular 1 [9]%N ].

Definition ex_archive : list entry :=
  [ mkEntry (lit "cue.mod/module.cue") 2 KRegular [7; 8]%N true true true;
    mkEntry (lit "x.cue") 3 KRegular [1; 2; 3]%N true true true ].

Example ex_create : create no_letter id_fold ex_files = Some ex_archive.
Proof. vm_compute. reflexivity. Qed.

Example ex_roundtrip :
  unzip no_letter id_fold [lit "P"; lit "t"] [([lit "P"], NDir)] 100 ex_archive =
  ([ ([lit "P"; lit "t"; lit "x.cue"], NFile [1; 2; 3]%N);
     ([lit "P"; lit "t"; lit "cue.mod"; lit "module.cue"], NFile [7; 8]%N);
     ([lit "P"; lit "t"; lit "cue.mod"], NDir);
     ([lit "P"; lit "t"], NDir);
     ([lit "P"], NDir) ], UOk).
Proof. vm_compute. reflexivity. Qed.

(* hostile archives: rejected, nothing written *)
Definition hostile (name : string) : list entry :=
  [ mkEntry (lit "cue.mod/module.cue") 0 KRegular [] true true false;
    mkEntry (lit name) 1 KSymlink [120]%N true true false ].

Example ex_hostile_rejected :
  forallb (fun n => checked_err (check_zip no_letter id_fold 100 (hostile n)))
    ["../sentinel"; "/etc/passwd"; "a\b"; "C:x"; "sub/../../x"; "CUE.MOD/module.cue"; "sub/cue.mod/module.cue";
     "cue.mod/local-module.cue"; "Cue.Mod/Module.cue"; "cue.mod/module.cue"; "nul.txt"; "a."; "a//b"; "./a"]%string = true.
Proof. vm_compute. reflexivity. Qed.

Example ex_hostile_untouched :
  unzip no_letter id_fold [lit "P"; lit "t"] [([lit "P"], NDir)] 100 (hostile "../sentinel") = ([([lit "P"], NDir)], UErr).
Proof. vm_compute. reflexivity. Qed.

(* a symlink entry with an acceptable name is written as a regular file holding the link text *)
Example ex_symlink_written_regular :
  unzip no_letter id_fold [lit "P"; lit "t"] [([lit "P"], NDir)] 100 (hostile "lnk") =
  ([ ([lit "P"; lit "t"; lit "lnk"], NFile [120]%N);
     ([lit "P"; lit "t"; lit "cue.mod"; lit "module.cue"], NFile []);
     ([lit "P"; lit "t"; lit "cue.mod"], NDir);
     ([lit "P"; lit "t"], NDir);
     ([lit "P"], NDir) ], UOk).
Proof. vm_compute. reflexivity. Qed.

(* declared size smaller than the data: the reader model drops the chunk, Unzip fails, file empty *)
Example ex_wrong_size :
  snd (unzip no_letter id_fold [lit "P"; lit "t"] [([lit "P"], NDir)] 100
         [ mkEntry (lit "cue.mod/module.cue") 1 KRegular [7; 8]%N true true false ]) = UErr.
Proof. vm_compute. reflexivity. Qed.
