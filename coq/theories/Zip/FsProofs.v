(* The abstract file system of Zip/Model.v: lookups, MkdirAll, O_EXCL create only ever
   ADD entries with fresh keys. *)
From Coq Require Import List NArith ZArith Bool Lia.
From Verif Require Import Zip.Bytes Zip.BytesProofs Zip.Model.
Import ListNotations.

Lemma NoDup_app_intro {A} (l1 l2 : list A) :
  NoDup l1 -> NoDup l2 -> (forall x, In x l1 -> ~ In x l2) -> NoDup (l1 ++ l2).
Proof.
  induction l1 as [|a l1 IH]; simpl; intros D1 D2 H; auto.
  inversion D1; subst. constructor.
  - intros I. apply in_app_or in I. destruct I as [I|I]; auto. apply (H a); auto.
  - apply IH; auto.
Qed.

Lemma path_eqb_eq : forall a b, path_eqb a b = true <-> a = b.
Proof.
  induction a as [|x a IH]; destruct b as [|y b]; simpl; split; try congruence; auto.
  - rewrite andb_true_iff, str_eqb_eq, IH. intros [-> ->]; reflexivity.
  - intros [= -> ->]. rewrite str_eqb_refl. simpl. apply IH. reflexivity.
Qed.

Lemma path_eqb_refl : forall a, path_eqb a a = true.
Proof. intros; apply path_eqb_eq; reflexivity. Qed.

Lemma is_path_prefix_spec : forall a b, is_path_prefix a b = true <-> exists c, b = a ++ c.
Proof.
  induction a as [|x a IH]; intros b; simpl.
  - split; eauto.
  - destruct b as [|y b]; [split; [discriminate|intros [c H]; discriminate]|].
    rewrite andb_true_iff, str_eqb_eq, IH. split.
    + intros [-> [c ->]]. exists c; reflexivity.
    + intros [c H]. inversion H; subst. split; eauto.
Qed.

Lemma strict_prefix_spec : forall a b, strict_prefix a b = true <-> exists x c, b = a ++ x :: c.
Proof.
  intros a b. unfold strict_prefix. rewrite andb_true_iff, is_path_prefix_spec, negb_true_iff. split.
  - intros [[c ->] NE]. destruct c as [|x c].
    + rewrite app_nil_r, path_eqb_refl in NE. discriminate.
    + eauto.
  - intros [x [c ->]]. split; [eauto|].
    destruct (path_eqb a (a ++ x :: c)) eqn:E; auto. apply path_eqb_eq in E.
    assert (L : length a = length (a ++ x :: c)) by congruence. rewrite app_length in L. simpl in L. lia.
Qed.

Lemma prefix_of_app : forall q a b, is_path_prefix q (a ++ b) = true ->
  is_path_prefix q a = true \/ strict_prefix a q = true.
Proof.
  induction q as [|x q IH]; intros a b H; simpl; auto.
  destruct a as [|y a].
  - right. apply strict_prefix_spec. exists x, q. reflexivity.
  - simpl in H. apply andb_true_iff in H. destruct H as [E H]. apply str_eqb_eq in E. subst y.
    destruct (IH a b H) as [P|P].
    + left. simpl. rewrite str_eqb_refl. exact P.
    + right. apply strict_prefix_spec in P. destruct P as [z [c ->]]. apply strict_prefix_spec.
      exists z, c. reflexivity.
Qed.

Lemma fs_lookup_app_none : forall news fs q, fs_lookup (news ++ fs) q = None ->
  fs_lookup fs q = None /\ ~ In q (map fst news).
Proof.
  induction news as [|[k n] news IH]; simpl; intros fs q H; auto.
  destruct (path_eqb q k) eqn:E; [discriminate|].
  destruct (IH fs q H) as [A B]. split; auto. intros [->|I]; auto.
  rewrite path_eqb_refl in E. discriminate.
Qed.

Lemma fs_lookup_app_old : forall news fs q, ~ In q (map fst news) -> fs_lookup (news ++ fs) q = fs_lookup fs q.
Proof.
  induction news as [|[k n] news IH]; simpl; intros fs q H; auto.
  destruct (path_eqb q k) eqn:E.
  - apply path_eqb_eq in E. subst. tauto.
  - apply IH. tauto.
Qed.

Lemma fs_lookup_some_in : forall fs q n, fs_lookup fs q = Some n -> In (q, n) fs.
Proof.
  induction fs as [|[k m] fs IH]; simpl; intros q n H; [discriminate|].
  destruct (path_eqb q k) eqn:E.
  - apply path_eqb_eq in E. inversion H; subst. auto.
  - right. auto.
Qed.

Lemma fs_lookup_in_nodup : forall fs q n, NoDup (map fst fs) -> In (q, n) fs -> fs_lookup fs q = Some n.
Proof.
  induction fs as [|[k m] fs IH]; simpl; intros q n ND I; [tauto|].
  inversion ND; subst.
  destruct I as [I|I].
  - inversion I; subst. rewrite path_eqb_refl. reflexivity.
  - destruct (path_eqb q k) eqn:E.
    + apply path_eqb_eq in E. subst. exfalso. apply H1. apply (in_map fst) in I. exact I.
    + apply IH; auto.
Qed.

(* fs' is fs plus fresh entries, each satisfying P *)
Definition extends (P : fpath -> node -> Prop) (fs fs' : fsys) : Prop :=
  exists news, fs' = news ++ fs /\ NoDup (map fst news) /\
               forall q n, In (q, n) news -> fs_lookup fs q = None /\ P q n.

Lemma extends_refl : forall P fs, extends P fs fs.
Proof. intros. exists []. simpl. split; auto. split; [constructor|]. intros q n []. Qed.

Lemma extends_trans : forall P fs1 fs2 fs3, extends P fs1 fs2 -> extends P fs2 fs3 -> extends P fs1 fs3.
Proof.
  intros P fs1 fs2 fs3 [n1 [E1 [D1 H1]]] [n2 [E2 [D2 H2]]]. subst.
  exists (n2 ++ n1). rewrite app_assoc. split; auto. split.
  - rewrite map_app. apply NoDup_app_intro; auto.
    intros q I2 I1. apply in_map_iff in I2. destruct I2 as [[q' n] [E I2]]. simpl in E. subst q'.
    destruct (H2 _ _ I2) as [L _]. apply fs_lookup_app_none in L. tauto.
  - intros q n I. apply in_app_or in I. destruct I as [I|I].
    + destruct (H2 _ _ I) as [L Pq]. apply fs_lookup_app_none in L. tauto.
    + auto.
Qed.

Lemma extends_weaken : forall (P Q : fpath -> node -> Prop) fs fs',
  (forall q n, P q n -> Q q n) -> extends P fs fs' -> extends Q fs fs'.
Proof.
  intros P Q fs fs' W [n [E [D H]]]. exists n. repeat split; auto.
  - apply H in H0. tauto.
  - apply H in H0. apply W. tauto.
Qed.

Lemma extends_one : forall (P : fpath -> node -> Prop) fs q n,
  fs_lookup fs q = None -> P q n -> extends P fs ((q, n) :: fs).
Proof.
  intros. exists [(q, n)]. simpl. repeat split; auto.
  - constructor; auto. constructor.
  - destruct H1 as [H1|[]]. inversion H1; subst; auto.
  - destruct H1 as [H1|[]]. inversion H1; subst; auto.
Qed.

Lemma extends_lookup_old : forall P fs fs' q n, extends P fs fs' -> fs_lookup fs q = Some n -> fs_lookup fs' q = Some n.
Proof.
  intros P fs fs' q n [news [-> [D H]]] L.
  rewrite fs_lookup_app_old; auto.
  intros I. apply in_map_iff in I. destruct I as [[q' m] [E I]]. simpl in E. subst.
  destruct (H _ _ I) as [X _]. congruence.
Qed.

(* os.MkdirAll only adds directories that are prefixes of the requested path *)
Lemma mkdir_all_rev_extends : forall rp fs fs',
  mkdir_all_rev fs rp = Some fs' ->
  extends (fun q n => n = NDir /\ is_path_prefix q (rev rp) = true) fs fs'.
Proof.
  induction rp as [|x rp IH]; intros fs fs' H; simpl in H.
  - destruct (fs_lookup fs []) as [[c|]|]; inversion H; subst; apply extends_refl.
  - destruct (fs_lookup fs (rev rp ++ [x])) as [[c|]|] eqn:L; try discriminate.
    + inversion H; subst. apply extends_refl.
    + destruct (mkdir_all_rev fs rp) as [fs1|] eqn:M; [|discriminate]. inversion H; subst. clear H.
      apply IH in M.
      eapply extends_trans.
      * eapply extends_weaken; [|exact M]. intros q n [-> Pq]. split; auto.
        simpl. apply is_path_prefix_spec in Pq. destruct Pq as [c E]. apply is_path_prefix_spec.
        exists (c ++ [x]). rewrite E. rewrite <- app_assoc. reflexivity.
      * apply extends_one.
        -- destruct M as [news [-> [D Hn]]]. simpl.
           rewrite fs_lookup_app_old; auto.
           intros I. apply in_map_iff in I. destruct I as [[q' m] [E I]]. simpl in E. subst.
           destruct (Hn _ _ I) as [_ [_ Pq]]. apply is_path_prefix_spec in Pq. destruct Pq as [c Ec].
           assert (Len : length (rev rp) = length ((rev rp ++ [x]) ++ c)) by congruence.
           rewrite !app_length in Len. simpl in Len. lia.
        -- split; auto. simpl. apply is_path_prefix_spec. exists []. rewrite app_nil_r. reflexivity.
Qed.

Lemma mkdir_all_extends : forall p fs fs',
  mkdir_all fs p = Some fs' -> extends (fun q n => n = NDir /\ is_path_prefix q p = true) fs fs'.
Proof.
  intros p fs fs' H. unfold mkdir_all in H. apply mkdir_all_rev_extends in H. rewrite rev_involutive in H. exact H.
Qed.

Lemma create_excl_spec : forall fs p c fs',
  create_excl fs p c = Some fs' -> fs' = (p, NFile c) :: fs /\ fs_lookup fs p = None.
Proof.
  intros fs p c fs' H. unfold create_excl in H.
  destruct (fs_lookup fs p) eqn:L; [discriminate|].
  destruct p as [|x p]; [discriminate|].
  destruct (removelast (x :: p)); [inversion H; auto|].
  destruct (fs_lookup fs (s :: l)) as [[?|]|]; try discriminate. inversion H; auto.
Qed.

Lemma fs_lookup_in_nodup_app : forall news fs q n, NoDup (map fst news) -> In (q, n) news ->
  fs_lookup (news ++ fs) q = Some n.
Proof.
  induction news as [|[k m] news IH]; simpl; intros fs q n ND I; [tauto|].
  inversion ND; subst. destruct I as [I|I].
  - inversion I; subst. rewrite path_eqb_refl. reflexivity.
  - destruct (path_eqb q k) eqn:E.
    + apply path_eqb_eq in E. subst. exfalso. apply H1. apply (in_map fst) in I. exact I.
    + apply IH; auto.
Qed.
