(* Accepted archives with honest entries extract successfully; Create's archives are accepted. *)
From Coq Require Import String.
From Coq Require Import List NArith ZArith Bool Lia.
From Verif Require Import Zip.Bytes Zip.BytesProofs Zip.Model Zip.PathProofs Zip.ZipProofs Zip.FsProofs
  Zip.UnzipProofs Zip.CollisionProofs Zip.HostileProofs Zip.ElemProofs.
Import ListNotations.
Local Open Scope N_scope.

Section Oracle.
  Variable is_letter : N -> bool.
  Variable fold_min : N -> N.
  Notation fold := (str_to_fold fold_min).
  Notation check_zip := (check_zip is_letter fold_min).
  Notation check_path := (check_path is_letter).
  Notation unzip := (unzip is_letter fold_min).

  Definition is_file (e : entry) : Prop := ends_with_slash (e_name e) = false.

  (* no file entry's element list is a prefix of (or equal to) another file entry's *)
  Definition no_clash (es : list entry) : Prop :=
    forall l1 e1 l2 e2 l3, es = l1 ++ e1 :: l2 ++ e2 :: l3 -> is_file e1 -> is_file e2 ->
      is_path_prefix (split_slash (e_name e1)) (split_slash (e_name e2)) = false /\
      is_path_prefix (split_slash (e_name e2)) (split_slash (e_name e1)) = false.

  Lemma self_target : forall p d, In (p, d) (cc_targets p d).
  Proof. intros. left. reflexivity. Qed.

  Lemma prefix_target : forall n pre suf, check_path n = true -> split_slash n = pre ++ suf ->
    pre <> [] -> suf <> [] -> In (join_slash pre, true) (cc_targets n false).
  Proof.
    intros n pre suf C E NP NS. right.
    apply in_map with (f := fun d => (d, true)). eapply checked_dir_chain; eauto.
  Qed.

  Lemma accepted_no_clash : forall zs es, checked_err (check_zip zs es) = false -> no_clash es.
  Proof.
    intros zs es H l1 e1 l2 e2 l3 -> F1 F2.
    assert (D1 : entry_is_dir e1 = false) by exact F1. assert (D2 : entry_is_dir e2 = false) by exact F2.
    assert (C1 : check_path (e_name e1) = true).
    { rewrite <- (entry_name_file e1 D1). eapply accepted_name_safe; eauto. apply in_or_app; right; left; auto. }
    assert (C2 : check_path (e_name e2) = true).
    { rewrite <- (entry_name_file e2 D2). eapply accepted_name_safe; eauto.
      apply in_or_app; right; right. apply in_or_app; right; left; auto. }
    destruct (checked_elems is_letter _ C1) as [J1 [N1 _]]. destruct (checked_elems is_letter _ C2) as [J2 [N2 _]].
    pose proof (accepted_no_collision is_letter fold_min zs l1 e1 l2 e2 l3) as NC.
    rewrite (entry_name_file e1 D1), (entry_name_file e2 D2), D1, D2 in NC.
    split.
    - destruct (is_path_prefix (split_slash (e_name e1)) (split_slash (e_name e2))) eqn:P; auto. exfalso.
      apply is_path_prefix_spec in P. destruct P as [suf E].
      destruct suf as [|x suf].
      + rewrite app_nil_r in E. assert (EQ : e_name e1 = e_name e2) by congruence.
        destruct (NC _ false _ false H (self_target _ _) (self_target _ _)) as [_ [X _]]; [congruence|discriminate].
      + destruct (NC (e_name e1) false (join_slash (split_slash (e_name e1))) true H (self_target _ _)) as [_ [X _]];
          [eapply prefix_target; eauto; discriminate|rewrite <- J1; reflexivity|discriminate].
    - destruct (is_path_prefix (split_slash (e_name e2)) (split_slash (e_name e1))) eqn:P; auto. exfalso.
      apply is_path_prefix_spec in P. destruct P as [suf E].
      destruct suf as [|x suf].
      + rewrite app_nil_r in E. assert (EQ : e_name e1 = e_name e2) by congruence.
        destruct (NC _ false _ false H (self_target _ _) (self_target _ _)) as [_ [X _]]; [congruence|discriminate].
      + destruct (NC (join_slash (split_slash (e_name e2))) true (e_name e2) false H) as [_ [_ X]];
          [eapply prefix_target; eauto; discriminate|apply self_target|rewrite <- J2; reflexivity|discriminate].
  Qed.

  (* ---------------------------------------------------------------- MkdirAll succeeds *)
  Lemma mkdir_all_rev_lookup : forall rp fs fs', mkdir_all_rev fs rp = Some fs' -> rp <> [] ->
    fs_lookup fs' (rev rp) = Some NDir.
  Proof.
    intros rp fs fs' H NE. destruct rp as [|x rp]; try congruence. cbn [mkdir_all_rev] in H.
    destruct (fs_lookup fs (rev (x :: rp))) as [[c|]|] eqn:L; try discriminate.
    - inversion H; subst; auto.
    - destruct (mkdir_all_rev fs rp); [|discriminate]. inversion H; subst.
      cbn [fs_lookup]. rewrite path_eqb_refl. reflexivity.
  Qed.

  Lemma mkdir_all_succeeds : forall ext base fs,
    fs_lookup fs base = Some NDir ->
    (forall e1 e2 c, ext = e1 ++ e2 -> e1 <> [] -> fs_lookup fs (base ++ e1) <> Some (NFile c)) ->
    mkdir_all fs (base ++ ext) <> None.
  Proof.
    unfold mkdir_all. induction ext as [|x ext IH] using rev_ind; intros base fs B H.
    - rewrite app_nil_r. destruct (rev base) as [|y r] eqn:R.
      + simpl. assert (base = []) by (destruct base; auto; simpl in R; destruct (rev base); discriminate).
        subst. rewrite B. discriminate.
      + cbn [mkdir_all_rev]. rewrite <- R, rev_involutive, B. discriminate.
    - rewrite app_assoc, rev_unit. cbn [mkdir_all_rev].
      assert (RR : rev (x :: rev (base ++ ext)) = base ++ ext ++ [x]) by (simpl; rewrite rev_involutive, app_assoc; reflexivity).
      rewrite RR.
      destruct (fs_lookup fs (base ++ ext ++ [x])) as [[c|]|] eqn:L; try discriminate.
      + exfalso. apply (H (ext ++ [x]) [] c); auto. rewrite app_nil_r; auto. destruct ext; discriminate.
      + destruct (mkdir_all_rev fs (rev (base ++ ext))) eqn:M; [discriminate|].
        exfalso. revert M. apply IH; auto.
        intros e1 e2 c E NE. apply (H e1 (e2 ++ [x]) c); auto. rewrite E, app_assoc. reflexivity.
  Qed.

  (* ---------------------------------------------------------------- honest entries *)
  Definition honest (e : entry) : Prop :=
    e_open_ok e = true /\ e_crc_ok e = true /\ N.of_nat (length (e_data e)) = e_declared e /\
    (e_declared e < 9223372036854775808)%N.

  Lemma honest_copy : forall e, honest e ->
    zip_read e = (e_data e, false) /\
    limited_copy (to_int64 (e_declared e)) (e_data e) false = (e_data e, false).
  Proof.
    intros e [O [C [L B]]]. split.
    - unfold zip_read. rewrite L, N.ltb_irrefl, C. reflexivity.
    - unfold limited_copy. rewrite to_int64_small by auto.
      destruct (Z.of_N (e_declared e) + 1 <=? Z.of_nat (length (e_data e)))%Z eqn:X; auto.
      apply Z.leb_le in X. lia.
  Qed.

  Variable dir : fpath.
  Hypothesis dir_clean : clean_elems true [] dir = dir.
  Hypothesis dir_nonroot : dir <> [].

  (* what lies strictly beneath dir after extracting the entries [done] *)
  Definition beneath_inv (done : list entry) (fs : fsys) : Prop :=
    fs_lookup fs dir = Some NDir /\
    (forall q c, fs_lookup fs q = Some (NFile c) -> strict_prefix dir q = true ->
       exists e, In e done /\ is_file e /\ q = dir ++ split_slash (e_name e) /\ c = e_data e) /\
    (forall q, fs_lookup fs q = Some NDir -> strict_prefix dir q = true ->
       exists e pre suf, In e done /\ is_file e /\ split_slash (e_name e) = pre ++ suf /\ pre <> [] /\ suf <> [] /\
                         q = dir ++ pre).

  Lemma app_inv_head_path : forall (a b c : fpath), a ++ b = a ++ c -> b = c.
  Proof. intros. eapply app_inv_head; eauto. Qed.

  Lemma unzip_entries_honest : forall rest done fs,
    no_clash (done ++ rest) ->
    Forall (checked_entry is_letter) rest -> Forall honest rest ->
    beneath_inv done fs ->
    exists fs', unzip_entries dir fs rest = (fs', UOk) /\ beneath_inv (done ++ rest) fs'.
  Proof.
    induction rest as [|e rest IH]; intros done fs NC CE HO INV.
    - exists fs. rewrite app_nil_r. split; auto.
    - inversion CE as [|? ? CE1 CE2]; subst. inversion HO as [|? ? HO1 HO2]; subst.
      assert (NC' : no_clash ((done ++ [e]) ++ rest)) by (rewrite <- app_assoc; exact NC).
      assert (WEAK : forall fs0, beneath_inv done fs0 -> beneath_inv (done ++ [e]) fs0).
      { intros fs0 [I0 [I1 I2]]. split; auto. split.
        - intros q c L S. destruct (I1 q c L S) as [e0 [A B]]. exists e0. split; auto. apply in_or_app; auto.
        - intros q L S. destruct (I2 q L S) as [e0 [pre [suf [A B]]]]. exists e0, pre, suf. split; auto. apply in_or_app; auto. }
      cbn [unzip_entries].
      destruct (e_name e) as [|b0 t0] eqn:NM.
      { destruct CE1 as [X|X]; rewrite NM in X; vm_compute in X; discriminate. }
      rewrite <- NM in *.
      destruct (ends_with_slash (e_name e)) eqn:D.
      { destruct (IH (done ++ [e]) fs NC' CE2 HO2 (WEAK _ INV)) as [fs' [U I]]. exists fs'. rewrite <- app_assoc in I. auto. }
      destruct CE1 as [X|CP]; [unfold checked_entry in X; congruence|].
      destruct (join_path_checked is_letter dir dir_clean _ CP) as [J NE]. rewrite J.
      set (sp := split_slash (e_name e)) in *.
      destruct INV as [I0 [I1 I2]].
      (* clashes with already extracted entries are impossible *)
      assert (CL : forall e0, In e0 done -> is_file e0 ->
                is_path_prefix (split_slash (e_name e0)) sp = false /\ is_path_prefix sp (split_slash (e_name e0)) = false).
      { intros e0 I F0. destruct (in_split _ _ I) as [l1 [l2 ->]].
        apply (NC l1 e0 l2 e rest); auto. rewrite <- app_assoc. reflexivity. }
      (* MkdirAll of the parent directory *)
      destruct (mkdir_all fs (removelast (dir ++ sp))) as [fs1|] eqn:M.
      2:{ exfalso. revert M. rewrite removelast_app by auto. apply mkdir_all_succeeds; auto.
          intros e1 e2 c E N1 L.
          destruct (I1 _ _ L) as [e0 [A [B [Q _]]]]; [apply strict_prefix_app; auto|].
          apply app_inv_head_path in Q. destruct (CL e0 A B) as [X _].
          assert (Y : is_path_prefix (split_slash (e_name e0)) sp = true).
          { apply is_path_prefix_spec. exists (e2 ++ [last sp []]). rewrite <- Q, app_assoc, <- E.
            apply app_removelast_last. auto. }
          congruence. }
      pose proof (mkdir_all_extends _ _ _ M) as EX.
      assert (PAR : fs_lookup fs1 (removelast (dir ++ sp)) = Some NDir).
      { unfold mkdir_all in M. apply mkdir_all_rev_lookup in M.
        - rewrite rev_involutive in M. exact M.
        - rewrite removelast_app by auto. intro Q. apply (f_equal (@length _)) in Q.
          rewrite rev_length, app_length in Q. destruct dir; [congruence|]. simpl in Q. lia. }
      assert (NEW : fs_lookup fs1 (dir ++ sp) = None).
      { destruct EX as [news [-> [ND HN]]].
        rewrite fs_lookup_app_old.
        - destruct (fs_lookup fs (dir ++ sp)) as [[c|]|] eqn:L; auto; exfalso.
          + destruct (I1 _ _ L) as [e0 [A [B [Q _]]]]; [apply strict_prefix_app; auto|].
            apply app_inv_head_path in Q. destruct (CL e0 A B) as [X _].
            rewrite <- Q in X. assert (is_path_prefix sp sp = true) by (apply is_path_prefix_spec; exists []; rewrite app_nil_r; auto).
            congruence.
          + destruct (I2 _ L) as [e0 [pre [suf [A [B [S [_ [_ Q]]]]]]]]; [apply strict_prefix_app; auto|].
            apply app_inv_head_path in Q. destruct (CL e0 A B) as [_ X].
            assert (is_path_prefix sp (split_slash (e_name e0)) = true) by (apply is_path_prefix_spec; exists suf; congruence).
            congruence.
        - intros I. apply in_map_iff in I. destruct I as [[q n] [E I]]. simpl in E. subst q.
          destruct (HN _ _ I) as [_ [_ P]]. apply is_path_prefix_spec in P. destruct P as [c Ec].
          assert (Len : length (removelast (dir ++ sp)) = length ((dir ++ sp) ++ c)) by congruence.
          rewrite removelast_app in Len by auto. rewrite !app_length in Len.
          assert (length sp = S (length (removelast sp))).
          { pose proof (@app_removelast_last str sp [] NE) as AR. apply (f_equal (@length _)) in AR.
            rewrite app_length in AR. change (length [last sp []]) with 1%nat in AR. lia. }
          lia. }
      destruct HO1 as [O HO1']. rewrite O. cbn [negb].
      destruct (honest_copy e (conj O HO1')) as [ZR LC]. rewrite ZR, LC.
      unfold create_excl. rewrite NEW.
      destruct (dir ++ sp) as [|d0 dt] eqn:DS; [destruct dir; [congruence|discriminate]|]. rewrite <- DS in *.
      rewrite PAR. destruct (removelast (dir ++ sp)) as [|r0 rt] eqn:RL.
      { exfalso. rewrite removelast_app in RL by auto. destruct dir; [congruence|discriminate]. }
      (* the invariant after creating the file *)
      assert (INV2 : beneath_inv (done ++ [e]) ((dir ++ sp, NFile (e_data e)) :: fs1)).
      { assert (D0 : dir ++ sp <> dir).
        { intros Q. assert (length (dir ++ sp) = length dir) by congruence. rewrite app_length in H.
          destruct sp; [congruence|simpl in H; lia]. }
        split; [|split].
        - cbn [fs_lookup]. destruct (path_eqb dir (dir ++ sp)) eqn:Q.
          + apply path_eqb_eq in Q. congruence.
          + eapply extends_lookup_old; eauto.
        - intros q c L S. cbn [fs_lookup] in L. destruct (path_eqb q (dir ++ sp)) eqn:Q.
          + apply path_eqb_eq in Q. inversion L; subst. exists e. repeat split; auto. apply in_or_app; right; left; auto.
          + destruct EX as [news [-> [ND HN]]].
            destruct (in_dec (list_eq_dec (list_eq_dec N.eq_dec)) q (map fst news)) as [I|NI].
            * exfalso. apply in_map_iff in I. destruct I as [[q' n] [E I]]. simpl in E. subst q'.
              destruct (HN _ _ I) as [_ [-> _]].
              assert (fs_lookup (news ++ fs) q = Some NDir).
              { apply fs_lookup_in_nodup_app; auto. }
              congruence.
            * rewrite fs_lookup_app_old in L by auto. destruct (I1 _ _ L S) as [e0 [A B]].
              exists e0. split; auto. apply in_or_app; auto.
        - intros q L S. cbn [fs_lookup] in L. destruct (path_eqb q (dir ++ sp)) eqn:Q; [discriminate|].
          destruct EX as [news [-> [ND HN]]].
          destruct (in_dec (list_eq_dec (list_eq_dec N.eq_dec)) q (map fst news)) as [I|NI].
          + apply in_map_iff in I. destruct I as [[q' n] [E I]]. simpl in E. subst q'.
            destruct (HN _ _ I) as [_ [_ P]]. rewrite <- RL in P. rewrite removelast_app in P by auto.
            apply is_path_prefix_spec in P. destruct P as [c Ec].
            apply strict_prefix_spec in S. destruct S as [x [c2 ->]].
            rewrite <- app_assoc in Ec. apply app_inv_head_path in Ec.
            exists e, (x :: c2), (c ++ [last sp []]). split; [apply in_or_app; right; left; auto|].
            split; auto. split; [|split; [discriminate|split; [destruct c; discriminate|reflexivity]]].
            fold sp. pose proof (@app_removelast_last str sp [] NE) as AR. rewrite Ec, <- app_assoc in AR. exact AR.
          + rewrite fs_lookup_app_old in L by auto. destruct (I2 _ L S) as [e0 [pre [suf [A B]]]].
            exists e0, pre, suf. split; auto. apply in_or_app; auto. }
      destruct (IH (done ++ [e]) _ NC' CE2 HO2 INV2) as [fs' [U I]].
      exists fs'. rewrite <- app_assoc in I. split; auto.
  Qed.

  Lemma prefix_not_strict : forall (a q : fpath), is_path_prefix q a = true -> strict_prefix a q = false.
  Proof.
    intros a q P. destruct (strict_prefix a q) eqn:S; auto.
    apply is_path_prefix_spec in P. destruct P as [c ->]. apply strict_prefix_spec in S. destruct S as [x [c2 E]].
    apply (f_equal (@length _)) in E. rewrite !app_length in E. simpl in E. lia.
  Qed.

  (* C15: every accepted archive whose entries are honest (declared size = actual size, CRC and
     method fine) extracts completely into an empty or missing target directory, and afterwards
     the regular files beneath the target are exactly the file entries with their data *)
  Theorem unzip_accepted_honest_ok : forall fs zs es,
    checked_err (check_zip zs es) = false -> Forall honest es ->
    dir_nonempty fs dir = false -> mkdir_all fs dir <> None ->
    exists fs', unzip dir fs zs es = (fs', UOk) /\ beneath_inv es fs'.
  Proof.
    intros fs zs es C HO DN MK. unfold Model.unzip. rewrite DN, C.
    destruct (mkdir_all fs dir) as [fs1|] eqn:M; [|congruence]. clear MK.
    assert (INV : beneath_inv [] fs1).
    { assert (NB : forall q n, fs_lookup fs1 q = Some n -> strict_prefix dir q = false).
      { intros q n L. apply fs_lookup_some_in in L.
        destruct (mkdir_all_extends _ _ _ M) as [news [-> [_ HN]]]. apply in_app_or in L. destruct L as [L|L].
        - destruct (HN _ _ L) as [_ [_ P]]. apply prefix_not_strict; auto.
        - unfold dir_nonempty in DN. destruct (strict_prefix dir q) eqn:S; auto.
          assert (X : existsb (fun pn : fpath * node => strict_prefix dir (fst pn)) fs = true).
          { apply existsb_exists. exists (q, n). auto. }
          congruence. }
      split; [|split].
      - unfold mkdir_all in M. apply mkdir_all_rev_lookup in M.
        + rewrite rev_involutive in M. exact M.
        + intro Q. apply (f_equal (@rev _)) in Q. rewrite rev_involutive in Q. simpl in Q. congruence.
      - intros q c L S. rewrite (NB _ _ L) in S. discriminate.
      - intros q L S. rewrite (NB _ _ L) in S. discriminate. }
    destruct (unzip_entries_honest es [] fs1) as [fs' [U I]]; auto.
    - simpl. eapply accepted_no_clash; eauto.
    - eapply check_zip_ok_checked; eauto.
    - exists fs'. auto.
  Qed.
End Oracle.
