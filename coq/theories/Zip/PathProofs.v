(* check_path (module.CheckFilePath) accepts only safe relative paths. *)
From Coq Require Import String.
From Coq Require Import List NArith ZArith Bool Lia.
From Verif Require Import Zip.Bytes Zip.BytesProofs Zip.Model.
Import ListNotations.
Local Open Scope N_scope.

(* what "safe" means for one path element *)
Definition good_elem (e : str) : Prop :=
  e <> [] /\ e <> s_dot /\ e <> s_dotdot /\
  (forall b, In b e -> b <> c_slash /\ b <> c_backslash /\ b <> c_colon /\ b <> 0).

Lemma good_plain : forall e, good_elem e -> plain_elem e.
Proof. intros e [A [B [C _]]]. repeat split; auto. Qed.

Lemma good_no_slash : forall e, good_elem e -> ~ In c_slash e.
Proof. intros e [_ [_ [_ H]]] I. destruct (H _ I) as [X _]. congruence. Qed.

Section Oracle.
  Variable is_letter : N -> bool.

  Lemma ascii_ok_not_bad : forall b, ascii_file_char_ok b = true ->
    b <> c_slash /\ b <> c_backslash /\ b <> c_colon /\ b <> 0.
  Proof.
    intros b H. repeat split; intros ->; vm_compute in H; discriminate.
  Qed.

  Lemma check_elem_good : forall e, check_elem is_letter e = true -> good_elem e.
  Proof.
    intros e H. unfold check_elem in H. destruct e as [|b0 t] eqn:Ee; [discriminate|]. rewrite <- Ee in *.
    destruct (forallb (N.eqb c_dot) e) eqn:D; [discriminate|].
    destruct (match last_byte e with Some b => b =? c_dot | None => false end); [discriminate|].
    destruct (forallb (file_name_ok is_letter) (runes e)) eqn:F; [|discriminate]. simpl in H.
    repeat split.
    - subst; congruence.
    - intros ->. vm_compute in D. discriminate.
    - intros ->. vm_compute in D. discriminate.
    - destruct (N.lt_ge_cases b 128) as [L|G].
      + apply (ascii_ok_not_bad b). pose proof (ascii_in_runes e b H0 L) as I.
        rewrite forallb_forall in F. specialize (F _ I). unfold file_name_ok in F.
        apply N.ltb_lt in L. rewrite L in F. exact F.
      + intros ->. vm_compute in G. apply G. reflexivity.
    - destruct (N.lt_ge_cases b 128) as [L|G].
      + apply (ascii_ok_not_bad b). pose proof (ascii_in_runes e b H0 L) as I.
        rewrite forallb_forall in F. specialize (F _ I). unfold file_name_ok in F.
        apply N.ltb_lt in L. rewrite L in F. exact F.
      + intros ->. vm_compute in G. apply G. reflexivity.
    - destruct (N.lt_ge_cases b 128) as [L|G].
      + apply (ascii_ok_not_bad b). pose proof (ascii_in_runes e b H0 L) as I.
        rewrite forallb_forall in F. specialize (F _ I). unfold file_name_ok in F.
        apply N.ltb_lt in L. rewrite L in F. exact F.
      + intros ->. vm_compute in G. apply G. reflexivity.
    - destruct (N.lt_ge_cases b 128) as [L|G].
      + apply (ascii_ok_not_bad b). pose proof (ascii_in_runes e b H0 L) as I.
        rewrite forallb_forall in F. specialize (F _ I). unfold file_name_ok in F.
        apply N.ltb_lt in L. rewrite L in F. exact F.
      + intros ->. vm_compute in G. apply G. reflexivity.
  Qed.

  Lemma check_path_elems : forall p, check_path is_letter p = true ->
    Forall good_elem (split_slash p) /\ valid_utf8 p = true /\ p <> [].
  Proof.
    intros p H. unfold check_path in H.
    destruct (valid_utf8 p) eqn:V; [|discriminate]. simpl in H.
    destruct p as [|b t] eqn:Ep; [discriminate|]. rewrite <- Ep in *.
    destruct (has_double_slash p); [discriminate|].
    destruct (ends_with_slash p); [discriminate|].
    split; [|split; auto; subst; congruence].
    apply Forall_forall. intros e I. apply check_elem_good.
    rewrite forallb_forall in H. auto.
  Qed.

  (* C15 checked_path_safe *)
  Theorem check_path_safe : forall p, check_path is_letter p = true ->
    let es := split_slash p in
    p = join_slash es /\ es <> [] /\ Forall good_elem es /\
    is_abs p = false /\ clean p = p /\
    (forall b, In b p -> b <> c_backslash /\ b <> c_colon /\ b <> 0).
  Proof.
    intros p H es. destruct (check_path_elems p H) as [G [_ NE]].
    assert (J : p = join_slash es) by (unfold es, join_slash, split_slash; rewrite join_split; reflexivity).
    assert (N0 : es <> []) by (apply split_on_nonempty).
    fold es in G.
    assert (P : Forall plain_elem es) by (eapply Forall_impl; [|exact G]; apply good_plain).
    assert (NS : forall e, In e es -> ~ In c_slash e) by (intros; apply (split_no_sep c_slash p); auto).
    repeat split; auto.
    - rewrite J. destruct es as [|e es']; try congruence. apply is_abs_join.
      + inversion G; subst. destruct H2; auto.
      + apply NS; left; auto.
    - rewrite J. apply clean_join_plain; auto.
    - rewrite J in H0. apply In_join_with in H0. destruct H0 as [->|[e [I1 I2]]]; [vm_compute; congruence|].
      rewrite Forall_forall in G. destruct (G _ I1) as [_ [_ [_ X]]]. apply X; auto.
    - rewrite J in H0. apply In_join_with in H0. destruct H0 as [->|[e [I1 I2]]]; [vm_compute; congruence|].
      rewrite Forall_forall in G. destruct (G _ I1) as [_ [_ [_ X]]]. apply X; auto.
    - rewrite J in H0. apply In_join_with in H0. destruct H0 as [->|[e [I1 I2]]]; [vm_compute; congruence|].
      rewrite Forall_forall in G. destruct (G _ I1) as [_ [_ [_ X]]]. apply X; auto.
  Qed.

  Lemma is_abs_rejected : forall p, is_abs p = true -> check_path is_letter p = false.
  Proof.
    intros p A. destruct (check_path is_letter p) eqn:C; auto.
    destruct (check_path_safe p C) as [_ [_ [_ [X _]]]]. congruence.
  Qed.
End Oracle.
