(* Unzip: confinement to the target directory, exclusive creation, byte bounds. *)
From Coq Require Import String.
From Coq Require Import List NArith ZArith Bool Lia.
From Verif Require Import Zip.Bytes Zip.BytesProofs Zip.Model Zip.PathProofs Zip.ZipProofs Zip.FsProofs.
Import ListNotations.
Local Open Scope N_scope.

(* The copy loop for ANY reader behaviour: never more than declared+1 bytes reach the
   file, and without an error never more than declared. *)
Theorem limited_copy_bounded : forall d delivered rerr w err,
  limited_copy d delivered rerr = (w, err) ->
  (Z.of_nat (length w) <= Z.max 0 (d + 1))%Z /\
  (err = false -> w = delivered /\ rerr = false /\ (Z.of_nat (length w) <= d)%Z).
Proof.
  intros d dl rerr w err H. unfold limited_copy in H.
  destruct (d + 1 <=? Z.of_nat (length dl))%Z eqn:C; inversion H; subst; clear H.
  - apply Z.leb_le in C. split; [|discriminate].
    rewrite firstn_length. lia.
  - apply Z.leb_gt in C. split; [lia|]. intros ->. repeat split; auto. lia.
Qed.

Lemma to_int64_small : forall n, (n < 9223372036854775808)%N -> to_int64 n = Z.of_N n.
Proof.
  intros n H. unfold to_int64. rewrite N.mod_small by lia.
  apply N.ltb_lt in H. rewrite H. reflexivity.
Qed.

Lemma to_int64_range : forall n, (to_int64 n < 0)%Z \/ to_int64 n = Z.of_N (n mod 18446744073709551616).
Proof.
  intros n. unfold to_int64. destruct (_ <? _)%N eqn:E; auto.
  left. apply N.ltb_ge in E.
  assert ((n mod 18446744073709551616) < 18446744073709551616)%N by (apply N.mod_lt; discriminate). lia.
Qed.

(* zf.UncompressedSize64 is a uint64 *)
Definition uint64_entry (e : entry) : Prop := (e_declared e < 18446744073709551616)%N.

Lemma to_int64_nonneg : forall n, (n < 18446744073709551616)%N -> (0 <= to_int64 n)%Z -> to_int64 n = Z.of_N n.
Proof.
  intros n H P. unfold to_int64 in *. rewrite N.mod_small in * by lia.
  destruct (n <? 9223372036854775808)%N; lia.
Qed.

Lemma zip_read_short : forall e dl rerr, zip_read e = (dl, rerr) -> (N.of_nat (length dl) <= e_declared e)%N.
Proof.
  intros e dl rerr R. unfold zip_read in R.
  destruct (e_declared e <? N.of_nat (length (e_data e))) eqn:C1.
  - inversion R; subst. simpl. lia.
  - apply N.ltb_ge in C1. destruct (N.of_nat (length (e_data e)) <? e_declared e) eqn:C2; inversion R; subst; auto.
    destruct (e_deflate e); simpl; lia.
Qed.

Lemma zip_read_ok : forall e dl, zip_read e = (dl, false) ->
  dl = e_data e /\ N.of_nat (length (e_data e)) = e_declared e /\ e_crc_ok e = true.
Proof.
  intros e dl R. unfold zip_read in R.
  destruct (e_declared e <? N.of_nat (length (e_data e))) eqn:C1; [inversion R|].
  destruct (N.of_nat (length (e_data e)) <? e_declared e) eqn:C2; [inversion R|].
  apply N.ltb_ge in C1. apply N.ltb_ge in C2. inversion R. repeat split; try lia.
  apply negb_false_iff. auto.
Qed.

(* with the archive/zip reader model the file never gets more than the declared size *)
Lemma read_copy_bounded : forall e dl rerr w err,
  uint64_entry e ->
  zip_read e = (dl, rerr) ->
  limited_copy (to_int64 (e_declared e)) dl rerr = (w, err) ->
  (Z.of_nat (length w) <= Z.max 0 (to_int64 (e_declared e)))%Z /\
  (err = false -> w = e_data e /\ N.of_nat (length (e_data e)) = e_declared e /\ e_crc_ok e = true).
Proof.
  intros e dl rerr w err U R L.
  destruct (limited_copy_bounded _ _ _ _ _ L) as [B1 B2].
  pose proof (zip_read_short _ _ _ R) as S.
  split.
  - unfold limited_copy in L.
    destruct (to_int64 (e_declared e) + 1 <=? Z.of_nat (length dl))%Z eqn:C; inversion L; subst; clear L.
    + apply Z.leb_le in C. rewrite firstn_length.
      destruct (Z.lt_ge_cases (to_int64 (e_declared e)) 0) as [Neg|Pos]; [lia|].
      rewrite (to_int64_nonneg _ U Pos) in *. lia.
    + apply Z.leb_gt in C. lia.
  - intros ->. destruct (B2 eq_refl) as [X [Y _]]. subst. apply zip_read_ok in R. destruct R as [A [B C]].
    subst. auto.
Qed.

Section Oracle.
  Variable is_letter : N -> bool.
  Variable fold_min : N -> N.
  Variable dir : fpath.
  Hypothesis dir_clean : clean_elems true [] dir = dir.   (* the target is a clean absolute path *)

  Notation check_path := (check_path is_letter).
  Notation unzip := (unzip is_letter fold_min).
  Notation check_zip := (check_zip is_letter fold_min).

  (* filepath.Join(dir, name) of a checked name is dir followed by the name's elements *)
  Lemma join_path_checked : forall name, check_path name = true ->
    join_path dir name = dir ++ split_slash name /\ split_slash name <> [].
  Proof.
    intros name H. destruct (check_path_safe is_letter name H) as [_ [NE [G _]]].
    split; auto. unfold join_path. rewrite clean_elems_app, dir_clean.
    rewrite clean_elems_plain.
    - rewrite rev_involutive. reflexivity.
    - eapply Forall_impl; [|exact G]. apply good_plain.
  Qed.

  Definition checked_entry (e : entry) : Prop :=
    ends_with_slash (e_name e) = true \/ check_path (e_name e) = true.

  (* q is the regular file written for some file entry of the archive, holding at most
     the declared number of bytes *)
  Definition file_of (es : list entry) (q : fpath) (n : node) : Prop :=
    exists e c, In e es /\ ends_with_slash (e_name e) = false /\ q = dir ++ split_slash (e_name e) /\
                n = NFile c /\ (Z.of_nat (length c) <= Z.max 0 (to_int64 (e_declared e)))%Z.

  Definition unzip_effect (es : list entry) (q : fpath) (n : node) : Prop :=
    (n = NDir /\ is_path_prefix q dir = true) \/
    (strict_prefix dir q = true /\ (n = NDir \/ file_of es q n)).

  Lemma unzip_effect_mono : forall e es q n, unzip_effect es q n -> unzip_effect (e :: es) q n.
  Proof.
    intros e es q n [H|[S [H|[e0 [c [I H]]]]]]; [left; auto|right; auto|].
    right. split; auto. right. exists e0, c. split; [right; auto|auto].
  Qed.

  Lemma mkdir_parent_effect : forall es' fs fs1 l,
    es' <> [] ->
    mkdir_all fs (removelast (dir ++ es')) = Some fs1 ->
    extends (unzip_effect l) fs fs1.
  Proof.
    intros es' fs fs1 l NE M. apply mkdir_all_extends in M.
    eapply extends_weaken; [|exact M]. intros q n [-> P].
    rewrite removelast_app in P by auto.
    destruct (prefix_of_app _ _ _ P) as [A|A]; [left; auto|right; auto].
  Qed.

  Lemma strict_prefix_app : forall (a b : fpath), b <> [] -> strict_prefix a (a ++ b) = true.
  Proof. intros a b NE. apply strict_prefix_spec. destruct b as [|x c]; try congruence. eauto. Qed.

  Lemma unzip_entries_spec : forall es fs fs' r,
    Forall checked_entry es -> Forall uint64_entry es ->
    unzip_entries dir fs es = (fs', r) ->
    extends (unzip_effect es) fs fs' /\
    (r = UOk -> forall e, In e es -> ends_with_slash (e_name e) = false ->
       fs_lookup fs' (dir ++ split_slash (e_name e)) = Some (NFile (e_data e)) /\
       N.of_nat (length (e_data e)) = e_declared e /\ e_crc_ok e = true /\ e_open_ok e = true).
  Proof.
    induction es as [|e es IH]; intros fs fs' r CE UE H.
    - simpl in H. inversion H; subst. split; [apply extends_refl|]. intros _ e [].
    - inversion CE as [|? ? CE1 CE2]; subst. inversion UE as [|? ? UE1 UE2]; subst.
      cbn [unzip_entries] in H.
      assert (SKIP : forall fs' r, unzip_entries dir fs es = (fs', r) ->
                ends_with_slash (e_name e) = true ->
                extends (unzip_effect (e :: es)) fs fs' /\
                (r = UOk -> forall e0, In e0 (e :: es) -> ends_with_slash (e_name e0) = false ->
                   fs_lookup fs' (dir ++ split_slash (e_name e0)) = Some (NFile (e_data e0)) /\
                   N.of_nat (length (e_data e0)) = e_declared e0 /\ e_crc_ok e0 = true /\ e_open_ok e0 = true)).
      { intros fs2 r2 H2 D. destruct (IH _ _ _ CE2 UE2 H2) as [A B]. split.
        - eapply extends_weaken; [|exact A]. intros; apply unzip_effect_mono; auto.
        - intros R e0 [<-|I] ND; [congruence|]. apply B; auto. }
      destruct (e_name e) as [|b0 t0] eqn:NM.
      { destruct CE1 as [X|X]; rewrite NM in X; vm_compute in X; discriminate. }
      rewrite <- NM in *.
      destruct (ends_with_slash (e_name e)) eqn:D; [apply SKIP; auto|].
      destruct CE1 as [X|CP]; [unfold checked_entry in X; congruence|].
      destruct (join_path_checked _ CP) as [J NE]. rewrite J in H.
      destruct (mkdir_all fs (removelast (dir ++ split_slash (e_name e)))) as [fs1|] eqn:M.
      2:{ inversion H; subst. split; [apply extends_refl|discriminate]. }
      pose proof (mkdir_parent_effect _ _ _ (e :: es) NE M) as X1.
      assert (FO : forall c, (Z.of_nat (length c) <= Z.max 0 (to_int64 (e_declared e)))%Z ->
                   unzip_effect (e :: es) (dir ++ split_slash (e_name e)) (NFile c)).
      { intros c B. right. split; [apply strict_prefix_app; auto|]. right. exists e, c.
        repeat split; auto. left; reflexivity. }
      destruct (e_open_ok e) eqn:OP; cbn [negb] in H.
      2:{ destruct (create_excl fs1 (dir ++ split_slash (e_name e)) []) as [fs2|] eqn:CR.
          - inversion H; subst. split; [|discriminate].
            apply create_excl_spec in CR. destruct CR as [-> L].
            eapply extends_trans; [exact X1|]. apply extends_one; auto. apply FO. simpl. lia.
          - inversion H; subst. split; [exact X1|discriminate]. }
      destruct (zip_read e) as [dl rerr] eqn:ZR.
      destruct (limited_copy (to_int64 (e_declared e)) dl rerr) as [w err] eqn:LC.
      destruct (read_copy_bounded _ _ _ _ _ UE1 ZR LC) as [B1 B2].
      destruct (create_excl fs1 (dir ++ split_slash (e_name e)) w) as [fs2|] eqn:CR.
      2:{ inversion H; subst. split; [exact X1|discriminate]. }
      apply create_excl_spec in CR. destruct CR as [-> L].
      assert (X2 : extends (unzip_effect (e :: es)) fs ((dir ++ split_slash (e_name e), NFile w) :: fs1)).
      { eapply extends_trans; [exact X1|]. apply extends_one; auto. }
      destruct err.
      { inversion H; subst. split; [exact X2|discriminate]. }
      destruct (IH _ _ _ CE2 UE2 H) as [A B].
      split.
      + eapply extends_trans; [exact X2|]. eapply extends_weaken; [|exact A].
        intros; apply unzip_effect_mono; auto.
      + intros R e0 [<-|I] ND.
        * destruct (B2 eq_refl) as [-> [Y1 Y2]]. repeat split; auto.
          eapply extends_lookup_old; [exact A|]. simpl. rewrite path_eqb_refl. reflexivity.
        * apply B; auto.
  Qed.

  Lemma ends_with_slash_removelast : forall s, ends_with_slash s = true -> s = removelast s ++ [c_slash].
  Proof.
    unfold ends_with_slash. induction s as [|b t IH]; intros H; [discriminate|].
    destruct t as [|b1 t1].
    - simpl in *. apply N.eqb_eq in H. subst. reflexivity.
    - change (removelast (b :: b1 :: t1)) with (b :: removelast (b1 :: t1)).
      simpl app. f_equal. apply IH. exact H.
  Qed.

  Lemma entry_name_file : forall e, entry_is_dir e = false -> entry_name e = e_name e.
  Proof. intros e H. unfold entry_name. rewrite H. reflexivity. Qed.

  Lemma check_zip_ok_entries : forall zs es, checked_err (check_zip zs es) = false ->
    Forall (fun e => exists s v s', entry_ok is_letter fold_min s e v s') es.
  Proof.
    intros zs es H. destruct (check_zip_ok is_letter fold_min zs es H) as [_ [st' [C _]]].
    eapply cz_chain_forall; eauto.
  Qed.

  Lemma check_zip_ok_checked : forall zs es, checked_err (check_zip zs es) = false -> Forall checked_entry es.
  Proof.
    intros zs es H. eapply Forall_impl; [|apply (check_zip_ok_entries zs es H)].
    intros e [s [v [s' OK]]]. unfold checked_entry.
    destruct (entry_is_dir e) eqn:D; [left; exact D|right].
    rewrite <- (entry_name_file e D). apply (eo_path _ _ _ _ _ _ OK).
  Qed.

  (* C15 unzip_confined: for EVERY archive, file system and clean target directory, what Unzip
     does to the file system is: add fresh entries (nothing existing is touched), each of them
     either one of the directories MkdirAll(dir) creates (dir and its ancestors) or strictly
     beneath dir; beneath dir only directories and regular files of at most the declared size. *)
  Theorem unzip_confined : forall fs zs es fs' r,
    Forall uint64_entry es ->
    unzip dir fs zs es = (fs', r) ->
    extends (unzip_effect es) fs fs'.
  Proof.
    intros fs zs es fs' r U H. unfold Model.unzip in H.
    destruct (dir_nonempty fs dir); [inversion H; apply extends_refl|].
    destruct (checked_err (check_zip zs es)) eqn:C; [inversion H; apply extends_refl|].
    destruct (mkdir_all fs dir) as [fs1|] eqn:M; [|inversion H; apply extends_refl].
    apply mkdir_all_extends in M.
    eapply extends_trans.
    - eapply extends_weaken; [|exact M]. intros q n [-> P]. left; auto.
    - eapply unzip_entries_spec; eauto. eapply check_zip_ok_checked; eauto.
  Qed.

  (* a rejected archive (or a non-empty target) leaves the file system untouched *)
  Theorem unzip_rejected_untouched : forall fs zs es,
    checked_err (check_zip zs es) = true -> unzip dir fs zs es = (fs, UErr).
  Proof.
    intros fs zs es H. unfold Model.unzip. destruct (dir_nonempty fs dir); auto. rewrite H. reflexivity.
  Qed.

  (* C15 unzip_bytes_bounded: a successful Unzip wrote, for every file entry, exactly the declared
     number of bytes (the entry's data, CRC verified), and the declared sizes total <= MaxZipFile *)
  Theorem unzip_ok_exact : forall fs zs es fs',
    Forall uint64_entry es ->
    unzip dir fs zs es = (fs', UOk) ->
    (forall e, In e es -> ends_with_slash (e_name e) = false ->
       fs_lookup fs' (dir ++ split_slash (e_name e)) = Some (NFile (e_data e)) /\
       N.of_nat (length (e_data e)) = e_declared e /\ e_crc_ok e = true /\ e_open_ok e = true) /\
    (0 <= declared_sum es <= MaxZipFile)%Z.
  Proof.
    intros fs zs es fs' U H. unfold Model.unzip in H.
    destruct (dir_nonempty fs dir); [inversion H|].
    destruct (checked_err (check_zip zs es)) eqn:C; [inversion H|].
    destruct (mkdir_all fs dir) as [fs1|] eqn:M; [|inversion H].
    split.
    - eapply unzip_entries_spec; eauto. eapply check_zip_ok_checked; eauto.
    - apply (check_zip_total_size is_letter fold_min zs es C).
  Qed.
End Oracle.
