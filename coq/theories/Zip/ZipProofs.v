(* CheckZip: what an accepted archive guarantees about each entry. *)
From Coq Require Import String.
From Coq Require Import List NArith ZArith Bool Lia.
From Verif Require Import Zip.Bytes Zip.BytesProofs Zip.Model Zip.PathProofs.
Import ListNotations.
Local Open Scope N_scope.

Ltac break_in H :=
  repeat match type of H with
         | context[if ?c then _ else _] => let E := fresh "E" in destruct c eqn:E
         | context[let (_, _) := ?x in _] => let E := fresh "E" in destruct x eqn:E
         | context[match ?x with _ => _ end] => let E := fresh "E" in destruct x eqn:E
         end.

Section Oracle.
  Variable is_letter : N -> bool.
  Variable fold_min : N -> N.

  Notation cz_step := (cz_step is_letter fold_min).
  Notation cz_loop := (cz_loop is_letter fold_min).
  Notation check_zip := (check_zip is_letter fold_min).
  Notation check_path := (check_path is_letter).
  Notation cc_check := (cc_check fold_min).

  Record entry_ok (st : cz_state) (e : entry) (v : verdict) (st' : cz_state) : Prop := {
    eo_clean : clean (entry_name e) = entry_name e;
    eo_path : check_path (entry_name e) = true;
    eo_local : entry_name e <> s_local_module;
    eo_cc : cc_check (zs_cc st) (entry_name e) (entry_is_dir e) = (zs_cc st', true);
    eo_cue_mod : cz_cue_mod (entry_name e) <> None;
    eo_mod : zs_mod st' = true -> zs_mod st = true \/ entry_name e = s_cue_mod_module_cue;
    eo_dir : entry_is_dir e = true -> v = VSkipped /\ zs_size st' = zs_size st /\ zs_size_err st' = zs_size_err st;
    eo_file : entry_is_dir e = false ->
              v = VValid /\
              (exists m, st' = cz_account (mkCZ (zs_cc st') (zs_size st) (zs_size_err st) m) (to_int64 (e_declared e))) /\
              ~ (entry_name e = s_cue_mod_module_cue /\ (MaxCUEMod < to_int64 (e_declared e))%Z) /\
              ~ (entry_name e = s_license /\ (MaxLICENSE < to_int64 (e_declared e))%Z)
  }.

  Lemma split_cue_mod_aux_app : forall fuel p s a b, split_cue_mod_aux fuel p s = (a, b) -> p = a ++ b.
  Proof.
    induction fuel as [|k IH]; intros p s a b H; cbn [split_cue_mod_aux] in H.
    - inversion H; subst. rewrite app_nil_r. reflexivity.
    - destruct (path_split s) as [dir f]. destruct (ascii_eqfold f s_cue_mod).
      + inversion H; subst. symmetry. apply firstn_skipn.
      + destruct (trim_right_slash dir); [inversion H; subst; rewrite app_nil_r; reflexivity|].
        eapply IH; eauto.
  Qed.

  Lemma cz_cue_mod_true : forall name, cz_cue_mod name = Some true -> name = s_cue_mod_module_cue.
  Proof.
    intros name H. unfold cz_cue_mod in H. destruct (split_cue_mod name) as [prefix rest] eqn:S.
    apply split_cue_mod_aux_app in S.
    destruct rest as [|r0 rest']; [inversion H|]. destruct prefix; [|inversion H].
    destruct (negb (contains_byte c_slash (r0 :: rest'))); [inversion H|].
    destruct (negb (has_prefix s_cue_mod_slash (r0 :: rest'))); [inversion H|].
    destruct (ascii_eqfold (r0 :: rest') s_cue_mod_module_cue); [|inversion H].
    destruct (str_eqb (r0 :: rest') s_cue_mod_module_cue) eqn:E; cbn [negb] in H; [|inversion H].
    apply str_eqb_eq in E. simpl in S. congruence.
  Qed.

  Lemma cz_step_inv : forall st e v st', cz_step st e = (v, st') -> v <> VInvalid -> entry_ok st e v st'.
  Proof.
    intros st e v st' H NV. unfold Model.cz_step in H.
    destruct (str_eqb (clean (entry_name e)) (entry_name e)) eqn:C; cbn [negb] in H; [|inversion H; congruence].
    destruct (Model.check_path is_letter (entry_name e)) eqn:P; cbn [negb] in H; [|inversion H; congruence].
    destruct (str_eqb (entry_name e) s_local_module) eqn:L; [inversion H; congruence|].
    destruct (Model.cc_check fold_min (zs_cc st) (entry_name e) (entry_is_dir e)) as [cc' ok] eqn:CC.
    destruct ok; cbn [negb] in H; [|inversion H; congruence].
    apply str_eqb_eq in C. apply str_eqb_neq in L.
    destruct (cz_cue_mod (entry_name e)) as [is_mod|] eqn:CM; [|inversion H; congruence].
    destruct (entry_is_dir e) eqn:D.
    - inversion H; subst. constructor; cbn [zs_cc zs_size zs_size_err zs_mod]; auto; try congruence.
      intros M. apply orb_true_iff in M. destruct M as [M|M]; auto. subst. right. apply cz_cue_mod_true. exact CM.
    - destruct (str_eqb (entry_name e) s_cue_mod_module_cue && (MaxCUEMod <? to_int64 (e_declared e))%Z) eqn:M1;
        [inversion H; congruence|].
      destruct (str_eqb (entry_name e) s_license && (MaxLICENSE <? to_int64 (e_declared e))%Z) eqn:M2;
        [inversion H; congruence|].
      inversion H; subst; clear H.
      assert (CCeq : forall s z, zs_cc (cz_account s z) = zs_cc s).
      { intros. unfold cz_account. destruct ((0 <=? z)%Z && _); reflexivity. }
      assert (MDeq : forall s z, zs_mod (cz_account s z) = zs_mod s).
      { intros. unfold cz_account. destruct ((0 <=? z)%Z && _); reflexivity. }
      constructor; rewrite ?CCeq, ?MDeq; cbn [zs_cc zs_size zs_size_err zs_mod]; auto; try congruence.
      { intros M. apply orb_true_iff in M. destruct M as [M|M]; auto. subst. right. apply cz_cue_mod_true. exact CM. }
      intros _. split; [reflexivity|]. split; [exists (zs_mod st || is_mod); reflexivity|].
      split.
      + intros [A B]. apply str_eqb_eq in A. rewrite A in M1. cbn [andb] in M1. apply Z.ltb_lt in B. congruence.
      + intros [A B]. apply str_eqb_eq in A. rewrite A in M2. cbn [andb] in M2. apply Z.ltb_lt in B. congruence.
  Qed.

  (* a non-directory entry is either Valid or Invalid; a directory entry is never Valid *)
  Lemma cz_step_verdict : forall st e v st', cz_step st e = (v, st') ->
    (entry_is_dir e = false -> v = VValid \/ v = VInvalid) /\
    (entry_is_dir e = true -> v = VSkipped \/ v = VInvalid) /\ v <> VOmitted.
  Proof.
    intros st e v st' H. unfold Model.cz_step in H.
    repeat match type of H with
           | context[if ?c then _ else _] => destruct c
           | context[let (_, _) := ?x in _] => destruct x
           | context[match ?x with Some _ => _ | None => _ end] => destruct x
           end; inversion H; subst; repeat split; intros; try discriminate; auto.
  Qed.

  (* the states threaded through an archive all of whose entries are accepted *)
  Fixpoint cz_chain (st : cz_state) (es : list entry) (st' : cz_state) : Prop :=
    match es with
    | [] => st' = st
    | e :: r => exists v s1, entry_ok st e v s1 /\ cz_chain s1 r st'
    end.

  Lemma cz_loop_length : forall es st vs st', cz_loop st es = (vs, st') -> length vs = length es.
  Proof.
    induction es as [|e es IH]; intros st vs st' H; cbn [Model.cz_loop] in H.
    - inversion H; reflexivity.
    - destruct (cz_step st e) as [v s1]. destruct (cz_loop s1 es) as [vs' s2] eqn:L.
      inversion H; subst. simpl. f_equal. eapply IH; eauto.
  Qed.

  Lemma cz_loop_chain : forall es st vs st', cz_loop st es = (vs, st') -> ~ In VInvalid vs -> cz_chain st es st'.
  Proof.
    induction es as [|e es IH]; intros st vs st' H NI; cbn [Model.cz_loop] in H.
    - inversion H; reflexivity.
    - destruct (cz_step st e) as [v s1] eqn:S. destruct (cz_loop s1 es) as [vs' s2] eqn:L.
      inversion H; subst. simpl. exists v, s1. split.
      + apply cz_step_inv; auto. intros ->. apply NI. left; reflexivity.
      + eapply IH; eauto. intros I. apply NI. right; exact I.
  Qed.

  Lemma names_with_nil : forall v (ns : list str) vs, length ns = length vs ->
    names_with v (combine ns vs) = [] -> ~ In v vs.
  Proof.
    induction ns as [|n ns IH]; intros [|w vs] L H; simpl in *; try lia; auto.
    unfold names_with in H. simpl in H.
    destruct (verdict_eqb w v) eqn:E; simpl in H; [discriminate|].
    intros [->|I].
    - destruct v; discriminate.
    - revert I. apply IH; auto.
  Qed.

  (* C15: an archive accepted by CheckZip *)
  Theorem check_zip_ok : forall zs es, checked_err (check_zip zs es) = false ->
    (zs <= MaxZipFile)%Z /\
    exists st', cz_chain cz_init es st' /\ zs_size_err st' = false /\ zs_mod st' = true.
  Proof.
    intros zs es H. unfold Model.check_zip in H.
    destruct (MaxZipFile <? zs)%Z eqn:Z; [discriminate|]. apply Z.ltb_ge in Z. split; auto.
    unfold check_zip_verdicts in H. destruct (cz_loop cz_init es) as [vs st'] eqn:L.
    unfold checked_err in H. cbn [c_size_err c_invalid c_nomod] in H.
    apply orb_false_iff in H. destruct H as [H NM]. apply orb_false_iff in H. destruct H as [SE I].
    exists st'. split; [|split; auto; apply negb_false_iff; auto].
    eapply cz_loop_chain; eauto.
    apply names_with_nil with (ns := map e_name es).
    - rewrite map_length. symmetry. eapply cz_loop_length; eauto.
    - destruct (names_with VInvalid (combine (map e_name es) vs)); [reflexivity|discriminate].
  Qed.

  Lemma cz_chain_forall : forall es st st', cz_chain st es st' ->
    Forall (fun e => exists s v s', entry_ok s e v s') es.
  Proof.
    induction es as [|e es IH]; intros st st' H; constructor.
    - destruct H as [v [s1 [A _]]]. eauto.
    - destruct H as [v [s1 [_ B]]]. eauto.
  Qed.

  (* declared sizes of the files of an accepted archive add up to at most MaxZipFile *)
  Fixpoint declared_sum (es : list entry) : Z :=
    match es with
    | [] => 0
    | e :: r => ((if entry_is_dir e then 0 else to_int64 (e_declared e)) + declared_sum r)%Z
    end.

  Lemma cz_chain_sizes : forall es st st', cz_chain st es st' -> zs_size_err st' = false ->
    zs_size_err st = false /\ zs_size st' = (zs_size st + declared_sum es)%Z /\
    (0 <= declared_sum es)%Z /\
    ((zs_size st <= MaxZipFile)%Z -> (zs_size st' <= MaxZipFile)%Z) /\
    Forall (fun e => entry_is_dir e = false -> (0 <= to_int64 (e_declared e))%Z) es.
  Proof.
    induction es as [|e es IH]; intros st st' H SE; simpl in *.
    - subst. repeat split; auto; lia.
    - destruct H as [v [s1 [A B]]]. destruct (IH _ _ B SE) as [S1 [S2 [S3 [S4 S5]]]].
      destruct (entry_is_dir e) eqn:D.
      + destruct (eo_dir _ _ _ _ A D) as [_ [X Y]]. repeat split; try congruence; try lia.
        constructor; auto. congruence.
      + destruct (eo_file _ _ _ _ A D) as [_ [[m Acc] _]].
        rewrite Acc in S1, S2, S4. unfold cz_account in S1, S2, S4.
        destruct ((0 <=? to_int64 (e_declared e))%Z &&
                  (to_int64 (e_declared e) <=? MaxZipFile - zs_size {| zs_cc := zs_cc s1; zs_size := zs_size st; zs_size_err := zs_size_err st; zs_mod := m |})%Z) eqn:C;
          cbn [zs_size zs_size_err] in S1, S2, S4, C; [|discriminate].
        apply andb_true_iff in C. destruct C as [C1 C2]. apply Z.leb_le in C1. apply Z.leb_le in C2.
        repeat split; auto; try lia.
  Qed.

  (* C15: the declared sizes of an accepted archive add up to at most MaxZipFile *)
  Theorem check_zip_total_size : forall zs es, checked_err (check_zip zs es) = false ->
    (0 <= declared_sum es <= MaxZipFile)%Z /\
    Forall (fun e => entry_is_dir e = false -> (0 <= to_int64 (e_declared e))%Z) es.
  Proof.
    intros zs es H. destruct (check_zip_ok zs es H) as [_ [st' [C [SE _]]]].
    destruct (cz_chain_sizes _ _ _ C SE) as [_ [S [N [M F]]]]. split; auto.
    cbn [cz_init zs_size] in S, M. split; auto.
    assert (X : (0 <= MaxZipFile)%Z) by (vm_compute; discriminate). specialize (M X). lia.
  Qed.
End Oracle.
