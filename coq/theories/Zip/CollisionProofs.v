(* collisionChecker: the table only grows, an accepted path is registered together with
   all its parent directories, and a registered path blocks every later path that folds
   to the same key unless both are the same directory. *)
From Coq Require Import String.
From Coq Require Import List NArith ZArith Bool Lia.
From Verif Require Import Zip.Bytes Zip.BytesProofs Zip.Model.
Import ListNotations.

Section Oracle.
  Variable fold_min : N -> N.
  Notation fold := (str_to_fold fold_min).
  Notation cc_one := (cc_one fold_min).
  Notation cc_walk := (cc_walk fold_min).
  Notation cc_check := (cc_check fold_min).

  Lemma cc_lookup_cons : forall k k' v m,
    cc_lookup k ((k', v) :: m) = if str_eqb k k' then Some v else cc_lookup k m.
  Proof. reflexivity. Qed.

  Lemma cc_one_mono : forall m p d m' ok k v,
    cc_one m p d = (m', ok) -> cc_lookup k m = Some v -> cc_lookup k m' = Some v.
  Proof.
    intros m p d m' ok k v H L. unfold Model.cc_one in H.
    destruct (cc_lookup (fold p) m) as [other|] eqn:E.
    - repeat match type of H with context[if ?c then _ else _] => destruct c end; inversion H; subst; auto.
    - inversion H; subst. rewrite cc_lookup_cons.
      destruct (str_eqb k (fold p)) eqn:K; auto. apply str_eqb_eq in K. subst. congruence.
  Qed.

  Lemma cc_one_ok : forall m p d m', cc_one m p d = (m', true) -> cc_lookup (fold p) m' = Some (mkPI p d).
  Proof.
    intros m p d m' H. unfold Model.cc_one in H.
    destruct (cc_lookup (fold p) m) as [other|] eqn:E.
    - destruct (str_eqb p (pi_path other)) eqn:A; cbn [negb] in H; [|inversion H].
      destruct (Bool.eqb d (pi_dir other)) eqn:B; cbn [negb] in H; [|inversion H].
      destruct d; cbn [negb] in H; [|inversion H]. inversion H; subst.
      apply str_eqb_eq in A. apply eqb_prop in B. destruct other; simpl in *; subst. exact E.
    - inversion H; subst. rewrite cc_lookup_cons, str_eqb_refl. reflexivity.
  Qed.

  (* a key that is already taken lets a path through only if it is the same directory *)
  Lemma cc_one_taken : forall m p d m' p0 d0,
    cc_lookup (fold p) m = Some (mkPI p0 d0) -> cc_one m p d = (m', true) -> p0 = p /\ d0 = true /\ d = true.
  Proof.
    intros m p d m' p0 d0 L H. unfold Model.cc_one in H. rewrite L in H. cbn [pi_path pi_dir] in H.
    destruct (str_eqb p p0) eqn:A; cbn [negb] in H; [|inversion H].
    destruct (Bool.eqb d d0) eqn:B; cbn [negb] in H; [|inversion H].
    destruct d; cbn [negb] in H; [|inversion H].
    apply str_eqb_eq in A. apply eqb_prop in B. subst. auto.
  Qed.

  Lemma cc_walk_mono : forall l m m' ok k v,
    cc_walk m l = (m', ok) -> cc_lookup k m = Some v -> cc_lookup k m' = Some v.
  Proof.
    induction l as [|[p d] l IH]; intros m m' ok k v H L; cbn [Model.cc_walk] in H.
    - inversion H; subst; auto.
    - destruct (cc_one m p d) as [m1 ok1] eqn:O. pose proof (cc_one_mono _ _ _ _ _ _ _ O L) as L1.
      destruct ok1; [eapply IH; eauto|inversion H; subst; auto].
  Qed.

  Lemma cc_walk_ok : forall l m m', cc_walk m l = (m', true) ->
    forall p d, In (p, d) l -> cc_lookup (fold p) m' = Some (mkPI p d).
  Proof.
    induction l as [|[p d] l IH]; intros m m' H p0 d0 I; [destruct I|].
    cbn [Model.cc_walk] in H. destruct (cc_one m p d) as [m1 ok1] eqn:O.
    destruct ok1; [|inversion H].
    destruct I as [I|I].
    - inversion I; subst. eapply cc_walk_mono; eauto. eapply cc_one_ok; eauto.
    - eapply IH; eauto.
  Qed.

  Lemma cc_walk_taken : forall l m m' p d p0 d0,
    cc_walk m l = (m', true) -> In (p, d) l -> cc_lookup (fold p) m = Some (mkPI p0 d0) ->
    p0 = p /\ d0 = true /\ d = true.
  Proof.
    induction l as [|[q e] l IH]; intros m m' p d p0 d0 H I L; [destruct I|].
    cbn [Model.cc_walk] in H. destruct (cc_one m q e) as [m1 ok1] eqn:O.
    destruct ok1; [|inversion H].
    destruct I as [I|I].
    - inversion I; subst. eapply cc_one_taken; eauto.
    - eapply IH; eauto. eapply cc_one_mono; eauto.
  Qed.

  (* the paths collisionChecker.check(p, isDir) registers: p itself and its parent chain *)
  Definition cc_targets (p : str) (isDir : bool) : list (str * bool) :=
    (p, isDir) :: map (fun d => (d, true)) (dir_chain (S (length p)) p).

  Lemma cc_check_mono : forall m p d m' ok k v,
    cc_check m p d = (m', ok) -> cc_lookup k m = Some v -> cc_lookup k m' = Some v.
  Proof. intros. eapply cc_walk_mono; eauto. Qed.

  Lemma cc_check_ok : forall m p d m', cc_check m p d = (m', true) ->
    forall q e, In (q, e) (cc_targets p d) -> cc_lookup (fold q) m' = Some (mkPI q e).
  Proof. intros. eapply cc_walk_ok; eauto. Qed.

  Lemma cc_check_taken : forall m p d m' q e p0 d0,
    cc_check m p d = (m', true) -> In (q, e) (cc_targets p d) ->
    cc_lookup (fold q) m = Some (mkPI p0 d0) -> p0 = q /\ d0 = true /\ e = true.
  Proof. intros. eapply cc_walk_taken; eauto. Qed.

  (* two accepted paths whose registered targets share a fold key: same path, both directories *)
  Theorem cc_no_collision : forall m1 p1 d1 m2 m3 p2 d2 m4 q1 e1 q2 e2,
    cc_check m1 p1 d1 = (m2, true) ->
    (forall k v, cc_lookup k m2 = Some v -> cc_lookup k m3 = Some v) ->
    cc_check m3 p2 d2 = (m4, true) ->
    In (q1, e1) (cc_targets p1 d1) -> In (q2, e2) (cc_targets p2 d2) ->
    fold q1 = fold q2 -> q1 = q2 /\ e1 = true /\ e2 = true.
  Proof.
    intros m1 p1 d1 m2 m3 p2 d2 m4 q1 e1 q2 e2 C1 MONO C2 I1 I2 F.
    pose proof (cc_check_ok _ _ _ _ C1 _ _ I1) as L. apply MONO in L. rewrite F in L.
    destruct (cc_check_taken _ _ _ _ _ _ _ _ C2 I2 L) as [A [B C]]. auto.
  Qed.
End Oracle.
