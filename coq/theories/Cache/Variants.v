(* C16 - which orderings matter: four variants of the protocol, and the real
   protocol under local I/O errors, each with a reachable state in which a
   Fetch / FetchFromCache has returned success while the directory is not the
   complete content.  Witness histories are checked by computation. *)
From Verif Require Import Cache.Model.
From Coq Require Import List Arith Bool Lia.
Import ListNotations.

Definition unsafe (c : cfg) (w : world) : Prop :=
  exists i t, nth_error (threads w) i = Some t /\ tpc t = Done ROk /\ tkind t <> KModFile /\ ~ complete c (st w).

Definition served (t : thread) : bool :=
  match tpc t, tkind t with
  | Done ROk, KFetch | Done ROk, KFromCache => true
  | _, _ => false
  end.

Definition unsafeb (c : cfg) (w : world) : bool := existsb served (threads w) && negb (completeb c (st w)).

Lemma pairs_eqb_refl : forall l, pairs_eqb l l = true.
Proof. induction l as [|[a b] r]; simpl; auto. rewrite !Nat.eqb_refl. auto. Qed.

Lemma complete_completeb : forall c s, complete c s -> completeb c s = true.
Proof. intros c s [D M]. unfold completeb. rewrite D, M, pairs_eqb_refl. reflexivity. Qed.

Lemma unsafeb_sound : forall c w, unsafeb c w = true -> unsafe c w.
Proof.
  intros c w H. unfold unsafeb in H. apply andb_prop in H. destruct H as [E N].
  apply existsb_exists in E. destruct E as [t [I S]]. apply In_nth_error in I. destruct I as [i I].
  exists i, t. unfold served in S. destruct (tpc t) eqn:P; try discriminate. destruct r; try discriminate.
  repeat split; auto.
  - destruct (tkind t); try discriminate; congruence.
  - intros C. rewrite (complete_completeb _ _ C) in N. discriminate.
Qed.

Definition base (io late early norecheck swapped : bool) : cfg :=
  {| zsize := 1; msize := 1; fsizes := [1]; allow_io := io;
     v_marker_late := late; v_marker_early := early; v_no_recheck := norecheck; v_stat_swapped := swapped |}.

(* download of the zip by thread i (from the empty store), up to the unlock *)
Definition dl (i : tid) : list label :=
  map (Eff i) [TEnter; StatZip false; LockAcq; StatZip false; CreateZTmp 0; WriteZTmp 0 1; TRegEOF;
               CloseZTmp 0; RenameZip 0; LockRel].

(* 1. marker written after the directory is created: crash between mkdir and the marker *)
Definition h_marker_late : list label :=
  [Spawn 0 KFetch; Eff 0 (StatDir false)] ++ dl 0 ++
  map (Eff 0) [LockAcq; StatDir false; TCheck; TCheck; MkdirDir] ++
  [Crash 0; Spawn 1 KFromCache; Eff 1 (StatDir true); Eff 1 (StatMarker false)].

Theorem ordering_necessary_marker_before_mkdir :
  exists ls w, run (base false true false false false) world0 ls = Some w /\ unsafe (base false true false false false) w.
Proof.
  exists h_marker_late. destruct (run (base false true false false false) world0 h_marker_late) as [w|] eqn:E.
  - exists w. split; auto. apply unsafeb_sound. revert E. vm_compute. intros E. inversion E; subst; clear E. vm_compute. reflexivity.
  - vm_compute in E. discriminate.
Qed.

(* 2. marker removed before the extraction is complete: crash after the removal *)
Definition h_marker_early : list label :=
  [Spawn 0 KFetch; Eff 0 (StatDir false)] ++ dl 0 ++
  map (Eff 0) [LockAcq; StatDir false; CreateMarker; TCheck; MkdirDir; UnlinkMarker] ++
  [Crash 0; Spawn 1 KFromCache; Eff 1 (StatDir true); Eff 1 (StatMarker false)].

Theorem ordering_necessary_marker_until_extracted :
  exists ls w, run (base false false true false false) world0 ls = Some w /\ unsafe (base false false true false false) w.
Proof.
  exists h_marker_early. destruct (run (base false false true false false) world0 h_marker_early) as [w|] eqn:E.
  - exists w. split; auto. apply unsafeb_sound. revert E. vm_compute. intros E. inversion E; subst; clear E. vm_compute. reflexivity.
  - vm_compute in E. discriminate.
Qed.

(* 3. no re-check of downloadDir under the lock: a fetcher that saw "absent" before
   another one completed re-extracts over the complete directory, Unzip refuses the
   non-empty directory, the error path removes it - while a reader is between its two stats *)
Definition h_no_recheck : list label :=
  [Spawn 0 KFetch; Eff 0 (StatDir false);                       (* A saw: absent *)
   Spawn 1 KFetch; Eff 1 (StatDir false)] ++ dl 1 ++            (* B fetches completely *)
  map (Eff 1) [LockAcq; CreateMarker; TCheck; MkdirDir; CreateFile 0; WriteFile 0 1; CloseFile 0; UnlinkMarker; LockRel] ++
  [Spawn 2 KFromCache; Eff 2 (StatDir true)] ++                 (* C: first stat, directory complete *)
  map (Eff 0) [TEnter; StatZip true; LockAcq; CreateMarker; TCheck; UnlinkFile 0; RmdirDir; UnlinkMarker] ++
  [Eff 2 (StatMarker false)].                                   (* C: second stat *)

Theorem ordering_necessary_recheck_under_lock :
  exists ls w, run (base false false false true false) world0 ls = Some w /\ unsafe (base false false false true false) w.
Proof.
  exists h_no_recheck. destruct (run (base false false false true false) world0 h_no_recheck) as [w|] eqn:E.
  - exists w. split; auto. apply unsafeb_sound. revert E. vm_compute. intros E. inversion E; subst; clear E. vm_compute. reflexivity.
  - vm_compute in E. discriminate.
Qed.

(* 4. downloadDir stats the marker first and the directory second *)
Definition h_stat_swapped : list label :=
  [Spawn 0 KFromCache; Eff 0 (StatMarker false);                (* reader (thread 0): no marker, nothing there yet *)
   Spawn 1 KFetch; Eff 1 (StatMarker false); Eff 1 (StatDir false)] ++ dl 1 ++
  map (Eff 1) [LockAcq; StatDir false; CreateMarker; TCheck; MkdirDir] ++
  [Eff 0 (StatDir true)].                                       (* reader: directory exists *)

Theorem ordering_necessary_stat_dir_before_marker :
  exists ls w, run (base false false false false true) world0 ls = Some w /\ unsafe (base false false false false true) w.
Proof.
  exists h_stat_swapped. destruct (run (base false false false false true) world0 h_stat_swapped) as [w|] eqn:E.
  - exists w. split; auto. apply unsafeb_sound. revert E. vm_compute. intros E. inversion E; subst; clear E. vm_compute. reflexivity.
  - vm_compute in E. discriminate.
Qed.

(* 5. The protocol as written, but with a local I/O error during extraction (outside the
   property's fault model): the error path removes the directory and then the marker,
   and a reader between its two stats reports a directory that no longer exists. *)
Definition h_io_error : list label :=
  [Spawn 0 KFetch; Eff 0 (StatDir false)] ++ dl 0 ++
  map (Eff 0) [LockAcq; StatDir false; CreateMarker; TCheck; MkdirDir] ++
  [Spawn 1 KFromCache; Eff 1 (StatDir true)] ++
  map (Eff 0) [TIOFault; RmdirDir; UnlinkMarker] ++
  [Eff 1 (StatMarker false)].

Theorem io_error_path_toctou_refuted :
  exists ls w, run (base true false false false false) world0 ls = Some w /\ unsafe (base true false false false false) w.
Proof.
  exists h_io_error. destruct (run (base true false false false false) world0 h_io_error) as [w|] eqn:E.
  - exists w. split; auto. apply unsafeb_sound. revert E. vm_compute. intros E. inversion E; subst; clear E. vm_compute. reflexivity.
  - vm_compute in E. discriminate.
Qed.
