(* C16 - non-vacuity: the hypotheses of the main theorems are met by concrete,
   non-trivial histories of the unmodified protocol. *)
From Verif Require Import Cache.Model Cache.Inv Cache.Safety Cache.Recovery Cache.Variants.
From Coq Require Import List Arith Bool Lia.
Import ListNotations.

Definition c_ok : cfg := base false false false false false.

Lemma c_ok_env : env_ok c_ok.
Proof. repeat split. Qed.

(* a complete fetch by thread i of a process, from a store without zip and directory *)
Definition fetch_all (i : tid) : list label :=
  [Eff i (StatDir false)] ++ dl i ++
  map (Eff i) [LockAcq; StatDir false; CreateMarker; TCheck; MkdirDir; CreateFile 0; WriteFile 0 1; CloseFile 0;
               UnlinkMarker; LockRel].

(* crash in the middle of the extraction (file created, not yet written) *)
Definition h_crash_mid : list label :=
  [Spawn 0 KFetch; Eff 0 (StatDir false)] ++ dl 0 ++
  map (Eff 0) [LockAcq; StatDir false; CreateMarker; TCheck; MkdirDir; CreateFile 0] ++ [Crash 0].

Definition w_crash_mid : world := match run c_ok world0 h_crash_mid with Some w => w | None => world0 end.

Lemma w_crash_mid_reachable : reachable c_ok w_crash_mid.
Proof.
  apply (run_reachable c_ok h_crash_mid world0); [constructor|].
  vm_compute. reflexivity.
Qed.

(* reachable_safe is not vacuous: a reader is served after a complete fetch *)
Example served_reachable :
  exists w i t, reachable c_ok w /\ nth_error (threads w) i = Some t /\ tpc t = Done ROk /\ tkind t = KFromCache.
Proof.
  pose (ls := [Spawn 0 KFetch] ++ fetch_all 0 ++ [Spawn 1 KFromCache; Eff 1 (StatDir true); Eff 1 (StatMarker false)]).
  destruct (run c_ok world0 ls) as [w|] eqn:E; [|vm_compute in E; discriminate].
  exists w, 1. assert (R : reachable c_ok w) by (eapply (run_reachable c_ok ls world0); [constructor | exact E]).
  revert E. vm_compute. intros E. inversion E; subst; clear E. eexists. split; [exact R|]. repeat split.
Qed.

(* the state after the crash is partial: directory present, incomplete, marker present, lock free *)
Example crash_mid_state :
  dir (st w_crash_mid) = Some [(0, 0)] /\ marker (st w_crash_mid) = true /\ lock (st w_crash_mid) = None /\
  zip (st w_crash_mid) = Some 1 /\ quiescent w_crash_mid.
Proof.
  vm_compute. repeat split. intros t [<- | []]. reflexivity.
Qed.

(* two_stat_safe is not vacuous: first stat sees the partial directory of the crashed
   process, then a second process re-extracts, then the second stat sees no marker *)
Example two_stat_window :
  exists ls w2, dir (st w_crash_mid) <> None /\ run c_ok w_crash_mid ls = Some w2 /\ marker (st w2) = false.
Proof.
  exists ([Spawn 1 KFetch] ++ map (Eff 1) [StatDir true; StatMarker true; TEnter; StatZip true; LockAcq; StatDir true; StatMarker true;
            UnlinkFile 0; RmdirDir; CreateMarker; TCheck; MkdirDir; CreateFile 0; WriteFile 0 1; CloseFile 0; UnlinkMarker; LockRel]).
  eexists. split; [vm_compute; discriminate|]. split; vm_compute; reflexivity.
Qed.

(* recovery is not vacuous: its hypotheses hold in the crashed state, for process 1 *)
Example recovery_applicable :
  quiescent w_crash_mid /\ mem_nat 1 (crashed w_crash_mid) = false /\ sfz (ps w_crash_mid 1) = SfIdle.
Proof. split; [apply crash_mid_state|]. vm_compute. auto. Qed.

(* and the clean run really goes through removal of the partial directory and re-extraction *)
Example recovery_run :
  match step c_ok w_crash_mid (Spawn 1 KFetch) with
  | Some w0 => match run_clean c_ok (clean_fuel c_ok (st w0)) w0 1 with
               | Some w' => completeb c_ok (st w') && Nat.eqb (gz (ps w' 1)) 0
               | None => false end
  | None => false end = true.
Proof. vm_compute. reflexivity. Qed.

(* a registry fault leaves no zip and no temp file, and the caller gets an error *)
Example registry_fault :
  match run c_ok world0 ([Spawn 0 KFetch; Eff 0 (StatDir false)] ++
          map (Eff 0) [TEnter; StatZip false; LockAcq; StatZip false; CreateZTmp 7; TRegFault; CloseZTmp 7; UnlinkZTmp 7; LockRel]) with
  | Some w => match zip (st w), ztmp (st w), map tpc (threads w) with None, [], [Done RErr] => true | _, _, _ => false end
  | None => false end = true.
Proof. vm_compute. reflexivity. Qed.

(* the model refuses a rename of an incomplete temp file (what a broken implementation would do) *)
Example rename_of_short_body_rejected :
  accept c_ok [world0] ([Spawn 0 KFetch; Eff 0 (StatDir false)] ++
     map (Eff 0) [StatZip false; LockAcq; StatZip false; CreateZTmp 7; CloseZTmp 7; RenameZip 7]) = [].
Proof. vm_compute. reflexivity. Qed.
