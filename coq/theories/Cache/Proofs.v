(* C16 - proofs about the cache protocol model (Cache/Model.v). *)
From Verif Require Import Cache.Model.
From Coq Require Import List Arith Bool Lia.
Import ListNotations.

(* ------------------------------------------------------------------ *)
(* The acceptor only ever produces reachable worlds.                   *)

Lemma via_taus1_reach : forall c w i l w', reachable c w -> In w' (via_taus1 c w i l) -> reachable c w'.
Proof.
  intros c w i l w' R H. unfold via_taus1 in H. apply in_flat_map in H. destruct H as [e [_ H]].
  destruct (step c w (Eff i e)) as [w1|] eqn:E1; [|contradiction].
  destruct (step c w1 l) as [w2|] eqn:E2; simpl in H; [|contradiction].
  destruct H as [<-|[]]. eapply reachS; [eapply reachS|]; eauto.
Qed.

Lemma via_taus2_reach : forall c w i l w', reachable c w -> In w' (via_taus2 c w i l) -> reachable c w'.
Proof.
  intros c w i l w' R H. unfold via_taus2 in H. apply in_flat_map in H. destruct H as [e [_ H]].
  destruct (step c w (Eff i e)) as [w1|] eqn:E1; [|contradiction].
  eapply via_taus1_reach; [|eauto]. eapply reachS; eauto.
Qed.

Lemma accept1_reach : forall c w l w', reachable c w -> In w' (accept1 c w l) -> reachable c w'.
Proof.
  intros c w l w' R H. unfold accept1 in H.
  destruct (step c w l) as [w1|] eqn:E.
  - destruct H as [<-|[]]. eapply reachS; eauto.
  - destruct l; try contradiction.
    destruct (via_taus1 c w i (Eff i e)) eqn:V.
    + eapply via_taus2_reach; eauto.
    + rewrite <- V in H. eapply via_taus1_reach; eauto.
Qed.

Theorem accept_sound : forall c ls ws, (forall w, In w ws -> reachable c w) ->
  forall w', In w' (accept c ws ls) -> reachable c w'.
Proof.
  induction ls; simpl; intros ws H w' I; auto.
  eapply IHls; [|exact I]. intros w Hw. apply in_flat_map in Hw. destruct Hw as [w0 [H0 H1]].
  eapply accept1_reach; eauto.
Qed.
