(* C16 - one download per version and process: the model of par.ErrCache.Do in
   downloadZip.  [gz (ps w p)] counts the temp-file creations of process p, each of
   which is followed by exactly one GetModule/GetZip round trip in downloadZip1. *)
From Verif Require Import Cache.Model Cache.Inv.
From Coq Require Import List Arith Bool Lia.
Import ListNotations.

Definition zrun (p : pc) : bool :=
  match p with Z0 | Z1 | Z2 | Z4 | Z7 _ | Z8 _ _ | Z9 _ | ZR _ | Z10 _ => true | _ => false end.
Definition zpre (p : pc) : bool :=
  match p with Z0 | Z1 | Z2 | Z4 => true | _ => false end.

Lemma tstep_sf : forall c s q i t e s' q' t', tstep c s q i t e = Some (s', q', t') ->
  proc t' = proc t /\
  ( (tpc t = ZE /\ sfz q = SfIdle /\ sfz q' = SfRunning i /\ gz q' = gz q /\ tpc t' = Z0)
  \/ (zrun (tpc t) = true /\ zrun (tpc t') = true /\ sfz q' = sfz q /\
        ((gz q' = gz q /\ (zpre (tpc t') = true -> zpre (tpc t) = true)) \/
         (zpre (tpc t) = true /\ zpre (tpc t') = false /\ gz q' = S (gz q))))
  \/ (zrun (tpc t) = true /\ zrun (tpc t') = false /\ (exists ok, sfz q' = SfDone ok) /\ gz q' = gz q)
  \/ (zrun (tpc t) = false /\ zrun (tpc t') = false /\ sfz q' = sfz q /\ gz q' = gz q) ).
Proof.
  intros c s q i t e s' q' t' H.
  destruct t as [p k pc d]. simpl.
  destruct pc; destruct e; unfold tstep in H; simpl in H; try discriminate H.
  all: unfold after_f0, after_mkdir, zip_done, mod_done, ret, after_p in H; simpl in H.
  all: brk H.
  all: inversion H; subst; clear H; simpl; split; [reflexivity|].
  all: try solve [ right; right; right; repeat split; auto
                 | right; left; repeat split; auto; left; split; [auto | simpl; intros; try discriminate; auto]
                 | right; left; repeat split; auto; right; repeat split; auto
                 | right; right; left; repeat split; auto; eexists; reflexivity
                 | left; repeat split; auto ].
Qed.

Record SF (w : world) : Prop := {
  sf_le : forall p, gz (ps w p) <= 1;
  sf_idle : forall p, sfz (ps w p) = SfIdle -> gz (ps w p) = 0;
  sf_run : forall i t, nth_error (threads w) i = Some t -> zrun (tpc t) = true ->
             sfz (ps w (proc t)) = SfRunning i /\ (zpre (tpc t) = true -> gz (ps w (proc t)) = 0)
}.

Lemma sf_init : SF world0.
Proof. constructor; simpl; intros; auto. destruct i; discriminate. Qed.

Lemma sf_step : forall c w l w', SF w -> step c w l = Some w' -> SF w'.
Proof.
  intros c w l w' [LE ID RN] H. destruct l as [p k | p | i e]; simpl in H.
  - destruct (mem_nat p (crashed w)); try discriminate. inversion H; subst; clear H.
    constructor; simpl; auto. intros i t N Z. apply nth_app_new in N. destruct N as [N | [-> ->]]; auto.
    destruct k; discriminate.
  - inversion H; subst; clear H. constructor; simpl; auto.
    intros i t' N Z. rewrite nth_error_map in N. destruct (nth_error (threads w) i) as [t|] eqn:NI; try discriminate.
    inversion N; subst; clear N. unfold kill in *. destruct (Nat.eqb (proc t) p && live (tpc t)); simpl in *; try discriminate.
    apply RN; auto.
  - destruct (nth_error (threads w) i) as [t|] eqn:N; try discriminate.
    destruct (tstep c (st w) (ps w (proc t)) i t e) as [[[s' q'] t']|] eqn:TS; try discriminate.
    inversion H; subst; clear H.
    destruct (tstep_sf _ _ _ _ _ _ _ _ _ TS) as [PR CASES].
    assert (LEN : i < length (threads w)) by (eapply nth_error_lt; eauto).
    assert (OTHER : forall j tj, j <> i -> nth_error (threads w) j = Some tj -> proc tj = proc t ->
                      zrun (tpc tj) = true -> zrun (tpc t) = true -> False).
    { intros j tj NE NJ PJ ZJ ZI. destruct (RN j tj NJ ZJ) as [A _]. destruct (RN i t N ZI) as [B _].
      rewrite PJ in A. congruence. }
    constructor; simpl.
    + intros p. unfold upd_ps. destruct (Nat.eqb p (proc t)) eqn:EP; auto.
      specialize (LE (proc t)). destruct CASES as [[_ [SI [_ [G _]]]] | [[ZT [_ [_ [[G _] | [ZP [_ G]]]]]] | [[_ [_ [_ G]]] | [_ [_ [_ G]]]]]]; try lia.
      destruct (RN i t N ZT) as [_ G0]. rewrite G, (G0 ZP). lia.
    + intros p. unfold upd_ps. destruct (Nat.eqb p (proc t)) eqn:EP; auto. intros IDLE.
      destruct CASES as [[_ [_ [SR _]]] | [[ZT [_ [SQ _]]] | [[_ [_ [[ok SD] _]]] | [_ [_ [SQ G]]]]]]; try congruence.
      * destruct (RN i t N ZT) as [A _]. congruence.
      * rewrite G. apply ID. congruence.
    + intros j tj NJ ZJ. destruct (Nat.eq_dec j i) as [-> | NE].
      * rewrite nth_upd_same in NJ by auto. inversion NJ; subst tj; clear NJ.
        unfold upd_ps. rewrite PR, Nat.eqb_refl.
        destruct CASES as [[_ [SI [SR [G TP]]]] | [[ZT [_ [SQ [[G ZP] | [_ [ZP _]]]]]] | [[_ [ZF _]] | [_ [ZF _]]]]]; try congruence.
        -- split; auto. intros _. rewrite G. apply ID; auto.
        -- destruct (RN i t N ZT) as [A G0]. split; [congruence|]. intros Z'. rewrite G. auto.
        -- destruct (RN i t N ZT) as [A _]. split; [congruence|]. intros Z'. congruence.
      * rewrite nth_upd_other in NJ by auto. destruct (RN j tj NJ ZJ) as [A G0].
        unfold upd_ps. destruct (Nat.eqb (proc tj) (proc t)) eqn:EP; auto.
        apply Nat.eqb_eq in EP.
        destruct CASES as [[TP [SI _]] | [[ZT _] | [[ZT _] | [ZF [_ [SQ G]]]]]].
        -- rewrite EP in A. congruence.
        -- exfalso. eapply OTHER; eauto.
        -- exfalso. eapply OTHER; eauto.
        -- rewrite SQ, G, <- EP. auto.
Qed.

Theorem sf_reachable : forall c w, reachable c w -> SF w.
Proof. intros c w R. induction R; [apply sf_init | eapply sf_step; eauto]. Qed.

(* At most one download (temp file + GetModule/GetZip round trip) of the version per
   process, whatever the number of goroutines, the interleaving and the faults; for
   every configuration, the refuted variants included. *)
Theorem single_flight : forall c w p, reachable c w -> gz (ps w p) <= 1.
Proof. intros c w p R. apply (sf_le _ (sf_reachable c w R)). Qed.

