(* C16 - consequences of the invariant: what observers can see. *)
From Verif Require Import Cache.Model Cache.Inv.
From Coq Require Import List Arith Bool Lia.
Import ListNotations.

Section Safety.
Variable c : cfg.
Hypothesis EV : env_ok c.

(* A Fetch / FetchFromCache call that returned successfully - through the
   unlocked two-stat test, the re-check under the lock, or its own extraction -
   returned a complete directory; and it is still complete in every later world. *)
Theorem reachable_safe : forall w i t,
  reachable c w -> nth_error (threads w) i = Some t -> tpc t = Done ROk -> tkind t <> KModFile ->
  complete c (st w).
Proof.
  intros w i t R N P K. destruct (inv_threads _ _ (inv_reachable _ _ EV R) i t N) as [_ [_ PI]].
  unfold pcinv in PI. rewrite P in PI. destruct (tkind t); auto. congruence.
Qed.

Theorem modfile_safe : forall w i t,
  reachable c w -> nth_error (threads w) i = Some t -> tpc t = Done ROk -> tkind t = KModFile ->
  modf (st w) = Some (msize c).
Proof.
  intros w i t R N P K. destruct (inv_threads _ _ (inv_reachable _ _ EV R) i t N) as [_ [_ PI]].
  unfold pcinv in PI. rewrite P, K in PI. exact PI.
Qed.

(* cached artefacts are absent or complete *)
Theorem zip_absent_or_complete : forall w, reachable c w -> zip (st w) = None \/ zip (st w) = Some (zsize c).
Proof.
  intros w R. destruct (zip (st w)) eqn:Z; auto. right. f_equal.
  eapply si_zip; eauto. apply inv_store. apply inv_reachable; auto.
Qed.

Theorem modfile_absent_or_complete : forall w, reachable c w -> modf (st w) = None \/ modf (st w) = Some (msize c).
Proof.
  intros w R. destruct (modf (st w)) eqn:Z; auto. right. f_equal.
  eapply si_mod; eauto. apply inv_store. apply inv_reachable; auto.
Qed.

(* directory present and no marker: the availability test of downloadDir, evaluated atomically *)
Theorem available_complete : forall w, reachable c w -> dir (st w) <> None -> marker (st w) = false -> complete c (st w).
Proof.
  intros w R D M. pose proof (inv_store _ _ (inv_reachable _ _ EV R)) as S.
  split; auto. apply (si_dir _ _ S); auto. apply (si_created _ _ S); auto.
Qed.

(* monotone facts along every step *)
Lemma step_stab : forall w l w', reachable c w -> step c w l = Some w' -> stab c (st w) (st w').
Proof.
  intros w l w' R H. pose proof (inv_reachable _ _ EV R) as [HS HT HL HZ HM].
  destruct l as [p k | p | i e]; simpl in H.
  - destruct (mem_nat p (crashed w)); try discriminate. inversion H; subst. apply stab_refl.
  - inversion H; subst; simpl. destruct (holder_in _ _ _); [|apply stab_refl].
    constructor; unfold zip_ok, mod_ok, complete; simpl; auto.
  - destruct (nth_error (threads w) i) as [t|] eqn:N; try discriminate.
    destruct (tstep c (st w) (ps w (proc t)) i t e) as [[[s' q'] t']|] eqn:TS; try discriminate.
    inversion H; subst; simpl.
    destruct (tstep_inv c _ _ _ _ _ _ _ _ EV HS (HT i t N) (HZ (proc t)) (HM (proc t)) TS) as [_ [_ [ST _]]]. exact ST.
Qed.

Lemma run_reachable : forall ls w w', reachable c w -> run c w ls = Some w' -> reachable c w'.
Proof.
  induction ls; simpl; intros w w' R H.
  - inversion H; subst; auto.
  - destruct (step c w a) eqn:S; try discriminate. eapply IHls; [|eauto]. eapply reachS; eauto.
Qed.

Lemma run_stab : forall ls w w', reachable c w -> run c w ls = Some w' -> stab c (st w) (st w').
Proof.
  induction ls; simpl; intros w w' R H.
  - inversion H; subst. apply stab_refl.
  - destruct (step c w a) as [w1|] eqn:S; try discriminate.
    pose proof (step_stab _ _ _ R S) as [A B C D].
    assert (R1 : reachable c w1) by (eapply reachS; eauto).
    destruct (IHls _ _ R1 H) as [A' B' C' D']. constructor; auto.
Qed.

(* The two-stat availability test with an arbitrary amount of concurrent activity
   (any processes, crashes, spawns) between the two stats - the TOCTOU window:
   stat(dir) succeeded in w1, stat(.partial) failed with ENOENT later in w2.
   Then the directory is complete in w2. *)
Theorem two_stat_safe : forall w1 ls w2,
  reachable c w1 -> dir (st w1) <> None ->
  run c w1 ls = Some w2 -> marker (st w2) = false ->
  complete c (st w2).
Proof.
  intros w1 ls w2 R D H M.
  pose proof (inv_store _ _ (inv_reachable _ _ EV R)) as S1.
  pose proof (run_reachable _ _ _ R H) as R2.
  pose proof (inv_store _ _ (inv_reachable _ _ EV R2)) as S2.
  pose proof (run_stab _ _ _ R H) as ST.
  split; auto. apply (si_dir _ _ S2); auto. apply ST. apply (si_created _ _ S1); auto.
Qed.

(* once complete, complete forever: nobody removes or re-marks a complete directory *)
Theorem complete_stable : forall w ls w', reachable c w -> complete c (st w) -> run c w ls = Some w' -> complete c (st w').
Proof. intros w ls w' R C H. apply (run_stab _ _ _ R H). exact C. Qed.

(* flock discipline: two threads are never both inside a locked section *)
Theorem lock_exclusive : forall w i j ti tj, reachable c w ->
  nth_error (threads w) i = Some ti -> nth_error (threads w) j = Some tj ->
  locked_pc (tpc ti) = true -> locked_pc (tpc tj) = true -> i = j.
Proof.
  intros w i j ti tj R Ni Nj Li Lj. pose proof (inv_reachable _ _ EV R) as I.
  destruct (inv_threads _ _ I i ti Ni) as [A _]. destruct (inv_threads _ _ I j tj Nj) as [B _].
  rewrite (A Li) in B. specialize (B Lj). congruence.
Qed.

(* with a complete zip and the lock held, Unzip's checks never fail: the error path
   (RemoveAll + remove marker) is unreachable without local I/O errors *)
Theorem unzip_error_path_unreachable : forall w i t, reachable c w -> nth_error (threads w) i = Some t ->
  tpc t <> E0 /\ tpc t <> E1 /\ tpc t <> F9 RErr.
Proof.
  intros w i t R N. destruct (inv_threads _ _ (inv_reachable _ _ EV R) i t N) as [_ [_ PI]].
  unfold pcinv in PI. repeat split; intros E; rewrite E in PI; auto.
Qed.

End Safety.
