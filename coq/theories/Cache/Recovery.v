(* C16 - recovery: from every reachable quiescent state a clean fetch by a fresh
   process terminates with the complete directory.  The clean run is the fuelled
   function [run_clean] of Model.v; the fuel [clean_fuel] is proved sufficient. *)
From Verif Require Import Cache.Model Cache.Inv Cache.Safety.
From Coq Require Import List Arith Bool Lia.
Import ListNotations.

Local Arguments firstn : simpl never.

Definition dlen (s : store) : nat := match dir s with Some l => S (length l) | None => 0 end.

(* number of steps the clean run still needs, at most *)
Definition rank (c : cfg) (s : store) (t : thread) : nat :=
  let n3 := 3 * nfiles c in
  match tpc t with
  | P0 => 40 + length (ztmp s) + dlen s + n3
  | P1 => 39 + length (ztmp s) + dlen s + n3
  | ZE => 38 + length (ztmp s) + dlen s + n3
  | Z0 => 37 + length (ztmp s) + dlen s + n3
  | Z1 => 36 + length (ztmp s) + dlen s + n3
  | Z2 => 35 + length (ztmp s) + dlen s + n3
  | Z4 => 34 + length (ztmp s) + dlen s + n3
  | Z7 n => (match lookup n (ztmp s) with Some b => if Nat.eqb b (zsize c) then 31 else 32 | None => 32 end) + dlen s + n3
  | Z8 _ _ => 30 + dlen s + n3
  | Z9 _ => 29 + dlen s + n3
  | Z10 _ => 28 + dlen s + n3
  | F0 => 27 + dlen s + n3
  | F1 => 26 + dlen s + n3
  | F2 => 25 + dlen s + n3
  | F4 => 24 + dlen s + n3
  | F6 => 23 + n3
  | U0 => 22 + n3
  | U2 => 21 + n3
  | U3c i => 20 + 3 * (nfiles c - i)
  | U3w i => 20 + 3 * (nfiles c - i) -
             (match dir s with
              | Some l => match lookup i l with Some b => if Nat.eqb b (fsize c i) then 2 else 1 | None => 1 end
              | None => 1 end)
  | F9 _ => 10
  | _ => 0
  end.

(* the pcs of a fault-free Fetch, with the single-flight entry still free before ZE *)
Definition good (q : pstate) (t : thread) : Prop :=
  match tpc t with
  | P0 | P1 | ZE => sfz q = SfIdle
  | Z0 | Z1 | Z2 | Z4 | Z7 _ | Z8 _ true | Z9 _ | Z10 true
  | F0 | F1 | F2 | F4 | F6 | U0 | U2 | U3c _ | U3w _ | F9 ROk | Done ROk => True
  | _ => False
  end.

Lemma remove_key_shorter : forall n l, is_some (lookup n l) = true -> length (remove_key n l) < length l.
Proof.
  induction l as [|[a v] r]; simpl; intros; try discriminate.
  destruct (Nat.eqb a n) eqn:E.
  - clear H. assert (length (remove_key n r) <= length r).
    { clear. induction r as [|[a v] r]; simpl; auto. destruct (Nat.eqb a n); simpl; lia. }
    lia.
  - simpl. apply IHr in H. lia.
Qed.

Lemma first_key_lookup : forall l n, first_key l = Some n -> is_some (lookup n l) = true.
Proof. destruct l as [|[a v] r]; simpl; intros; try discriminate. inversion H; subst. rewrite Nat.eqb_refl. reflexivity. Qed.

Lemma first_key_none : forall l, first_key l = None -> l = [].
Proof. destruct l as [|[a v] r]; simpl; intros; auto; discriminate. Qed.

Definition solo (w : world) (i : tid) : Prop :=
  forall j tj, j <> i -> nth_error (threads w) j = Some tj -> live (tpc tj) = false.

Lemma solo_lock_free : forall c w i t, Inv c w -> solo w i -> nth_error (threads w) i = Some t ->
  locked_pc (tpc t) = false -> lock (st w) = None.
Proof.
  intros c w i t I S N L. destruct (lock (st w)) as [j|] eqn:E; auto.
  destruct (inv_lock _ _ I j E) as [tj [Nj Lj]].
  destruct (Nat.eq_dec j i) as [-> | NE].
  - congruence.
  - specialize (S j tj NE Nj). rewrite (live_locked _ Lj) in S. discriminate.
Qed.

Local Arguments Nat.add : simpl never.
Local Arguments Nat.mul : simpl never.
Local Arguments Nat.sub : simpl never.

Ltac fin_step := unfold tstep, ret, zip_done, after_p, after_f0, after_mkdir; simpl; rewrite ?Bool.eqb_reflx, ?Nat.eqb_refl; simpl; try reflexivity.

Lemma solo_progress : forall c s q i t,
  env_ok c -> tinv c s i t -> tkind t = KFetch -> good q t -> live (tpc t) = true ->
  (locked_pc (tpc t) = false -> lock s = None) ->
  exists e s' q' t', clean_eff c s t = Some e /\ tstep c s q i t e = Some (s', q', t') /\
     rank c s' t' < rank c s t /\ good q' t'.
Proof.
  intros c s q i t [[V1 [V2 [V3 V4]]] IO] [HL [HK HP]] K G LV LF.
  destruct t as [p k pc d]. simpl in *. subst k. unfold pcinv in HP. simpl in HP.
  destruct pc; simpl in LV; try discriminate LV; unfold good in G; simpl in G; try contradiction;
  unfold clean_eff; simpl.
  - (* P0 *) destruct (is_some (dir s)) eqn:D; do 4 eexists; (split; [reflexivity|]); (split;
    [ unfold tstep; simpl; rewrite V4, D; simpl; reflexivity |]);
    unfold rank, good, ret; simpl; split; auto; lia.
  - (* P1 *) destruct (marker s) eqn:D; do 4 eexists; (split; [reflexivity|]); (split;
    [ unfold tstep; simpl; rewrite V4, D; simpl; reflexivity |]);
    unfold rank, good, ret; simpl; split; auto; lia.
  - (* ZE *) do 4 eexists. split; [reflexivity|]. split.
    { unfold tstep. simpl. rewrite G. reflexivity. }
    unfold rank, good; simpl; split; auto; lia.
  - (* Z0 *) destruct (is_some (zip s)) eqn:D; do 4 eexists; (split; [reflexivity|]); (split;
    [ unfold tstep; simpl; rewrite D; simpl; reflexivity |]);
    unfold rank, good, ret, zip_done; simpl; split; auto; lia.
  - (* Z1 *) do 4 eexists. split; [reflexivity|]. split.
    { unfold tstep. simpl. rewrite (LF eq_refl). reflexivity. }
    unfold rank, good, dlen; simpl; split; auto; lia.
  - (* Z2 *) destruct (is_some (zip s)) eqn:D; do 4 eexists; (split; [reflexivity|]); (split;
    [ unfold tstep; simpl; rewrite D; simpl; reflexivity |]);
    unfold rank, good, ret; simpl; split; auto; lia.
  - (* Z4 *) destruct (first_key (ztmp s)) as [n|] eqn:FK.
    + do 4 eexists. split; [reflexivity|]. split.
      { unfold tstep. simpl. rewrite (first_key_lookup _ _ FK). reflexivity. }
      unfold rank, good, ret, dlen; simpl; split; auto.
      pose proof (remove_key_shorter n (ztmp s) (first_key_lookup _ _ FK)). lia.
    + do 4 eexists. split; [reflexivity|]. split.
      { unfold tstep. simpl. rewrite (first_key_none _ FK). reflexivity. }
      unfold rank, good, dlen; simpl. rewrite (first_key_none _ FK). split; auto.
      destruct (zsize c); simpl; lia.
  - (* Z7 *) destruct HP as [b [ZT LE]]. rewrite ZT. simpl. rewrite ?Nat.eqb_refl.
    destruct (Nat.eqb b (zsize c)) eqn:EB.
    + do 4 eexists. split; [reflexivity|]. split.
      { unfold tstep. simpl. rewrite ZT. simpl. rewrite Nat.eqb_refl, EB. reflexivity. }
      unfold rank, good, ret, dlen; simpl. rewrite ZT. simpl. rewrite Nat.eqb_refl, EB. split; auto; try lia.
    + do 4 eexists. split; [reflexivity|]. split.
      { unfold tstep. simpl. rewrite Nat.eqb_refl, ZT. simpl. rewrite ?Nat.eqb_refl.
        replace (b + (zsize c - b)) with (zsize c) by lia. rewrite Nat.leb_refl. reflexivity. }
      unfold rank, good, ret, dlen; simpl. rewrite ZT. simpl. rewrite ?Nat.eqb_refl, EB.
      replace (b + (zsize c - b)) with (zsize c) by lia. rewrite ?Nat.eqb_refl. split; auto; try lia.
  - (* Z8 *) destruct ok; try contradiction. do 4 eexists. split; [reflexivity|]. split.
    { unfold tstep. simpl. rewrite ?Nat.eqb_refl. reflexivity. }
    unfold rank, good, ret; simpl; split; auto; lia.
  - (* Z9 *) do 4 eexists. split; [reflexivity|]. split.
    { unfold tstep. simpl. rewrite Nat.eqb_refl, HP. simpl. rewrite ?Nat.eqb_refl. reflexivity. }
    unfold rank, good, ret, dlen; simpl; split; auto; lia.
  - (* Z10 *) destruct ok; try contradiction. do 4 eexists. split; [reflexivity|]. split.
    { unfold tstep. simpl. reflexivity. }
    unfold rank, good, zip_done, dlen; simpl; split; auto; lia.
  - (* F0 *) do 4 eexists. split; [reflexivity|]. split.
    { unfold tstep. simpl. rewrite (LF eq_refl). reflexivity. }
    unfold after_f0. rewrite V3. unfold rank, good, ret, dlen; simpl; split; auto; lia.
  - (* F1 *) destruct (is_some (dir s)) eqn:D; do 4 eexists; (split; [reflexivity|]); (split;
    [ unfold tstep; simpl; rewrite D; simpl; reflexivity |]);
    unfold rank, good, ret; simpl; split; auto; lia.
  - (* F2 *) destruct (marker s) eqn:D; do 4 eexists; (split; [reflexivity|]); (split;
    [ unfold tstep; simpl; rewrite D; simpl; reflexivity |]);
    unfold rank, good, ret; simpl; split; auto; lia.
  - (* F4 *) destruct HP as [_ [_ DN]]. destruct (dir s) as [l|] eqn:D; try congruence.
    destruct (first_key l) as [f|] eqn:FK.
    + do 4 eexists. split; [reflexivity|]. split.
      { unfold tstep. simpl. rewrite D, (first_key_lookup _ _ FK). reflexivity. }
      unfold rank, good, ret, dlen; simpl. rewrite D. split; auto.
      pose proof (remove_key_shorter f l (first_key_lookup _ _ FK)). lia.
    + apply first_key_none in FK. subst l. do 4 eexists. split; [reflexivity|]. split.
      { unfold tstep. simpl. rewrite D. reflexivity. }
      unfold rank, good, ret, dlen; simpl. rewrite D. split; auto; simpl; try lia.
  - (* F6 *) do 4 eexists. split; [reflexivity|]. split.
    { unfold tstep. simpl. rewrite V1. reflexivity. }
    unfold rank, good, ret; simpl; split; auto; lia.
  - (* U0 *) destruct HP as [Z [_ DN]]. do 4 eexists. split; [reflexivity|]. split.
    { unfold tstep. simpl. reflexivity. }
    unfold zip_ok in Z. rewrite DN, Z, Nat.eqb_refl. unfold rank, good, ret; simpl; split; auto; lia.
  - (* U2 *) destruct HP as [_ [_ DN]]. do 4 eexists. split; [reflexivity|]. split.
    { unfold tstep. simpl. rewrite DN. reflexivity. }
    unfold after_mkdir. rewrite V1, V2. unfold rank, good, ret; simpl; split; auto; lia.
  - (* U3c *) destruct HP as [MK [LE DI]]. destruct (Nat.eqb i0 (nfiles c)) eqn:EN.
    + do 4 eexists. split; [reflexivity|]. split.
      { unfold tstep. simpl. rewrite EN, V2, MK. reflexivity. }
      unfold rank, good, ret; simpl; split; auto; lia.
    + apply Nat.eqb_neq in EN. assert (LT : i0 < nfiles c) by lia.
      do 4 eexists. split; [reflexivity|]. split.
      { unfold tstep. simpl. rewrite ?Nat.eqb_refl. apply Nat.ltb_lt in LT. rewrite LT, DI, lookup_firstn_full. simpl. reflexivity. }
      unfold rank, good, ret; simpl. rewrite lookup_app_notin by apply lookup_firstn_full. simpl. rewrite ?Nat.eqb_refl.
      split; auto. destruct (0 =? fsize c i0); lia.
  - (* U3w *) destruct HP as [MK [LT [b [LE DI]]]]. rewrite DI.
    rewrite lookup_app_notin by apply lookup_firstn_full. simpl. rewrite ?Nat.eqb_refl.
    destruct (Nat.eqb b (fsize c i0)) eqn:EB.
    + do 4 eexists. split; [reflexivity|]. split.
      { unfold tstep. simpl. rewrite Nat.eqb_refl, DI. rewrite lookup_app_notin by apply lookup_firstn_full. simpl.
        rewrite Nat.eqb_refl, EB. reflexivity. }
      unfold rank, good, ret; simpl. rewrite DI. rewrite lookup_app_notin by apply lookup_firstn_full. simpl.
      rewrite Nat.eqb_refl, EB. split; auto; try lia.
    + do 4 eexists. split; [reflexivity|]. split.
      { unfold tstep. simpl. rewrite Nat.eqb_refl, DI. rewrite lookup_app_notin by apply lookup_firstn_full. simpl.
        rewrite ?Nat.eqb_refl. replace (b + (fsize c i0 - b)) with (fsize c i0) by lia. rewrite Nat.leb_refl. reflexivity. }
      unfold rank, good, ret; simpl. rewrite DI. rewrite !lookup_app_notin by apply lookup_firstn_full. simpl.
      rewrite add_bytes_app_notin by apply lookup_firstn_full. rewrite lookup_app_notin by apply lookup_firstn_full.
      simpl. rewrite ?Nat.eqb_refl. simpl. rewrite Nat.eqb_refl, EB.
      replace (b + (fsize c i0 - b)) with (fsize c i0) by lia. rewrite ?Nat.eqb_refl. split; auto; try lia.
  - (* F9 *) destruct r; try contradiction. do 4 eexists. split; [reflexivity|]. split.
    { unfold tstep. simpl. reflexivity. }
    unfold rank, good; simpl; split; auto; lia.
Qed.

(* ------------------------------------------------ the clean run -------- *)

Lemma run_clean_unfold : forall c f w i t, nth_error (threads w) i = Some t -> live (tpc t) = true ->
  run_clean c (S f) w i =
  match clean_eff c (st w) t with
  | Some e => match step c w (Eff i e) with Some w' => run_clean c f w' i | None => None end
  | None => None
  end.
Proof. intros. simpl. rewrite H. destruct (tpc t); simpl in *; try discriminate; reflexivity. Qed.

Lemma run_clean_done : forall c f w i t r, nth_error (threads w) i = Some t -> tpc t = Done r -> run_clean c f w i = Some w.
Proof. intros. destruct f; simpl; rewrite H, H0; reflexivity. Qed.

Lemma good_not_dead : forall q t, good q t -> live (tpc t) = false -> tpc t = Done ROk.
Proof. intros q t G L. unfold good in G. destruct (tpc t); simpl in *; try discriminate; try contradiction. destruct r; try contradiction; auto. Qed.

Lemma run_clean_ok : forall c, env_ok c -> forall fuel w i t,
  reachable c w -> solo w i -> nth_error (threads w) i = Some t -> tkind t = KFetch ->
  good (ps w (proc t)) t -> rank c (st w) t < fuel ->
  exists w' t', run_clean c fuel w i = Some w' /\ reachable c w' /\
                nth_error (threads w') i = Some t' /\ tpc t' = Done ROk /\ tkind t' = KFetch.
Proof.
  intros c EV. induction fuel; intros w i t R S N K G RK; [lia|].
  destruct (live (tpc t)) eqn:LV.
  - pose proof (inv_reachable _ _ EV R) as I.
    assert (LF : locked_pc (tpc t) = false -> lock (st w) = None) by (intros; eapply solo_lock_free; eauto).
    destruct (solo_progress c (st w) (ps w (proc t)) i t EV (inv_threads _ _ I i t N) K G LV LF)
      as [e [s' [q' [t' [CE [TS [RK' G']]]]]]].
    rewrite (run_clean_unfold _ _ _ _ _ N LV), CE.
    assert (ST : step c w (Eff i e) = Some {| st := s'; ps := upd_ps (ps w) (proc t) q';
                   threads := upd_nth i t' (threads w); crashed := crashed w |}).
    { simpl. rewrite N, TS. reflexivity. }
    rewrite ST.
    destruct (tstep_inv c _ _ _ _ _ _ _ _ EV (inv_store _ _ I) (inv_threads _ _ I i t N)
                (inv_sfz _ _ I (proc t)) (inv_sfm _ _ I (proc t)) TS) as [_ [_ [_ [_ [_ [PR [KD _]]]]]]].
    assert (LEN : i < length (threads w)) by (eapply nth_error_lt; eauto).
    eapply IHfuel.
    + eapply reachS; eauto.
    + intros j tj NE NJ. simpl in NJ. rewrite nth_upd_other in NJ by auto. eapply S; eauto.
    + simpl. apply nth_upd_same; auto.
    + congruence.
    + simpl. unfold upd_ps. rewrite PR, Nat.eqb_refl. exact G'.
    + simpl. lia.
  - pose proof (good_not_dead _ _ G LV) as D.
    exists w, t. rewrite (run_clean_done _ _ _ _ _ _ N D). repeat split; auto.
Qed.

(* Recovery.  From any reachable world in which no call is in progress (every
   earlier process has finished or was killed, at any points whatsoever), a Fetch
   by a fresh process, run alone and without faults, terminates within
   [clean_fuel] steps, returns Ok, and the directory is the complete content. *)
Theorem recovery : forall c w p, env_ok c -> reachable c w -> quiescent w ->
  mem_nat p (crashed w) = false -> sfz (ps w p) = SfIdle ->
  exists w0 w' t',
    step c w (Spawn p KFetch) = Some w0 /\
    run_clean c (clean_fuel c (st w0)) w0 (length (threads w)) = Some w' /\
    nth_error (threads w') (length (threads w)) = Some t' /\ tpc t' = Done ROk /\
    complete c (st w') /\ reachable c w'.
Proof.
  intros c w p EV R Q NC SF.
  set (t0 := {| proc := p; tkind := KFetch; tpc := P0; de := false |}).
  set (w0 := {| st := st w; ps := ps w; crashed := crashed w; threads := threads w ++ [t0] |}).
  assert (S0 : step c w (Spawn p KFetch) = Some w0) by (simpl; rewrite NC; reflexivity).
  assert (R0 : reachable c w0) by (eapply reachS; eauto).
  assert (N0 : nth_error (threads w0) (length (threads w)) = Some t0).
  { simpl. rewrite nth_error_app2 by lia. rewrite Nat.sub_diag. reflexivity. }
  assert (SO : solo w0 (length (threads w))).
  { intros j tj NE NJ. simpl in NJ. apply nth_app_new in NJ. destruct NJ as [NJ | [E _]]; [|congruence].
    apply Q. eapply nth_error_In; eauto. }
  assert (G0 : good (ps w0 (proc t0)) t0) by (simpl; exact SF).
  assert (RK : rank c (st w0) t0 < clean_fuel c (st w0)).
  { unfold rank, clean_fuel, dlen. simpl. destruct (dir (st w)); lia. }
  destruct (run_clean_ok c EV (clean_fuel c (st w0)) w0 (length (threads w)) t0 R0 SO N0 eq_refl G0 RK)
    as [w' [t' [RC [R' [N' [D' K']]]]]].
  exists w0, w', t'. repeat split; auto.
  - eapply (reachable_safe c EV w' _ t'); eauto. congruence.
  - eapply (reachable_safe c EV w' _ t'); eauto. congruence.
Qed.
