(* C16 - module cache protocol of mod/modcache (fetch.go, cache.go), modzip.Unzip,
   lockedfile (flock) and par.ErrCache.Do, as an executable small-step model.

   One module version.  The file system below the cache directory is abstracted
   to a [store]; every goroutine calling Cache.Fetch / FetchFromCache / ModFile is
   a [thread] with a program counter walking through exactly the sequence of
   file-system effects of the Go code (one syscall = one step; Unzip one
   create/write/close triple per file; RemoveAll one unlink per file + rmdir).
   Content is abstracted to "number of bytes of the right content written so
   far": a file is complete iff that number equals its size.

   No proofs in this file. *)
From Coq Require Import List Arith Bool.
Import ListNotations.

(* ---------------------------------------------------------------- config -- *)

Record cfg := {
  zsize : nat;                 (* size of the registry's zip *)
  msize : nat;                 (* size of the module file *)
  fsizes : list nat;           (* sizes of the files in the zip, in zip order *)
  (* environment: may Unzip hit an I/O error (ENOSPC...)?  Outside the property's
     fault model; kept to document the error path. *)
  allow_io : bool;
  (* refuted protocol variants (all false = the code as written) *)
  v_marker_late : bool;        (* marker written after the directory is created *)
  v_marker_early : bool;       (* marker removed right after mkdir, before the files *)
  v_no_recheck : bool;         (* no downloadDir re-check after acquiring the lock *)
  v_stat_swapped : bool        (* downloadDir stats the marker first, then the directory *)
}.

Definition nfiles (c : cfg) := length (fsizes c).
Definition fsize (c : cfg) (i : nat) := nth i (fsizes c) 0.

(* the complete extracted directory: file i with all its bytes, in zip order *)
Definition full (c : cfg) : list (nat * nat) := combine (seq 0 (nfiles c)) (fsizes c).

(* ----------------------------------------------------------------- store -- *)

Definition tid := nat.
Definition pid := nat.

Record store := {
  zip : option nat;                  (* <v>.zip : bytes *)
  ztmp : list (nat * nat);           (* <v>.zipNNN.tmp : (NNN, bytes) *)
  modf : option nat;                 (* <v>.mod *)
  mtmp : list (nat * nat);           (* <v>.modNNN.tmp *)
  marker : bool;                     (* <v>.partial *)
  dir : option (list (nat * nat));   (* extract/<m>@<v>/ : (file index, bytes); None = absent *)
  lock : option tid;                 (* flock(2) on <v>.lock: the holding thread (open file description) *)
  created : bool                     (* ghost: the directory has existed at some time *)
}.

Definition store0 : store :=
  {| zip := None; ztmp := []; modf := None; mtmp := []; marker := false; dir := None;
     lock := None; created := false |}.

Definition set_zip s v := {| zip := v; ztmp := ztmp s; modf := modf s; mtmp := mtmp s; marker := marker s; dir := dir s; lock := lock s; created := created s |}.
Definition set_ztmp s v := {| zip := zip s; ztmp := v; modf := modf s; mtmp := mtmp s; marker := marker s; dir := dir s; lock := lock s; created := created s |}.
Definition set_modf s v := {| zip := zip s; ztmp := ztmp s; modf := v; mtmp := mtmp s; marker := marker s; dir := dir s; lock := lock s; created := created s |}.
Definition set_mtmp s v := {| zip := zip s; ztmp := ztmp s; modf := modf s; mtmp := v; marker := marker s; dir := dir s; lock := lock s; created := created s |}.
Definition set_marker s v := {| zip := zip s; ztmp := ztmp s; modf := modf s; mtmp := mtmp s; marker := v; dir := dir s; lock := lock s; created := created s |}.
Definition set_dir s v := {| zip := zip s; ztmp := ztmp s; modf := modf s; mtmp := mtmp s; marker := marker s; dir := v; lock := lock s; created := created s |}.
Definition set_lock s v := {| zip := zip s; ztmp := ztmp s; modf := modf s; mtmp := mtmp s; marker := marker s; dir := dir s; lock := v; created := created s |}.
Definition mk_dir s := {| zip := zip s; ztmp := ztmp s; modf := modf s; mtmp := mtmp s; marker := marker s; dir := Some []; lock := lock s; created := true |}.

Definition is_some {A} (o : option A) : bool := match o with Some _ => true | None => false end.

Fixpoint lookup (n : nat) (l : list (nat * nat)) : option nat :=
  match l with
  | [] => None
  | (k, v) :: r => if Nat.eqb k n then Some v else lookup n r
  end.

Fixpoint remove_key (n : nat) (l : list (nat * nat)) : list (nat * nat) :=
  match l with
  | [] => []
  | (k, v) :: r => if Nat.eqb k n then remove_key n r else (k, v) :: remove_key n r
  end.

Fixpoint add_bytes (n k : nat) (l : list (nat * nat)) : list (nat * nat) :=
  match l with
  | [] => []
  | (a, b) :: r => if Nat.eqb a n then (a, b + k) :: r else (a, b) :: add_bytes n k r
  end.

(* ------------------------------------------------------- threads, labels -- *)

Inductive result := ROk | RErr | RNotFound.
Inductive kind := KFetch | KFromCache | KModFile.

(* program counters; the Go statement each one stands before is named on the right *)
Inductive pc :=
  | P0                       (* downloadDir: os.Stat(dir) *)
  | P1                       (* downloadDir: os.Stat(partialPath) *)
  | ZE                       (* downloadZipCache.Do: enter single flight *)
  | Z0                       (* downloadZip: os.Stat(zipfile) (unlocked) *)
  | Z1                       (* lockVersion *)
  | Z2                       (* downloadZip1: os.Stat(zipfile) again *)
  | Z4                       (* Glob + os.Remove of stale *.tmp, then tempFile (O_EXCL) *)
  | Z7 (n : nat)             (* GetModule/GetZip; io.Copy(f, r): one write per chunk *)
  | Z8 (n : nat) (ok : bool) (* f.Close() *)
  | Z9 (n : nat)             (* os.Rename(tmp, zipfile) *)
  | ZR (n : nat)             (* deferred os.Remove(tmp) on error *)
  | Z10 (ok : bool)          (* unlock *)
  | F0                       (* Fetch: lockVersion *)
  | F1                       (* downloadDir under the lock: stat dir *)
  | F2                       (* downloadDir under the lock: stat marker *)
  | F4                       (* RemoveAll(dir): unlink each file, rmdir *)
  | F6                       (* robustio.WriteFile(partialPath) *)
  | U0                       (* Unzip: ReadDir(dir) must be empty; CheckZip *)
  | U2                       (* Unzip: os.MkdirAll(dir) *)
  | UM                       (* variants only: marker operation displaced to just after mkdir *)
  | U3c (i : nat)            (* Unzip: OpenFile(dst, O_CREATE|O_EXCL) of file i; i = nfiles: os.Remove(partialPath) *)
  | U3w (i : nat)            (* Unzip: io.Copy into file i, then Close *)
  | E0                       (* Unzip failed: RemoveAll(dir) *)
  | E1                       (* ... then os.Remove(partialPath) *)
  | F9 (r : result)          (* deferred unlock *)
  | ME                       (* modFileCache.Do: enter single flight *)
  | M0                       (* readDiskModFile (unlocked) *)
  | M1                       (* lockVersion *)
  | M2                       (* readDiskModFile again *)
  | M3                       (* GetModule/ModuleFile, then tempFile *)
  | M5 (n : nat)             (* f.Write(data), f.Close() *)
  | M6 (n : nat)             (* robustio.Rename(tmp, file) *)
  | M7 (ok : bool)           (* unlock *)
  | Done (r : result)
  | Dead.

Record thread := { proc : pid; tkind : kind; tpc : pc; de : bool (* first downloadDir saw the directory *) }.

Definition set_pc (t : thread) (p : pc) := {| proc := proc t; tkind := tkind t; tpc := p; de := de t |}.
Definition set_pc_de (t : thread) (p : pc) (d : bool) := {| proc := proc t; tkind := tkind t; tpc := p; de := d |}.

(* par.ErrCache entry of one process for this version *)
Inductive sfstate := SfIdle | SfRunning (i : tid) | SfDone (ok : bool).

Record pstate := { sfz : sfstate; sfm : sfstate; gz : nat (* GetZip calls *) }.
Definition pstate0 := {| sfz := SfIdle; sfm := SfIdle; gz := 0 |}.
Definition set_sfz q v := {| sfz := v; sfm := sfm q; gz := gz q |}.
Definition set_sfm q v := {| sfz := sfz q; sfm := v; gz := gz q |}.
Definition inc_gz q := {| sfz := sfz q; sfm := sfm q; gz := S (gz q) |}.

(* projected system calls (what the tracer logs) and internal events *)
Inductive eff :=
  | StatDir (b : bool) | StatMarker (b : bool) | StatZip (b : bool) | OpenMod (b : bool)
  | LockAcq | LockRel
  | UnlinkZTmp (n : nat) | CreateZTmp (n : nat) | WriteZTmp (n k : nat) | CloseZTmp (n : nat) | RenameZip (n : nat)
  | CreateMTmp (n : nat) | WriteMTmp (n k : nat) | CloseMTmp (n : nat) | RenameMod (n : nat)
  | UnlinkFile (i : nat) | RmdirDir | CreateMarker | MkdirDir
  | CreateFile (i : nat) | WriteFile (i k : nat) | CloseFile (i : nat) | UnlinkMarker
  (* not visible to the tracer *)
  | TEnter                   (* par.Cache.Do entry decision *)
  | TRegEOF                  (* registry body ended cleanly (verified reader: only at full size) *)
  | TRegFault                (* registry error: open failed, error mid-body, short body *)
  | TCheck                   (* Unzip's precondition checks *)
  | TIOFault.                (* local I/O error during extraction (only if allow_io) *)

Definition is_tau (e : eff) : bool :=
  match e with TEnter | TRegEOF | TRegFault | TCheck | TIOFault => true | _ => false end.

Inductive label := Spawn (p : pid) (k : kind) | Crash (p : pid) | Eff (i : tid) (e : eff).

(* -------------------------------------------------------- thread step ---- *)

Definition ret (s : store) (q : pstate) (t : thread) (p : pc) : option (store * pstate * thread) :=
  Some (s, q, set_pc t p).

(* after the first (unlocked) downloadDir said "not there / partial" *)
Definition after_p (t : thread) (d : bool) : pc :=
  match tkind t with KFromCache => Done RNotFound | _ => ZE end.

(* downloadZip returned *)
Definition zip_done (s : store) (q : pstate) (t : thread) (ok : bool) :=
  Some (s, set_sfz q (SfDone ok), set_pc t (if ok then F0 else Done RErr)).

Definition mod_done (s : store) (q : pstate) (t : thread) (ok : bool) :=
  Some (s, set_sfm q (SfDone ok), set_pc t (Done (if ok then ROk else RErr))).

(* pc after the lock is taken in Fetch *)
Definition after_f0 (c : cfg) (t : thread) : pc :=
  if v_no_recheck c then (if de t then F4 else F6) else F1.

(* pc after MkdirDir *)
Definition after_mkdir (c : cfg) : pc :=
  if v_marker_late c then UM else if v_marker_early c then UM else U3c 0.

Definition tstep (c : cfg) (s : store) (q : pstate) (me : tid) (t : thread) (e : eff)
  : option (store * pstate * thread) :=
  match tpc t, e with
  (* ---- downloadDir, unlocked ---- *)
  | P0, StatDir b =>
      if v_stat_swapped c then None else
      if Bool.eqb b (is_some (dir s)) then
        if b then ret s q t P1 else Some (s, q, set_pc_de t (after_p t false) false)
      else None
  | P1, StatMarker b =>
      if v_stat_swapped c then None else
      if Bool.eqb b (marker s) then
        if b then Some (s, q, set_pc_de t (after_p t true) true) else ret s q t (Done ROk)
      else None
  (* variant: marker first *)
  | P0, StatMarker b =>
      if v_stat_swapped c then
        if Bool.eqb b (marker s) then
          if b then Some (s, q, set_pc_de t (after_p t true) true) else ret s q t P1
        else None
      else None
  | P1, StatDir b =>
      if v_stat_swapped c then
        if Bool.eqb b (is_some (dir s)) then
          if b then ret s q t (Done ROk) else Some (s, q, set_pc_de t (after_p t false) false)
        else None
      else None
  (* ---- downloadZip ---- *)
  | ZE, TEnter =>
      match sfz q with
      | SfIdle => Some (s, set_sfz q (SfRunning me), set_pc t Z0)
      | SfRunning _ => None                                 (* blocked on the entry's mutex *)
      | SfDone ok => ret s q t (if ok then F0 else Done RErr)
      end
  | Z0, StatZip b =>
      if Bool.eqb b (is_some (zip s)) then
        if b then zip_done s q t true else ret s q t Z1
      else None
  | Z1, LockAcq =>
      match lock s with None => ret (set_lock s (Some me)) q t Z2 | Some _ => None end
  | Z2, StatZip b =>
      if Bool.eqb b (is_some (zip s)) then ret s q t (if b then Z10 true else Z4) else None
  | Z4, UnlinkZTmp n =>
      if is_some (lookup n (ztmp s)) then ret (set_ztmp s (remove_key n (ztmp s))) q t Z4 else None
  | Z4, CreateZTmp n =>
      match ztmp s with
      | [] => Some (set_ztmp s [(n, 0)], inc_gz q, set_pc t (Z7 n))
      | _ => None
      end
  | Z7 n, WriteZTmp n' k =>
      if Nat.eqb n n' then
        match lookup n (ztmp s) with
        | Some b => if Nat.leb (b + k) (zsize c) then ret (set_ztmp s (add_bytes n k (ztmp s))) q t (Z7 n) else None
        | None => None
        end
      else None
  | Z7 n, TRegEOF =>
      match lookup n (ztmp s) with
      | Some b => if Nat.eqb b (zsize c) then ret s q t (Z8 n true) else None
      | None => None
      end
  | Z7 n, TRegFault => ret s q t (Z8 n false)
  | Z8 n ok, CloseZTmp n' => if Nat.eqb n n' then ret s q t (if ok then Z9 n else ZR n) else None
  | Z9 n, RenameZip n' =>
      if Nat.eqb n n' then
        match lookup n (ztmp s) with
        | Some b => ret (set_zip (set_ztmp s (remove_key n (ztmp s))) (Some b)) q t (Z10 true)
        | None => None
        end
      else None
  | ZR n, UnlinkZTmp n' =>
      if Nat.eqb n n' then ret (set_ztmp s (remove_key n (ztmp s))) q t (Z10 false) else None
  | Z10 ok, LockRel => zip_done (set_lock s None) q t ok
  (* ---- Fetch under the lock ---- *)
  | F0, LockAcq =>
      match lock s with None => ret (set_lock s (Some me)) q t (after_f0 c t) | Some _ => None end
  | F1, StatDir b =>
      if Bool.eqb b (is_some (dir s)) then ret s q t (if b then F2 else F6) else None
  | F2, StatMarker b =>
      if Bool.eqb b (marker s) then ret s q t (if b then F4 else F9 ROk) else None
  | F4, UnlinkFile i =>
      match dir s with
      | Some l => if is_some (lookup i l) then ret (set_dir s (Some (remove_key i l))) q t F4 else None
      | None => None
      end
  | F4, RmdirDir =>
      match dir s with Some [] => ret (set_dir s None) q t F6 | _ => None end
  | F6, CreateMarker =>
      if v_marker_late c then None else ret (set_marker s true) q t U0
  | F6, TCheck => (* variant marker_late: no marker yet, go straight to Unzip *)
      if v_marker_late c then ret s q t U0 else None
  | U0, TCheck =>
      let empty := match dir s with None => true | Some [] => true | _ => false end in
      let zipok := match zip s with Some z => Nat.eqb z (zsize c) | None => false end in
      ret s q t (if empty && zipok then U2 else E0)
  | U2, MkdirDir =>
      match dir s with None => ret (mk_dir s) q t (after_mkdir c) | Some _ => None end
  | UM, CreateMarker => if v_marker_late c then ret (set_marker s true) q t (U3c 0) else None
  | UM, UnlinkMarker =>
      if v_marker_late c then None else
      if v_marker_early c then (if marker s then ret (set_marker s false) q t (U3c 0) else None) else None
  | U3c i, CreateFile i' =>
      if Nat.eqb i i' then
        if Nat.ltb i (nfiles c) then
          match dir s with
          | Some l => if is_some (lookup i l) then None else ret (set_dir s (Some (l ++ [(i, 0)]))) q t (U3w i)
          | None => None
          end
        else None
      else None
  | U3c i, UnlinkMarker => (* all files extracted: this is F7 *)
      if Nat.eqb i (nfiles c) then
        if v_marker_early c then None else
        if marker s then ret (set_marker s false) q t (F9 ROk) else None
      else None
  | U3c i, LockRel => (* variant marker_early: nothing left to remove *)
      if Nat.eqb i (nfiles c) && v_marker_early c then Some (set_lock s None, q, set_pc t (Done ROk)) else None
  | U3w i, WriteFile i' k =>
      if Nat.eqb i i' then
        match dir s with
        | Some l =>
            match lookup i l with
            | Some b => if Nat.leb (b + k) (fsize c i) then ret (set_dir s (Some (add_bytes i k l))) q t (U3w i) else None
            | None => None
            end
        | None => None
        end
      else None
  | U3w i, CloseFile i' =>
      if Nat.eqb i i' then
        match dir s with
        | Some l =>
            match lookup i l with
            | Some b => if Nat.eqb b (fsize c i) then ret s q t (U3c (S i)) else None
            | None => None
            end
        | None => None
        end
      else None
  | U3c i, TIOFault => if allow_io c then ret s q t E0 else None
  | U3w i, TIOFault => if allow_io c then ret s q t E0 else None
  | E0, UnlinkFile i =>
      match dir s with
      | Some l => if is_some (lookup i l) then ret (set_dir s (Some (remove_key i l))) q t E0 else None
      | None => None
      end
  | E0, RmdirDir =>
      match dir s with Some [] => ret (set_dir s None) q t E1 | _ => None end
  | E0, UnlinkMarker => (* RemoveAll of an absent directory is a no-op *)
      match dir s with None => ret (set_marker s false) q t (F9 RErr) | Some _ => None end
  | E1, UnlinkMarker => ret (set_marker s false) q t (F9 RErr)
  | F9 r, LockRel => Some (set_lock s None, q, set_pc t (Done r))
  (* ---- ModFile ---- *)
  | ME, TEnter =>
      match sfm q with
      | SfIdle => Some (s, set_sfm q (SfRunning me), set_pc t M0)
      | SfRunning _ => None
      | SfDone ok => ret s q t (Done (if ok then ROk else RErr))
      end
  | M0, OpenMod b =>
      if Bool.eqb b (is_some (modf s)) then
        if b then mod_done s q t true else ret s q t M1
      else None
  | M1, LockAcq =>
      match lock s with None => ret (set_lock s (Some me)) q t M2 | Some _ => None end
  | M2, OpenMod b =>
      if Bool.eqb b (is_some (modf s)) then ret s q t (if b then M7 true else M3) else None
  | M3, TRegFault => ret s q t (M7 false)
  | M3, CreateMTmp n =>
      if is_some (lookup n (mtmp s)) then None else ret (set_mtmp s ((n, 0) :: mtmp s)) q t (M5 n)
  | M5 n, WriteMTmp n' k =>
      if Nat.eqb n n' then
        match lookup n (mtmp s) with
        | Some b => if Nat.leb (b + k) (msize c) then ret (set_mtmp s (add_bytes n k (mtmp s))) q t (M5 n) else None
        | None => None
        end
      else None
  | M5 n, CloseMTmp n' =>
      if Nat.eqb n n' then
        match lookup n (mtmp s) with
        | Some b => if Nat.eqb b (msize c) then ret s q t (M6 n) else None
        | None => None
        end
      else None
  | M6 n, RenameMod n' =>
      if Nat.eqb n n' then
        match lookup n (mtmp s) with
        | Some b => ret (set_modf (set_mtmp s (remove_key n (mtmp s))) (Some b)) q t (M7 true)
        | None => None
        end
      else None
  | M7 ok, LockRel => mod_done (set_lock s None) q t ok
  | _, _ => None
  end.

(* ------------------------------------------------------------- world ---- *)

Record world := {
  st : store;
  ps : pid -> pstate;
  threads : list thread;
  crashed : list pid
}.

Definition world0 : world := {| st := store0; ps := fun _ => pstate0; threads := []; crashed := [] |}.

Fixpoint upd_nth {A} (i : nat) (x : A) (l : list A) : list A :=
  match l, i with
  | [], _ => []
  | _ :: r, O => x :: r
  | a :: r, S j => a :: upd_nth j x r
  end.

Definition upd_ps (f : pid -> pstate) (p : pid) (q : pstate) : pid -> pstate :=
  fun p' => if Nat.eqb p' p then q else f p'.

Definition live (p : pc) : bool := match p with Done _ | Dead => false | _ => true end.

Definition kill (p : pid) (t : thread) : thread :=
  if Nat.eqb (proc t) p && live (tpc t) then set_pc t Dead else t.

Definition init_pc (k : kind) : pc := match k with KModFile => ME | _ => P0 end.

Definition mem_nat (n : nat) (l : list nat) : bool := existsb (Nat.eqb n) l.

(* does the lock holder belong to process p? (flock is released when the process dies) *)
Definition holder_in (ts : list thread) (p : pid) (h : option tid) : bool :=
  match h with
  | Some i => match nth_error ts i with Some t => Nat.eqb (proc t) p | None => false end
  | None => false
  end.

Definition step (c : cfg) (w : world) (l : label) : option world :=
  match l with
  | Spawn p k =>
      if mem_nat p (crashed w) then None else
      Some {| st := st w; ps := ps w; crashed := crashed w;
              threads := threads w ++ [{| proc := p; tkind := k; tpc := init_pc k; de := false |}] |}
  | Crash p =>
      Some {| st := if holder_in (threads w) p (lock (st w)) then set_lock (st w) None else st w;
              ps := ps w;
              threads := map (kill p) (threads w);
              crashed := p :: crashed w |}
  | Eff i e =>
      match nth_error (threads w) i with
      | Some t =>
          match tstep c (st w) (ps w (proc t)) i t e with
          | Some (s', q', t') =>
              Some {| st := s'; ps := upd_ps (ps w) (proc t) q'; threads := upd_nth i t' (threads w);
                      crashed := crashed w |}
          | None => None
          end
      | None => None
      end
  end.

Fixpoint run (c : cfg) (w : world) (ls : list label) : option world :=
  match ls with
  | [] => Some w
  | l :: r => match step c w l with Some w' => run c w' r | None => None end
  end.

Inductive reachable (c : cfg) : world -> Prop :=
  | reach0 : reachable c world0
  | reachS : forall w l w', reachable c w -> step c w l = Some w' -> reachable c w'.

(* ------------------------------------------------- observations / specs -- *)

(* the directory is there, unmarked, and is the complete content *)
Definition complete (c : cfg) (s : store) : Prop := dir s = Some (full c) /\ marker s = false.
Fixpoint pairs_eqb (a b : list (nat * nat)) : bool :=
  match a, b with
  | [], [] => true
  | (x, y) :: a', (x', y') :: b' => Nat.eqb x x' && Nat.eqb y y' && pairs_eqb a' b'
  | _, _ => false
  end.
Definition completeb (c : cfg) (s : store) : bool :=
  match dir s with
  | Some l => pairs_eqb l (full c) && negb (marker s)
  | None => false
  end.

Definition variant_ok (c : cfg) : Prop :=
  v_marker_late c = false /\ v_marker_early c = false /\ v_no_recheck c = false /\ v_stat_swapped c = false.

Definition quiescent (w : world) : Prop := forall t, In t (threads w) -> live (tpc t) = false.

(* ------------------------------------------- trace acceptance (the tie) -- *)

(* The tracer sees only system calls.  [accept] folds [step] over an observed
   label sequence, inserting at most two internal events of the acting thread
   before each visible one. *)
Definition taus : list eff := [TEnter; TRegEOF; TRegFault; TCheck; TIOFault].

(* all worlds reachable from w by at most two internal events of thread i followed by l *)
Definition opt_list {A} (o : option A) : list A := match o with Some x => [x] | None => [] end.

Definition via_taus1 (c : cfg) (w : world) (i : tid) (l : label) : list world :=
  flat_map (fun e => match step c w (Eff i e) with Some w1 => opt_list (step c w1 l) | None => [] end) taus.

Definition via_taus2 (c : cfg) (w : world) (i : tid) (l : label) : list world :=
  flat_map (fun e => match step c w (Eff i e) with Some w1 => via_taus1 c w1 i l | None => [] end) taus.

(* a direct step is preferred; otherwise every way of inserting internal events *)
Definition accept1 (c : cfg) (w : world) (l : label) : list world :=
  match step c w l with
  | Some w' => [w']
  | None =>
      match l with
      | Eff i e => match via_taus1 c w i l with [] => via_taus2 c w i l | ws => ws end
      | _ => []
      end
  end.

(* the set of model worlds compatible with an observed label sequence *)
Fixpoint accept (c : cfg) (ws : list world) (ls : list label) : list world :=
  match ls with
  | [] => ws
  | l :: r => accept c (flat_map (fun w => accept1 c w l) ws) r
  end.

(* finish: let thread i take internal steps until it is done (used to read off its result) *)
Fixpoint settle (c : cfg) (fuel : nat) (w : world) (i : tid) : world :=
  match fuel with
  | O => w
  | S f =>
      match step c w (Eff i TEnter) with
      | Some w' => settle c f w' i
      | None => w
      end
  end.

(* --------------------------------------------------- the clean run ------ *)

(* The label thread i takes next in a fault-free run in which it is alone:
   stat results are read off the store, the registry delivers everything in
   one chunk, every write is one chunk. *)
Definition first_key (l : list (nat * nat)) : option nat :=
  match l with [] => None | (k, _) :: _ => Some k end.

Definition fresh_name (l : list (nat * nat)) : nat := S (fold_right (fun kv m => Nat.max (fst kv) m) 0 l).

Definition clean_eff (c : cfg) (s : store) (t : thread) : option eff :=
  match tpc t with
  | P0 => Some (StatDir (is_some (dir s)))
  | P1 => Some (StatMarker (marker s))
  | ZE => Some TEnter
  | Z0 | Z2 => Some (StatZip (is_some (zip s)))
  | Z1 | F0 | M1 => Some LockAcq
  | Z4 => match first_key (ztmp s) with Some n => Some (UnlinkZTmp n) | None => Some (CreateZTmp 0) end
  | Z7 n => match lookup n (ztmp s) with
            | Some b => if Nat.eqb b (zsize c) then Some TRegEOF else Some (WriteZTmp n (zsize c - b))
            | None => None end
  | Z8 n _ => Some (CloseZTmp n)
  | Z9 n => Some (RenameZip n)
  | ZR n => Some (UnlinkZTmp n)
  | Z10 _ | F9 _ | M7 _ => Some LockRel
  | F1 => Some (StatDir (is_some (dir s)))
  | F2 => Some (StatMarker (marker s))
  | F4 | E0 => match dir s with
          | Some l => match first_key l with Some i => Some (UnlinkFile i) | None => Some RmdirDir end
          | None => Some UnlinkMarker end
  | F6 => Some CreateMarker
  | U0 => Some TCheck
  | U2 => Some MkdirDir
  | UM => None
  | U3c i => if Nat.eqb i (nfiles c) then Some UnlinkMarker else Some (CreateFile i)
  | U3w i => match dir s with
             | Some l => match lookup i l with
                         | Some b => if Nat.eqb b (fsize c i) then Some (CloseFile i) else Some (WriteFile i (fsize c i - b))
                         | None => None end
             | None => None end
  | E1 => Some UnlinkMarker
  | ME => Some TEnter
  | M0 | M2 => Some (OpenMod (is_some (modf s)))
  | M3 => Some (CreateMTmp (fresh_name (mtmp s)))
  | M5 n => match lookup n (mtmp s) with
            | Some b => if Nat.eqb b (msize c) then Some (CloseMTmp n) else Some (WriteMTmp n (msize c - b))
            | None => None end
  | M6 n => Some (RenameMod n)
  | Done _ | Dead => None
  end.

(* run thread i alone until it is done; None = stuck or out of fuel *)
Fixpoint run_clean (c : cfg) (fuel : nat) (w : world) (i : tid) : option world :=
  match nth_error (threads w) i with
  | None => None
  | Some t =>
      match tpc t with
      | Done _ => Some w
      | _ =>
          match fuel with
          | O => None
          | S f =>
              match clean_eff c (st w) t with
              | Some e => match step c w (Eff i e) with Some w' => run_clean c f w' i | None => None end
              | None => None
              end
          end
      end
  end.

(* enough fuel for a clean fetch from store s *)
Definition clean_fuel (c : cfg) (s : store) : nat :=
  42 + length (ztmp s) + match dir s with Some l => length l | None => 0 end + 3 * nfiles c.
