(* C16 - the inductive invariant of the cache protocol and its consequences. *)
From Verif Require Import Cache.Model.
From Coq Require Import List Arith Bool Lia.
Import ListNotations.

(* ------------------------------------------------------------ lists ---- *)

Lemma upd_nth_length : forall A i (x : A) l, length (upd_nth i x l) = length l.
Proof. induction i; destruct l; simpl; auto. Qed.

Lemma nth_upd_same : forall A i (x : A) l, i < length l -> nth_error (upd_nth i x l) i = Some x.
Proof. induction i; destruct l; simpl; intros; try lia; auto. apply IHi. lia. Qed.

Lemma nth_upd_other : forall A i j (x : A) l, i <> j -> nth_error (upd_nth i x l) j = nth_error l j.
Proof. induction i; destruct l, j; simpl; intros; try congruence; auto. Qed.

Lemma nth_error_lt : forall A (l : list A) i x, nth_error l i = Some x -> i < length l.
Proof. intros. apply nth_error_Some. congruence. Qed.

Lemma nth_app_new : forall A (l : list A) x i t, nth_error (l ++ [x]) i = Some t ->
  nth_error l i = Some t \/ (i = length l /\ t = x).
Proof.
  intros. destruct (lt_dec i (length l)).
  - rewrite nth_error_app1 in H by auto. auto.
  - rewrite nth_error_app2 in H by lia. destruct (i - length l) eqn:E; simpl in H.
    + inversion H. right. split; auto. lia.
    + destruct n0; discriminate.
Qed.

Lemma lookup_add_bytes : forall n k l b, lookup n l = Some b -> lookup n (add_bytes n k l) = Some (b + k).
Proof.
  induction l as [|[a v] r]; simpl; intros; try discriminate.
  destruct (Nat.eqb a n) eqn:E; simpl; rewrite E; auto. congruence.
Qed.

Lemma lookup_add_bytes_other : forall n m k l, n <> m -> lookup m (add_bytes n k l) = lookup m l.
Proof.
  induction l as [|[a v] r]; simpl; intros; auto.
  destruct (Nat.eqb a n) eqn:E; simpl.
  - apply Nat.eqb_eq in E. subst a. destruct (Nat.eqb n m) eqn:F; auto. apply Nat.eqb_eq in F. congruence.
  - destruct (Nat.eqb a m); auto.
Qed.

Lemma lookup_app_notin : forall n l r, lookup n l = None -> lookup n (l ++ r) = lookup n r.
Proof. induction l as [|[a v] l']; simpl; intros; auto. destruct (Nat.eqb a n); try discriminate; auto. Qed.

Lemma add_bytes_app_notin : forall n k l r, lookup n l = None -> add_bytes n k (l ++ r) = l ++ add_bytes n k r.
Proof.
  induction l as [|[a v] l']; simpl; intros; auto.
  destruct (Nat.eqb a n); try discriminate. f_equal; auto.
Qed.

(* keys of the first i entries of the complete directory are below i *)
Lemma lookup_firstn_combine : forall fs a i k, a + i <= k ->
  lookup k (firstn i (combine (seq a (length fs)) fs)) = None.
Proof.
  induction fs; simpl; intros.
  - destruct i; auto.
  - destruct i; simpl; auto.
    destruct (Nat.eqb a0 k) eqn:E. { apply Nat.eqb_eq in E. lia. }
    apply IHfs. lia.
Qed.

Lemma lookup_firstn_full : forall c i, lookup i (firstn i (full c)) = None.
Proof. intros. unfold full, nfiles. apply lookup_firstn_combine. lia. Qed.

Lemma full_length : forall c, length (full c) = nfiles c.
Proof. intros. unfold full. rewrite combine_length, seq_length. unfold nfiles. lia. Qed.

Lemma firstn_S_nth : forall A (l : list A) i d, i < length l -> firstn (S i) l = firstn i l ++ [nth i l d].
Proof.
  induction l; simpl; intros; try lia.
  destruct i; simpl; auto. f_equal. apply IHl. lia.
Qed.

Lemma full_nth : forall c i, i < nfiles c -> nth i (full c) (0, 0) = (i, fsize c i).
Proof.
  intros. unfold full. rewrite combine_nth by (rewrite seq_length; reflexivity).
  rewrite seq_nth by auto. reflexivity.
Qed.

Lemma firstn_S_full : forall c i, i < nfiles c -> firstn (S i) (full c) = firstn i (full c) ++ [(i, fsize c i)].
Proof.
  intros. rewrite (firstn_S_nth _ (full c) i (0, 0)) by (rewrite full_length; auto).
  rewrite full_nth; auto.
Qed.

Lemma firstn_full_all : forall c, firstn (nfiles c) (full c) = full c.
Proof. intros. rewrite <- full_length. apply firstn_all. Qed.

(* -------------------------------------------------------- invariant ---- *)

Definition locked_pc (p : pc) : bool :=
  match p with
  | Z2 | Z4 | Z7 _ | Z8 _ _ | Z9 _ | ZR _ | Z10 _
  | F1 | F2 | F4 | F6 | U0 | U2 | UM | U3c _ | U3w _ | E0 | E1 | F9 _
  | M2 | M3 | M5 _ | M6 _ | M7 _ => true
  | _ => false
  end.

Definition zip_ok (c : cfg) (s : store) : Prop := zip s = Some (zsize c).
Definition mod_ok (c : cfg) (s : store) : Prop := modf s = Some (msize c).

(* what a thread at a given pc knows about the store *)
Definition pcinv (c : cfg) (s : store) (t : thread) : Prop :=
  match tpc t with
  | P1 => created s = true
  | Z7 n => exists b, ztmp s = [(n, b)] /\ b <= zsize c
  | Z8 n true => ztmp s = [(n, zsize c)]
  | Z9 n => ztmp s = [(n, zsize c)]
  | Z10 true => zip_ok c s
  | F0 | F1 => zip_ok c s
  | F2 => zip_ok c s /\ dir s <> None
  | F4 => zip_ok c s /\ marker s = true /\ dir s <> None
  | F6 => zip_ok c s /\ dir s = None
  | U0 | U2 => zip_ok c s /\ marker s = true /\ dir s = None
  | UM | E0 | E1 => False
  | U3c i => marker s = true /\ i <= nfiles c /\ dir s = Some (firstn i (full c))
  | U3w i => marker s = true /\ i < nfiles c /\ exists b, b <= fsize c i /\ dir s = Some (firstn i (full c) ++ [(i, b)])
  | F9 ROk => complete c s
  | F9 _ => False
  | M5 n => exists b, lookup n (mtmp s) = Some b /\ b <= msize c
  | M6 n => lookup n (mtmp s) = Some (msize c)
  | M7 true => mod_ok c s
  | Done ROk => match tkind t with KModFile => mod_ok c s | _ => complete c s end
  | _ => True
  end.

(* ModFile threads run the M program, the others the P/Z/F/U program *)
Definition mod_pc (p : pc) : bool :=
  match p with ME | M0 | M1 | M2 | M3 | M5 _ | M6 _ | M7 _ => true | _ => false end.
Definition kind_ok (k : kind) (p : pc) : bool :=
  match p with
  | Done _ | Dead => true
  | _ => match k with KModFile => mod_pc p | _ => negb (mod_pc p) end
  end.

Definition tinv (c : cfg) (s : store) (i : tid) (t : thread) : Prop :=
  (locked_pc (tpc t) = true -> lock s = Some i) /\ kind_ok (tkind t) (tpc t) = true /\ pcinv c s t.

(* store invariant *)
Record SI (c : cfg) (s : store) : Prop := {
  si_zip : forall z, zip s = Some z -> z = zsize c;
  si_mod : forall m, modf s = Some m -> m = msize c;
  si_created : dir s <> None -> created s = true;
  si_dir : created s = true -> marker s = false -> dir s = Some (full c)
}.

Record Inv (c : cfg) (w : world) : Prop := {
  inv_store : SI c (st w);
  inv_threads : forall i t, nth_error (threads w) i = Some t -> tinv c (st w) i t;
  inv_lock : forall i, lock (st w) = Some i ->
               exists t, nth_error (threads w) i = Some t /\ locked_pc (tpc t) = true;
  inv_sfz : forall p, sfz (ps w p) = SfDone true -> zip_ok c (st w);
  inv_sfm : forall p, sfm (ps w p) = SfDone true -> mod_ok c (st w)
}.

Definition env_ok (c : cfg) : Prop := variant_ok c /\ allow_io c = false.

(* facts that, once true, stay true *)
Record stab (c : cfg) (s s' : store) : Prop := {
  st_created : created s = true -> created s' = true;
  st_zip : zip_ok c s -> zip_ok c s';
  st_mod : mod_ok c s -> mod_ok c s';
  st_complete : complete c s -> complete c s'
}.

Lemma stab_refl : forall c s, stab c s s.
Proof. intros; constructor; auto. Qed.

(* ------------------------------------------- one thread step ---------- *)

(* how a step of thread i may change the store as far as the lock goes *)
Definition frame (s s' : store) (i : tid) (t t' : thread) : Prop :=
  (locked_pc (tpc t) = false /\
     ((s' = s /\ locked_pc (tpc t') = false) \/
      (lock s = None /\ s' = set_lock s (Some i) /\ locked_pc (tpc t') = true)))
  \/ (locked_pc (tpc t) = true /\
     ((lock s' = Some i /\ locked_pc (tpc t') = true) \/ (lock s' = None /\ locked_pc (tpc t') = false))).

Ltac brk H := repeat match type of H with
  | context [if ?b then _ else _] => let E := fresh "E" in destruct b eqn:E; try discriminate H
  | context [match ?x with _ => _ end] => let E := fresh "E" in destruct x eqn:E; try discriminate H
  end.

Ltac norm_hyps :=
  repeat match goal with
  | H : _ /\ _ |- _ => destruct H
  | H : exists _, _ |- _ => destruct H
  | H : Bool.eqb _ _ = true |- _ => apply eqb_prop in H
  | H : Nat.eqb _ _ = true |- _ => apply Nat.eqb_eq in H; subst
  | H : Nat.leb _ _ = true |- _ => apply Nat.leb_le in H
  | H : Nat.ltb _ _ = true |- _ => apply Nat.ltb_lt in H
  | H : andb _ _ = true |- _ => apply andb_prop in H
  | H : False |- _ => contradiction
  | H : true = is_some ?x |- _ => destruct x eqn:?; simpl in H; [clear H | discriminate H]
  | H : false = is_some ?x |- _ => destruct x eqn:?; simpl in H; [discriminate H | clear H]
  | H : is_some ?x = true |- _ => destruct x eqn:?; simpl in H; [clear H | discriminate H]
  | H : is_some ?x = false |- _ => destruct x eqn:?; simpl in H; [discriminate H | clear H]
  | H : Some _ = Some _ |- _ => inversion H; subst; clear H
  | H : ztmp ?s = [(_, _)], H' : context [ztmp ?s] |- _ => rewrite H in H'; simpl in H'; rewrite ?Nat.eqb_refl in H'
  end.

Local Arguments firstn : simpl never.

Lemma tstep_inv : forall c s q i t e s' q' t',
  env_ok c -> SI c s -> tinv c s i t ->
  (sfz q = SfDone true -> zip_ok c s) -> (sfm q = SfDone true -> mod_ok c s) ->
  tstep c s q i t e = Some (s', q', t') ->
  SI c s' /\ tinv c s' i t' /\ stab c s s' /\
  (sfz q' = SfDone true -> zip_ok c s') /\ (sfm q' = SfDone true -> mod_ok c s') /\
  proc t' = proc t /\ tkind t' = tkind t /\ frame s s' i t t'.
Proof.
  intros c s q i t e s' q' t' [[V1 [V2 [V3 V4]]] IO] HSI [HL [HK HP]] HZ HM H.
  destruct t as [p k pc d]. unfold pcinv in HP. simpl in *.
  destruct pc; destruct e; unfold tstep in H; simpl in H; try discriminate H.
  all: unfold after_f0, after_mkdir, zip_done, mod_done, ret, after_p in H;
       rewrite ?V1, ?V2, ?V3, ?V4, ?IO, ?Bool.andb_false_r in H; simpl in H; try discriminate H.
  all: brk H.
  all: try (assert (LK : lock s = Some i) by (apply HL; reflexivity)).
  all: clear HL.
  all: inversion H; subst; clear H.
  all: unfold zip_ok, mod_ok, complete in *.
  all: norm_hyps.
  all: repeat match goal with
       | Z : zip ?s = Some ?z |- _ => is_var z; pose proof (si_zip _ _ HSI _ Z); subst z
       | Z : modf ?s = Some ?z |- _ => is_var z; pose proof (si_mod _ _ HSI _ Z); subst z
       end.
  all: try match goal with |- SI _ _ => exact HSI end.
  all: destruct HSI as [S1 S2 S3 S4].
  all: repeat match goal with |- _ /\ _ => split end.
  all: try reflexivity.
  all: try (intros; simpl in *; solve [auto | discriminate | congruence]).
  all: try match goal with |- frame _ _ _ _ _ =>
         unfold frame; simpl;
         solve [ left; split; [reflexivity|]; solve [left; split; reflexivity | right; repeat split; auto]
               | right; split; [reflexivity|]; simpl; solve [left; split; [assumption|reflexivity] | right; split; reflexivity] ] end.
  all: try match goal with |- stab _ _ _ =>
         constructor; unfold zip_ok, mod_ok, complete; simpl; intros;
         repeat match goal with H : _ /\ _ |- _ => destruct H end;
         solve [auto | congruence | split; congruence] end.
  all: try match goal with |- SI _ _ =>
         constructor; simpl; intros; try rewrite firstn_full_all in *;
         solve [eauto | congruence | discriminate | apply S3; congruence] end.
  all: try match goal with |- tinv _ _ _ _ =>
         split; [simpl; intros; solve [discriminate | auto] | split; [ simpl; solve [auto | destruct k; simpl in *; congruence] |
           unfold pcinv, zip_ok, mod_ok, complete; simpl;
           try match goal with H : ztmp ?s = _ |- context [ztmp ?s] => rewrite H; simpl; rewrite ?Nat.eqb_refl end;
           try rewrite firstn_full_all in *;
           try solve [auto | eauto | congruence | repeat split; solve [auto|congruence|lia]
                     | eexists; split; [reflexivity | lia]
                     | destruct k; simpl in *; solve [discriminate | auto | congruence]
                     | apply S3; congruence ] ] ] end.
  - rewrite H, H1 in E. simpl in E. rewrite Nat.eqb_refl in E. discriminate.
  - repeat split; auto. exists 0. split; [lia | reflexivity].
  - rewrite lookup_app_notin in E1 by apply lookup_firstn_full. simpl in E1. rewrite Nat.eqb_refl in E1.
    inversion E1; subst. repeat split; auto. exists (n + k0). split; auto.
    rewrite add_bytes_app_notin by apply lookup_firstn_full. simpl. rewrite Nat.eqb_refl. reflexivity.
  - rewrite lookup_app_notin in E1 by apply lookup_firstn_full. simpl in E1. rewrite Nat.eqb_refl in E1.
    inversion E1; subst. repeat split; auto. rewrite firstn_S_full by auto. assumption.
  - destruct r; try contradiction. destruct k; simpl in HK; try discriminate; auto.
  - rewrite Nat.eqb_refl. eexists; split; [reflexivity | lia].
  - erewrite lookup_add_bytes by eauto. eexists; split; [reflexivity | lia].
Qed.

(* ------------------------------------------- interference freedom ------ *)

Lemma pcinv_set_lock : forall c s x t, pcinv c (set_lock s x) t <-> pcinv c s t.
Proof. intros. unfold pcinv, complete, zip_ok, mod_ok. destruct (tpc t); simpl; tauto. Qed.

Lemma pcinv_stab : forall c s s' t, locked_pc (tpc t) = false -> stab c s s' -> pcinv c s t -> pcinv c s' t.
Proof.
  intros c s s' t L [A B C D]. unfold pcinv. destruct (tpc t); simpl in *; try discriminate; auto.
  destruct r; auto. destruct (tkind t); auto.
Qed.

Lemma tinv_frame : forall c s s' i j t t' tj,
  i <> j -> tinv c s i t -> tinv c s j tj -> frame s s' i t t' -> stab c s s' -> tinv c s' j tj.
Proof.
  intros c s s' i j t t' tj NE [Li _] [Lj [Kj Pj]] F ST.
  destruct F as [[Lt [[-> _] | [LN [-> _]]]] | [Lt _]].
  - split; [|split]; auto.
  - split; [intros L; rewrite (Lj L) in LN; discriminate | split; [auto | apply pcinv_set_lock; auto]].
  - assert (NL : locked_pc (tpc tj) = false).
    { destruct (locked_pc (tpc tj)) eqn:E; auto. rewrite (Lj eq_refl) in Li. specialize (Li Lt). congruence. }
    split; [intros L; congruence | split; [auto | eapply pcinv_stab; eauto]].
Qed.

(* ------------------------------------------------ the invariant is inductive *)

Lemma inv_init : forall c, Inv c world0.
Proof.
  intros. constructor; simpl.
  - constructor; simpl; intros; try discriminate; congruence.
  - intros i t H. destruct i; discriminate.
  - intros; discriminate.
  - intros; discriminate.
  - intros; discriminate.
Qed.

Lemma live_locked : forall p, locked_pc p = true -> live p = true.
Proof. destruct p; simpl; auto; discriminate. Qed.

Lemma inv_step : forall c w l w', env_ok c -> Inv c w -> step c w l = Some w' -> Inv c w'.
Proof.
  intros c w l w' EV [HS HT HL HZ HM] H. destruct l as [p k | p | i e]; simpl in H.
  - (* Spawn *)
    destruct (mem_nat p (crashed w)); try discriminate. inversion H; subst; clear H.
    constructor; simpl; auto.
    + intros i t N. apply nth_app_new in N. destruct N as [N | [-> ->]]; auto.
      unfold tinv, pcinv. destruct k; simpl; (split; [intros; discriminate | split; [reflexivity | exact I]]).
    + intros i Hi. destruct (HL i Hi) as [t [N L]]. exists t. split; auto.
      rewrite nth_error_app1; auto. eapply nth_error_lt; eauto.
  - (* Crash *)
    inversion H; subst; clear H.
    assert (KEEP : forall j t, nth_error (threads w) j = Some t -> locked_pc (tpc t) = true ->
                     holder_in (threads w) p (lock (st w)) = true -> proc t <> p -> False).
    { intros j t N L HI NP. destruct (HT j t N) as [LJ _]. rewrite (LJ L) in HI. simpl in HI. rewrite N in HI.
      apply Nat.eqb_eq in HI. auto. }
    constructor; simpl.
    + destruct HS. destruct (holder_in _ _ _); constructor; simpl; auto.
    + intros j t' N. rewrite nth_error_map in N. destruct (nth_error (threads w) j) as [t|] eqn:NJ; try discriminate.
      inversion N; subst; clear N. destruct (HT j t NJ) as [LJ [KJ PJ]].
      unfold kill. destruct (Nat.eqb (proc t) p && live (tpc t)) eqn:K.
      * split; [|split]; simpl; auto; [intros; discriminate | exact I].
      * assert (PJ' : forall x, pcinv c (set_lock (st w) x) t) by (intros; apply pcinv_set_lock; auto).
        destruct (holder_in (threads w) p (lock (st w))) eqn:HI; (split; [|split]; auto).
        intros L. exfalso. eapply KEEP; eauto. intros EQ. rewrite EQ, Nat.eqb_refl, (live_locked _ L) in K. discriminate.
    + intros j Hj. destruct (holder_in (threads w) p (lock (st w))) eqn:HI; simpl in Hj; try discriminate.
      destruct (HL j Hj) as [t [N L]]. exists t. split; auto.
      rewrite nth_error_map, N. simpl. unfold kill.
      unfold holder_in in HI. rewrite Hj, N in HI. rewrite HI. reflexivity.
    + intros q Hq. specialize (HZ q Hq). unfold zip_ok in *. destruct (holder_in _ _ _); simpl; auto.
    + intros q Hq. specialize (HM q Hq). unfold mod_ok in *. destruct (holder_in _ _ _); simpl; auto.
  - (* thread step *)
    destruct (nth_error (threads w) i) as [t|] eqn:N; try discriminate.
    destruct (tstep c (st w) (ps w (proc t)) i t e) as [[[s' q'] t']|] eqn:TS; try discriminate.
    inversion H; subst; clear H.
    destruct (tstep_inv c _ _ _ _ _ _ _ _ EV HS (HT i t N) (HZ (proc t)) (HM (proc t)) TS)
      as [HS' [HT' [ST [HZ' [HM' [PR [KD FR]]]]]]].
    assert (LEN : i < length (threads w)) by (eapply nth_error_lt; eauto).
    constructor; simpl; auto.
    + intros j tj NJ. destruct (Nat.eq_dec i j) as [<- | NE].
      * rewrite nth_upd_same in NJ by auto. inversion NJ; subst. auto.
      * rewrite nth_upd_other in NJ by auto. apply (tinv_frame c (st w) s' i j t t' tj); auto.
    + intros j Hj. destruct (Nat.eq_dec i j) as [<- | NE].
      * exists t'. split. { apply nth_upd_same; auto. }
        destruct FR as [[Lt [[-> Lt'] | [LN [-> Lt']]]] | [Lt [[_ Lt'] | [LN _]]]]; auto.
        -- destruct (HL i Hj) as [t0 [N0 L0]]. congruence.
        -- congruence.
      * rewrite nth_upd_other by auto.
        destruct FR as [[Lt [[-> Lt'] | [LN [-> Lt']]]] | [Lt [[L' _] | [LN _]]]].
        -- apply HL; auto.
        -- simpl in Hj. congruence.
        -- congruence.
        -- congruence.
    + intros p. unfold upd_ps. destruct (Nat.eqb p (proc t)); auto. intros Hp. apply ST. apply (HZ p Hp).
    + intros p. unfold upd_ps. destruct (Nat.eqb p (proc t)); auto. intros Hp. apply ST. apply (HM p Hp).
Qed.

Theorem inv_reachable : forall c w, env_ok c -> reachable c w -> Inv c w.
Proof.
  intros c w EV R. induction R.
  - apply inv_init.
  - eapply inv_step; eauto.
Qed.
