(* C03 - proofs about the scalar model (see design/C03.md). *)
From Coq Require Import List ZArith NArith Bool Lia.
From Verif Require Import Base.Order Scalar.Spec Scalar.Model.
Import ListNotations.
Open Scope Z_scope.

Section WithRegexp.
  Variable re : str -> str -> bool.

  (* int and float literals are distinct kinds *)
  Lemma int_float_distinct : forall z d,
    sat re (AInt z) (CElem (KAtom (AFloat d))) = false /\
    sat re (AFloat d) (CElem (KAtom (AInt z))) = false /\
    sat re (AInt z) (CElem (KType TFloat)) = false /\
    sat re (AFloat d) (CElem (KType TInt)) = false /\
    sat re (AInt z) (CElem (KType TNumber)) = true /\
    sat re (AFloat d) (CElem (KType TNumber)) = true.
  Proof. intros; repeat split; reflexivity. Qed.
End WithRegexp.
