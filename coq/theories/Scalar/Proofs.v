(* C03 - proofs about the scalar model (see design/C03.md).

   Part 1: kinds, order reasoning, soundness of SimplifyBounds.
   Part 2 (Accum.v): the accumulator invariant and the end-to-end theorems. *)
From Coq Require Import List ZArith NArith Bool Lia QArith Lqa.
From Verif Require Import Base.Order Scalar.Spec Scalar.Model Scalar.DecProofs.
Import ListNotations.
Open Scope Z_scope.

(* --------------------------------------------------------------- kinds -- *)

Definition has (k : N) (a : atom) : bool := negb (N.land k (atom_kind a) =? 0)%N.

Definition kbit (a : atom) : N :=
  match a with
  | ANull => 0 | ABool _ => 1 | AInt _ => 2 | AFloat _ => 3 | AStr _ => 4 | ABytes _ => 5
  end%N.

Lemma atom_kind_pow2 : forall a, atom_kind a = (2 ^ kbit a)%N.
Proof. destruct a; reflexivity. Qed.

Lemma land_pow2_testbit : forall k i, (N.land k (2 ^ i) =? 0)%N = negb (N.testbit k i).
Proof.
  intros k i. destruct (N.testbit k i) eqn:T; cbn [negb].
  - apply N.eqb_neq. intro E.
    assert (H : N.testbit (N.land k (2 ^ i)) i = true).
    { rewrite N.land_spec, T, N.pow2_bits_true. reflexivity. }
    rewrite E, N.bits_0 in H. discriminate.
  - apply N.eqb_eq. apply N.bits_inj. intro j.
    rewrite N.land_spec, N.bits_0, N.pow2_bits_eqb.
    destruct (N.eqb_spec i j) as [->|]; [rewrite T|]; auto using andb_false_r.
Qed.

Lemma has_testbit : forall k a, has k a = N.testbit k (kbit a).
Proof. intros. unfold has. rewrite atom_kind_pow2, land_pow2_testbit, negb_involutive. reflexivity. Qed.

Lemma has_land : forall k1 k2 a, has (N.land k1 k2) a = has k1 a && has k2 a.
Proof. intros. rewrite !has_testbit. apply N.land_spec. Qed.

Lemma has_zero : forall a, has 0 a = false.
Proof. intros. rewrite has_testbit. apply N.bits_0. Qed.

Lemma has_nonzero : forall k a, has k a = true -> k <> 0%N.
Proof. intros k a H ->. rewrite has_zero in H. discriminate. Qed.

Lemma has_atom_kind : forall a b, has (atom_kind a) b = true <-> kbit a = kbit b.
Proof.
  intros a b. rewrite has_testbit, atom_kind_pow2, N.pow2_bits_eqb. rewrite N.eqb_eq. reflexivity.
Qed.

Lemma nofloat_int : forall k a, (N.land k FloatKind =? 0)%N = true -> has k a = true ->
  forall d, a <> AFloat d.
Proof.
  intros k a H Hk d ->. unfold has in Hk. cbn [atom_kind] in Hk. rewrite H in Hk. discriminate.
Qed.

(* ----------------------------------------------------- order reasoning -- *)

Lemma total_cmp_pre : forall {A} (c : A -> A -> comparison), total_cmp c -> total_pre c.
Proof.
  intros A c H. constructor.
  - apply tc_refl; assumption.
  - apply (tc_opp c H).
  - apply (tc_trans c H).
  - intros x y z E. apply (tc_eq c H) in E. subst. reflexivity.
Qed.

Lemma str_cmp_total : total_cmp str_cmp.
Proof. apply list_cmp_total. apply N_compare_total. Qed.

Lemma str_cmp_pre : total_pre str_cmp.
Proof. apply total_cmp_pre, str_cmp_total. Qed.

Lemma str_cmp_eq : forall s t, str_cmp s t = Eq -> s = t.
Proof. intros s t. apply (tc_eq _ str_cmp_total). Qed.

Section Order.
  Variable T : Type.
  Variable c : T -> T -> comparison.
  Hypothesis Hc : total_pre c.

  Lemma cmp_compose : forall a x y,
    match c a x, c x y with
    | Eq, r => c a y = r
    | r, Eq => c a y = r
    | Lt, Lt => c a y = Lt
    | Gt, Gt => c a y = Gt
    | _, _ => True
    end.
  Proof.
    intros a x y.
    destruct (c a x) eqn:E1; destruct (c x y) eqn:E2; try exact I.
    - rewrite (tp_eq_l c Hc _ _ _ E1). assumption.
    - rewrite (tp_eq_l c Hc _ _ _ E1). assumption.
    - rewrite (tp_eq_l c Hc _ _ _ E1). assumption.
    - assert (E3 : c y x = Eq) by (rewrite (tp_opp c Hc), E2; reflexivity).
      rewrite (tp_opp c Hc), (tp_eq_l c Hc _ _ a E3), <- (tp_opp c Hc). assumption.
    - apply (tp_trans c Hc _ _ _ E1 E2).
    - assert (E3 : c y x = Eq) by (rewrite (tp_opp c Hc), E2; reflexivity).
      rewrite (tp_opp c Hc), (tp_eq_l c Hc _ _ a E3), <- (tp_opp c Hc). assumption.
    - assert (F1 : c x a = Lt) by (rewrite (tp_opp c Hc), E1; reflexivity).
      assert (F2 : c y x = Lt) by (rewrite (tp_opp c Hc), E2; reflexivity).
      rewrite (tp_opp c Hc), (tp_trans c Hc _ _ _ F2 F1). reflexivity.
  Qed.

  (* the non-opposite, non-regexp arms of SimplifyBounds inside one ordered family *)
  Definition abs_simplify (ox oy : bop) (x y : T) : sres :=
    let '(cmp, xc) := op_info ox in
    let '(_, yc) := op_info oy in
    if xc =? yc then
      match ox with
      | ONe | OMatch | ONMatch => if match c x y with Eq => true | _ => false end then SKeepX else SNone
      | _ => if cmp_to_bool cmp (c x y) then SKeepX else SKeepY
      end
    else if xc =? - yc then SNone
    else if bop_eqb ox ONe then
      if negb (cmp_to_bool oy (c x y)) then SKeepY else SNone
    else if bop_eqb oy ONe then
      if negb (cmp_to_bool ox (c y x)) then SKeepX else SNone
    else SNone.

  Definition nomatch (o : bop) : bool := match o with OMatch | ONMatch => false | _ => true end.

  Lemma abs_sound : forall (P : Prop) ox oy a x y, nomatch ox = true -> nomatch oy = true ->
    match abs_simplify ox oy x y with
    | SKeepX => test_rel ox (c a x) = true -> test_rel oy (c a y) = true
    | SKeepY => test_rel oy (c a y) = true -> test_rel ox (c a x) = true
    | SBottom => P
    | SNone => True
    end.
  Proof.
    intros P ox oy a x y Hx Hy.
    pose proof (cmp_compose a x y) as C.
    pose proof (cmp_compose a y x) as C'.
    pose proof (tp_opp c Hc y x) as O.
    unfold abs_simplify.
    destruct ox; try discriminate Hx; destruct oy; try discriminate Hy; cbn;
      destruct (c a x); destruct (c x y); cbn in O; rewrite O in *; cbn in *;
        destruct (c a y); cbn in *; try exact I; try congruence; try (intros; congruence).
  Qed.

  (* string / bytes arm, x the lower and y the upper bound *)
  Lemma ordered_sound : forall ox oy a x y,
    is_lower_op ox = true -> (bop_eqb oy OLt || bop_eqb oy OLe) = true ->
    simplify_ordered (c x y) (mkbound ox ANull) (mkbound oy ANull) = SBottom ->
    test_rel ox (c a x) && test_rel oy (c a y) = false.
  Proof.
    intros ox oy a x y Hx Hy.
    pose proof (cmp_compose a x y) as C.
    unfold simplify_ordered; cbn [b_op].
    destruct ox; try discriminate Hx; destruct oy; try discriminate Hy; cbn;
      destruct (c a x); destruct (c x y); cbn in *; try discriminate;
        destruct (c a y); cbn in *; try reflexivity; try congruence; intros; congruence.
  Qed.
End Order.

Lemma cmp_to_bool_test_rel : forall o c, nomatch o = true -> cmp_to_bool o c = test_rel o c.
Proof. intros o c H. destruct o; try discriminate H; destruct c; reflexivity. Qed.

Definition is_upper_op (o : bop) : bool := bop_eqb o OLt || bop_eqb o OLe.

(* an integral-valued decimal *)
Lemma dval_nonneg_exp_int : forall d, 0 <= dexp d -> (dval d == inject_Z (dsigned d * 10 ^ dexp d))%Q.
Proof. intros d H. unfold dval. rewrite p10_Z by assumption. rewrite inject_Z_mult. reflexivity. Qed.

Definition bsafe (x : bound) : bool := match b_val x with AFloat d => dsafe d | _ => true end.

Lemma dsafe_of_Z : forall z, dsafe (dec_of_Z z) = true.
Proof.
  intros z. unfold dsafe, dec_of_Z; cbn [dneg dcoef dexp].
  replace (0 <=? 0) with true by reflexivity. rewrite orb_true_l, andb_true_r.
  destruct (z <? 0) eqn:E; [|reflexivity]. apply Z.ltb_lt in E. cbn [andb].
  apply negb_true_iff, N.eqb_neq. lia.
Qed.

Lemma num_of_safe : forall x d, bsafe x = true -> num_of (b_val x) = Some d -> dsafe d = true.
Proof.
  intros [o v] d; unfold bsafe; cbn [b_val]. destruct v; cbn [num_of]; intros S [= <-]; auto using dsafe_of_Z.
Qed.

Section WithRegexp.
  Variable re : str -> str -> bool.

  Definition satb (a : atom) (x : bound) : bool := sat_bound re a (b_op x) (b_val x).

  Lemma sat_num : forall a v da dv o, num_of a = Some da -> num_of v = Some dv -> nomatch o = true ->
    sat_bound re a o v = test_rel o (dcmp da dv).
  Proof.
    intros a v da dv o Ha Hv Ho.
    destruct a; try discriminate Ha; destruct v; try discriminate Hv;
      cbn [num_of] in Ha, Hv; injection Ha as <-; injection Hv as <-;
        destruct o; try discriminate Ho; reflexivity.
  Qed.

  (* the numeric arm: x the lower, y the upper bound *)
  Lemma simplify_num_sound : forall k ox oy xv yv a0 b0 a da,
    is_lower_op ox = true -> is_upper_op oy = true ->
    num_of a = Some da -> has k a = true ->
    dsafe a0 = true -> dsafe b0 = true ->
    simplify_num k (mkbound ox xv) (mkbound oy yv) a0 b0 = SBottom ->
    test_rel ox (dcmp da a0) && test_rel oy (dcmp da b0) = false.
  Proof.
    intros k ox oy xv yv a0 b0 a da Hox Hoy Ha Hk Sa Sb.
    destruct (test_rel ox (dcmp da a0)) eqn:T1; [|reflexivity].
    destruct (test_rel oy (dcmp da b0)) eqn:T2; [|reflexivity].
    intro HB. exfalso.
    set (V := dval da). set (A := dval a0). set (B := dval b0).
    (* what the two bounds say about the value *)
    assert (L1 : (ox = OGe /\ A <= V)%Q \/ (ox = OGt /\ A < V)%Q).
    { destruct ox; try discriminate Hox; [right|left]; split; try reflexivity;
        destruct (dcmp_spec da a0); try discriminate T1; unfold A, V; lra. }
    assert (U1 : (oy = OLe /\ V <= B)%Q \/ (oy = OLt /\ V < B)%Q).
    { destruct oy; try discriminate Hoy; [right|left]; split; try reflexivity;
        destruct (dcmp_spec da b0); try discriminate T2; unfold B, V; lra. }
    unfold simplify_num in HB. cbn [b_op] in HB.
    set (noFloat := (N.land k FloatKind =? 0)%N) in *.
    set (lo := if noFloat && (dexp a0 <? 0) then if bop_eqb ox OGe then ctx_ceil a0 else ctx_floor a0 else a0) in *.
    set (hi := if noFloat && (dexp b0 <? 0) then if bop_eqb oy OLe then ctx_floor b0 else ctx_ceil b0 else b0) in *.
    destruct ((0 <? dec_sign hi) && (dec_sign lo <=? 0) && (0 <=? dexp hi) && (10 <=? dcoef hi)%N); [discriminate|].
    destruct (ctx_add hi lo true) as [[d inx]|] eqn:EA; [|discriminate].
    destruct inx; [discriminate|].
    destruct (ctx_add_exact _ _ _ _ EA) as [Vd NZ].
    (* lower bound after the readjustment *)
    assert (LO : exists LOq, (dval lo == LOq)%Q /\
              ((ox = OGe /\ LOq <= V) \/ (ox = OGt /\ LOq < V))%Q /\
              (noFloat = true -> exists l z, (LOq == inject_Z l)%Q /\ (V == inject_Z z)%Q)).
    { destruct noFloat eqn:NF.
      - (* a is an integer *)
        assert (exists z, a = AInt z) as [z ->].
        { destruct a; try discriminate Ha; eauto.
          exfalso. eapply (nofloat_int k); eauto. }
        cbn [num_of] in Ha. injection Ha as <-.
        assert (Vz : (V == inject_Z z)%Q) by apply dval_of_Z.
        unfold lo. cbn [andb].
        destruct (dexp a0 <? 0) eqn:EN.
        + apply Z.ltb_lt in EN.
          destruct L1 as [[-> L]|[-> L]]; cbn [bop_eqb].
          * destruct (ceil_spec a0 Sa EN) as (c & C1 & C2 & C3 & _).
            exists (inject_Z c). split; [assumption|]. split.
            -- left. split; [reflexivity|]. rewrite Vz. rewrite <- Zle_Qle.
               fold A in C2, C3. rewrite Vz in L.
               assert (inject_Z (c - 1) < inject_Z z)%Q by lra.
               rewrite <- Zlt_Qlt in H. lia.
            -- intros _. exists c, z. split; [reflexivity|assumption].
          * destruct (floor_spec a0 Sa EN) as (f & C1 & C2 & C3 & _).
            exists (inject_Z f). split; [assumption|]. split.
            -- right. split; [reflexivity|]. rewrite Vz. rewrite <- Zlt_Qlt.
               fold A in C2, C3. rewrite Vz in L.
               assert (inject_Z f < inject_Z z)%Q by lra.
               rewrite <- Zlt_Qlt in H. lia.
            -- intros _. exists f, z. split; [reflexivity|assumption].
        + apply Z.ltb_ge in EN. exists A. split; [reflexivity|]. split; [assumption|].
          intros _. exists (dsigned a0 * 10 ^ dexp a0), z. split; [apply dval_nonneg_exp_int; assumption|assumption].
      - unfold lo. cbn [andb]. exists A. split; [reflexivity|]. split; [assumption|]. discriminate. }
    assert (HI : exists HIq, (dval hi == HIq)%Q /\
              ((oy = OLe /\ V <= HIq) \/ (oy = OLt /\ V < HIq))%Q /\
              (noFloat = true -> exists h, (HIq == inject_Z h)%Q) /\
              (dneg hi = true -> dcoef hi = 0%N -> oy = OLt /\ (V < HIq)%Q)).
    { destruct noFloat eqn:NF.
      - assert (exists z, a = AInt z) as [z ->].
        { destruct a; try discriminate Ha; eauto.
          exfalso. eapply (nofloat_int k); eauto. }
        cbn [num_of] in Ha. injection Ha as <-.
        assert (Vz : (V == inject_Z z)%Q) by apply dval_of_Z.
        unfold hi. cbn [andb].
        destruct (dexp b0 <? 0) eqn:EN.
        + apply Z.ltb_lt in EN.
          destruct U1 as [[-> U]|[-> U]]; cbn [bop_eqb].
          * destruct (floor_spec b0 Sb EN) as (f & C1 & C2 & C3 & C4).
            exists (inject_Z f). split; [assumption|].
            assert (Zf : z <= f).
            { fold B in C2, C3. rewrite Vz in U.
              assert (inject_Z z < inject_Z (f + 1))%Q by lra.
              rewrite <- Zlt_Qlt in H. lia. }
            split; [|split].
            -- left. split; [reflexivity|]. rewrite Vz. rewrite <- Zle_Qle. assumption.
            -- intros _. exists f. reflexivity.
            -- intros N1 N2. exfalso. apply C4. split; assumption.
          * destruct (ceil_spec b0 Sb EN) as (c & C1 & C2 & C3 & C4).
            exists (inject_Z c). split; [assumption|].
            assert (Zc : z < c).
            { fold B in C2, C3. rewrite Vz in U.
              assert (inject_Z z < inject_Z c)%Q by lra.
              rewrite <- Zlt_Qlt in H. assumption. }
            split; [|split].
            -- right. split; [reflexivity|]. rewrite Vz. rewrite <- Zlt_Qlt. assumption.
            -- intros _. exists c. reflexivity.
            -- intros _ _. split; [reflexivity|]. rewrite Vz. rewrite <- Zlt_Qlt. assumption.
        + apply Z.ltb_ge in EN. exists B. split; [reflexivity|]. split; [assumption|]. split.
          * intros _. exists (dsigned b0 * 10 ^ dexp b0). apply dval_nonneg_exp_int; assumption.
          * intros N1 N2. exfalso. unfold dsafe in Sb. rewrite N1, N2 in Sb. discriminate Sb.
      - unfold hi. cbn [andb]. exists B. split; [reflexivity|]. split; [assumption|]. split; [discriminate|].
        intros N1 N2. exfalso. unfold dsafe in Sb. rewrite N1, N2 in Sb. discriminate Sb. }
    destruct LO as (LOq & ELo & L2 & IL). destruct HI as (HIq & EHi & U2 & IH & NZH).
    assert (Vd' : (dval d == HIq - LOq)%Q) by (rewrite Vd, EHi, ELo; ring).
    destruct (dneg d) eqn:ND.
    - (* negative difference *)
      pose proof (dneg_nonpos d ND) as NP.
      destruct (Qlt_le_dec (dval d) 0) as [Hlt|Hge].
      + destruct L2 as [[_ L2]|[_ L2]], U2 as [[_ U2]|[_ U2]]; lra.
      + assert (D0 : (dval d == 0)%Q) by lra.
        pose proof (dval_zero_coef d D0) as C0.
        destruct (NZ eq_refl C0) as (N1 & N2 & _ & _).
        destruct (NZH N1 N2) as [_ S]. destruct L2 as [[_ L2]|[_ L2]]; lra.
    - destruct (dec_int64 d) as [n|] eqn:EI; [|discriminate].
      pose proof (dec_int64_val d n EI) as Vn.
      destruct n as [|p|p]; try discriminate.
      + (* diff = 0 *)
        destruct (bop_eqb ox OGe && bop_eqb oy OLe) eqn:GE; [discriminate|].
        assert (D0 : (dval d == 0)%Q) by (rewrite Vn; reflexivity).
        destruct L2 as [[-> L2]|[-> L2]], U2 as [[-> U2]|[-> U2]]; try discriminate GE; lra.
      + destruct p as [p|p|]; try discriminate.
        * destruct p; discriminate.
        * (* diff = 1 *)
          destruct noFloat eqn:NF; [|discriminate].
          destruct (bop_eqb ox OGe && bop_eqb oy OLt); [discriminate|].
          destruct (bop_eqb ox OGt && bop_eqb oy OLe); [discriminate|].
          destruct (bop_eqb ox OGt && bop_eqb oy OLt) eqn:GT; [|discriminate].
          destruct (IL eq_refl) as (l & z & El & Ez). destruct (IH eq_refl) as (h & Eh).
          destruct L2 as [[-> L2]|[-> L2]]; [discriminate GT|].
          destruct U2 as [[-> U2]|[-> U2]]; [discriminate GT|].
          rewrite El, Ez in L2. rewrite Eh, Ez in U2.
          rewrite <- Zlt_Qlt in L2, U2.
          assert (E1 : (inject_Z (h - l) == inject_Z 1)%Q).
          { unfold Z.sub. rewrite inject_Z_plus, inject_Z_opp. rewrite <- Eh, <- El.
            fold (Qminus HIq LOq). rewrite <- Vd', Vn. reflexivity. }
          unfold Qeq in E1. cbn [Qnum Qden inject_Z] in E1. lia.
  Qed.

Definition keep_ok (r : sres) (a : atom) (x y : bound) (bot : Prop) : Prop :=
  match r with
  | SKeepX => satb a x = true -> satb a y = true
  | SKeepY => satb a y = true -> satb a x = true
  | SBottom => bot
  | SNone => True
  end.

Lemma simplify_num_cases : forall k x y a b, simplify_num k x y a b = SNone \/ simplify_num k x y a b = SBottom.
Proof.
  intros. unfold simplify_num.
  repeat match goal with
  | |- context [if ?c then _ else _] => destruct c
  | |- context [match ?c with _ => _ end] => destruct c
  end; auto.
Qed.

Lemma simplify_ordered_cases : forall c x y, simplify_ordered c x y = SNone \/ simplify_ordered c x y = SBottom.
Proof. intros. unfold simplify_ordered. destruct c; auto. destruct (_ && _); auto. Qed.

Ltac kill_kinds :=
  repeat match goal with
  | H : has (bound_kind _) _ = true |- _ => vm_compute in H; try discriminate H; clear H
  end.


Lemma has_num_kind : forall o xv d a, num_of xv = Some d -> has (bound_kind (mkbound o xv)) a = true ->
  exists da, num_of a = Some da.
Proof.
  intros o xv d a Hn H. destruct xv; try discriminate Hn; destruct a; vm_compute in H; try discriminate H; cbn; eauto.
Qed.

(* opposite directions, x the lower and y the upper bound, after the swap *)
Lemma opp_core : forall (safe : bool) k ox oy xv yv a,
  is_lower_op ox = true -> is_upper_op oy = true ->
  has k a = true -> has (bound_kind (mkbound ox xv)) a = true -> has (bound_kind (mkbound oy yv)) a = true ->
  (safe = true -> bsafe (mkbound ox xv) = true /\ bsafe (mkbound oy yv) = true) ->
  let r :=
    if (k =? StringKind)%N then
      match xv, yv with AStr s, AStr t => simplify_ordered (str_cmp s t) (mkbound ox xv) (mkbound oy yv) | _, _ => SNone end
    else if (k =? BytesKind)%N then
      match xv, yv with ABytes s, ABytes t => simplify_ordered (str_cmp s t) (mkbound ox xv) (mkbound oy yv) | _, _ => SNone end
    else match num_of xv, num_of yv with
         | Some a0, Some b0 => simplify_num k (mkbound ox xv) (mkbound oy yv) a0 b0
         | _, _ => SNone
         end in
  (r = SNone \/ r = SBottom) /\
  (r = SBottom -> safe = true -> satb a (mkbound ox xv) && satb a (mkbound oy yv) = false).
Proof.
  intros safe k ox oy xv yv a Hox Hoy Hk Hx Hy Hs r. subst r.
  destruct (k =? StringKind)%N.
  { destruct xv; try (split; [auto|discriminate]). destruct yv; try (split; [auto|discriminate]).
    split; [apply simplify_ordered_cases|]. intros E _.
    destruct a; try (vm_compute in Hx; discriminate Hx).
    unfold satb; cbn [b_op b_val].
    assert (nomatch ox = true) by (destruct ox; try discriminate Hox; reflexivity).
    assert (nomatch oy = true) by (destruct oy; try discriminate Hoy; reflexivity).
    replace (sat_bound re (AStr s1) ox (AStr s)) with (test_rel ox (str_cmp s1 s)) by (destruct ox; try discriminate; reflexivity).
    replace (sat_bound re (AStr s1) oy (AStr s0)) with (test_rel oy (str_cmp s1 s0)) by (destruct oy; try discriminate; reflexivity).
    apply (ordered_sound str str_cmp str_cmp_pre); assumption. }
  destruct (k =? BytesKind)%N.
  { destruct xv; try (split; [auto|discriminate]). destruct yv; try (split; [auto|discriminate]).
    split; [apply simplify_ordered_cases|]. intros E _.
    destruct a; try (vm_compute in Hx; discriminate Hx).
    unfold satb; cbn [b_op b_val].
    assert (nomatch ox = true) by (destruct ox; try discriminate Hox; reflexivity).
    assert (nomatch oy = true) by (destruct oy; try discriminate Hoy; reflexivity).
    replace (sat_bound re (ABytes s1) ox (ABytes s)) with (test_rel ox (str_cmp s1 s)) by (destruct ox; try discriminate; reflexivity).
    replace (sat_bound re (ABytes s1) oy (ABytes s0)) with (test_rel oy (str_cmp s1 s0)) by (destruct oy; try discriminate; reflexivity).
    apply (ordered_sound str str_cmp str_cmp_pre); assumption. }
  destruct (num_of xv) as [a0|] eqn:Nx; [|split; [auto|discriminate]].
  destruct (num_of yv) as [b0|] eqn:Ny; [|split; [auto|discriminate]].
  split; [apply simplify_num_cases|]. intros E Hsafe.
  destruct (Hs Hsafe) as [S1 S2].
  destruct (has_num_kind _ _ _ _ Nx Hx) as [da Na].
  unfold satb; cbn [b_op b_val].
  assert (nomatch ox = true) by (destruct ox; try discriminate Hox; reflexivity).
  assert (nomatch oy = true) by (destruct oy; try discriminate Hoy; reflexivity).
  rewrite (sat_num a xv da a0 ox Na Nx), (sat_num a yv da b0 oy Na Ny) by assumption.
  apply (simplify_num_sound k ox oy xv yv a0 b0 a da); try assumption.
  - eapply num_of_safe; [exact S1|exact Nx].
  - eapply num_of_safe; [exact S2|exact Ny].
Qed.

Lemma imp_and_swap : forall (P A B : Prop), (P -> A /\ B) -> (P -> B /\ A).
Proof. intros P A B H p. destruct (H p); split; assumption. Qed.

Ltac opp_xy safe k ox oy xv yv a Hk Hx Hy Hs :=
  destruct (opp_core safe k ox oy xv yv a eq_refl eq_refl Hk Hx Hy Hs) as [[C|C] B];
  unfold keep_ok;
  [ replace (simplify re k (mkbound ox xv) (mkbound oy yv)) with SNone by (symmetry; exact C); exact I
  | replace (simplify re k (mkbound ox xv) (mkbound oy yv)) with SBottom by (symmetry; exact C); exact (B C) ].

Ltac opp_yx safe k ox oy xv yv a Hk Hx Hy Hs :=
  destruct (opp_core safe k ox oy xv yv a eq_refl eq_refl Hk Hx Hy
              (imp_and_swap _ _ _ Hs)) as [[C|C] B];
  unfold keep_ok;
  [ replace (simplify re k (mkbound oy yv) (mkbound ox xv)) with SNone by (symmetry; exact C); exact I
  | replace (simplify re k (mkbound oy yv) (mkbound ox xv)) with SBottom by (symmetry; exact C);
    let h := fresh "h" in (intro h; rewrite andb_comm; exact (B C h)) ].

Lemma simplify_sound_gen : forall (safe : bool) k x y a,
  has k a = true -> has (bound_kind x) a = true -> has (bound_kind y) a = true ->
  (safe = true -> bsafe x = true /\ bsafe y = true) ->
  keep_ok (simplify re k x y) a x y (safe = true -> satb a x && satb a y = false).
Proof.
  intros safe k [ox xv] [oy yv] a Hk Hx Hy Hs.
  destruct ox, oy.
  all: try (opp_xy safe k OGt OLt xv yv a Hk Hx Hy Hs).
  all: try (opp_xy safe k OGt OLe xv yv a Hk Hx Hy Hs).
  all: try (opp_xy safe k OGe OLt xv yv a Hk Hx Hy Hs).
  all: try (opp_xy safe k OGe OLe xv yv a Hk Hx Hy Hs).
  all: try (opp_yx safe k OGt OLt yv xv a Hk Hy Hx Hs).
  all: try (opp_yx safe k OGt OLe yv xv a Hk Hy Hx Hs).
  all: try (opp_yx safe k OGe OLt yv xv a Hk Hy Hx Hs).
  all: try (opp_yx safe k OGe OLe yv xv a Hk Hy Hx Hs).
  all: try exact I.
  all: destruct a, xv, yv; try (vm_compute in Hx; discriminate Hx); try (vm_compute in Hy; discriminate Hy).
  all: try exact I.
  all: try (lazymatch goal with
  | |- keep_ok (simplify _ ?k {| b_op := ?ox; b_val := ?xv |} {| b_op := ?oy; b_val := ?yv |}) ?a _ _ ?P =>
    first
    [ lazymatch eval cbn in (num_of a, num_of xv, num_of yv) with
      | (Some ?da, Some ?dx, Some ?dy) => exact (abs_sound dec dcmp dcmp_total_pre P ox oy da dx dy eq_refl eq_refl)
      end
    | lazymatch constr:((a, xv, yv)) with
      | (AStr ?s, AStr ?t, AStr ?u) => exact (abs_sound str str_cmp str_cmp_pre P ox oy s t u eq_refl eq_refl)
      | (ABytes ?s, ABytes ?t, ABytes ?u) => exact (abs_sound str str_cmp str_cmp_pre P ox oy s t u eq_refl eq_refl)
      end ]
  end).
  all: clear Hx Hy Hs Hk.
  all: unfold keep_ok; cbn.
  all: try (intros; reflexivity).
  all: try (let H := fresh in intro H; discriminate H).
  all: try (repeat match goal with b : bool |- _ => destruct b end; cbn; try exact I; try (intros; reflexivity); try (let H := fresh in intros H; discriminate H); fail).
  all: repeat match goal with
       | |- context [str_cmp ?x ?y] =>
         let E := fresh "E" in destruct (str_cmp x y) eqn:E; [apply str_cmp_eq in E; subst|idtac|idtac]
       end.
  all: repeat match goal with |- context [re ?p ?s] => destruct (re p s) eqn:? end.
  all: repeat match goal with |- context [dcmp ?x ?y] => destruct (dcmp x y) end.
  all: cbn in *; try exact I; intros; try reflexivity; try discriminate; try congruence.
Qed.


  (* SimplifyBounds is sound for every decimal, string and byte operand:
     an operand is returned only if it implies the other one; bottom only if no
     atom of the node's kind satisfies both (for rounding-safe operands) *)
  Theorem simplify_sound : forall k x y a,
    has k a = true -> has (bound_kind x) a = true -> has (bound_kind y) a = true ->
    bsafe x = true -> bsafe y = true ->
    match simplify re k x y with
    | SKeepX => satb a x = satb a x && satb a y
    | SKeepY => satb a y = satb a x && satb a y
    | SBottom => satb a x && satb a y = false
    | SNone => True
    end.
  Proof.
    intros k x y a Hk Hx Hy Sx Sy.
    pose proof (simplify_sound_gen true k x y a Hk Hx Hy (fun _ => Logic.conj Sx Sy)) as H.
    unfold keep_ok in H. destruct (simplify re k x y); auto.
    - destruct (satb a x); [rewrite H by reflexivity|]; reflexivity.
    - destruct (satb a y); [rewrite H by reflexivity; reflexivity|]. symmetry; apply andb_false_r.
  Qed.

  (* without any side condition an operand is dropped only when it is implied *)
  Theorem simplify_keep_sound : forall k x y a,
    has k a = true -> has (bound_kind x) a = true -> has (bound_kind y) a = true ->
    match simplify re k x y with
    | SKeepX => satb a x = true -> satb a y = true
    | SKeepY => satb a y = true -> satb a x = true
    | _ => True
    end.
  Proof.
    intros k x y a Hk Hx Hy.
    pose proof (simplify_sound_gen false k x y a Hk Hx Hy (fun h => False_ind _ (Bool.diff_false_true h))) as H.
    unfold keep_ok in H. destruct (simplify re k x y); auto.
  Qed.
End WithRegexp.
