(* C03 - specification layer: atoms, scalar constraints and their set semantics.

   This file is the meaning the property text gives to a conjunction of scalar
   constraints, independent of how cue-lang/cue evaluates it:

     - atoms are null, booleans, integers, decimal floats, strings, bytes;
       int and float literals are distinct kinds;
     - a basic type denotes all atoms of that kind (number = int or float);
     - a bound [op v] denotes every atom [x] of the kind family of [v] (any
       number when [v] is a number) with [x op v]; [!=null] denotes every
       non-null atom; numbers are compared by exact decimal value, strings and
       bytes bytewise;
     - predeclared ranges are the bound pairs of doc/ref/spec.md
       (Predeclared identifiers) restricted to int for the integer ranges;
     - a conjunction denotes the intersection.

   Everything is executable.  Decimals are (sign, coefficient, exponent), the
   finite form of apd.Decimal; no rounding happens anywhere in this file. *)
From Coq Require Import List ZArith NArith Bool.
From Verif Require Import Base.Order.
Import ListNotations.
Open Scope Z_scope.

Definition str := list N.

(* ------------------------------------------------------------ decimals -- *)

Record dec := mkdec { dneg : bool; dcoef : N; dexp : Z }.

(* signed coefficient *)
Definition dsigned (d : dec) : Z :=
  if dneg d then - Z.of_N (dcoef d) else Z.of_N (dcoef d).

(* the value of d in units of 10^e, for e <= dexp d *)
Definition dscale (d : dec) (e : Z) : Z := dsigned d * 10 ^ (dexp d - e).

(* exact comparison of values: align to the smaller exponent, compare integers *)
Definition dcmp (x y : dec) : comparison :=
  let e := Z.min (dexp x) (dexp y) in Z.compare (dscale x e) (dscale y e).

Definition dec_of_Z (z : Z) : dec := mkdec (z <? 0) (Z.abs_N z) 0.

(* --------------------------------------------------------------- atoms -- *)

Inductive atom :=
| ANull
| ABool (b : bool)
| AInt (z : Z)
| AFloat (d : dec)
| AStr (s : str)
| ABytes (s : str).

Definition num_of (a : atom) : option dec :=
  match a with
  | AInt z => Some (dec_of_Z z)
  | AFloat d => Some d
  | _ => None
  end.

Definition str_cmp (s t : str) : comparison := list_cmp N.compare s t.

(* ordering between two atoms of one ordered family (number, string, bytes) *)
Definition acmp (a b : atom) : option comparison :=
  match a, b with
  | AStr s, AStr t => Some (str_cmp s t)
  | ABytes s, ABytes t => Some (str_cmp s t)
  | _, _ =>
    match num_of a, num_of b with
    | Some x, Some y => Some (dcmp x y)
    | _, _ => None
    end
  end.

(* same atom: same kind (int and float are different kinds) and same value *)
Definition atom_eqb (a b : atom) : bool :=
  match a, b with
  | ANull, ANull => true
  | ABool x, ABool y => Bool.eqb x y
  | AInt x, AInt y => Z.eqb x y
  | AFloat x, AFloat y => match dcmp x y with Eq => true | _ => false end
  | AStr s, AStr t => match str_cmp s t with Eq => true | _ => false end
  | ABytes s, ABytes t => match str_cmp s t with Eq => true | _ => false end
  | _, _ => false
  end.

(* --------------------------------------------------------- constraints -- *)

Inductive btype := TNull | TBool | TInt | TFloat | TNumber | TString | TBytes.

Inductive bop := OLt | OLe | OGt | OGe | ONe | OMatch | ONMatch.

Inductive prange :=
| RUint | RUint8 | RInt8 | RUint16 | RInt16 | RRune | RUint32 | RInt32
| RUint64 | RInt64 | RUint128 | RInt128 | RFloat32 | RFloat64.

(* elementary conjuncts *)
Inductive conj :=
| KAtom (a : atom)
| KType (t : btype)
| KBound (o : bop) (v : atom).

Inductive constr :=
| CElem (c : conj)
| CRange (r : prange).

Definition in_type (a : atom) (t : btype) : bool :=
  match t, a with
  | TNull, ANull => true
  | TBool, ABool _ => true
  | TInt, AInt _ => true
  | TFloat, AFloat _ => true
  | TNumber, AInt _ => true
  | TNumber, AFloat _ => true
  | TString, AStr _ => true
  | TBytes, ABytes _ => true
  | _, _ => false
  end.

Definition test_rel (o : bop) (c : comparison) : bool :=
  match o, c with
  | OLt, Lt => true
  | OLe, Lt => true
  | OLe, Eq => true
  | OGt, Gt => true
  | OGe, Gt => true
  | OGe, Eq => true
  | ONe, Lt => true
  | ONe, Gt => true
  | _, _ => false
  end.

Section WithRegexp.
  (* [re_match pattern subject]: the regular-expression oracle (Go regexp). *)
  Variable re_match : str -> str -> bool.

  (* x op v, including the kind restriction a bound carries *)
  Definition sat_bound (a : atom) (o : bop) (v : atom) : bool :=
    match o with
    | OMatch => match a, v with AStr s, AStr p => re_match p s | _, _ => false end
    | ONMatch => match a, v with AStr s, AStr p => negb (re_match p s) | _, _ => false end
    | ONe =>
      match v with
      | ANull => match a with ANull => false | _ => true end
      | ABool y => match a with ABool x => negb (Bool.eqb x y) | _ => false end
      | _ => match acmp a v with Some c => test_rel ONe c | None => false end
      end
    | _ => match acmp a v with Some c => test_rel o c | None => false end
    end.

  Definition sat1 (a : atom) (c : conj) : bool :=
    match c with
    | KAtom b => atom_eqb a b
    | KType t => in_type a t
    | KBound o v => sat_bound a o v
    end.

  (* doc/ref/spec.md, Predeclared identifiers (integer ranges are ranges of int,
     float32/float64 are ranges of number). *)
  Definition int_range (lo : option Z) (hi : option Z) : list conj :=
    KType TInt ::
    (match lo with Some l => [KBound OGe (AInt l)] | None => [] end) ++
    (match hi with Some h => [KBound OLe (AInt h)] | None => [] end).

  Definition float32_max : dec := mkdec false 340282346638528859811704183484516925440 0.
  Definition float32_min : dec := mkdec true 340282346638528859811704183484516925440 0.
  Definition float64_max : dec := mkdec false 1797693134862315708145274237317043567981 269.
  Definition float64_min : dec := mkdec true 1797693134862315708145274237317043567981 269.

  Definition range_def (r : prange) : list conj :=
    match r with
    | RUint => int_range (Some 0) None
    | RUint8 => int_range (Some 0) (Some 255)
    | RInt8 => int_range (Some (-128)) (Some 127)
    | RUint16 => int_range (Some 0) (Some 65535)
    | RInt16 => int_range (Some (-32768)) (Some 32767)
    | RRune => int_range (Some 0) (Some 1114111)
    | RUint32 => int_range (Some 0) (Some 4294967295)
    | RInt32 => int_range (Some (-2147483648)) (Some 2147483647)
    | RUint64 => int_range (Some 0) (Some 18446744073709551615)
    | RInt64 => int_range (Some (-9223372036854775808)) (Some 9223372036854775807)
    | RUint128 => int_range (Some 0) (Some 340282366920938463463374607431768211455)
    | RInt128 => int_range (Some (-170141183460469231731687303715884105728))
                           (Some 170141183460469231731687303715884105727)
    | RFloat32 => [KBound OGe (AFloat float32_min); KBound OLe (AFloat float32_max)]
    | RFloat64 => [KBound OGe (AFloat float64_min); KBound OLe (AFloat float64_max)]
    end.

  Definition sat (a : atom) (c : constr) : bool :=
    match c with
    | CElem e => sat1 a e
    | CRange r => forallb (sat1 a) (range_def r)
    end.

  (* the denotation of a conjunction: intersection *)
  Definition sat_all (a : atom) (cs : list constr) : bool := forallb (sat a) cs.

  Definition flatten (cs : list constr) : list conj :=
    flat_map (fun c => match c with CElem e => [e] | CRange r => range_def r end) cs.
End WithRegexp.
