(* C03 - implementation-faithful model of how cue-lang/cue accumulates scalar
   conjuncts in one node:

     internal/core/adt/kind.go        Kind bit masks
     internal/core/adt/expr.go        BoundExpr.evaluate, BoundValue.Kind, BoundValue.validate
     internal/core/adt/binop.go       BinOp (comparison part), cmpTonode, BinOpBool
     internal/core/adt/simplify.go    SimplifyBounds, opInfo
     internal/core/adt/conjunct.go    scheduleConjunct (Value now / Evaluator as task),
                                      insertValueConjunct (scalar, lowerBound, upperBound, checks)
     internal/core/adt/eval.go        updateNodeType, validateValue
     internal/core/adt/unify.go       validation of n.checks against the final scalar
     internal/core/compile/predeclared.go   uint8, int32, float64, ... as conjunctions
     github.com/cockroachdb/apd/v3    Context.Add/Sub/Ceil/Floor at precision 34 (round half up),
                                      Decimal.Modf/Sign/Int64  (third party: modelled, validated by the tie)

   Go functions are named in comments next to the definition that follows them.
   No proofs in this file. *)
From Coq Require Import List ZArith NArith Bool.
From Verif Require Import Base.Order Scalar.Spec.
Import ListNotations.
Open Scope Z_scope.

(* ------------------------------------------------------- kind.go: Kind -- *)

Definition NullKind : N := 1.
Definition BoolKind : N := 2.
Definition IntKind : N := 4.
Definition FloatKind : N := 8.
Definition StringKind : N := 16.
Definition BytesKind : N := 32.
Definition FuncKind : N := 64.
Definition ListKind : N := 128.
Definition StructKind : N := 256.
Definition BottomKind : N := 0.
Definition NumberKind : N := 12.
Definition TopKind : N := 511.
Definition CompositeKind : N := 384.

Definition atom_kind (a : atom) : N :=
  match a with
  | ANull => NullKind
  | ABool _ => BoolKind
  | AInt _ => IntKind
  | AFloat _ => FloatKind
  | AStr _ => StringKind
  | ABytes _ => BytesKind
  end.

Definition type_kind (t : btype) : N :=
  match t with
  | TNull => NullKind
  | TBool => BoolKind
  | TInt => IntKind
  | TFloat => FloatKind
  | TNumber => NumberKind
  | TString => StringKind
  | TBytes => BytesKind
  end.

(* ------------------------------------------- apd: the decimal machinery -- *)

Definition pow10N (e : Z) : N := N.pow 10 (Z.to_N e).

(* apd.NumDigits (1 for zero) *)
Fixpoint ndigits_aux (fuel : nat) (n : N) : Z :=
  match fuel with
  | O => 1
  | S f => if (n <? 10)%N then 1 else 1 + ndigits_aux f (n / 10)%N
  end.
Definition ndigits (n : N) : Z := ndigits_aux (N.size_nat n) n.

(* Decimal.Sign *)
Definition dec_sign (d : dec) : Z :=
  if (dcoef d =? 0)%N then 0 else if dneg d then -1 else 1.

Definition PREC : Z := 34.            (* internal.BaseContext = apd.BaseContext.WithPrecision(34) *)
Definition MAXEXP : Z := 100000.      (* apd.MaxExponent *)

(* Rounder.Round with RoundHalfUp on a non-negative coefficient:
   returns (coefficient, exponent increment, Inexact). *)
Definition round34 (c : N) : N * Z * bool :=
  let nd := ndigits c in
  if nd <=? PREC then (c, 0, false)
  else
    let diff := nd - PREC in
    let p := pow10N diff in
    let q := (c / p)%N in
    let m := (c mod p)%N in
    if (m =? 0)%N then (q, diff, false)
    else
      (* ShouldAddOne: discard.Cmp(0.5) >= 0 *)
      let q' := if (p <=? 2 * m)%N then (q + 1)%N else q in
      (* roundAddOne: one more digit -> drop it *)
      if ndigits q <? ndigits q' then ((q' / 10)%N, diff + 1, true) else (q', diff, true).

(* Context.add (Add when subtract = false, Sub when true), finite operands.
   None: upscale fails (exponents more than MaxExponent apart) -> err != nil.
   Some (d, inexact).  Overflow/Subnormal conditions (|adjusted exponent| beyond
   MaxExponent) are outside the modelled domain. *)
Definition ctx_add (x y : dec) (subtract : bool) : option (dec * bool) :=
  let xn := dneg x in
  let yn := xorb (dneg y) subtract in
  let ex := dexp x in
  let ey := dexp y in
  if MAXEXP <? Z.abs (ex - ey) then None
  else
    let s := Z.min ex ey in
    let a := (dcoef x * pow10N (ex - s))%N in
    let b := (dcoef y * pow10N (ey - s))%N in
    let '(neg, c) :=
        if Bool.eqb xn yn then (xn, (a + b)%N)
        else match N.compare a b with
             | Gt => (xn, (a - b)%N)
             | Lt => (negb xn, (b - a)%N)
             | Eq => (false, 0%N)          (* Rounding != RoundFloor *)
             end in
    let '(c', sh, inexact) := round34 c in
    Some (mkdec neg c' (s + sh), inexact).

Definition dec_one : dec := mkdec false 1 0.

(* Decimal.Modf for Exponent < 0: truncated integral part (exponent 0, sign of d)
   and whether the fractional part is non-zero.  (apd has three code paths -
   exponent > 0, -exponent > NumDigits, QuoRem - that all compute this.) *)
Definition dec_modf (d : dec) : dec * bool :=
  let p := pow10N (- dexp d) in
  (mkdec (dneg d) (dcoef d / p)%N 0, negb ((dcoef d mod p) =? 0)%N).

(* Context.Ceil: Modf; if frac.Sign() > 0 then c.Add(d, d, 1).  The condition
   and error of Add are ignored by SimplifyBounds, the (rounded) d is used. *)
Definition ctx_ceil (x : dec) : dec :=
  let '(i, fnz) := dec_modf x in
  if fnz && negb (dneg x) then
    match ctx_add i dec_one false with Some (d, _) => d | None => i end
  else i.

(* Context.Floor: Modf; if frac.Sign() < 0 then c.Sub(d, d, 1). *)
Definition ctx_floor (x : dec) : dec :=
  let '(i, fnz) := dec_modf x in
  if fnz && dneg x then
    match ctx_add i dec_one true with Some (d, _) => d | None => i end
  else i.

(* Decimal.Int64 on a non-negative d: Some v when d is integral and fits. *)
Definition MAXINT64 : Z := 9223372036854775807.
Definition dec_int64 (d : dec) : option Z :=
  if 0 <=? dexp d then
    let v := Z.of_N (dcoef d) * 10 ^ dexp d in
    if MAXINT64 <? v then None else Some (if dneg d then - v else v)
  else
    let p := pow10N (- dexp d) in
    if ((dcoef d mod p) =? 0)%N then
      let v := Z.of_N (dcoef d / p) in
      if MAXINT64 <? v then None else Some (if dneg d then - v else v)
    else None.

(* ------------------------------------------------------------- bounds -- *)

Record bound := mkbound { b_op : bop; b_val : atom }.

Definition bop_eqb (a b : bop) : bool :=
  match a, b with
  | OLt, OLt | OLe, OLe | OGt, OGt | OGe, OGe | ONe, ONe | OMatch, OMatch | ONMatch, ONMatch => true
  | _, _ => false
  end.

(* expr.go BoundValue.Kind *)
Definition bound_kind (x : bound) : N :=
  match b_val x with
  | AInt _ | AFloat _ => NumberKind
  | ANull => if bop_eqb (b_op x) ONe then (TopKind - NullKind)%N else NullKind
  | a => atom_kind a
  end.

(* simplify.go opInfo *)
Definition op_info (o : bop) : bop * Z :=
  match o with
  | OGt => (OGe, 1)
  | OGe => (OGt, 1)
  | OLt => (OLe, -1)
  | OLe => (OLt, -1)
  | ONe => (ONe, 0)
  | OMatch => (OMatch, 2)
  | ONMatch => (ONMatch, 3)
  end.

(* binop.go cmpTonode, r = -1/0/1 as Lt/Eq/Gt *)
Definition cmp_to_bool (o : bop) (c : comparison) : bool :=
  match o with
  | OLt => match c with Lt => true | _ => false end
  | OLe => match c with Gt => false | _ => true end
  | OGe => match c with Lt => false | _ => true end
  | OGt => match c with Gt => true | _ => false end
  | ONe => match c with Eq => false | _ => true end
  | _ => false
  end.

Inductive sres := SKeepX | SKeepY | SNone | SBottom.

Section WithRegexp.
  Variable re_match : str -> str -> bool.

  (* BinOpBool(ctx, node, EqualOp, l, r) *)
  Definition equal_bool (l r : atom) : bool :=
    match num_of l, num_of r with
    | Some x, Some y => match dcmp x y with Eq => true | _ => false end
    | _, _ =>
      match l, r with
      | ANull, ANull => true
      | ABool x, ABool y => Bool.eqb x y
      | AStr s, AStr t => match str_cmp s t with Eq => true | _ => false end
      | ABytes s, ABytes t => match str_cmp s t with Eq => true | _ => false end
      | _, _ => false                      (* leftKind != rightKind *)
      end
    end.

  (* BinOpBool(ctx, node, op, l, r) for the comparison operators of bounds.
     An operand mismatch makes BinOp return an error, BinOpBool false. *)
  Definition binop_bool (o : bop) (l r : atom) : bool :=
    match o with
    | OLt | OLe | OGt | OGe =>
      match l, r with
      | AStr s, AStr t => cmp_to_bool o (str_cmp s t)
      | ABytes s, ABytes t => cmp_to_bool o (str_cmp s t)
      | _, _ =>
        match num_of l, num_of r with
        | Some x, Some y => cmp_to_bool o (dcmp x y)
        | _, _ => false
        end
      end
    | ONe =>
      match num_of l, num_of r with
      | Some x, Some y => cmp_to_bool ONe (dcmp x y)
      | _, _ =>
        match l, r with
        | ANull, ANull => false
        | ABool x, ABool y => negb (Bool.eqb x y)
        | AStr s, AStr t => cmp_to_bool ONe (str_cmp s t)
        | ABytes s, ABytes t => cmp_to_bool ONe (str_cmp s t)
        | _, _ => true                     (* leftKind != rightKind: StructCmp or a null operand *)
        end
      end
    | OMatch => match l, r with AStr s, AStr p => re_match p s | _, _ => false end
    | ONMatch => match l, r with AStr s, AStr p => negb (re_match p s) | _, _ => false end
    end.

  (* expr.go BoundValue.validate: BinOp(c, x, x.Op, value, x.Value) must be true *)
  Definition validate (x : bound) (v : atom) : bool := binop_bool (b_op x) v (b_val x).

  (* the string / bytes arm of SimplifyBounds, x the lower and y the upper bound *)
  Definition simplify_ordered (c : comparison) (x y : bound) : sres :=
    match c with
    | Lt => SNone
    | Eq => if bop_eqb (b_op x) OGe && bop_eqb (b_op y) OLe then SNone else SBottom
    | Gt => SBottom
    end.

  (* the numeric arm of SimplifyBounds, x the lower and y the upper bound *)
  Definition simplify_num (k : N) (x y : bound) (a b : dec) : sres :=
    let noFloat := (N.land k FloatKind =? 0)%N in
    let lo :=
        if noFloat && (dexp a <? 0) then
          (if bop_eqb (b_op x) OGe then ctx_ceil a else ctx_floor a)
        else a in
    let hi :=
        if noFloat && (dexp b <? 0) then
          (if bop_eqb (b_op y) OLe then ctx_floor b else ctx_ceil b)
        else b in
    (* fast path: lo <= 0 and hi >= 10 *)
    if (0 <? dec_sign hi) && (dec_sign lo <=? 0) && (0 <=? dexp hi) && (10 <=? dcoef hi)%N then SNone
    else
      match ctx_add hi lo true with
      | None => SNone                                    (* err != nil *)
      | Some (_, true) => SNone                          (* cond.Inexact() *)
      | Some (d, false) =>
        if dneg d then SBottom                           (* errIncompatibleBounds *)
        else
          match dec_int64 d with
          | Some 1 =>
            if noFloat then
              if bop_eqb (b_op x) OGe && bop_eqb (b_op y) OLt then SNone
              else if bop_eqb (b_op x) OGt && bop_eqb (b_op y) OLe then SNone
              else if bop_eqb (b_op x) OGt && bop_eqb (b_op y) OLt then SBottom
              else SNone
            else SNone
          | Some 2 => SNone
          | Some 0 =>
            if bop_eqb (b_op x) OGe && bop_eqb (b_op y) OLe then SNone else SBottom
          | _ => SNone
          end
      end.

  (* simplify.go SimplifyBounds(ctx, k, x, y): which of x / y / nil / bottom it returns *)
  Definition simplify (k : N) (x y : bound) : sres :=
    let xv := b_val x in
    let yv := b_val y in
    let '(cmp, xc) := op_info (b_op x) in
    let '(_, yc) := op_info (b_op y) in
    if xc =? yc then
      match b_op x with
      | ONe | OMatch | ONMatch => if equal_bool xv yv then SKeepX else SNone
      | _ => if binop_bool cmp xv yv then SKeepX else SKeepY
      end
    else if (xc =? - yc) && (k =? StringKind)%N then
      let '(x', y') := if xc =? -1 then (y, x) else (x, y) in
      match b_val x', b_val y' with
      | AStr a, AStr b => simplify_ordered (str_cmp a b) x' y'
      | _, _ => SNone
      end
    else if (xc =? - yc) && (k =? BytesKind)%N then
      let '(x', y') := if xc =? -1 then (y, x) else (x, y) in
      match b_val x', b_val y' with
      | ABytes a, ABytes b => simplify_ordered (str_cmp a b) x' y'
      | _, _ => SNone
      end
    else if xc =? - yc then
      let '(x', y') := if xc =? -1 then (y, x) else (x, y) in
      match num_of (b_val x'), num_of (b_val y') with
      | Some a, Some b => simplify_num k x' y' a b
      | _, _ => SNone
      end
    else if bop_eqb (b_op x) ONe then
      if negb (binop_bool (b_op y) xv yv) then SKeepY else SNone
    else if bop_eqb (b_op y) ONe then
      if negb (binop_bool (b_op x) yv xv) then SKeepX else SNone
    else SNone.

  (* ------------------------------------------- the node's accumulator -- *)

  (* what reaches insertValueConjunct *)
  Inductive vconj :=
  | VAtom (a : atom)
  | VType (k : N)
  | VBound (b : bound)
  | VBottom.

  Record state := mkstate {
    s_kind : N;
    s_scalar : option atom;
    s_lower : option bound;
    s_upper : option bound;
    s_checks : list bound;
    s_err : bool }.

  Definition init : state := mkstate TopKind None None None [] false.

  Definition set_err (s : state) : state :=
    mkstate (s_kind s) (s_scalar s) (s_lower s) (s_upper s) (s_checks s) true.

  Definition vkind (v : vconj) : N :=
    match v with
    | VAtom a => atom_kind a
    | VType k => k
    | VBound b => bound_kind b
    | VBottom => BottomKind
    end.

  (* eval.go updateNodeType: new state and its boolean result *)
  Definition update_node_type (s : state) (k : N) : state * bool :=
    let kind := N.land (s_kind s) k in
    if (s_kind s =? BottomKind)%N || (k =? BottomKind)%N then (s, false)
    else if negb (kind =? BottomKind)%N then
      (mkstate kind (s_scalar s) (s_lower s) (s_upper s) (s_checks s) (s_err s), true)
    else
      (* reportConflict / "mismatched types" *)
      (mkstate kind (s_scalar s) (s_lower s) (s_upper s) (s_checks s) true, false).

  (* the tail of insertValueConjunct: lower and upper are simplified again *)
  Definition resimplify (s : state) : state :=
    match s_lower s, s_upper s with
    | Some l, Some u =>
      match simplify (s_kind s) l u with
      | SNone => s
      | SBottom => mkstate (s_kind s) (s_scalar s) None None (s_checks s) true
      (* SimplifyBounds never returns an operand for opposite directions; the
         re-insertion of that operand into the emptied slots would give: *)
      | SKeepX => mkstate (s_kind s) (s_scalar s) (Some l) None (s_checks s) (s_err s)
      | SKeepY => mkstate (s_kind s) (s_scalar s) None (Some u) (s_checks s) (s_err s)
      end
    | _, _ => s
    end.

  Definition is_lower_op (o : bop) : bool := bop_eqb o OGt || bop_eqb o OGe.
  Definition is_rel_op (o : bop) : bool :=
    bop_eqb o OLt || bop_eqb o OLe || bop_eqb o OGt || bop_eqb o OGe.

  Definition set_slot (s : state) (lower : bool) (b : option bound) : state :=
    if lower then mkstate (s_kind s) (s_scalar s) b (s_upper s) (s_checks s) (s_err s)
    else mkstate (s_kind s) (s_scalar s) (s_lower s) b (s_checks s) (s_err s).

  (* slices.DeleteFunc over n.checks with SimplifyBounds(ctx, n.kind, x, y):
     result y -> match = true (x is implied); result x -> delete y *)
  Fixpoint dedup_checks (k : N) (x : bound) (cs : list bound) : list bound * bool :=
    match cs with
    | [] => ([], false)
    | y :: r =>
      let '(r', m) := dedup_checks k x r in
      match simplify k x y with
      | SKeepY => (y :: r', true)
      | SKeepX => (r', m)
      | _ => (y :: r', m)
      end
    end.

  (* conjunct.go insertValueConjunct, scalar fragment *)
  Definition insert (s : state) (v : vconj) : state :=
    match v with
    | VBottom => set_err s                                          (* case *Bottom: n.addBottom(x) *)
    | _ =>
      let '(s1, ok) := update_node_type s (vkind v) in
      if negb ok then s1
      else
        match v with
        | VBottom => s1
        | VType _ => resimplify s1                                   (* case *BasicType *)
        | VBound x =>
          if is_rel_op (b_op x) then
            let lower := is_lower_op (b_op x) in
            let slot := if lower then s_lower s1 else s_upper s1 in
            match slot with
            | Some y =>
              match simplify (s_kind s1) x y with
              (* v != nil: *bound = nil; insertValueConjunct(v): the slot is free now *)
              | SKeepX => resimplify (set_slot s1 lower (Some x))
              | SKeepY => resimplify (set_slot s1 lower (Some y))
              | SBottom => set_err (set_slot s1 lower None)
              | SNone => resimplify (set_slot s1 lower (Some x))    (* *bound = x *)
              end
            | None => resimplify (set_slot s1 lower (Some x))
            end
          else
            (* NotEqualOp, MatchOp, NotMatchOp: n.checks; returns before the tail *)
            let '(cs, m) := dedup_checks (s_kind s1) x (s_checks s1) in
            mkstate (s_kind s1) (s_scalar s1) (s_lower s1) (s_upper s1)
                    (if m then cs else cs ++ [x]) (s_err s1)
        | VAtom a =>                                                 (* case Value: scalar *)
          match s_scalar s1 with
          | Some y =>
            if equal_bool a y then resimplify s1
            else resimplify (set_err s1)                             (* reportConflict *)
          | None =>
            resimplify (mkstate (s_kind s1) (Some a) (s_lower s1) (s_upper s1) (s_checks s1) (s_err s1))
          end
        end
    end.

  Definition opt_validate (b : option bound) (v : atom) : bool :=
    match b with Some x => validate x v | None => true end.

  Inductive verdict := RBottom | RIncomplete | RAtom (a : atom).

  (* eval.go validateValue (lowerBound, upperBound against the concrete value),
     unify.go (n.checks against the concrete value), then the observable *)
  Definition finish (s : state) : verdict :=
    match s_scalar s with
    | Some v =>
      if s_err s then RBottom
      else if opt_validate (s_lower s) v && opt_validate (s_upper s) v
              && forallb (fun c => validate c v) (s_checks s)
           then RAtom v else RBottom
    | None => if s_err s then RBottom else RIncomplete
    end.

  (* ------------------------------------ from syntax to inserted values -- *)

  (* expr.go BoundExpr.evaluate: null and bool operands only with != *)
  Definition eval_bound (o : bop) (v : atom) : vconj :=
    match v with
    | ANull | ABool _ => if bop_eqb o ONe then VBound (mkbound o v) else VBottom
    | _ => VBound (mkbound o v)
    end.

  Definition vconj_of (c : conj) : vconj :=
    match c with
    | KAtom a => VAtom a
    | KType TNull => VAtom ANull                 (* predeclared null is the value *)
    | KType t => VType (type_kind t)
    | KBound o v => eval_bound o v
    end.

  (* conjunct.go scheduleConjunct: a Value is inserted at once, an Evaluator
     (BoundExpr, UnaryExpr of a negative number) becomes a task; tasks run in
     FIFO order after the immediate insertions. *)
  Definition is_neg_num (a : atom) : bool :=
    match a with
    | AInt z => z <? 0
    | AFloat d => dneg d
    | _ => false
    end.

  Definition deferred (c : constr) : bool :=
    match c with
    | CElem (KBound _ _) => true
    | CElem (KAtom a) => is_neg_num a
    | _ => false
    end.

  Definition values_of (c : constr) : list vconj :=
    match c with
    | CElem e => [vconj_of e]
    | CRange r => map vconj_of (range_def r)      (* predeclared.go mkIntRange/mkUint/mkFloatRange *)
    end.

  Definition schedule (cs : list constr) : list vconj :=
    flat_map values_of (filter (fun c => negb (deferred c)) cs) ++
    flat_map values_of (filter deferred cs).

  Definition accumulate (vs : list vconj) : state := fold_left insert vs init.

  (* evaluate the expression  c1 & c2 & ... & cn *)
  Definition run (cs : list constr) : verdict := finish (accumulate (schedule cs)).

  (* cue.Value.Unify(expr, atom) re-schedules the conjuncts of both vertices
     (composite.go Unify/addConjuncts, scheduleVertexConjuncts), i.e. it is
     [run (cs ++ [CElem (KAtom a)])] again. *)
  Definition run_with (cs : list constr) (a : atom) : verdict := run (cs ++ [CElem (KAtom a)]).
End WithRegexp.
