(* C03 - the decimal layer: the value of a (sign, coefficient, exponent) decimal
   as a rational, and what the modelled apd operations compute in terms of it. *)
From Coq Require Import List ZArith NArith Bool Lia QArith Qpower Lqa.
From Verif Require Import Base.Order Scalar.Spec Scalar.Model.
Import ListNotations.
Open Scope Z_scope.

(* ------------------------------------------------------------ powers -- *)

Definition p10 (e : Z) : Q := Qpower (inject_Z 10) e.

Lemma ten_neq0 : ~ (inject_Z 10 == 0)%Q.
Proof. intro H. discriminate H. Qed.

Lemma p10_pos : forall e, (0 < p10 e)%Q.
Proof. intros; apply Qpower_0_lt. reflexivity. Qed.

Lemma p10_add : forall a b, (p10 (a + b) == p10 a * p10 b)%Q.
Proof. intros; apply Qpower_plus. exact ten_neq0. Qed.

Lemma p10_Z : forall n, 0 <= n -> (p10 n == inject_Z (10 ^ n))%Q.
Proof. intros. unfold p10. symmetry. apply Zpower_Qpower. assumption. Qed.

Lemma p10_0 : (p10 0 == 1)%Q.
Proof. reflexivity. Qed.

Lemma pow10_pos : forall n, 0 <= n -> 0 < 10 ^ n.
Proof. intros; apply Z.pow_pos_nonneg; lia. Qed.

Lemma pow10N_Z : forall e, 0 <= e -> Z.of_N (pow10N e) = 10 ^ e.
Proof.
  intros e H. unfold pow10N. rewrite N2Z.inj_pow. rewrite Z2N.id by assumption. reflexivity.
Qed.

Lemma pow10N_pos : forall e, (0 < pow10N e)%N.
Proof.
  intros. unfold pow10N. apply N.neq_0_lt_0. apply N.pow_nonzero. discriminate.
Qed.

(* ------------------------------------------------------------- value -- *)

Definition dval (d : dec) : Q := (inject_Z (dsigned d) * p10 (dexp d))%Q.

Lemma dscale_val : forall d e, e <= dexp d -> (inject_Z (dscale d e) * p10 e == dval d)%Q.
Proof.
  intros d e H. unfold dscale, dval.
  rewrite inject_Z_mult. rewrite <- p10_Z by lia.
  rewrite <- Qmult_assoc. rewrite <- p10_add.
  replace (dexp d - e + e) with (dexp d) by lia. reflexivity.
Qed.

Lemma dval_of_Z : forall z, (dval (dec_of_Z z) == inject_Z z)%Q.
Proof.
  intros z. unfold dval, dec_of_Z, dsigned; cbn [dneg dcoef dexp].
  rewrite p10_0, Qmult_1_r.
  destruct (z <? 0) eqn:E.
  - apply Z.ltb_lt in E. rewrite N2Z.inj_abs_N. replace (- Z.abs z) with z by lia. reflexivity.
  - apply Z.ltb_ge in E. rewrite N2Z.inj_abs_N. replace (Z.abs z) with z by lia. reflexivity.
Qed.

(* comparison is by value *)
Lemma dcmp_spec : forall x y,
  CompareSpec (dval x == dval y)%Q (dval x < dval y)%Q (dval y < dval x)%Q (dcmp x y).
Proof.
  intros x y. unfold dcmp.
  set (e := Z.min (dexp x) (dexp y)).
  assert (Hx : e <= dexp x) by (unfold e; lia).
  assert (Hy : e <= dexp y) by (unfold e; lia).
  pose proof (dscale_val x e Hx) as Vx. pose proof (dscale_val y e Hy) as Vy.
  pose proof (p10_pos e) as P.
  destruct (Z.compare_spec (dscale x e) (dscale y e)) as [E|E|E]; constructor.
  - rewrite <- Vx, <- Vy, E. reflexivity.
  - rewrite <- Vx, <- Vy. apply Qmult_lt_compat_r; [assumption|]. rewrite <- Zlt_Qlt. assumption.
  - rewrite <- Vx, <- Vy. apply Qmult_lt_compat_r; [assumption|]. rewrite <- Zlt_Qlt. assumption.
Qed.

Lemma dcmp_Qcompare : forall x y, dcmp x y = (dval x ?= dval y)%Q.
Proof.
  intros x y. destruct (dcmp_spec x y) as [E|E|E]; symmetry.
  - apply Qeq_alt. assumption.
  - apply Qlt_alt. assumption.
  - apply Qgt_alt. assumption.
Qed.

Lemma dcmp_eq : forall x y, dcmp x y = Eq <-> (dval x == dval y)%Q.
Proof. intros. rewrite dcmp_Qcompare. symmetry. apply Qeq_alt. Qed.
Lemma dcmp_lt : forall x y, dcmp x y = Lt <-> (dval x < dval y)%Q.
Proof. intros. rewrite dcmp_Qcompare. symmetry. apply Qlt_alt. Qed.
Lemma dcmp_gt : forall x y, dcmp x y = Gt <-> (dval y < dval x)%Q.
Proof. intros. rewrite dcmp_Qcompare. symmetry. apply Qgt_alt. Qed.

Lemma dcmp_total_pre : total_pre dcmp.
Proof.
  constructor.
  - intros x. apply dcmp_eq. reflexivity.
  - intros x y. destruct (dcmp_spec x y) as [E|E|E]; destruct (dcmp_spec y x) as [F|F|F]; simpl; try reflexivity; exfalso; lra.
  - intros x y z. rewrite !dcmp_lt. lra.
  - intros x y z E. apply dcmp_eq in E.
    destruct (dcmp_spec x z) as [F|F|F]; destruct (dcmp_spec y z) as [G|G|G]; try reflexivity; exfalso; lra.
Qed.

(* --------------------------------------------- integers and fractions -- *)

(* for a negative exponent, P = 10^-exp: value * P = signed coefficient *)
Lemma dval_mulP : forall d, dexp d < 0 ->
  (dval d * inject_Z (10 ^ (- dexp d)) == inject_Z (dsigned d))%Q.
Proof.
  intros d H. unfold dval. rewrite <- p10_Z by lia.
  rewrite <- Qmult_assoc, <- p10_add.
  replace (dexp d + - dexp d) with 0 by lia. rewrite p10_0. ring.
Qed.

Lemma Qmul_le_cancel_pos : forall a b p : Q, (0 < p)%Q -> (a * p <= b * p)%Q -> (a <= b)%Q.
Proof. intros a b p Hp H. apply Qmult_le_r in H; assumption. Qed.
Lemma Qmul_lt_cancel_pos : forall a b p : Q, (0 < p)%Q -> (a * p < b * p)%Q -> (a < b)%Q.
Proof. intros a b p Hp H. apply Qmult_lt_r in H; assumption. Qed.

Lemma injP_pos : forall n, 0 <= n -> (0 < inject_Z (10 ^ n))%Q.
Proof. intros. replace 0%Q with (inject_Z 0) by reflexivity. rewrite <- Zlt_Qlt. apply pow10_pos; assumption. Qed.

Lemma int_le_dval : forall d m, dexp d < 0 -> m * 10 ^ (- dexp d) <= dsigned d -> (inject_Z m <= dval d)%Q.
Proof.
  intros d m H L. apply (Qmul_le_cancel_pos _ _ (inject_Z (10 ^ (- dexp d)))).
  - apply injP_pos; lia.
  - rewrite dval_mulP by assumption. rewrite <- inject_Z_mult, <- Zle_Qle. assumption.
Qed.
Lemma int_lt_dval : forall d m, dexp d < 0 -> m * 10 ^ (- dexp d) < dsigned d -> (inject_Z m < dval d)%Q.
Proof.
  intros d m H L. apply (Qmul_lt_cancel_pos _ _ (inject_Z (10 ^ (- dexp d)))).
  - apply injP_pos; lia.
  - rewrite dval_mulP by assumption. rewrite <- inject_Z_mult, <- Zlt_Qlt. assumption.
Qed.
Lemma dval_le_int : forall d m, dexp d < 0 -> dsigned d <= m * 10 ^ (- dexp d) -> (dval d <= inject_Z m)%Q.
Proof.
  intros d m H L. apply (Qmul_le_cancel_pos _ _ (inject_Z (10 ^ (- dexp d)))).
  - apply injP_pos; lia.
  - rewrite dval_mulP by assumption. rewrite <- inject_Z_mult, <- Zle_Qle. assumption.
Qed.
Lemma dval_lt_int : forall d m, dexp d < 0 -> dsigned d < m * 10 ^ (- dexp d) -> (dval d < inject_Z m)%Q.
Proof.
  intros d m H L. apply (Qmul_lt_cancel_pos _ _ (inject_Z (10 ^ (- dexp d)))).
  - apply injP_pos; lia.
  - rewrite dval_mulP by assumption. rewrite <- inject_Z_mult, <- Zlt_Qlt. assumption.
Qed.

Lemma dval_int_exp0 : forall n c, (dval (mkdec n c 0) == inject_Z (dsigned (mkdec n c 0)))%Q.
Proof. intros. unfold dval; cbn [dexp]. rewrite p10_0. ring. Qed.

(* ------------------------------------------------------- rounding ---- *)

(* an exact rounding does not change the value *)
Lemma round34_exact : forall c c' sh, round34 c = (c', sh, false) ->
  0 <= sh /\ Z.of_N c = Z.of_N c' * 10 ^ sh.
Proof.
  intros c c' sh. unfold round34.
  destruct (ndigits c <=? PREC) eqn:E.
  - intros [= <- <-]. split; [lia|]. rewrite Z.pow_0_r. lia.
  - apply Z.leb_gt in E.
    set (diff := ndigits c - PREC) in *.
    destruct ((c mod pow10N diff =? 0)%N) eqn:M.
    + intros [= <- <-]. split; [lia|].
      apply N.eqb_eq in M.
      pose proof (N.div_mod c (pow10N diff)) as D.
      assert (pow10N diff <> 0%N) by (pose proof (pow10N_pos diff); lia).
      specialize (D H). rewrite M in D.
      rewrite <- pow10N_Z by lia. rewrite <- N2Z.inj_mul. f_equal. lia.
    + destruct (ndigits (c / pow10N diff) <?
                ndigits (if (pow10N diff <=? 2 * (c mod pow10N diff))%N then (c / pow10N diff + 1)%N else (c / pow10N diff)%N));
        intros [= ]; discriminate.
Qed.

Lemma round34_small : forall c, ndigits c <=? PREC = true -> round34 c = (c, 0, false).
Proof. intros c H. unfold round34. rewrite H. reflexivity. Qed.

(* ------------------------------------------------------- Add / Sub --- *)

Definition signed_of (neg : bool) (c : N) : Z := if neg then - Z.of_N c else Z.of_N c.

Lemma dsigned_mk : forall n c e, dsigned (mkdec n c e) = signed_of n c.
Proof. reflexivity. Qed.

(* the unrounded sign and coefficient computed by Context.add *)
Lemma add_core : forall (xn yn : bool) (a b : N),
  let '(neg, c) :=
      if Bool.eqb xn yn then (xn, (a + b)%N)
      else match N.compare a b with
           | Gt => (xn, (a - b)%N)
           | Lt => (negb xn, (b - a)%N)
           | Eq => (false, 0%N)
           end in
  signed_of neg c = signed_of xn a + signed_of yn b /\
  (neg = true -> c = 0%N -> xn = true /\ yn = true /\ a = 0%N /\ b = 0%N).
Proof.
  intros xn yn a b.
  destruct xn, yn; cbn [Bool.eqb negb]; unfold signed_of.
  - split; [lia|]. intros _ H. repeat split; lia.
  - destruct (N.compare_spec a b); split; try lia; intros; try discriminate; lia.
  - destruct (N.compare_spec a b); split; try lia; intros; try discriminate; lia.
  - split; [lia|]. intros; discriminate.
Qed.

Lemma ctx_add_exact : forall x y sub d,
  ctx_add x y sub = Some (d, false) ->
  (dval d == dval x + (if sub then - dval y else dval y))%Q /\
  (dneg d = true -> dcoef d = 0%N -> dneg x = true /\ dcoef x = 0%N /\ dcoef y = 0%N /\ xorb (dneg y) sub = true).
Proof.
  intros x y sub d. unfold ctx_add.
  destruct (MAXEXP <? Z.abs (dexp x - dexp y)); [discriminate|].
  set (s := Z.min (dexp x) (dexp y)).
  set (a := (dcoef x * pow10N (dexp x - s))%N).
  set (b := (dcoef y * pow10N (dexp y - s))%N).
  pose proof (add_core (dneg x) (xorb (dneg y) sub) a b) as C.
  destruct (if Bool.eqb (dneg x) (xorb (dneg y) sub) then (dneg x, (a + b)%N)
            else match (a ?= b)%N with
                 | Eq => (false, 0%N) | Lt => (negb (dneg x), (b - a)%N) | Gt => (dneg x, (a - b)%N) end)
    as [neg c] eqn:EC.
  destruct C as [C1 C2].
  destruct (round34 c) as [[c' sh] inx] eqn:R.
  intros E0; injection E0 as E1 E2; subst d inx.
  apply round34_exact in R. destruct R as [Hsh Hc].
  assert (Hx : s <= dexp x) by (unfold s; lia).
  assert (Hy : s <= dexp y) by (unfold s; lia).
  assert (Sa : signed_of (dneg x) a = dscale x s).
  { unfold signed_of, dscale, dsigned, a. rewrite N2Z.inj_mul, pow10N_Z by lia. destruct (dneg x); lia. }
  assert (Sb : signed_of (xorb (dneg y) sub) b = if sub then - dscale y s else dscale y s).
  { unfold signed_of, dscale, dsigned, b. rewrite N2Z.inj_mul, pow10N_Z by lia.
    destruct (dneg y), sub; cbn [xorb]; lia. }
  split.
  - assert (V : (dval (mkdec neg c' (s + sh)) == inject_Z (signed_of neg c) * p10 s)%Q).
    { unfold dval; cbn [dneg dcoef dexp]. rewrite dsigned_mk.
      assert (E : signed_of neg c = signed_of neg c' * 10 ^ sh).
      { unfold signed_of. destruct neg; lia. }
      rewrite p10_add, (p10_Z sh) by assumption. rewrite E, inject_Z_mult. ring. }
    rewrite V, C1, Sa, Sb, inject_Z_plus. rewrite <- (dscale_val x s Hx).
    destruct sub.
    + rewrite <- (dscale_val y s Hy), inject_Z_opp. ring.
    + rewrite <- (dscale_val y s Hy). ring.
  - cbn [dneg dcoef]. intros Hn Hz. subst c'.
    assert (c = 0%N) by lia. subst c.
    destruct (C2 Hn eq_refl) as (A1 & A2 & A3 & A4).
    repeat split; try assumption.
    + unfold a in A3. pose proof (pow10N_pos (dexp x - s)). destruct (dcoef x); [reflexivity|]. exfalso. lia.
    + unfold b in A4. pose proof (pow10N_pos (dexp y - s)). destruct (dcoef y); [reflexivity|]. exfalso. lia.
Qed.

Lemma dneg_nonpos : forall d, dneg d = true -> (dval d <= 0)%Q.
Proof.
  intros d H. unfold dval, dsigned. rewrite H.
  pose proof (p10_pos (dexp d)) as P.
  assert (inject_Z (- Z.of_N (dcoef d)) <= 0)%Q.
  { replace 0%Q with (inject_Z 0) by reflexivity. rewrite <- Zle_Qle. lia. }
  nra.
Qed.

Lemma dval_zero_coef : forall d, (dval d == 0)%Q -> dcoef d = 0%N.
Proof.
  intros d H. unfold dval in H. pose proof (p10_pos (dexp d)) as P.
  assert (E : (inject_Z (dsigned d) == 0)%Q) by nra.
  unfold Qeq in E. cbn [Qnum Qden inject_Z] in E. unfold dsigned in E. destruct (dneg d); lia.
Qed.

(* ------------------------------------------------------ Ceil / Floor -- *)

(* rounding-safe operand: not a negative zero, and the increment that Ceil /
   Floor may perform on its integral part stays within 34 digits *)
Definition dsafe (d : dec) : bool :=
  negb (dneg d && (dcoef d =? 0)%N) &&
  ((0 <=? dexp d) || (ndigits (dcoef d / pow10N (- dexp d) + 1) <=? PREC)).

Lemma modf_parts : forall d, dexp d < 0 ->
  let P := 10 ^ (- dexp d) in
  let t := Z.of_N (dcoef d / pow10N (- dexp d)) in
  let r := Z.of_N (dcoef d mod pow10N (- dexp d)) in
  0 < P /\ Z.of_N (dcoef d) = t * P + r /\ 0 <= r < P /\ 0 <= t.
Proof.
  intros d H P t r.
  assert (HP : Z.of_N (pow10N (- dexp d)) = P) by (apply pow10N_Z; lia).
  pose proof (pow10N_pos (- dexp d)) as Hpos.
  assert (Hnz : pow10N (- dexp d) <> 0%N) by lia.
  pose proof (N.div_mod (dcoef d) _ Hnz) as D.
  pose proof (N.mod_lt (dcoef d) _ Hnz) as M.
  split; [unfold P; apply pow10_pos; lia|].
  split.
  - unfold t, r. rewrite <- HP, <- N2Z.inj_mul, <- N2Z.inj_add. f_equal. lia.
  - split; [|unfold t; apply N2Z.is_nonneg]. unfold r. rewrite <- HP.
    split; [apply N2Z.is_nonneg|]. apply N2Z.inj_lt. exact M.
Qed.

Lemma ctx_add_one_small : forall n t sub, ndigits (t + 1) <=? PREC = true ->
  Bool.eqb n (xorb false sub) = true ->
  ctx_add (mkdec n t 0) dec_one sub = Some (mkdec n (t + 1)%N 0, false).
Proof.
  intros n t sub Hs Hn. unfold ctx_add, dec_one; cbn [dneg dcoef dexp].
  replace (MAXEXP <? Z.abs (0 - 0)) with false by reflexivity.
  rewrite Hn. cbn [Z.min Z.sub Z.compare].
  change (pow10N (0 - 0)) with 1%N. rewrite !N.mul_1_r.
  rewrite round34_small by assumption. reflexivity.
Qed.

Lemma ceil_spec : forall d, dsafe d = true -> dexp d < 0 ->
  exists c, (dval (ctx_ceil d) == inject_Z c)%Q /\ (inject_Z (c - 1) < dval d)%Q /\ (dval d <= inject_Z c)%Q /\
            (dneg (ctx_ceil d) = true -> dcoef (ctx_ceil d) = 0%N -> (dval d < 0)%Q).
Proof.
  intros d S H. unfold dsafe in S. apply andb_true_iff in S. destruct S as [W S].
  apply orb_true_iff in S. destruct S as [S|S]; [apply Z.leb_le in S; lia|].
  destruct (modf_parts d H) as (HP & Hc & Hr & Ht).
  set (P := 10 ^ (- dexp d)) in *.
  set (t := Z.of_N (dcoef d / pow10N (- dexp d))) in *.
  set (r := Z.of_N (dcoef d mod pow10N (- dexp d))) in *.
  unfold ctx_ceil, dec_modf.
  destruct (negb (dcoef d mod pow10N (- dexp d) =? 0)%N) eqn:F.
  - (* fraction present *)
    assert (Hr0 : 0 < r).
    { apply negb_true_iff, N.eqb_neq in F. unfold r. lia. }
    destruct (dneg d) eqn:Nd; cbn [andb negb].
    + (* negative: integral part, truncated towards zero *)
      exists (- t). rewrite dval_int_exp0, dsigned_mk. unfold signed_of.
      split; [reflexivity|]. split; [|split].
      *         apply int_lt_dval; [assumption|]. unfold dsigned. rewrite Nd. fold P. nia.
      * apply dval_le_int; [assumption|]. unfold dsigned. rewrite Nd. fold P. nia.
      * intros _ _. apply (Qlt_le_trans _ (inject_Z 0)); [|apply Qle_refl].
        apply dval_lt_int; [assumption|]. unfold dsigned. rewrite Nd. fold P. nia.
    + rewrite ctx_add_one_small by (assumption || reflexivity).
      exists (t + 1). rewrite dval_int_exp0, dsigned_mk. unfold signed_of.
      split; [rewrite N2Z.inj_add; reflexivity|]. split; [|split].
      * replace (t + 1 - 1) with t by lia.
        apply int_lt_dval; [assumption|]. unfold dsigned. rewrite Nd. fold P. nia.
      * apply dval_le_int; [assumption|]. unfold dsigned. rewrite Nd. fold P. nia.
      * cbn [dneg]. discriminate.
  - (* no fraction: already integral *)
    assert (Hr0 : r = 0).
    { apply negb_false_iff, N.eqb_eq in F. unfold r. lia. }
    cbn [andb].
    exists (signed_of (dneg d) (dcoef d / pow10N (- dexp d))).
    rewrite dval_int_exp0, dsigned_mk.
    split; [reflexivity|]. unfold signed_of. fold t.
    split; [|split].
    + destruct (dneg d) eqn:Nd.
      *         apply int_lt_dval; [assumption|]. unfold dsigned. rewrite Nd. fold P. nia.
      *         apply int_lt_dval; [assumption|]. unfold dsigned. rewrite Nd. fold P. nia.
    + destruct (dneg d) eqn:Nd; apply dval_le_int; try assumption; unfold dsigned; rewrite Nd; fold P; nia.
    + cbn [dneg dcoef]. intros Nd Z0. exfalso.
      rewrite Nd in W. cbn [andb negb] in W. apply negb_true_iff, N.eqb_neq in W.
      apply W. assert (t = 0) by (unfold t; lia). lia.
Qed.

Lemma floor_spec : forall d, dsafe d = true -> dexp d < 0 ->
  exists c, (dval (ctx_floor d) == inject_Z c)%Q /\ (inject_Z c <= dval d)%Q /\ (dval d < inject_Z (c + 1))%Q /\
            ~ (dneg (ctx_floor d) = true /\ dcoef (ctx_floor d) = 0%N).
Proof.
  intros d S H. unfold dsafe in S. apply andb_true_iff in S. destruct S as [W S].
  apply orb_true_iff in S. destruct S as [S|S]; [apply Z.leb_le in S; lia|].
  destruct (modf_parts d H) as (HP & Hc & Hr & Ht).
  set (P := 10 ^ (- dexp d)) in *.
  set (t := Z.of_N (dcoef d / pow10N (- dexp d))) in *.
  set (r := Z.of_N (dcoef d mod pow10N (- dexp d))) in *.
  unfold ctx_floor, dec_modf.
  destruct (negb (dcoef d mod pow10N (- dexp d) =? 0)%N) eqn:F.
  - assert (Hr0 : 0 < r).
    { apply negb_true_iff, N.eqb_neq in F. unfold r. lia. }
    destruct (dneg d) eqn:Nd; cbn [andb].
    + rewrite ctx_add_one_small by (assumption || reflexivity).
      exists (- (t + 1)). rewrite dval_int_exp0, dsigned_mk. unfold signed_of.
      split; [rewrite N2Z.inj_add; reflexivity|]. split; [|split].
      * apply int_le_dval; [assumption|]. unfold dsigned. rewrite Nd. fold P. nia.
      * replace (- (t + 1) + 1) with (- t) by lia.
        apply dval_lt_int; [assumption|]. unfold dsigned. rewrite Nd. fold P. nia.
      * cbn [dneg dcoef]. intros [_ Z0]. lia.
    + exists t. rewrite dval_int_exp0, dsigned_mk. unfold signed_of.
      split; [reflexivity|]. split; [|split].
      * apply int_le_dval; [assumption|]. unfold dsigned. rewrite Nd. fold P. nia.
      *         apply dval_lt_int; [assumption|]. unfold dsigned. rewrite Nd. fold P. nia.
      * cbn [dneg]. intros [? _]; discriminate.
  - assert (Hr0 : r = 0).
    { apply negb_false_iff, N.eqb_eq in F. unfold r. lia. }
    cbn [andb].
    exists (signed_of (dneg d) (dcoef d / pow10N (- dexp d))).
    rewrite dval_int_exp0, dsigned_mk.
    split; [reflexivity|]. unfold signed_of. fold t.
    split; [|split].
    + destruct (dneg d) eqn:Nd; apply int_le_dval; try assumption; unfold dsigned; rewrite Nd; fold P; nia.
    + destruct (dneg d) eqn:Nd.
      *         apply dval_lt_int; [assumption|]. unfold dsigned. rewrite Nd. fold P. nia.
      *         apply dval_lt_int; [assumption|]. unfold dsigned. rewrite Nd. fold P. nia.
    + cbn [dneg dcoef]. intros [Nd Z0].
      rewrite Nd in W. cbn [andb negb] in W. apply negb_true_iff, N.eqb_neq in W.
      apply W. assert (t = 0) by (unfold t; lia). lia.
Qed.

(* --------------------------------------------------------- Int64 ------ *)

Lemma inject_Z_eq : forall a b, a = b -> (inject_Z a == inject_Z b)%Q.
Proof. intros a b ->. reflexivity. Qed.

Lemma dec_int64_val : forall d n, dec_int64 d = Some n -> (dval d == inject_Z n)%Q.
Proof.
  intros d n. unfold dec_int64.
  destruct (0 <=? dexp d) eqn:E.
  - apply Z.leb_le in E.
    destruct (MAXINT64 <? Z.of_N (dcoef d) * 10 ^ dexp d); [discriminate|].
    intros [= <-]. unfold dval. rewrite p10_Z by assumption. rewrite <- inject_Z_mult.
    apply inject_Z_eq. unfold dsigned. destruct (dneg d); ring.
  - apply Z.leb_gt in E.
    destruct ((dcoef d mod pow10N (- dexp d) =? 0)%N) eqn:M; [|discriminate].
    destruct (MAXINT64 <? Z.of_N (dcoef d / pow10N (- dexp d))); [discriminate|].
    intros [= <-].
    destruct (modf_parts d E) as (HP & Hc & Hr & Ht).
    apply N.eqb_eq in M. rewrite M in Hc. cbn in Hc.
    apply (Qmult_inj_r _ _ (inject_Z (10 ^ (- dexp d)))).
    { intro Z0. assert (0 < inject_Z (10 ^ (- dexp d)))%Q by (apply injP_pos; lia). lra. }
    rewrite dval_mulP by assumption. rewrite <- inject_Z_mult.
    apply inject_Z_eq. unfold dsigned. rewrite Hc. destruct (dneg d); ring.
Qed.
