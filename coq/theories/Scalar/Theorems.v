(* C03 - end-to-end theorems about [run] (scheduleConjunct + insertValueConjunct
   + validateValue) against the set semantics [sat_all] of Scalar/Spec.v. *)
From Coq Require Import List ZArith NArith Bool Lia QArith Lqa Permutation.
From Verif Require Import Base.Order Scalar.Spec Scalar.Model Scalar.DecProofs Scalar.Proofs Scalar.Accum.
Import ListNotations.
Open Scope Z_scope.

(* the side condition under which SimplifyBounds' integer readjustment is exact:
   no fractional bound operand has an integral part that Ceil/Floor would round
   at precision 34 (and no operand is a negative zero) *)
Definition csafe1 (c : conj) : bool :=
  match c with
  | KBound _ (AFloat d) => dsafe d
  | _ => true
  end.
Definition csafe (c : constr) : bool := match c with CElem e => csafe1 e | CRange _ => true end.
Definition all_safe (cs : list constr) : bool := forallb csafe cs.

Definition verdict_equiv (x y : verdict) : Prop :=
  match x, y with
  | RBottom, RBottom => True
  | RIncomplete, RIncomplete => True
  | RAtom a, RAtom b => atom_eqb a b = true
  | _, _ => False
  end.

Section WithRegexp.
  Variable re : str -> str -> bool.
  Notation satb := (satb re).
  Notation satv := (satv re).
  Notation Sat := (Sat re).

  (* ------------------------------------------- syntax to inserted values -- *)

  Lemma satv_vconj_of : forall a c, satv a (vconj_of c) = sat1 re a c.
  Proof.
    intros a [b|t|o v]; cbn [vconj_of sat1].
    - reflexivity.
    - destruct t, a; reflexivity.
    - unfold eval_bound. destruct v; try reflexivity; destruct o; cbn; try reflexivity; destruct a; reflexivity.
  Qed.

  Lemma vwf_vconj_of : forall c, vwf (vconj_of c) = true.
  Proof. intros [b|t|o v]; cbn; try reflexivity; [destruct t; reflexivity|]. unfold eval_bound. destruct v, o; reflexivity. Qed.

  Lemma vsafe_vconj_of : forall c, csafe1 c = true -> vsafe (vconj_of c) = true.
  Proof.
    intros [b|t|o v]; cbn; try reflexivity; [destruct t; reflexivity|].
    unfold eval_bound. destruct v; cbn; try reflexivity; destruct o; cbn; auto.
  Qed.

  Lemma range_safe : forall r, forallb csafe1 (range_def r) = true.
  Proof. destruct r; vm_compute; reflexivity. Qed.

  Lemma forallb_flat_map : forall {A B} (f : B -> bool) (g : A -> list B) l,
    forallb f (flat_map g l) = forallb (fun x => forallb f (g x)) l.
  Proof. intros A B f g l. induction l; cbn; [reflexivity|]. rewrite forallb_app, IHl. reflexivity. Qed.

  Lemma forallb_filter_split : forall {A} (f p : A -> bool) l,
    forallb f (filter (fun c => negb (p c)) l) && forallb f (filter p l) = forallb f l.
  Proof.
    intros A f p l. induction l as [|x r IH]; cbn; [reflexivity|].
    destruct (p x); cbn; rewrite <- IH;
      destruct (f x), (forallb f (filter (fun c => negb (p c)) r)), (forallb f (filter p r)); reflexivity.
  Qed.

  Lemma forallb_ext' : forall {A} (f g : A -> bool) l, (forall x, f x = g x) -> forallb f l = forallb g l.
  Proof. intros A f g l H. induction l; cbn; [reflexivity|]. rewrite H, IHl. reflexivity. Qed.

  Lemma values_sat : forall a c, forallb (satv a) (values_of c) = sat re a c.
  Proof.
    intros a [e|r]; cbn [values_of sat forallb].
    - rewrite satv_vconj_of, andb_true_r. reflexivity.
    - induction (range_def r) as [|x l IH]; cbn; [reflexivity|]. rewrite satv_vconj_of, IH. reflexivity.
  Qed.

  Lemma schedule_sat : forall a cs, forallb (satv a) (schedule cs) = sat_all re a cs.
  Proof.
    intros a cs. unfold schedule, sat_all. rewrite forallb_app, !forallb_flat_map.
    rewrite !(forallb_ext' _ (sat re a) _ (values_sat a)).
    apply forallb_filter_split.
  Qed.

  Lemma schedule_wf : forall cs, forallb vwf (schedule cs) = true.
  Proof.
    intros cs. unfold schedule. rewrite forallb_app, !forallb_flat_map.
    assert (H : forall c, forallb vwf (values_of c) = true).
    { intros [e|r]; cbn [values_of forallb]; [rewrite vwf_vconj_of; reflexivity|].
      induction (range_def r); cbn; [reflexivity|]. rewrite vwf_vconj_of. assumption. }
    rewrite !(forallb_ext' _ (fun _ => true) _ H).
    assert (T : forall (l : list constr), forallb (fun _ => true) l = true) by (induction l; auto).
    rewrite !T. reflexivity.
  Qed.

  Lemma values_safe : forall c, csafe c = true -> forallb vsafe (values_of c) = true.
  Proof.
    intros [e|r] H; cbn [values_of forallb].
    - rewrite vsafe_vconj_of by assumption. reflexivity.
    - pose proof (range_safe r) as R. induction (range_def r) as [|x l IH]; cbn in *; [reflexivity|].
      apply andb_true_iff in R. destruct R as [R1 R2]. rewrite vsafe_vconj_of by assumption. auto.
  Qed.

  Lemma schedule_safe : forall cs, all_safe cs = true -> forallb vsafe (schedule cs) = true.
  Proof.
    intros cs H. unfold schedule. rewrite forallb_app, !forallb_flat_map.
    assert (F : forall p, forallb (fun x => forallb vsafe (values_of x)) (filter p cs) = true).
    { intros p. apply forallb_forall. intros c Hc. apply filter_In in Hc. destruct Hc as [Hc _].
      apply values_safe. unfold all_safe in H. rewrite forallb_forall in H. auto. }
    rewrite !F. reflexivity.
  Qed.

  Lemma in_schedule : forall v cs, In v (schedule cs) <-> exists c, In c cs /\ In v (values_of c).
  Proof.
    intros v cs. unfold schedule. rewrite in_app_iff, !in_flat_map. split.
    - intros [(c & Hc & Hv)|(c & Hc & Hv)]; apply filter_In in Hc; exists c; tauto.
    - intros (c & Hc & Hv). destruct (deferred c) eqn:D; [right|left]; exists c; split; auto;
        apply filter_In; split; auto. rewrite D. reflexivity.
  Qed.

  Lemma schedule_atoms : forall cs w, In (VAtom w) (schedule cs) ->
    exists c, In c cs /\ forall a, sat re a c = true -> atom_eqb a w = true.
  Proof.
    intros cs w H. apply in_schedule in H. destruct H as (c & Hc & Hv).
    exists c. split; [assumption|]. intros a Hs.
    destruct c as [e|r]; cbn [values_of] in Hv.
    - destruct Hv as [Hv|[]]. destruct e as [b|t|o v]; cbn [vconj_of] in Hv.
      + injection Hv as <-. exact Hs.
      + destruct t; try discriminate Hv. injection Hv as <-. cbn in Hs. destruct a; try discriminate Hs; reflexivity.
      + unfold eval_bound in Hv. destruct v; try discriminate Hv; destruct (bop_eqb o ONe); discriminate Hv.
    - exfalso. destruct r; cbn in Hv; intuition discriminate.
  Qed.

  Lemma schedule_has_atom : forall cs a, In (CElem (KAtom a)) cs -> In (VAtom a) (schedule cs).
  Proof. intros cs a H. apply in_schedule. exists (CElem (KAtom a)). split; [assumption|]. left. reflexivity. Qed.

  (* ------------------------------------------------------- finish ----- *)

  Lemma has_same_kbit : forall k a b, kbit a = kbit b -> has k a = has k b.
  Proof. intros k a b H. rewrite !has_testbit, H. reflexivity. Qed.

  Lemma finish_spec : forall safe s, Inv safe s -> ScalarKind s ->
    match finish re s with
    | RAtom v => s_scalar s = Some v /\ Sat s v
    | RBottom => forall a, ~ Sat s a
    | RIncomplete => s_scalar s = None /\ s_err s = false
    end.
  Proof.
    intros safe s I SK. unfold finish.
    destruct (s_scalar s) as [v|] eqn:ES.
    - destruct (s_err s) eqn:EE.
      { intros a (X & _). congruence. }
      assert (Hv : has (s_kind s) v = true).
      { destruct (SK v ES) as [K|K].
        - rewrite (inv_kind0 _ _ I K) in EE. discriminate.
        - rewrite K. apply has_atom_kind. reflexivity. }
      assert (V : forall b, stored s b -> validate re b v = satb v b).
      { intros b Hb. apply validate_sat. apply (inv_bkind _ _ I b v Hb Hv). }
      destruct (opt_validate re (s_lower s) v && opt_validate re (s_upper s) v
                && forallb (fun c => validate re c v) (s_checks s)) eqn:EV.
      + split; [reflexivity|]. apply andb_true_iff in EV. destruct EV as [EV E3].
        apply andb_true_iff in EV. destruct EV as [E1 E2].
        unfold Accum.Sat. repeat split; auto.
        * intros w Hw. rewrite ES in Hw. injection Hw as <-. apply atom_eqb_refl.
        * intros b Hb. rewrite <- (V b Hb). destruct Hb as [Hb|[Hb|Hb]].
          -- rewrite Hb in E1. exact E1.
          -- rewrite Hb in E2. exact E2.
          -- rewrite forallb_forall in E3. auto.
      + intros a (X1 & X2 & X3 & X4).
        pose proof (X3 v ES) as Eq.
        assert (T : forall b, stored s b -> validate re b v = true).
        { intros b Hb. rewrite (V b Hb). unfold Proofs.satb.
          rewrite <- (sat_bound_eqb_l re a v _ _ Eq). apply (X4 b Hb). }
        assert (EV' : opt_validate re (s_lower s) v && opt_validate re (s_upper s) v
                      && forallb (fun c => validate re c v) (s_checks s) = true).
        { rewrite !andb_true_iff. repeat split.
          - destruct (s_lower s) eqn:E; cbn; [apply T; left; assumption|reflexivity].
          - destruct (s_upper s) eqn:E; cbn; [apply T; right; left; assumption|reflexivity].
          - apply forallb_forall. intros b Hb. apply T. right; right; assumption. }
        congruence.
    - destruct (s_err s) eqn:EE.
      + intros a (X & _). congruence.
      + split; reflexivity.
  Qed.

  (* the state a conjunction evaluates to *)
  Lemma run_state : forall safe cs, (safe = true -> all_safe cs = true) ->
    let s := accumulate re (schedule cs) in
    Inv safe s /\ ScalarKind s /\
    (forall a, Sat s a -> sat_all re a cs = true) /\
    (safe = true -> forall a, sat_all re a cs = true -> Sat s a).
  Proof.
    intros safe cs Hs s. unfold s, accumulate.
    destruct (fold_spec re safe (schedule cs) init (inv_init safe) (schedule_wf cs)
                (fun h => schedule_safe cs (Hs h))) as (I & A & B).
    split; [assumption|]. split.
    - apply scalar_kind_fold; [apply schedule_wf|]. intros v H. discriminate H.
    - split.
      + intros a H. apply A in H. destruct H as [_ H]. rewrite schedule_sat in H. assumption.
      + intros h a H. apply B; [assumption|apply Sat_init|]. rewrite schedule_sat. assumption.
  Qed.

  Lemma fold_atom : forall vs s b, Inv false s -> forallb vwf vs = true ->
    In (VAtom b) vs \/ (s_err s = true \/ exists w, s_scalar s = Some w) ->
    s_err (fold_left (insert re) vs s) = true \/ exists w, s_scalar (fold_left (insert re) vs s) = Some w.
  Proof.
    induction vs as [|v r IH]; intros s b I W H; cbn [fold_left].
    - destruct H as [[]|H]; assumption.
    - cbn in W. apply andb_true_iff in W. destruct W as [W1 W2].
      destruct (insert_spec re false s v I W1 (fun h => False_ind _ (Bool.diff_false_true h))) as (I1 & _ & _).
      destruct (insert_fields re s v W1) as (E1 & E2 & E3).
      apply (IH _ b I1 W2).
      destruct H as [[->|H]|[H|(w & H)]].
      + right. apply (E3 b eq_refl). apply (inv_kind0 _ _ I).
      + left. assumption.
      + right. left. auto.
      + right. right. destruct E2 as [[_ Sc]|[_ [Sc|(Sn & _)]]]; [exists w; congruence|exists w; congruence|congruence].
  Qed.

  (* ---------------------------------------------- sat up to spelling --- *)

  Lemma sat1_eqb_l : forall a a' c, atom_eqb a a' = true -> sat1 re a c = sat1 re a' c.
  Proof.
    intros a a' [b|t|o v] H; cbn [sat1].
    - destruct (atom_eqb a b) eqn:E.
      + symmetry. rewrite atom_eqb_sym in H. apply atom_eqb_trans with a; assumption.
      + destruct (atom_eqb a' b) eqn:E'; [|reflexivity].
        rewrite (atom_eqb_trans _ _ _ H E') in E. discriminate.
    - pose proof (atom_eqb_kbit _ _ H) as K. destruct t, a, a'; try discriminate K; reflexivity.
    - apply sat_bound_eqb_l. assumption.
  Qed.

  Lemma sat_eqb_l : forall a a' c, atom_eqb a a' = true -> sat re a c = sat re a' c.
  Proof.
    intros a a' [e|r] H; cbn [sat]; [apply sat1_eqb_l; assumption|].
    apply forallb_ext'. intros x. apply sat1_eqb_l. assumption.
  Qed.

  Lemma sat_all_eqb_l : forall a a' cs, atom_eqb a a' = true -> sat_all re a cs = sat_all re a' cs.
  Proof. intros a a' cs H. apply forallb_ext'. intros c. apply sat_eqb_l. assumption. Qed.

  (* ====================================================== theorems ==== *)

  (* no false accept, for every conjunction and every operand: whatever atom the
     evaluator reports satisfies every conjunct *)
  Theorem accept_sound : forall cs w, run re cs = RAtom w -> sat_all re w cs = true.
  Proof.
    intros cs w H. unfold run in H.
    destruct (run_state false cs (fun h => False_ind _ (Bool.diff_false_true h))) as (I & SK & A & _).
    pose proof (finish_spec false _ I SK) as F. rewrite H in F. destruct F as [_ F]. auto.
  Qed.

  (* the reported atom is the only candidate: every atom satisfying all conjuncts equals it *)
  Theorem pinned_atom_correct : forall cs w, run re cs = RAtom w ->
    forall a, sat_all re a cs = true -> atom_eqb a w = true.
  Proof.
    intros cs w H a Ha. unfold run in H.
    destruct (run_state false cs (fun h => False_ind _ (Bool.diff_false_true h))) as (I & SK & _ & _).
    pose proof (finish_spec false _ I SK) as F. rewrite H in F. destruct F as [F _].
    apply scalar_origin in F; [|apply schedule_wf]. destruct F as [F|F]; [discriminate F|].
    apply schedule_atoms in F. destruct F as (c & Hc & Hw). apply Hw.
    unfold sat_all in Ha. rewrite forallb_forall in Ha. auto.
  Qed.

  (* exactness, under the side condition [all_safe]: a conjunction that contains
     an atom evaluates to (a spelling of) that atom iff the atom satisfies every
     conjunct, and to bottom otherwise *)
  Theorem accumulate_exact_when : forall cs a, all_safe cs = true -> In (CElem (KAtom a)) cs ->
    if sat_all re a cs then exists w, run re cs = RAtom w /\ atom_eqb a w = true
    else run re cs = RBottom.
  Proof.
    intros cs a Hs Ha.
    destruct (run_state true cs (fun _ => Hs)) as (I & SK & A & B).
    destruct (run_state false cs (fun h => False_ind _ (Bool.diff_false_true h))) as (I0 & _ & _ & _).
    pose proof (finish_spec true _ I SK) as F. unfold run.
    assert (NI : finish re (accumulate re (schedule cs)) <> RIncomplete).
    { intros E. rewrite E in F. destruct F as [F1 F2].
      destruct (fold_atom (schedule cs) init a (inv_init false) (schedule_wf cs)
                  (or_introl (schedule_has_atom cs a Ha))) as [X|(w & X)]; unfold accumulate in *; congruence. }
    destruct (sat_all re a cs) eqn:ES.
    - pose proof (B eq_refl a ES) as Sa.
      destruct (finish re (accumulate re (schedule cs))) as [| |w].
      + exfalso. apply (F a). assumption.
      + contradiction.
      + exists w. split; [reflexivity|]. destruct F as [F1 F2]. destruct Sa as (_ & _ & X & _). auto.
    - destruct (finish re (accumulate re (schedule cs))) as [| |w]; [reflexivity|contradiction|].
      exfalso. destruct F as [F1 F2]. pose proof (A w F2) as Hw.
      assert (E : atom_eqb w a = true).
      { unfold sat_all in Hw. rewrite forallb_forall in Hw. apply (Hw _ Ha). }
      rewrite (sat_all_eqb_l w a cs E) in Hw. congruence.
  Qed.

  Lemma sat_all_app : forall a cs cs', sat_all re a (cs ++ cs') = sat_all re a cs && sat_all re a cs'.
  Proof. intros. apply forallb_app. Qed.

  (* the form of the property text: unify the expression with an atom *)
  Theorem unify_atom_exact_when : forall cs a, all_safe cs = true ->
    if sat_all re a cs then exists w, run_with re cs a = RAtom w /\ atom_eqb a w = true
    else run_with re cs a = RBottom.
  Proof.
    intros cs a Hs. unfold run_with.
    assert (Hs' : all_safe (cs ++ [CElem (KAtom a)]) = true).
    { unfold all_safe. rewrite forallb_app. unfold all_safe in Hs. rewrite Hs. reflexivity. }
    assert (Hin : In (CElem (KAtom a)) (cs ++ [CElem (KAtom a)])) by (apply in_or_app; right; left; reflexivity).
    pose proof (accumulate_exact_when (cs ++ [CElem (KAtom a)]) a Hs' Hin) as H.
    rewrite sat_all_app in H. cbn [sat_all forallb sat sat1] in H. rewrite atom_eqb_refl, !andb_true_r in H.
    exact H.
  Qed.

  (* bottom only if unsatisfiable, under the side condition *)
  Theorem bottom_only_if_unsat_when : forall cs, all_safe cs = true -> run re cs = RBottom ->
    forall a, sat_all re a cs = false.
  Proof.
    intros cs Hs H a. unfold run in H.
    destruct (run_state true cs (fun _ => Hs)) as (I & SK & A & B).
    pose proof (finish_spec true _ I SK) as F. rewrite H in F.
    destruct (sat_all re a cs) eqn:E; [|reflexivity]. exfalso. apply (F a). auto.
  Qed.

  Lemma forallb_perm : forall {A} (f : A -> bool) l l', Permutation l l' -> forallb f l = forallb f l'.
  Proof.
    intros A f l l' P. induction P; cbn; auto.
    - rewrite IHP. reflexivity.
    - destruct (f x), (f y); reflexivity.
    - congruence.
  Qed.

  (* the verdict does not depend on the order of the conjuncts *)
  Theorem order_independent_when : forall cs cs' a, Permutation cs cs' -> all_safe cs = true ->
    In (CElem (KAtom a)) cs -> verdict_equiv (run re cs) (run re cs').
  Proof.
    intros cs cs' a P Hs Ha.
    assert (Hs' : all_safe cs' = true) by (unfold all_safe; rewrite <- (forallb_perm _ _ _ P); exact Hs).
    assert (Ha' : In (CElem (KAtom a)) cs') by (eapply Permutation_in; eauto).
    pose proof (accumulate_exact_when cs a Hs Ha) as H1.
    pose proof (accumulate_exact_when cs' a Hs' Ha') as H2.
    unfold sat_all in *. rewrite <- (forallb_perm _ _ _ P) in H2.
    destruct (forallb (sat re a) cs).
    - destruct H1 as (w1 & -> & E1). destruct H2 as (w2 & -> & E2). cbn.
      rewrite atom_eqb_sym in E1. apply atom_eqb_trans with a; assumption.
    - rewrite H1, H2. exact Logic.I.
  Qed.

  Lemma run_not_incomplete : forall cs a, In (CElem (KAtom a)) cs -> run re cs <> RIncomplete.
  Proof.
    intros cs a Ha E. unfold run in E.
    destruct (run_state false cs (fun h => False_ind _ (Bool.diff_false_true h))) as (I & SK & _ & _).
    pose proof (finish_spec false _ I SK) as F. rewrite E in F. destruct F as [F1 F2].
    destruct (fold_atom (schedule cs) init a (inv_init false) (schedule_wf cs)
                (or_introl (schedule_has_atom cs a Ha))) as [X|(w & X)]; unfold accumulate in *; congruence.
  Qed.

  (* an atom that violates a conjunct is rejected, for every conjunction and operand *)
  Theorem reject_complete : forall cs a, sat_all re a cs = false -> run_with re cs a = RBottom.
  Proof.
    intros cs a H. unfold run_with.
    assert (Hin : In (CElem (KAtom a)) (cs ++ [CElem (KAtom a)])) by (apply in_or_app; right; left; reflexivity).
    pose proof (run_not_incomplete _ a Hin) as NI.
    destruct (run re (cs ++ [CElem (KAtom a)])) as [| |w] eqn:E; [reflexivity|contradiction|].
    exfalso. pose proof (accept_sound _ w E) as S. rewrite sat_all_app in S.
    apply andb_true_iff in S. destruct S as [S1 S2]. cbn in S2. rewrite andb_true_r in S2.
    rewrite (sat_all_eqb_l w a cs S2) in S1. congruence.
  Qed.

  (* int and float literals are distinct kinds, both are numbers *)
  Lemma int_float_distinct : forall z d,
    sat re (AInt z) (CElem (KAtom (AFloat d))) = false /\
    sat re (AFloat d) (CElem (KAtom (AInt z))) = false /\
    sat re (AInt z) (CElem (KType TFloat)) = false /\
    sat re (AFloat d) (CElem (KType TInt)) = false /\
    sat re (AInt z) (CElem (KType TNumber)) = true /\
    sat re (AFloat d) (CElem (KType TNumber)) = true /\
    (forall cs, run_with re (CElem (KAtom (AFloat d)) :: cs) (AInt z) = RBottom) /\
    (forall cs, run_with re (CElem (KType TFloat) :: cs) (AInt z) = RBottom) /\
    (forall cs, run_with re (CElem (KAtom (AInt z)) :: cs) (AFloat d) = RBottom) /\
    (forall cs, run_with re (CElem (KType TInt) :: cs) (AFloat d) = RBottom).
  Proof.
    intros z d. repeat split; intros cs; apply reject_complete; reflexivity.
  Qed.
End WithRegexp.
