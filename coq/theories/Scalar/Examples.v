(* C03 - witnesses and non-vacuity examples. *)
From Coq Require Import List ZArith NArith Bool Permutation.
From Verif Require Import Base.Order Scalar.Spec Scalar.Model Scalar.DecProofs Scalar.Proofs Scalar.Accum Scalar.Theorems.
Import ListNotations.
Open Scope Z_scope.

Definition no_re : str -> str -> bool := fun _ _ => false.

Definition B (o : bop) (v : atom) : constr := CElem (KBound o v).
Definition A (a : atom) : constr := CElem (KAtom a).
Definition T (t : btype) : constr := CElem (KType t).
Definition fl (neg : bool) (c : N) (e : Z) : atom := AFloat (mkdec neg c e).

(* C03-F1.  int & >=12345678901234567890123456789012345.5 & <=12345678901234567890123456789012348
   is satisfied by 12345678901234567890123456789012346, but Ceil of the lower
   bound is computed at precision 34 (...350) and the bounds are reported as
   incompatible. *)
Definition f1_cs : list constr :=
  [T TInt; B OGe (fl false 123456789012345678901234567890123455 (-1)); B OLe (AInt 12345678901234567890123456789012348)].
Definition f1_atom : atom := AInt 12345678901234567890123456789012346.

Lemma impl_refuted : forall re,
  sat_all re f1_atom f1_cs = true /\
  run re f1_cs = RBottom /\
  run_with re f1_cs f1_atom = RBottom /\
  all_safe f1_cs = false.
Proof. intros re. repeat split; vm_compute; reflexivity. Qed.

Lemma simplify_refuted : forall re,
  let x := mkbound OGe (fl false 123456789012345678901234567890123455 (-1)) in
  let y := mkbound OLe (AInt 12345678901234567890123456789012348) in
  simplify re IntKind x y = SBottom /\
  satb re f1_atom x && satb re f1_atom y = true.
Proof. intros re. split; vm_compute; reflexivity. Qed.

(* the bottom verdict of an atom-free, unsatisfiable conjunction depends on the
   order: the subtraction 0 - 1.000...1 (44 digits) is Inexact at precision 34,
   so no simplification happens unless >1 met <0 first.  Both orders are allowed
   by C03 (bottom only if unsatisfiable; both are unsatisfiable). *)
Definition od_big : atom := fl false 10000000000000000000000000000000000000000001 (-43).
Definition od_cs1 : list constr := [B OGt (AInt 1); B OLt (AInt 0); B OGt od_big].
Definition od_cs2 : list constr := [B OGt od_big; B OLt (AInt 0); B OGt (AInt 1)].

Lemma bottom_order_dependent : forall re,
  Permutation od_cs1 od_cs2 /\
  run re od_cs1 = RBottom /\ run re od_cs2 = RIncomplete /\
  all_safe od_cs1 = true /\
  (forall a, sat_all re a od_cs1 = false).
Proof.
  intros re.
  assert (R1 : run re od_cs1 = RBottom) by (vm_compute; reflexivity).
  split; [|split; [exact R1|split; [vm_compute; reflexivity|split; [vm_compute; reflexivity|]]]].
  - unfold od_cs1, od_cs2.
    apply perm_trans with [B OLt (AInt 0); B OGt (AInt 1); B OGt od_big]; [apply perm_swap|].
    apply perm_trans with [B OLt (AInt 0); B OGt od_big; B OGt (AInt 1)]; [apply perm_skip, perm_swap|].
    apply perm_swap.
  - apply bottom_only_if_unsat_when; [vm_compute; reflexivity|exact R1].
Qed.

(* ------------------------------------------------------ non-vacuity ---- *)

(* >=1 & <=1 : not bottom, not collapsed; with the atom 1 it is 1 *)
Example ex_ge1_le1 : forall re,
  run re [B OGe (AInt 1); B OLe (AInt 1)] = RIncomplete /\
  run_with re [B OGe (AInt 1); B OLe (AInt 1)] (AInt 1) = RAtom (AInt 1) /\
  run_with re [B OGe (AInt 1); B OLe (AInt 1)] (fl false 10 (-1)) = RAtom (fl false 10 (-1)) /\
  run_with re [B OGe (AInt 1); B OLe (AInt 1)] (AInt 2) = RBottom.
Proof. intros; repeat split; vm_compute; reflexivity. Qed.

(* int & >1.5 & <2.5 : the readjusted bounds are >1 and <3, diff = 2, kept *)
Example ex_int_frac : forall re,
  let cs := [T TInt; B OGt (fl false 15 (-1)); B OLt (fl false 25 (-1))] in
  run re cs = RIncomplete /\ run_with re cs (AInt 2) = RAtom (AInt 2) /\
  run_with re cs (fl false 20 (-1)) = RBottom /\ run_with re cs (AInt 3) = RBottom /\
  all_safe cs = true.
Proof. intros; repeat split; vm_compute; reflexivity. Qed.

(* >1 & <2 & int is bottom in every order (re-simplification after every insertion) *)
Example ex_gt1_lt2_int_all_orders : forall re,
  let a := B OGt (AInt 1) in let b := B OLt (AInt 2) in let c := T TInt in
  forallb (fun cs => match run re cs with RBottom => true | _ => false end)
          [[a; b; c]; [a; c; b]; [b; a; c]; [b; c; a]; [c; a; b]; [c; b; a]] = true /\
  run re [a; b] = RIncomplete.
Proof. intros; split; vm_compute; reflexivity. Qed.

(* >1 & <3 & int admits exactly 2 *)
Example ex_gt1_lt3_int : forall re,
  let cs := [B OGt (AInt 1); B OLt (AInt 3); T TInt] in
  run re cs = RIncomplete /\ run_with re cs (AInt 2) = RAtom (AInt 2) /\
  run_with re cs (AInt 1) = RBottom /\ run_with re cs (AInt 3) = RBottom /\
  run_with re cs (fl false 20 (-1)) = RBottom.
Proof. intros; repeat split; vm_compute; reflexivity. Qed.

(* !=null admits every non-null atom; int and float stay distinct *)
Example ex_ne_null_and_kinds : forall re,
  run_with re [B ONe ANull] (AInt 1) = RAtom (AInt 1) /\
  run_with re [B ONe ANull] ANull = RBottom /\
  run_with re [A (AInt 1)] (fl false 10 (-1)) = RBottom /\
  run_with re [B OLe (fl false 10 (-1))] (AInt 1) = RAtom (AInt 1) /\
  run_with re [CRange RFloat32] (AInt 1) = RAtom (AInt 1) /\
  run_with re [CRange RUint8] (AInt 256) = RBottom /\
  run_with re [CRange RUint8] (fl false 10 (-1)) = RBottom.
Proof. intros; repeat split; vm_compute; reflexivity. Qed.

(* the hypotheses of the conditional theorems are met by non-trivial inputs *)
Example ex_exact_hyps :
  let cs := [T TInt; B OGt (fl false 15 (-1)); B OLt (fl false 25 (-1)); A (AInt 2)] in
  all_safe cs = true /\ In (A (AInt 2)) cs /\ sat_all no_re (AInt 2) cs = true /\
  run no_re cs = RAtom (AInt 2).
Proof. repeat split; try (vm_compute; reflexivity). right; right; right; left; reflexivity. Qed.

(* regular expressions go through the oracle *)
Example ex_regexp :
  let re := fun p s => match p, s with [94%N; 97%N], (97%N :: _) => true | _, _ => false end in
  run_with re [B OMatch (AStr [94%N; 97%N])] (AStr [97%N; 98%N]) = RAtom (AStr [97%N; 98%N]) /\
  run_with re [B OMatch (AStr [94%N; 97%N])] (AStr [98%N]) = RBottom /\
  run_with re [B ONMatch (AStr [94%N; 97%N])] (AStr [98%N]) = RAtom (AStr [98%N]) /\
  run_with re [B OMatch (AStr [94%N; 97%N])] (AInt 1) = RBottom.
Proof. repeat split; vm_compute; reflexivity. Qed.
