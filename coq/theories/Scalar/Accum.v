(* C03 - the accumulator: what a node's state (kind, scalar, lowerBound,
   upperBound, checks, errors) denotes, that insertValueConjunct preserves
   it, and the end-to-end theorems about [run]. *)
From Coq Require Import List ZArith NArith Bool Lia QArith Lqa Permutation.
From Verif Require Import Base.Order Scalar.Spec Scalar.Model Scalar.DecProofs Scalar.Proofs.
Import ListNotations.
Open Scope Z_scope.

(* ------------------------------------------------- atoms up to spelling -- *)

Lemma atom_eqb_refl : forall a, atom_eqb a a = true.
Proof.
  destruct a; cbn; auto using Bool.eqb_reflx, Z.eqb_refl.
  - rewrite (tp_refl _ dcmp_total_pre). reflexivity.
  - rewrite (tp_refl _ str_cmp_pre). reflexivity.
  - rewrite (tp_refl _ str_cmp_pre). reflexivity.
Qed.

Lemma dcmp_eq_l : forall x y z, dcmp x y = Eq -> dcmp x z = dcmp y z.
Proof. intros. apply (tp_eq_l _ dcmp_total_pre). assumption. Qed.

Lemma dcmp_eq_r : forall x y z, dcmp x y = Eq -> dcmp z x = dcmp z y.
Proof.
  intros x y z E. rewrite (tp_opp _ dcmp_total_pre z x), (tp_opp _ dcmp_total_pre z y).
  f_equal. apply dcmp_eq_l. assumption.
Qed.

Lemma dcmp_eq_sym : forall x y, dcmp x y = Eq -> dcmp y x = Eq.
Proof. intros x y E. rewrite (tp_opp _ dcmp_total_pre), E. reflexivity. Qed.

Lemma atom_eqb_kbit : forall a b, atom_eqb a b = true -> kbit a = kbit b.
Proof. intros x y; destruct x, y; cbn; intros; try discriminate; reflexivity. Qed.

Lemma atom_eqb_sym : forall a b, atom_eqb a b = atom_eqb b a.
Proof.
  intros x y; destruct x, y; cbn; try reflexivity.
  - destruct b, b0; reflexivity.
  - apply Z.eqb_sym.
  - rewrite (tp_opp _ dcmp_total_pre d d0). destruct (dcmp d0 d); reflexivity.
  - rewrite (tp_opp _ str_cmp_pre s s0). destruct (str_cmp s0 s); reflexivity.
  - rewrite (tp_opp _ str_cmp_pre s s0). destruct (str_cmp s0 s); reflexivity.
Qed.

Lemma atom_eqb_trans : forall a b c, atom_eqb a b = true -> atom_eqb b c = true -> atom_eqb a c = true.
Proof.
  intros x y z; destruct x, y; cbn; try discriminate; destruct z; cbn; try discriminate; auto.
  - intros H1 H2. apply eqb_prop in H1, H2. subst. apply Bool.eqb_reflx.
  - intros H1 H2. apply Z.eqb_eq in H1, H2. subst. apply Z.eqb_refl.
  - intros H1 H2. destruct (dcmp d d0) eqn:E; try discriminate. rewrite (dcmp_eq_l _ _ _ E). assumption.
  - intros H1 H2. destruct (str_cmp s s0) eqn:E; try discriminate. apply str_cmp_eq in E. subst. assumption.
  - intros H1 H2. destruct (str_cmp s s0) eqn:E; try discriminate. apply str_cmp_eq in E. subst. assumption.
Qed.

Lemma acmp_eqb_l : forall a a' v, atom_eqb a a' = true -> acmp a v = acmp a' v.
Proof.
  destruct a, a'; cbn; try discriminate; intros v H; try reflexivity.
  - apply Z.eqb_eq in H. subst. reflexivity.
  - destruct (dcmp d d0) eqn:E; try discriminate. destruct v; cbn; try reflexivity; f_equal; apply dcmp_eq_l; assumption.
  - destruct (str_cmp s s0) eqn:E; try discriminate. apply str_cmp_eq in E. subst. reflexivity.
  - destruct (str_cmp s s0) eqn:E; try discriminate. apply str_cmp_eq in E. subst. reflexivity.
Qed.

Lemma equal_bool_of_eqb : forall a b c, atom_eqb c a = true -> atom_eqb c b = true -> equal_bool a b = true.
Proof.
  intros a b c H1 H2. rewrite atom_eqb_sym in H1.
  pose proof (atom_eqb_trans _ _ _ H1 H2) as H. clear H1 H2 c.
  revert H. destruct a as [|x|x|x|x|x], b as [|y|y|y|y|y]; cbn; intros H; try discriminate; auto.
  - apply Z.eqb_eq in H. subst. rewrite (tp_refl _ dcmp_total_pre). reflexivity.
Qed.

Lemma equal_bool_eqb : forall a b, kbit a = kbit b -> equal_bool a b = atom_eqb a b.
Proof.
  intros x y; destruct x as [|x|z|x|x|x], y as [|y|z0|y|y|y]; cbn; intros K; try discriminate K; try reflexivity.
  destruct (Z.eqb_spec z z0).
  - subst. rewrite (tp_refl _ dcmp_total_pre). reflexivity.
  - destruct (dcmp_spec (dec_of_Z z) (dec_of_Z z0)) as [E|E|E]; try reflexivity.
    rewrite !dval_of_Z in E. exfalso. apply n.
    unfold Qeq in E. cbn [Qnum Qden inject_Z] in E. lia.
Qed.

Section WithRegexp.
  Variable re : str -> str -> bool.
  Notation satb := (satb re).

  Lemma sat_bound_eqb_l : forall a a' o v, atom_eqb a a' = true -> sat_bound re a o v = sat_bound re a' o v.
  Proof.
    intros a a' o v H. pose proof (acmp_eqb_l a a' v H) as C.
    pose proof (atom_eqb_kbit _ _ H) as K.
    destruct o; cbn; rewrite ?C; try reflexivity.
    - destruct v; try reflexivity.
      + destruct a, a'; try discriminate K; reflexivity.
      + destruct a, a'; try discriminate K; try reflexivity. cbn in H. apply eqb_prop in H. subst. reflexivity.
    - destruct a, a'; try discriminate K; try reflexivity.
      cbn in H. destruct (str_cmp s s0) eqn:E; try discriminate. apply str_cmp_eq in E. subst. reflexivity.
    - destruct a, a'; try discriminate K; try reflexivity.
      cbn in H. destruct (str_cmp s s0) eqn:E; try discriminate. apply str_cmp_eq in E. subst. reflexivity.
  Qed.

  (* a bound only admits atoms of its kind *)
  Lemma sat_has_kind : forall a x, satb a x = true -> has (bound_kind x) a = true.
  Proof.
    intros a [o v]. unfold Proofs.satb; cbn [b_op b_val].
    destruct o, v, a; cbn; intros H; try discriminate H; reflexivity.
  Qed.

  (* BoundValue.validate agrees with the set semantics on atoms of the bound's kind *)
  Lemma validate_sat : forall x a, has (bound_kind x) a = true -> validate re x a = satb a x.
  Proof.
    intros [o v] a. unfold validate, Proofs.satb; cbn [b_op b_val].
    destruct o, v, a; cbn; intros H; try discriminate H; try reflexivity;
      repeat match goal with |- context [dcmp ?x ?y] => destruct (dcmp x y) end;
      repeat match goal with |- context [str_cmp ?x ?y] => destruct (str_cmp x y) end;
      try reflexivity.
  Qed.

  (* --------------------------------------------------- denotations ---- *)

  Definition satv (a : atom) (v : vconj) : bool :=
    match v with
    | VAtom b => atom_eqb a b
    | VType k => has k a
    | VBound b => satb a b
    | VBottom => false
    end.

  Definition vsafe (v : vconj) : bool := match v with VBound b => bsafe b | _ => true end.
  Definition vwf (v : vconj) : bool := match v with VType k => negb (k =? 0)%N | _ => true end.

  Definition stored (s : state) (b : bound) : Prop :=
    s_lower s = Some b \/ s_upper s = Some b \/ In b (s_checks s).

  (* the set of atoms a state admits *)
  Definition Sat (s : state) (a : atom) : Prop :=
    s_err s = false /\ has (s_kind s) a = true /\
    (forall v, s_scalar s = Some v -> atom_eqb a v = true) /\
    (forall b, stored s b -> satb a b = true).

  Record Inv (safe : bool) (s : state) : Prop := {
    inv_kind0 : s_kind s = 0%N -> s_err s = true;
    inv_bkind : forall b a, stored s b -> has (s_kind s) a = true -> has (bound_kind b) a = true;
    inv_scalar : forall v a, s_scalar s = Some v -> has (s_kind s) a = true -> kbit a = kbit v;
    inv_lower : forall b, s_lower s = Some b -> is_lower_op (b_op b) = true;
    inv_upper : forall b, s_upper s = Some b -> is_upper_op (b_op b) = true;
    inv_safe : safe = true -> forall b, stored s b -> bsafe b = true }.

  Lemma inv_init : forall safe, Inv safe init.
  Proof.
    intros. constructor; cbn; try discriminate.
    - intros b a [H|[H|H]]; try discriminate; contradiction.
    - intros _ b [H|[H|H]]; try discriminate; contradiction.
  Qed.

  (* ------------------------------------------------ updateNodeType ---- *)

  Lemma update_node_type_spec : forall safe s k,
    Inv safe s -> k <> 0%N ->
    let '(s1, ok) := update_node_type s k in
    Inv safe s1 /\
    (forall a, Sat s1 a <-> Sat s a /\ has k a = true) /\
    s_scalar s1 = s_scalar s /\ s_lower s1 = s_lower s /\ s_upper s1 = s_upper s /\ s_checks s1 = s_checks s /\
    (ok = true -> s_kind s1 = N.land (s_kind s) k /\ s_err s1 = s_err s) /\
    (ok = false -> forall a, ~ Sat s1 a).
  Proof.
    intros safe s k I Hk. unfold update_node_type.
    destruct (N.eqb_spec (s_kind s) BottomKind) as [K0|K0].
    - cbn [orb]. split; [assumption|]. split.
      + intros a. split; [|tauto]. intros S. exfalso. destruct S as (E & H & _).
        rewrite (inv_kind0 _ _ I K0) in E. discriminate.
      + repeat split; try discriminate. intros _ a S. destruct S as (E & H & _).
        rewrite (inv_kind0 _ _ I K0) in E. discriminate.
    - destruct (N.eqb_spec k BottomKind) as [K1|K1]; [contradiction|]. cbn [orb].
      destruct (N.eqb_spec (N.land (s_kind s) k) BottomKind) as [L|L]; cbn [negb].
      + (* conflict *)
        split.
        { constructor; cbn; try (intros; reflexivity).
          - intros b a St. rewrite L. rewrite has_zero. discriminate.
          - intros v a _. rewrite L, has_zero. discriminate.
          - apply (inv_lower _ _ I).
          - apply (inv_upper _ _ I).
          - apply (inv_safe _ _ I). }
        split.
        { intros a. split.
          - intros (E & _). discriminate E.
          - intros [(E & H & _) H2]. exfalso.
            assert (X : has (N.land (s_kind s) k) a = true) by (rewrite has_land, H, H2; reflexivity).
            rewrite L, has_zero in X. discriminate. }
        repeat split; try discriminate. intros _ a (E & _). discriminate E.
      + split.
        { constructor; cbn.
          - intros E. contradiction.
          - intros b a St H. rewrite has_land in H. apply andb_true_iff in H. apply (inv_bkind _ _ I b a St). tauto.
          - intros v a Sv H. rewrite has_land in H. apply andb_true_iff in H. apply (inv_scalar _ _ I v a Sv). tauto.
          - apply (inv_lower _ _ I).
          - apply (inv_upper _ _ I).
          - apply (inv_safe _ _ I). }
        split.
        { intros a. unfold Sat; cbn. rewrite has_land, andb_true_iff. unfold stored; cbn. tauto. }
        repeat split; try discriminate.
  Qed.

  (* --------------------------------------------- shapes of simplify ---- *)

  Lemma simplify_opp_cases : forall k l u,
    is_lower_op (b_op l) = true -> is_upper_op (b_op u) = true ->
    simplify re k l u = SNone \/ simplify re k l u = SBottom.
  Proof.
    intros k [ol lv] [ou uv]; cbn [b_op]. intros Hl Hu.
    destruct ol; try discriminate Hl; destruct ou; try discriminate Hu;
      unfold simplify; cbn [b_op b_val op_info Z.eqb Z.opp Pos.eqb andb];
      (destruct (k =? StringKind)%N;
       [ destruct lv; auto; destruct uv; auto; apply simplify_ordered_cases | ]);
      (destruct (k =? BytesKind)%N;
       [ destruct lv; auto; destruct uv; auto; apply simplify_ordered_cases | ]);
      destruct (num_of lv); auto; destruct (num_of uv); auto; apply simplify_num_cases.
  Qed.

  Lemma simplify_same_cases : forall k x y,
    (is_lower_op (b_op x) = true /\ is_lower_op (b_op y) = true) \/
    (is_upper_op (b_op x) = true /\ is_upper_op (b_op y) = true) ->
    simplify re k x y = SKeepX \/ simplify re k x y = SKeepY.
  Proof.
    intros k [ox xv] [oy yv]; cbn [b_op]. intros [[Hx Hy]|[Hx Hy]];
      destruct ox; try discriminate Hx; destruct oy; try discriminate Hy;
        unfold simplify; cbn [b_op b_val op_info Z.eqb Z.opp Pos.eqb andb];
        match goal with |- context [if ?c then SKeepX else SKeepY] => destruct c end; auto.
  Qed.

  (* -------------------------------------------------- the tail ------- *)

  Lemma resimplify_spec : forall safe s, Inv safe s ->
    Inv safe (resimplify re s) /\
    (forall a, Sat (resimplify re s) a -> Sat s a) /\
    (safe = true -> forall a, Sat s a -> Sat (resimplify re s) a) /\
    s_scalar (resimplify re s) = s_scalar s /\ s_kind (resimplify re s) = s_kind s.
  Proof.
    intros safe s I. unfold resimplify.
    destruct (s_lower s) as [l|] eqn:EL; [|split; [assumption|split; [auto|split; [auto|split; reflexivity]]]].
    destruct (s_upper s) as [u|] eqn:EU; [|split; [assumption|split; [auto|split; [auto|split; reflexivity]]]].
    pose proof (inv_lower _ _ I l EL) as Hl. pose proof (inv_upper _ _ I u EU) as Hu.
    destruct (simplify_opp_cases (s_kind s) l u Hl Hu) as [E|E]; rewrite E.
    - split; [assumption|split; [auto|split; [auto|split; reflexivity]]].
    - split; [|split; [|split]].
      + constructor; cbn; try discriminate; try (intros; reflexivity).
        * intros b a [H|[H|H]]; try discriminate. apply (inv_bkind _ _ I). right; right; assumption.
        * apply (inv_scalar _ _ I).
        * intros Hs b [H|[H|H]]; try discriminate. apply (inv_safe _ _ I Hs). right; right; assumption.
      + intros a (X & _). discriminate X.
      + intros Hs a (X1 & X2 & X3 & X4). exfalso.
        assert (Sl : stored s l) by (left; assumption).
        assert (Su : stored s u) by (right; left; assumption).
        pose proof (simplify_sound re (s_kind s) l u a X2 (inv_bkind _ _ I l a Sl X2) (inv_bkind _ _ I u a Su X2)
                      (inv_safe _ _ I Hs l Sl) (inv_safe _ _ I Hs u Su)) as S.
        rewrite E in S. rewrite (X4 l Sl), (X4 u Su) in S. discriminate S.
      + split; reflexivity.
  Qed.

  (* ------------------------------------------------ helper facts ------ *)

  Lemma bound_kind_nonzero : forall x, bound_kind x <> 0%N.
  Proof. intros [o v]. unfold bound_kind; cbn [b_op b_val]. destruct v; try discriminate. destruct (bop_eqb o ONe); discriminate. Qed.

  Lemma atom_kind_nonzero : forall a, atom_kind a <> 0%N.
  Proof. destruct a; discriminate. Qed.

  Lemma vkind_nonzero : forall v, vwf v = true -> v <> VBottom -> vkind v <> 0%N.
  Proof.
    intros [a|k|b|] W NB; cbn.
    - apply atom_kind_nonzero.
    - cbn in W. apply negb_true_iff, N.eqb_neq in W. assumption.
    - apply bound_kind_nonzero.
    - contradiction.
  Qed.

  Lemma satv_has_kind : forall a v, satv a v = true -> has (vkind v) a = true.
  Proof.
    intros a [b|k|b|]; cbn; intros H; try discriminate; auto.
    - apply has_atom_kind. symmetry. apply atom_eqb_kbit. assumption.
    - apply sat_has_kind. assumption.
  Qed.

  Lemma Inv_set_err : forall safe s, Inv safe s -> Inv safe (set_err s).
  Proof.
    intros safe s I. constructor; cbn; try (intros; reflexivity).
    - apply (inv_bkind _ _ I).
    - apply (inv_scalar _ _ I).
    - apply (inv_lower _ _ I).
    - apply (inv_upper _ _ I).
    - apply (inv_safe _ _ I).
  Qed.

  Lemma not_Sat_set_err : forall s a, ~ Sat (set_err s) a.
  Proof. intros s a (E & _). discriminate E. Qed.

  (* ------------------------------------------ lowerBound / upperBound -- *)

  Definition get_slot (s : state) (lower : bool) : option bound := if lower then s_lower s else s_upper s.

  Definition dir_ok (lower : bool) (o : bop) : bool := if lower then is_lower_op o else is_upper_op o.

  Lemma slot_spec : forall safe s x lower,
    Inv safe s -> dir_ok lower (b_op x) = true ->
    (forall a, has (s_kind s) a = true -> has (bound_kind x) a = true) ->
    (safe = true -> bsafe x = true) ->
    let s2 :=
      match get_slot s lower with
      | Some y =>
        match simplify re (s_kind s) x y with
        | SKeepX => set_slot s lower (Some x)
        | SKeepY => set_slot s lower (Some y)
        | SBottom => set_err (set_slot s lower None)
        | SNone => set_slot s lower (Some x)
        end
      | None => set_slot s lower (Some x)
      end in
    Inv safe s2 /\ (forall a, Sat s2 a <-> Sat s a /\ satb a x = true) /\
    s_scalar s2 = s_scalar s /\ s_kind s2 = s_kind s /\
    match get_slot s lower with
    | Some y => simplify re (s_kind s) x y = SKeepX \/ simplify re (s_kind s) x y = SKeepY
    | None => True
    end.
  Proof.
    intros safe s x lower I D K Sx s2.
    assert (InvX : forall y, Inv safe (set_slot s lower (Some y)) <->
                             (dir_ok lower (b_op y) = true /\
                              (forall a, has (s_kind s) a = true -> has (bound_kind y) a = true) /\
                              (safe = true -> bsafe y = true)) \/ False).
    { intros y. split; [|intros [H|[]]].
      - intros J. left. destruct lower; cbn in J |- *.
        + split; [apply (inv_lower _ _ J); reflexivity|]. split.
          * intros a. apply (inv_bkind _ _ J). left; reflexivity.
          * intros h. apply (inv_safe _ _ J h). left; reflexivity.
        + split; [apply (inv_upper _ _ J); reflexivity|]. split.
          * intros a. apply (inv_bkind _ _ J). right; left; reflexivity.
          * intros h. apply (inv_safe _ _ J h). right; left; reflexivity.
      - destruct H as (H1 & H2 & H3). destruct lower; cbn in H1 |- *; constructor; cbn.
        + apply (inv_kind0 _ _ I).
        + intros b a [E|[E|E]].
          * injection E as <-. apply H2.
          * apply (inv_bkind _ _ I). right; left; assumption.
          * apply (inv_bkind _ _ I). right; right; assumption.
        + apply (inv_scalar _ _ I).
        + intros b [= <-]. assumption.
        + apply (inv_upper _ _ I).
        + intros h b [E|[E|E]].
          * injection E as <-. auto.
          * apply (inv_safe _ _ I h). right; left; assumption.
          * apply (inv_safe _ _ I h). right; right; assumption.
        + apply (inv_kind0 _ _ I).
        + intros b a [E|[E|E]].
          * apply (inv_bkind _ _ I). left; assumption.
          * injection E as <-. apply H2.
          * apply (inv_bkind _ _ I). right; right; assumption.
        + apply (inv_scalar _ _ I).
        + apply (inv_lower _ _ I).
        + intros b [= <-]. assumption.
        + intros h b [E|[E|E]].
          * apply (inv_safe _ _ I h). left; assumption.
          * injection E as <-. auto.
          * apply (inv_safe _ _ I h). right; right; assumption. }
    (* what a state with the slot replaced admits *)
    assert (SatX : forall y a, Sat (set_slot s lower (Some y)) a <->
                   (s_err s = false /\ has (s_kind s) a = true /\
                    (forall v, s_scalar s = Some v -> atom_eqb a v = true) /\
                    (forall b, get_slot s (negb lower) = Some b -> satb a b = true) /\
                    (forall b, In b (s_checks s) -> satb a b = true) /\ satb a y = true)).
    { intros y a. unfold Sat, stored. destruct lower; cbn; split.
      - intros (A & B & C & Dd). repeat split; auto.
      - intros (A & B & C & Dd & E & F). repeat split; auto. intros b [G|[G|G]]; auto. injection G as <-. assumption.
      - intros (A & B & C & Dd). repeat split; auto.
      - intros (A & B & C & Dd & E & F). repeat split; auto. intros b [G|[G|G]]; auto. injection G as <-. assumption. }
    assert (SatS : forall a, Sat s a <->
                   (s_err s = false /\ has (s_kind s) a = true /\
                    (forall v, s_scalar s = Some v -> atom_eqb a v = true) /\
                    (forall b, get_slot s (negb lower) = Some b -> satb a b = true) /\
                    (forall b, In b (s_checks s) -> satb a b = true) /\
                    (forall b, get_slot s lower = Some b -> satb a b = true))).
    { intros a. unfold Sat, stored. destruct lower; cbn; split.
      - intros (A & B & C & Dd). repeat split; auto.
      - intros (A & B & C & Dd & E & F). repeat split; auto. intros b [G|[G|G]]; auto.
      - intros (A & B & C & Dd). repeat split; auto.
      - intros (A & B & C & Dd & E & F). repeat split; auto. intros b [G|[G|G]]; auto. }
    assert (Sc : forall y, s_scalar (set_slot s lower y) = s_scalar s /\ s_kind (set_slot s lower y) = s_kind s).
    { intros y. destruct lower; split; reflexivity. }
    subst s2.
    destruct (get_slot s lower) as [y|] eqn:G.
    - assert (Dy : dir_ok lower (b_op y) = true).
      { destruct lower; cbn in G |- *; [apply (inv_lower _ _ I)|apply (inv_upper _ _ I)]; assumption. }
      assert (Sy : stored s y) by (destruct lower; cbn in G; [left|right; left]; assumption).
      assert (Same : simplify re (s_kind s) x y = SKeepX \/ simplify re (s_kind s) x y = SKeepY).
      { apply simplify_same_cases. destruct lower; cbn in D, Dy; [left|right]; split; assumption. }
      destruct Same as [E|E]; rewrite E.
      + split; [apply InvX; left; auto|]. split; [|split; [apply Sc|split; [apply Sc|left; reflexivity]]].
        intros a. rewrite SatX, SatS. split.
        * intros (A & B & C & Dd & F & H). split; [|assumption]. repeat split; auto.
          intros b [= <-].
          pose proof (simplify_keep_sound re (s_kind s) x y a B (K a B) (inv_bkind _ _ I y a Sy B)) as KS.
          rewrite E in KS. auto.
        * intros [(A & B & C & Dd & F & H) X]. repeat split; auto.
      + split; [apply InvX; left; split; [assumption|split; [intros a; apply (inv_bkind _ _ I y a Sy)|intros h; apply (inv_safe _ _ I h y Sy)]]|].
        split; [|split; [apply Sc|split; [apply Sc|right; reflexivity]]].
        intros a. rewrite SatX, SatS. split.
        * intros (A & B & C & Dd & F & H). split.
          -- repeat split; auto. intros b [= <-]. assumption.
          -- pose proof (simplify_keep_sound re (s_kind s) x y a B (K a B) (inv_bkind _ _ I y a Sy B)) as KS.
             rewrite E in KS. auto.
        * intros [(A & B & C & Dd & F & H) X]. repeat split; auto.
    - split; [apply InvX; left; auto|]. split; [|split; [apply Sc|split; [apply Sc|trivial]]].
      intros a. rewrite SatX, SatS. split.
      + intros (A & B & C & Dd & F & H). split; [|assumption]. repeat split; auto. discriminate.
      + intros [(A & B & C & Dd & F & H) X]. repeat split; auto.
  Qed.

  (* ----------------------------------------------------- n.checks ----- *)

  Lemma dedup_spec : forall k x cs a,
    has k a = true -> has (bound_kind x) a = true ->
    (forall y, In y cs -> has (bound_kind y) a = true) ->
    let '(cs', m) := dedup_checks re k x cs in
    (forall y, In y cs' -> In y cs) /\
    (m = true -> (forall b, In b cs' -> satb a b = true) -> satb a x = true) /\
    ((forall b, In b cs' -> satb a b = true) -> satb a x = true -> forall b, In b cs -> satb a b = true).
  Proof.
    intros k x cs a Hk Hx. induction cs as [|y r IH]; intros Hy; cbn [dedup_checks].
    - split; [auto|]. split; [discriminate|]. intros _ _ b [].
    - destruct (dedup_checks re k x r) as [r' m'] eqn:ED.
      assert (Hr : forall y0, In y0 r -> has (bound_kind y0) a = true) by (intros; apply Hy; right; assumption).
      specialize (IH Hr). destruct IH as (I1 & I2 & I3).
      pose proof (simplify_keep_sound re k x y a Hk Hx (Hy y (or_introl eq_refl))) as KS.
      destruct (simplify re k x y) eqn:ES.
      + (* SKeepX: y is deleted *)
        split; [intros y0 H; right; auto|]. split; [assumption|].
        intros A B b [ <- |Hb]; auto.
      + (* SKeepY: y stays, x is implied *)
        split; [intros y0 [ <- |H]; [left; reflexivity|right; auto]|]. split.
        * intros _ A. apply KS. apply A. left; reflexivity.
        * intros A B b [ <- |Hb]; [apply A; left; reflexivity|]. apply I3; auto. intros b0 Hb0. apply A. right; assumption.
      + split; [intros y0 [ <- |H]; [left; reflexivity|right; auto]|]. split.
        * intros M A. apply I2; auto. intros b0 Hb0. apply A. right; assumption.
        * intros A B b [ <- |Hb]; [apply A; left; reflexivity|]. apply I3; auto. intros b0 Hb0. apply A. right; assumption.
      + split; [intros y0 [ <- |H]; [left; reflexivity|right; auto]|]. split.
        * intros M A. apply I2; auto. intros b0 Hb0. apply A. right; assumption.
        * intros A B b [ <- |Hb]; [apply A; left; reflexivity|]. apply I3; auto. intros b0 Hb0. apply A. right; assumption.
  Qed.

  Lemma checks_spec : forall safe s x,
    Inv safe s ->
    (forall a, has (s_kind s) a = true -> has (bound_kind x) a = true) ->
    (safe = true -> bsafe x = true) ->
    let '(cs, m) := dedup_checks re (s_kind s) x (s_checks s) in
    let s2 := mkstate (s_kind s) (s_scalar s) (s_lower s) (s_upper s) (if m then cs else cs ++ [x]) (s_err s) in
    Inv safe s2 /\ (forall a, Sat s2 a <-> Sat s a /\ satb a x = true).
  Proof.
    intros safe s x I K Sx.
    destruct (dedup_checks re (s_kind s) x (s_checks s)) as [cs m] eqn:ED.
    assert (Sub : forall b, In b (if m then cs else cs ++ [x]) -> In b (s_checks s) \/ b = x).
    { intros b Hb.
      assert (Hs : forall y, In y cs -> In y (s_checks s)).
      { clear -ED. revert cs m ED. generalize (s_checks s) as l.
        induction l as [|y r IH]; intros cs m ED; cbn in ED.
        - injection ED as <- <-. auto.
        - destruct (dedup_checks re (s_kind s) x r) as [r' m'] eqn:E2.
          specialize (IH r' m' eq_refl).
          destruct (simplify re (s_kind s) x y); injection ED as <- <-; intros z Hz; cbn in *; intuition. }
      destruct m; [left; auto|]. apply in_app_or in Hb. destruct Hb as [Hb|[ <- |[]]]; auto. }
    split.
    - constructor; cbn.
      + apply (inv_kind0 _ _ I).
      + intros b a [E|[E|E]] H.
        * apply (inv_bkind _ _ I b a); [left; assumption|assumption].
        * apply (inv_bkind _ _ I b a); [right; left; assumption|assumption].
        * destruct (Sub b E) as [E'| ->]; [apply (inv_bkind _ _ I b a); [right; right; assumption|assumption]|auto].
      + apply (inv_scalar _ _ I).
      + apply (inv_lower _ _ I).
      + apply (inv_upper _ _ I).
      + intros h b [E|[E|E]].
        * apply (inv_safe _ _ I h). left; assumption.
        * apply (inv_safe _ _ I h). right; left; assumption.
        * destruct (Sub b E) as [E'| ->]; [apply (inv_safe _ _ I h); right; right; assumption|auto].
    - intros a. unfold Sat, stored; cbn. split.
      + intros (A & B & C & Dd).
        pose proof (dedup_spec (s_kind s) x (s_checks s) a B (K a B)
                      (fun y Hy => inv_bkind _ _ I y a (or_intror (or_intror Hy)) B)) as DS.
        rewrite ED in DS. destruct DS as (D1 & D2 & D3).
        assert (Hcs : forall b, In b cs -> satb a b = true).
        { intros b Hb. apply Dd. right; right. destruct m; [assumption|apply in_or_app; left; assumption]. }
        assert (Hx : satb a x = true).
        { destruct m; [apply D2; auto|]. apply Dd. right; right. apply in_or_app. right. left. reflexivity. }
        split; [|assumption]. repeat split; auto.
        intros b [E|[E|E]]; [apply Dd; left; assumption|apply Dd; right; left; assumption|]. apply D3; auto.
      + intros [(A & B & C & Dd) Hx]. repeat split; auto.
        intros b [E|[E|E]]; [apply Dd; left; assumption|apply Dd; right; left; assumption|].
        destruct (Sub b E) as [E'| ->]; [apply Dd; right; right; assumption|assumption].
  Qed.

  (* ------------------------------------------ insertValueConjunct ----- *)

  Lemma rel_dir : forall o, is_rel_op o = true -> dir_ok (is_lower_op o) o = true.
  Proof. destruct o; cbn; intros H; try discriminate H; reflexivity. Qed.

  Theorem insert_spec : forall safe s v,
    Inv safe s -> vwf v = true -> (safe = true -> vsafe v = true) ->
    Inv safe (insert re s v) /\
    (forall a, Sat (insert re s v) a -> Sat s a /\ satv a v = true) /\
    (safe = true -> forall a, Sat s a -> satv a v = true -> Sat (insert re s v) a).
  Proof.
    intros safe s v I W Sv.
    destruct (match v with VBottom => true | _ => false end) eqn:VB.
    { destruct v; try discriminate VB. cbn [insert].
      split; [apply Inv_set_err; assumption|]. split.
      - intros a H. exfalso. eapply not_Sat_set_err; eauto.
      - intros _ a _ H. discriminate H. }
    assert (NB : v <> VBottom) by (intros ->; discriminate VB).
    pose proof (update_node_type_spec safe s (vkind v) I (vkind_nonzero v W NB)) as U.
    assert (EI : insert re s v =
                 let '(s1, ok) := update_node_type s (vkind v) in
                 if negb ok then s1 else
                 match v with
                 | VBottom => s1
                 | VType _ => resimplify re s1
                 | VBound x =>
                   if is_rel_op (b_op x) then
                     let lower := is_lower_op (b_op x) in
                     match get_slot s1 lower with
                     | Some y =>
                       match simplify re (s_kind s1) x y with
                       | SKeepX => resimplify re (set_slot s1 lower (Some x))
                       | SKeepY => resimplify re (set_slot s1 lower (Some y))
                       | SBottom => set_err (set_slot s1 lower None)
                       | SNone => resimplify re (set_slot s1 lower (Some x))
                       end
                     | None => resimplify re (set_slot s1 lower (Some x))
                     end
                   else
                     let '(cs, m) := dedup_checks re (s_kind s1) x (s_checks s1) in
                     mkstate (s_kind s1) (s_scalar s1) (s_lower s1) (s_upper s1) (if m then cs else cs ++ [x]) (s_err s1)
                 | VAtom a =>
                   match s_scalar s1 with
                   | Some y => if equal_bool a y then resimplify re s1 else resimplify re (set_err s1)
                   | None => resimplify re (mkstate (s_kind s1) (Some a) (s_lower s1) (s_upper s1) (s_checks s1) (s_err s1))
                   end
                 end).
    { destruct v; try contradiction; reflexivity. }
    rewrite EI. clear EI.
    destruct (update_node_type s (vkind v)) as [s1 ok].
    destruct U as (I1 & S1 & F1 & F2 & F3 & F4 & Ok & NOk).
    destruct ok; cbn [negb].
    2:{ (* the kinds conflict *)
      split; [assumption|]. split.
      - intros a H. exfalso. eapply NOk; eauto.
      - intros _ a H1 H2. apply S1. split; [assumption|]. apply satv_has_kind. assumption. }
    destruct (Ok eq_refl) as [Kd Er].
    assert (KK : forall a, has (s_kind s1) a = true -> has (vkind v) a = true).
    { intros a H. rewrite Kd, has_land in H. apply andb_true_iff in H. tauto. }
    destruct v as [b|k|x|]; try contradiction; cbn [vkind] in *.
    - (* scalar *)
      destruct (s_scalar s1) as [y|] eqn:ES.
      + assert (Eq : forall a, Sat s1 a -> equal_bool b y = atom_eqb b y).
        { intros a (A & B & C & Dd). apply equal_bool_eqb.
          pose proof (KK a B) as Hb. apply has_atom_kind in Hb.
          pose proof (atom_eqb_kbit _ _ (C y ES)). congruence. }
        destruct (equal_bool b y) eqn:EB.
        * destruct (resimplify_spec safe s1 I1) as (R1 & R2 & R3 & _).
          split; [assumption|]. split.
          -- intros a H. apply R2 in H. pose proof (Eq a H) as E. apply S1 in H as H'. destruct H' as [H1 H2].
             split; [assumption|]. cbn [satv].
             destruct H as (_ & _ & C & _). rewrite <- E in EB || idtac.
             apply atom_eqb_trans with y; [apply C; assumption|]. rewrite atom_eqb_sym. rewrite <- E. reflexivity.
          -- intros h a H1 H2. apply R3; [assumption|]. apply S1. split; [assumption|]. apply (satv_has_kind a (VAtom b)). assumption.
        * destruct (resimplify_spec safe (set_err s1) (Inv_set_err _ _ I1)) as (R1 & R2 & R3 & _).
          split; [assumption|]. split.
          -- intros a H. apply R2 in H. exfalso. eapply not_Sat_set_err; eauto.
          -- intros h a H1 H2. exfalso. cbn [satv] in H2.
             assert (Sat s1 a) as H3 by (apply S1; split; [assumption|apply (satv_has_kind a (VAtom b)); assumption]).
             destruct H3 as (_ & _ & C & _).
             rewrite (equal_bool_of_eqb b y a H2 (C y ES)) in EB. discriminate.
      + set (s2 := mkstate (s_kind s1) (Some b) (s_lower s1) (s_upper s1) (s_checks s1) (s_err s1)).
        assert (I2 : Inv safe s2).
        { constructor; cbn.
          - apply (inv_kind0 _ _ I1).
          - apply (inv_bkind _ _ I1).
          - intros v a [= <-] H. apply KK in H. apply has_atom_kind in H. congruence.
          - apply (inv_lower _ _ I1).
          - apply (inv_upper _ _ I1).
          - apply (inv_safe _ _ I1). }
        assert (S2 : forall a, Sat s2 a <-> Sat s1 a /\ atom_eqb a b = true).
        { intros a. unfold Sat, stored; cbn. rewrite ES. split.
          - intros (A & B & C & Dd). repeat split; auto. discriminate.
          - intros [(A & B & C & Dd) E]. repeat split; auto. intros v [= <-]. assumption. }
        destruct (resimplify_spec safe s2 I2) as (R1 & R2 & R3 & _).
        split; [assumption|]. split.
        * intros a H. apply R2, S2 in H. destruct H as [H E]. apply S1 in H. split; tauto.
        * intros h a H1 H2. apply R3; [assumption|]. apply S2. split; [|assumption].
          apply S1. split; [assumption|]. apply (satv_has_kind a (VAtom b)). assumption.
    - (* basic type *)
      destruct (resimplify_spec safe s1 I1) as (R1 & R2 & R3 & _).
      split; [assumption|]. split.
      + intros a H. apply R2, S1 in H. assumption.
      + intros h a H1 H2. apply R3; [assumption|]. apply S1. split; assumption.
    - (* bound *)
      assert (Sx : safe = true -> bsafe x = true) by (intros h; apply (Sv h)).
      destruct (is_rel_op (b_op x)) eqn:ER.
      + pose proof (slot_spec safe s1 x (is_lower_op (b_op x)) I1 (rel_dir _ ER) KK Sx) as SS.
        cbv zeta in SS |- *.
        destruct SS as (I2 & S2 & _ & _ & Same).
        destruct (get_slot s1 (is_lower_op (b_op x))) as [y|] eqn:G.
        * destruct Same as [E|E]; rewrite E in *.
          -- destruct (resimplify_spec safe _ I2) as (R1 & R2 & R3 & _).
             split; [assumption|]. split.
             ++ intros a H. apply R2, S2 in H. destruct H as [H E2]. apply S1 in H. split; tauto.
             ++ intros h a H1 H2. apply R3; [assumption|]. apply S2. split; [|assumption].
                apply S1. split; [assumption|]. apply (satv_has_kind a (VBound x)). assumption.
          -- destruct (resimplify_spec safe _ I2) as (R1 & R2 & R3 & _).
             split; [assumption|]. split.
             ++ intros a H. apply R2, S2 in H. destruct H as [H E2]. apply S1 in H. split; tauto.
             ++ intros h a H1 H2. apply R3; [assumption|]. apply S2. split; [|assumption].
                apply S1. split; [assumption|]. apply (satv_has_kind a (VBound x)). assumption.
        * destruct (resimplify_spec safe _ I2) as (R1 & R2 & R3 & _).
          split; [assumption|]. split.
          -- intros a H. apply R2, S2 in H. destruct H as [H E2]. apply S1 in H. split; tauto.
          -- intros h a H1 H2. apply R3; [assumption|]. apply S2. split; [|assumption].
             apply S1. split; [assumption|]. apply (satv_has_kind a (VBound x)). assumption.
      + pose proof (checks_spec safe s1 x I1 KK Sx) as CS.
        destruct (dedup_checks re (s_kind s1) x (s_checks s1)) as [cs m].
        cbv zeta in CS. destruct CS as [I2 S2].
        split; [assumption|]. split.
        * intros a H. apply S2 in H. destruct H as [H E2]. apply S1 in H. split; tauto.
        * intros h a H1 H2. apply S2. split; [|assumption].
          apply S1. split; [assumption|]. apply (satv_has_kind a (VBound x)). assumption.
  Qed.

  (* -------------------------------------------------- field tracking --- *)

  Lemma resimplify_fields : forall s,
    s_kind (resimplify re s) = s_kind s /\ s_scalar (resimplify re s) = s_scalar s /\
    (s_err s = true -> s_err (resimplify re s) = true).
  Proof.
    intros s. unfold resimplify. destruct (s_lower s); [|auto]. destruct (s_upper s); [|auto].
    destruct (simplify re (s_kind s) b b0); cbn; auto.
  Qed.

  Lemma unt_fields : forall s k, k <> 0%N ->
    let '(s1, ok) := update_node_type s k in
    s_scalar s1 = s_scalar s /\ (s_err s = true -> s_err s1 = true) /\
    (s_kind s1 = s_kind s \/ s_kind s1 = N.land (s_kind s) k) /\
    (ok = true -> s_kind s1 = N.land (s_kind s) k) /\
    (ok = false -> s_err s1 = true \/ s_kind s = 0%N).
  Proof.
    intros s k Hk. unfold update_node_type.
    destruct (N.eqb_spec (s_kind s) BottomKind); cbn [orb].
    { repeat split; auto; discriminate. }
    destruct (N.eqb_spec k BottomKind); [contradiction|]. cbn [orb].
    destruct (N.land (s_kind s) k =? BottomKind)%N; cbn [negb]; repeat split; auto; discriminate.
  Qed.

  Lemma insert_fields : forall s v, vwf v = true ->
    (s_err s = true -> s_err (insert re s v) = true) /\
    ((s_kind (insert re s v) = s_kind s /\ s_scalar (insert re s v) = s_scalar s) \/
     (s_kind (insert re s v) = N.land (s_kind s) (vkind v) /\
      (s_scalar (insert re s v) = s_scalar s \/
       (s_scalar s = None /\ exists b, v = VAtom b /\ s_scalar (insert re s v) = Some b)))) /\
    (forall b, v = VAtom b -> (s_kind s = 0%N -> s_err s = true) ->
       s_err (insert re s v) = true \/ exists w, s_scalar (insert re s v) = Some w).
  Proof.
    intros s v W.
    destruct (match v with VBottom => true | _ => false end) eqn:VB.
    { destruct v; try discriminate VB. cbn [insert]. split; [reflexivity|]. split; [left; split; reflexivity|]. discriminate. }
    assert (NB : v <> VBottom) by (intros ->; discriminate VB).
    pose proof (unt_fields s (vkind v) (vkind_nonzero v W NB)) as U.
    destruct v as [b|k|x|]; try contradiction; cbn [insert];
      destruct (update_node_type s _) as [s1 ok]; destruct U as (Sc & Er & Kd & Ok & NOk);
      destruct ok; cbn [negb];
      try (split; [assumption|]; split; [destruct Kd as [Kd|Kd]; [left|right]; auto|];
           intros b0 _ K0; destruct (NOk eq_refl) as [E|E]; [left; assumption|left; apply Er, K0, E]).
    - specialize (Ok eq_refl).
      destruct (s_scalar s1) as [y|] eqn:ES.
      + destruct (equal_bool b y);
          match goal with |- context [resimplify re ?t] => destruct (resimplify_fields t) as (A & B & C) end;
          rewrite A, B; cbn [set_err s_kind s_scalar s_err]; rewrite ES.
        * split; [intros h; apply C, Er, h|]. split; [right; split; [assumption|left; congruence]|].
          intros _ _ _. right. eauto.
        * split; [intros h; apply C; reflexivity|]. split; [right; split; [assumption|left; congruence]|].
          intros _ _ _. right. eauto.
      + match goal with |- context [resimplify re ?t] => destruct (resimplify_fields t) as (A & B & C) end.
        rewrite A, B; cbn [s_kind s_scalar s_err] in *.
        split; [intros h; apply C, Er, h|]. split.
        * right. split; [assumption|]. right. split; [congruence|]. eauto.
        * intros _ _ _. right. eauto.
    - specialize (Ok eq_refl).
      match goal with |- context [resimplify re ?t] => destruct (resimplify_fields t) as (A & B & C) end.
      rewrite A, B. split; [intros h; apply C, Er, h|]. split; [right; split; [assumption|left; assumption]|]. discriminate.
    - specialize (Ok eq_refl). cbn [vkind] in *.
      split; [|split; [|discriminate]].
      + intros h. specialize (Er h).
        destruct (is_rel_op (b_op x)).
        * assert (G : forall y lower, s_err (resimplify re (set_slot s1 lower y)) = true).
          { intros y lower. apply resimplify_fields. destruct lower; assumption. }
          destruct (if is_lower_op (b_op x) then s_lower s1 else s_upper s1); [|apply G].
          destruct (simplify re (s_kind s1) x b); try apply G. reflexivity.
        * destruct (dedup_checks re (s_kind s1) x (s_checks s1)). assumption.
      + right.
        destruct (is_rel_op (b_op x)).
        * assert (G : forall y lower, s_kind (resimplify re (set_slot s1 lower y)) = N.land (s_kind s) (bound_kind x) /\
                                      s_scalar (resimplify re (set_slot s1 lower y)) = s_scalar s).
          { intros y lower. destruct (resimplify_fields (set_slot s1 lower y)) as (A & B & _).
            rewrite A, B. destruct lower; cbn; split; congruence. }
          destruct (if is_lower_op (b_op x) then s_lower s1 else s_upper s1);
            [destruct (simplify re (s_kind s1) x b)|]; try (destruct (G (Some x) (is_lower_op (b_op x))) as [G1 G2]; split; [exact G1|left; exact G2]).
          -- destruct (G (Some b) (is_lower_op (b_op x))) as [G1 G2]; split; [exact G1|left; exact G2].
          -- destruct (is_lower_op (b_op x)); cbn; split; [assumption|left; assumption| assumption|left; assumption].
        * destruct (dedup_checks re (s_kind s1) x (s_checks s1)). cbn. split; [assumption|left; assumption].
  Qed.

  Definition ScalarKind (s : state) : Prop :=
    forall v, s_scalar s = Some v -> s_kind s = 0%N \/ s_kind s = atom_kind v.

  Lemma land_pow2_cases : forall i k, N.land (2 ^ i) k = 0%N \/ N.land (2 ^ i) k = (2 ^ i)%N.
  Proof.
    intros i k. destruct (N.testbit k i) eqn:T.
    - right. apply N.bits_inj. intro j. rewrite N.land_spec, N.pow2_bits_eqb.
      destruct (N.eqb_spec i j) as [->|]; [rewrite T|]; reflexivity.
    - left. apply N.bits_inj. intro j. rewrite N.land_spec, N.bits_0, N.pow2_bits_eqb.
      destruct (N.eqb_spec i j) as [->|]; [rewrite T|]; reflexivity.
  Qed.

  Lemma scalar_kind_insert : forall s v, vwf v = true -> ScalarKind s -> ScalarKind (insert re s v).
  Proof.
    intros s v W SK w Hw.
    destruct (insert_fields s v W) as (_ & [[K Sc]|[K [Sc|(Sn & b & -> & Sb)]]] & _).
    - rewrite K. apply SK. rewrite <- Sc. assumption.
    - rewrite Sc in Hw. destruct (SK w Hw) as [E|E]; rewrite K, E.
      + left. reflexivity.
      + rewrite atom_kind_pow2. apply land_pow2_cases.
    - rewrite Sb in Hw. injection Hw as <-. rewrite K. cbn [vkind].
      rewrite N.land_comm, atom_kind_pow2. apply land_pow2_cases.
  Qed.

  (* ------------------------------------------------------ accumulate -- *)

  Lemma fold_spec : forall safe vs s,
    Inv safe s -> forallb vwf vs = true -> (safe = true -> forallb vsafe vs = true) ->
    Inv safe (fold_left (insert re) vs s) /\
    (forall a, Sat (fold_left (insert re) vs s) a -> Sat s a /\ forallb (satv a) vs = true) /\
    (safe = true -> forall a, Sat s a -> forallb (satv a) vs = true -> Sat (fold_left (insert re) vs s) a).
  Proof.
    intros safe vs. induction vs as [|v r IH]; intros s I W Sf; cbn [fold_left forallb].
    - split; [assumption|]. split; auto.
    - cbn [forallb] in W. apply andb_true_iff in W. destruct W as [W1 W2].
      assert (Sf1 : safe = true -> vsafe v = true).
      { intros h. specialize (Sf h). cbn [forallb] in Sf. apply andb_true_iff in Sf. tauto. }
      assert (Sf2 : safe = true -> forallb vsafe r = true).
      { intros h. specialize (Sf h). cbn [forallb] in Sf. apply andb_true_iff in Sf. tauto. }
      destruct (insert_spec safe s v I W1 Sf1) as (I1 & A1 & B1).
      destruct (IH (insert re s v) I1 W2 Sf2) as (I2 & A2 & B2).
      split; [assumption|]. split.
      + intros a H. apply A2 in H. destruct H as [H1 H2]. apply A1 in H1. destruct H1 as [H0 H1].
        split; [assumption|]. rewrite H1, H2. reflexivity.
      + intros h a H1 H2. apply andb_true_iff in H2. destruct H2 as [H2 H3].
        apply B2; auto.
  Qed.

  Lemma has_top : forall a, has TopKind a = true.
  Proof. destruct a; reflexivity. Qed.

  Lemma Sat_init : forall a, Sat init a.
  Proof.
    intros a. unfold Sat, stored; cbn. repeat split; try discriminate; auto using has_top.
    intros b [H|[H|[]]]; discriminate.
  Qed.

  Lemma scalar_kind_fold : forall vs s, forallb vwf vs = true -> ScalarKind s -> ScalarKind (fold_left (insert re) vs s).
  Proof.
    induction vs as [|v r IH]; intros s W; cbn; [auto|].
    cbn in W. apply andb_true_iff in W. destruct W. auto using scalar_kind_insert.
  Qed.

  Lemma scalar_origin : forall vs s w, forallb vwf vs = true ->
    s_scalar (fold_left (insert re) vs s) = Some w -> s_scalar s = Some w \/ In (VAtom w) vs.
  Proof.
    induction vs as [|v r IH]; intros s w W H; cbn in H; [auto|].
    cbn in W. apply andb_true_iff in W. destruct W as [W1 W2].
    apply IH in H; [|assumption]. destruct H as [H|H]; [|right; right; assumption].
    destruct (insert_fields s v W1) as (_ & [[K Sc]|[K [Sc|(Sn & b & -> & Sb)]]] & _).
    - left. congruence.
    - left. congruence.
    - rewrite Sb in H. injection H as <-. right. left. reflexivity.
  Qed.

  Lemma err_sticky_fold : forall vs s, forallb vwf vs = true -> s_err s = true -> s_err (fold_left (insert re) vs s) = true.
  Proof.
    induction vs as [|v r IH]; intros s W H; cbn; [assumption|].
    cbn in W. apply andb_true_iff in W. destruct W as [W1 W2].
    apply IH; [assumption|]. apply insert_fields; assumption.
  Qed.

End WithRegexp.
