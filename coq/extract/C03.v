From Verif Require Import Extract.C03.
Require Import ExtrOcamlBasic.
Extraction "c03_model.ml" c03_simplify c03_run c03_run_with c03_sat_all c03_all_safe c03_zpush c03_zneg c03_z_to_n.
