From Verif Require Import Extract.Core.
Require Import ExtrOcamlBasic.
Extraction "core_model.ml" core_eval core_err core_concrete core_eval_disj core_eval_nest.
