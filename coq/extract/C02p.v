From Verif Require Import Extract.C02p.
Require Import ExtrOcamlBasic.
Extraction "c02p_model.ml" c02p_parse.
