From Verif Require Import Extract.C12.
Require Import ExtrOcamlBasic.
Extraction "c12_model.ml" c12_decode.
