From Verif Require Import Extract.C09.
Require Import ExtrOcamlBasic.
Extraction "c09_model.ml" c09_quote c09_mk_form c09_unquote_impl c09_unquote_int32 c09_indent_tabs c09_set_indent c09_sanitize
  c09_decode c09_decode_last c09_encode c09_required_hash_count.
