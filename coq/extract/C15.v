From Verif Require Import Extract.C15.
Require Import ExtrOcamlBasic.
Extraction "c15_model.ml" c15_check_path c15_is_clean c15_fold c15_split_cue_mod c15_check_files c15_check_zip c15_create c15_unzip c15_files_verdicts c15_zip_verdicts c15_check_dir c15_create_from_dir.
