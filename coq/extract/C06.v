From Verif Require Import Extract.C06.
Require Import ExtrOcamlBasic.
Extraction "c06_model.ml" c06_eval c06_lit c06_bytes_cmp.
