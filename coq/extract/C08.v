From Verif Require Import Extract.C08.
Require Import ExtrOcamlBasic.
Extraction "c08_model.ml" c08_sp1 c08_sp2 c08_reread1 c08_reread2 c08_print1 c08_print2 c08_parse c08_scan c08_unparen c08_collapse c08_needs_sep c08_rescan1 c08_rescan2 c08_right_nested_chain.
