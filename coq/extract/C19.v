From Verif Require Import Extract.C19.
Require Import ExtrOcamlBasic.
Extraction "c19_model.ml" c19_index_seq c19_index_check c19_index_run c19_once_check c19_once_run.
