From Verif Require Import Extract.C02s.
Require Import ExtrOcamlBasic.
Extraction "c02s_model.ml" c02s_sanitize c02s_printed c02s_coherent c02s_topo c02s_merge c02s_implicit.
