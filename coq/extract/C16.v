From Verif Require Import Extract.C16.
Require Import ExtrOcamlBasic.
Extraction "c16_model.ml" c16_cfg c16_run.
