From Verif Require Import Extract.C16.
Require Import ExtrOcamlBasic.
Extraction "c16_model.ml" c16_cfg c16_world0 c16_accept1 c16_settle c16_step c16_result c16_nthreads c16_gz c16_store c16_completeb c16_recover.
