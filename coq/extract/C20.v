From Verif Require Import Extract.C20.
Require Import ExtrOcamlBasic.
Extraction "c20_model.ml" c20_final c20_err c20_keepm c20_accepts_mask c20_trim_mask c20_trim_model c20_fingerprint.
