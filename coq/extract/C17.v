From Verif Require Import Extract.C17.
Require Import ExtrOcamlBasic.
Extraction "c17_model.ml" c17_tidy c17_check c17_mkU c17_mkM c17_mc.
