From Verif Require Import Extract.C11.
Require Import ExtrOcamlBasic.
Extraction "c11_model.ml" c11_probe c11_doc.
