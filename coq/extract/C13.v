From Verif Require Import Schema.Sem Extract.C13.
Require Import ExtrOcamlBasic.
Extraction "c13_model.ml" c13_valid c13_encode c13_unsupported c13_enc c13_enc_ev c13_poisoned c13_dev no_assertions no_applic.
