From Verif Require Import Schema.Sem Schema.Refs Extract.C13.
Require Import ExtrOcamlBasic.
Extraction "c13_model.ml" c13_valid c13_encode c13_unsupported c13_enc c13_enc_ev c13_poisoned c13_dev no_assertions no_applic c13_doc_ok c13_resolve_doc c13_valid_r.
