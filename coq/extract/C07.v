From Verif Require Import Extract.C07.
Require Import ExtrOcamlBasic.
Extraction "c07_model.ml" c07_eval c07_err c07_project_res c07_normalize c07_project_value c07_nf_ok c07_nf_concrete c07_print c07_range_rewrite c07_impl_def c07_norm_sdisj c07_take_defaults c07_print_sdisj c07_pair c07_pair_accepts c07_resolve c07_fold_sensitive c07_sres.
