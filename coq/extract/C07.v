From Verif Require Import Extract.C07.
Require Import ExtrOcamlBasic.
Extraction "c07_model.ml" c07_eval c07_err c07_project_res c07_normalize c07_project_value c07_nf_ok c07_nf_concrete c07_print c07_range_rewrite c07_impl_def.
