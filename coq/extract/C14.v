From Verif Require Import Extract.C14.
Require Import ExtrOcamlBasic.
Extraction "c14_model.ml" c14_build_list c14_accept c14_compare c14_is_valid c14_canonical c14_major c14_vmax.
