From Verif Require Import Extract.C10.
Require Import ExtrOcamlBasic.
Extraction "c10_model.ml" c10_spec_decode c10_cue_decode c10_classify c10_reprint c10_unquote c10_unescape
  c10_parse_num c10_read_number c10_apd c10_format_G c10_go_string c10_utf8 c10_N_digits c10_digits_val.
