From Verif Require Import Extract.C18.
Require Import ExtrOcamlBasic.
Extraction "c18_model.ml" c18_observe c18_check_cycle c18_accepts c18_hyps c18_observe_cfg c18_discover c18_cfg_hyps.
