From Verif Require Import Extract.C02.
Require Import ExtrOcamlBasic.
Extraction "c02_model.ml" c02_run c02_tokenize.
