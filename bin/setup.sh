#!/bin/bash
# MANIFEST.setup_cmd: build everything the checks share, offline, from files on disk.
set -e
cd "$(dirname "$0")/.."
mkdir -p build evidence replays
python3 - <<'PY'
import sys
sys.path.insert(0, "lib")
import vlib
vlib.coq_makefile()
rc, out, secs = vlib.coq_build([], timeout=5400)   # full .vo build of every file
print(out[-3000:])
print("coq build rc=%d in %.0fs" % (rc, secs))
if rc != 0:
    sys.exit(1)
PY
# warm the Go build cache with one harness (the rest build on demand, incrementally)
python3 - <<'PY'
import sys
sys.path.insert(0, "lib")
import vlib
try:
    print(vlib.build_harness("c14"))
except Exception as e:
    print("harness warm-up failed:", e)
PY
echo setup done
