#!/bin/bash
# MANIFEST.setup_cmd: build everything the checks share, offline, from files on disk.
set -e
cd "$(dirname "$0")/.."
mkdir -p build evidence replays
python3 - <<'PY'
import sys
sys.path.insert(0, "lib")
import vlib
# 1. whole-tree audit: no Admitted/admit/Axiom/Parameter/... anywhere in the development
n, hits = vlib.audit()
print("audit: %d files, %d hits" % (n, len(hits)))
for h in hits:
    print("  " + h)
if hits:
    sys.exit(1)
# 2. full .vo build of every file (coq_makefile + make -j16; never -vos/-vok)
vlib.coq_makefile()
rc, out, secs = vlib.coq_build([], timeout=7200)
print(out[-3000:])
print("coq build rc=%d in %.0fs" % (rc, secs))
if rc != 0:
    sys.exit(1)
PY
# 3. warm the Go build cache and the extracted models of the claimed checks (they rebuild on demand anyway)
python3 - <<'PY'
import sys, os, re
sys.path.insert(0, "lib")
import vlib
for hid in sorted(os.listdir(os.path.join(vlib.VERIF, "harness"))):
    if hid == "common" or not os.path.isdir(os.path.join(vlib.VERIF, "harness", hid)):
        continue
    try:
        # shims are declared by the check modules; a plain build is enough to warm the cache
        vlib.build_harness(hid)
        print("harness", hid, "ok")
    except Exception as e:
        print("harness", hid, "warm-up skipped:", str(e)[:200])
PY
echo setup done
